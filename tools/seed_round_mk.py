import json,re,subprocess,sys
props={json.loads(l)['id']:json.loads(l) for l in open('/verif/properties.jsonl')}
table=re.findall(r'^\| (C\d\d)-([A-Z]) \| ([^|]*) \|', open('/verif/DESIGN.md').read(), re.M)
tmpl=open('/verif/tools/seed_prompt_template.txt').read()
# cut out property block
head,rest=tmpl.split('---\n',1)
_,tail=rest.split('---\n',1)
for pid in sys.argv[1:]:
    p=props[pid]
    block=f"Property {pid}: {p['title']}\n\nStatement: {p['statement']}\n\nQuantified over: {p['quantifier']['text']}\n"
    used=[d.strip() for (c,w,d) in table if c==pid and d.strip()]
    for c in []: pass
    # notes for E/F seeds
    for w in 'EF':
        try:
            m=json.load(open(f'/verif/seeded/{pid}-{w}/meta.json'))
            used.append(m.get('needs_to_manifest','')[:300].replace('\n',' '))
        except Exception: pass
    t=head.replace('C07',pid)+'---\n'+block+'---\n'+tail.replace('C07',pid)
    t=t.replace('/tmp/mut/','/tmp/mutG/')
    t=t.replace('produce TWO different, independent source changes (call them A and B)','produce ONE source change (call it G)')
    t=t.replace('such that, for each change on its own:','such that:')
    t=t.replace(' Make A and B touch different mechanisms / different clauses of the property if you can.\n','')
    t=t.replace('Procedure for each change:','Procedure:')
    t=re.sub(r'/out/%s/A/'%pid, '/out/%s/G/'%pid, t)
    t=re.sub(r'and the same under /tmp/mutG/out/%s/B/\. '%pid,'',t)
    t=t.replace('for A and B: one line','one line')
    t=t.replace('If you could only produce one valid change, say so honestly; do not','Do not')
    t+="\nPrefer a change that needs a multi-step sequence of operations, state that leaks between calls or objects, an unusual input, or two cooperating sites that each look fine alone. The following ideas were already used by earlier injectors for this property - do something DIFFERENT (another mechanism, another code site, another clause):\n"+''.join(f' - {u}\n' for u in used)
    open(f'/tmp/mutG/{pid}.prompt.txt','w').write(t)
    subprocess.run(['git','-C','/repo','worktree','add','--detach',f'/tmp/mutG/{pid}','HEAD'],capture_output=True)
    subprocess.run(['mkdir','-p',f'/tmp/mutG/out/{pid}/G'])
