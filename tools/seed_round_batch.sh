#!/bin/bash
# batch.sh C07 C14 ... : confirm + detect round G seeds sequentially
cd /verif
for p in "$@"; do
  echo "=== $p-G $(date -u +%H:%M:%S)"
  SEED_SRC=/tmp/mutG/out/$p/G /venv/bin/python tools/confirm_seed.py $p G 2>&1 | tail -3
  git -C /repo checkout -- . 2>/dev/null
done
echo "=== done $(date -u +%H:%M:%S)"
