#!/venv/bin/python
"""Confirm a seeded change produced by a sub-agent and file it under /verif/seeded/<id>/.

usage: confirm_seed.py <Cxx> <A|B> [--check Cyy,...] [--tier quick]
 1. scratch worktree of /repo: apply the patch, run the full test suite (must equal the baseline:
    327 passed, 1 failed), run the demo (must exit 1), undo, run the demo (must exit 0);
 2. copy patch.diff, demo.py, notes.md to /verif/seeded/<Cxx>-<A|B>/ and write meta.json;
 3. apply the patch to /repo, run ./check for the listed properties, undo; record which checks
    report a VIOLATION.
"""
import json
import os
import re
import shutil
import subprocess
import sys

PY = "/venv/bin/python"


def sh(cmd, cwd=None, env=None, timeout=3600):
    return subprocess.run(cmd, cwd=cwd, env=env, capture_output=True, text=True, timeout=timeout)


def main():
    prop, which = sys.argv[1], sys.argv[2]
    checks = [prop]
    tier = "quick"
    for i, a in enumerate(sys.argv):
        if a == "--check":
            checks = sys.argv[i + 1].split(",")
        if a == "--tier":
            tier = sys.argv[i + 1]
    src = os.environ.get("SEED_SRC") or f"/tmp/mut/out/{prop}/{which}"
    sid = f"{prop}-{which}"
    dst = f"/verif/seeded/{sid}"
    meta_path = f"{dst}/meta.json"
    meta = json.load(open(meta_path)) if os.path.exists(meta_path) else {}
    if not meta.get("confirmed"):
        wt = f"/tmp/seedchk-{sid}"
        sh(["git", "-C", "/repo", "worktree", "remove", "--force", wt])
        r = sh(["git", "-C", "/repo", "worktree", "add", "--detach", wt, "HEAD"])
        assert r.returncode == 0, r.stderr
        try:
            env = dict(os.environ, PYTHONPATH=wt, PYTHONHASHSEED="0")
            shutil.copy(f"{src}/demo.py", f"{wt}/demo_seed.py")
            base = sh([PY, "demo_seed.py"], cwd=wt, env=env)
            r = sh(["git", "-C", wt, "apply", f"{src}/patch.diff"])
            assert r.returncode == 0, r.stderr
            t = sh([PY, "-m", "pytest", "-q", "-p", "no:cacheprovider", "-x", "--deselect",
                    "tests/test__package.py::test__last_modified_date"], cwd=wt, env=env)
            tests_line = t.stdout.strip().splitlines()[-1] if t.stdout.strip() else t.stderr[-200:]
            mut = sh([PY, "demo_seed.py"], cwd=wt, env=env)
            meta.update({
                "id": sid, "breaks_property": prop,
                "tests_with_change": tests_line,
                "demo_exit_unchanged": base.returncode, "demo_exit_with_change": mut.returncode,
                "demo_output_with_change": (mut.stdout + mut.stderr)[-600:],
                "confirmed": bool(re.search(r"\b327 passed", tests_line) and "failed" not in tests_line
                                  and base.returncode == 0 and mut.returncode == 1),
                "what_i_ran": "scratch worktree of /repo HEAD: demo (exit 0), git apply patch.diff, full pytest "
                              "(327 passed; the always-failing test__last_modified_date deselected), demo (exit 1)",
            })
        finally:
            sh(["git", "-C", "/repo", "worktree", "remove", "--force", wt])
            shutil.rmtree(wt, ignore_errors=True)
        os.makedirs(dst, exist_ok=True)
        for f in ("patch.diff", "demo.py", "notes.md"):
            if os.path.exists(f"{src}/{f}"):
                shutil.copy(f"{src}/{f}", f"{dst}/{f}")
        notes = open(f"{dst}/notes.md").read() if os.path.exists(f"{dst}/notes.md") else ""
        meta["needs_to_manifest"] = notes[:1500]
    print(sid, "confirmed" if meta.get("confirmed") else "NOT CONFIRMED", meta.get("tests_with_change"),
          meta.get("demo_exit_unchanged"), meta.get("demo_exit_with_change"))
    if meta.get("confirmed") and not os.environ.get("SEED_NO_DETECT"):
        st = sh(["git", "-C", "/repo", "status", "--short"]).stdout.strip()
        assert not st, f"/repo not clean: {st}"
        r = sh(["git", "-C", "/repo", "apply", f"{dst}/patch.diff"])
        assert r.returncode == 0, r.stderr
        det = meta.setdefault("detection", {})
        try:
            for c in checks:
                rr = sh(["./check", c, "--tier", tier], cwd="/verif")
                v = [l for l in rr.stdout.splitlines() if l.startswith("VIOLATION")]
                fi = [l for l in rr.stdout.splitlines() if l.startswith("failing input:")]
                det[c] = {"tier": tier, "exit": rr.returncode, "violation_line": v[0] if v else None,
                          "failing_input": fi[0][:400] if fi else None}
                print("  check", c, "exit", rr.returncode, (v[0] if v else "no violation")[:160])
        finally:
            sh(["git", "-C", "/repo", "checkout", "--", "."])
            sh([PY, "/verif/harness/gen_tables.py"])
    json.dump(meta, open(meta_path, "w"), indent=1)


if __name__ == "__main__":
    main()
