#!/bin/sh
# usage: try_patch.sh <patch.diff> <Cxx> [tier]  -- apply to /repo, run the check, undo
P=$1; ID=$2; T=${3:-quick}
git -C /repo apply "$P" || exit 9
(cd /verif && ./check $ID --tier $T 2>&1 | tail -${LINES_OUT:-12}); rc=$?
git -C /repo checkout -- .
(cd /verif && python3 /verif/harness/gen_tables.py >/dev/null 2>&1)
exit $rc
