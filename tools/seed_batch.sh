#!/bin/bash
# tools/seed_batch.sh C11-C C11-D ... : confirm + file + run the owning check for each seed, sequentially
cd /verif
for s in "$@"; do
  p=${s%-*}; w=${s#*-}
  if [ ! -f /tmp/mut/out/$p/$w/patch.diff ]; then echo "$s: no patch"; continue; fi
  echo "=== $s $(date -u +%H:%M:%S)"
  /venv/bin/python tools/confirm_seed.py $p $w 2>&1 | tail -3
  git -C /repo checkout -- . 2>/dev/null
done
echo "=== done $(date -u +%H:%M:%S)"
