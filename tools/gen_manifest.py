#!/venv/bin/python
"""Regenerate MANIFEST.json from the table below (keeps it valid and in sync)."""
import json, os
V = "/verif"
ids = [json.loads(l)["id"] for l in open(f"{V}/properties.jsonl")]
CLAIMS = json.load(open(f"{V}/tools/claims.json"))
checks, na = [], []
for i in ids:
    c = CLAIMS.get(i)
    if not c or not os.path.exists(f"{V}/harness/props/{i}.py"):
        na.append({"property_id": i, "reason": (c or {}).get("na_reason", "check not built yet (work in progress; see DESIGN.md section 6)")})
        continue
    checks.append({
        "property_id": i,
        "quick_cmd": f"./check {i} --tier quick",
        "thorough_cmd": f"./check {i} --tier thorough",
        "evidence_file": f"/verif/evidence/{i}.json",
        "replay_cmd_template": f"./check {i} --replay {{path}}",
        "engine": "coq-proof+correspondence",
        "level_claimed": {"category": c["category"], "text": c["text"], "design_ref": c.get("design_ref", "DESIGN.md section 6")},
        "level_note": c["note"],
        "technique": c["technique"],
    })
m = {"version": 1,
     "setup_cmd": "cd /verif && ./setup.sh",
     "hooks": {"guard": "CISCO_ACL_VERIF",
               "enable": "no source hooks are needed; the harness sets CISCO_ACL_VERIF=1 for uniformity and imports /repo through sys.path",
               "baseline_off_cmd": "cd /repo && /venv/bin/python -m pytest -ra -q -p no:cacheprovider --timeout=900 --continue-on-collection-errors",
               "source_commits": [], "add_only": True},
     "engines": [{"name": "coq-proof+correspondence", "path": "/verif/check",
                  "serves_properties": [c["property_id"] for c in checks],
                  "kind_free_text": "Coq 8.16.1 theorems over a Gallina model of cisco_acl (props/Cxx.v); the model is tied to /repo by a generated Tables.v (ast translator, theorems re-checked on every run) and by a correspondence check evaluated with vm_compute inside coqc"}],
     "checks": checks,
     "notes": "see DESIGN.md; known findings in known_findings.json",
     "not_applicable": na}
json.dump(m, open(f"{V}/MANIFEST.json", "w"), indent=1)
print(len(checks), "checks,", len(na), "not claimed")
