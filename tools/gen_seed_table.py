#!/venv/bin/python
"""Regenerate the table 'which checks catch which seeded changes' inside DESIGN.md (between the SEEDS markers)
from /verif/seeded/*/meta.json."""
import glob, json, os, re
rows = []
for d in sorted(glob.glob("/verif/seeded/*/")):
    m = os.path.join(d, "meta.json")
    if not os.path.exists(m):
        continue
    j = json.load(open(m))
    notes = j.get("needs_to_manifest", "")
    title = ""
    for line in notes.splitlines():
        if line.startswith("#"):
            title = line.lstrip("# ").strip()
            break
    title = re.sub(r"^C\d\d\s*/\s*[A-Z]\s*[-–—:]*\s*", "", title)[:110]
    det = j.get("detection", {})
    caught = []
    for c, v in sorted(det.items()):
        tail = " (no input)" if "no-failing-input-found" in (v.get("violation_line") or "") else ""
        caught.append(f"{c}{tail}" if v.get("exit") == 1 else f"~~{c}~~ missed")
    rows.append(f"| {j.get('id', os.path.basename(d[:-1]))} | {title} | {'yes' if j.get('confirmed') else 'NO'} | {', '.join(caught) or '-'} |")
table = "| seed | change | confirmed (tests pass, demo fails) | detected by |\n|---|---|---|---|\n" + "\n".join(rows) + "\n"
p = "/verif/DESIGN.md"
s = open(p).read()
s = re.sub(r"(<!-- SEEDS:BEGIN -->\n).*?(<!-- SEEDS:END -->)", lambda m_: m_.group(1) + table + m_.group(2), s, flags=re.S)
open(p, "w").write(s)
print(len(rows), "seeds")
