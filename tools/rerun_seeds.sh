#!/bin/bash
# tools/rerun_seeds.sh C02-A C17-B ... : apply each kept seed to /repo, run the owning check (quick), undo;
# one line per seed in work/seeds_rerun.log.  Never run other checks while this runs (it mutates /repo).
cd /verif
for s in "$@"; do
  p=${s%-*}
  git -C /repo apply /verif/seeded/$s/patch.diff || { echo "$s apply-failed" >> work/seeds_rerun.log; continue; }
  out=$(./check $p --tier quick 2>&1); rc=$?
  git -C /repo checkout -- .
  v=$(echo "$out" | grep -m1 '^VIOLATION' | cut -c1-120)
  echo "$s exit=$rc $v" >> work/seeds_rerun.log
done
python3 /verif/harness/gen_tables.py >/dev/null 2>&1
echo "done $(date -u +%H:%M:%S)" >> work/seeds_rerun.log
