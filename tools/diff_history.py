#!/venv/bin/python
"""tools/diff_history.py <disagreements.json> [index]: first differing step of a history (debug aid)."""
import json, os, subprocess, sys, tempfile
sys.path.insert(0, "/verif")
from harness import core
core.ensure_env()
from harness.kernels import ops
ca = core.impl_module()
d = json.load(open(sys.argv[1]))
i = int(sys.argv[2]) if len(sys.argv) > 2 else 0
spec = d[i]["input"] if "input" in d[i] else d[i]
trace, _ = ops.run_impl(ca, spec)
print("ops:", spec["ops"])
with tempfile.TemporaryDirectory() as td:
    p = os.path.join(td, "d.v")
    open(p, "w").write("From V Require Import base.Prelude base.Strs " + " ".join(ops.IMPORTS) + ".\nLocal Open Scope N_scope.\n"
                       f"Eval vm_compute in first_diff ({ops.model_expr(spec)}) ({core.to_val(trace)}).\n")
    r = subprocess.run(["coqc", "-Q", "/verif/coq", "V", p], capture_output=True, text=True)
    print(r.stdout[-6000:], r.stderr[-2000:])
