(** C06: the port and protocol fields of an ACE built by the reader satisfy the hypotheses of
    the whole-ACE fixed point (tokens, address-freeness, text round trip). *)
From V Require Import base.Prelude base.Strs gen.Tables model.Cfg model.Names model.Wildcard
  model.Addr model.Ports model.Ace model.Lex model.AddrText model.AceText
  proofs.NamesProofs proofs.PortsProofs proofs.TextProofs proofs.SplitterProofs proofs.AceFixProofs
  proofs.WildProofs proofs.AddrProofs proofs.AddrObjProofs.
Local Open Scope N_scope.

(** * decimal numbers are tokens and no address starts *)
Lemma dec_digits n : all_chars is_digit (dec n) = true /\ dec n <> ""%string.
Proof.
  pose proof (undec_dec n) as U. assert (I : is_digits (dec n) = true) by (unfold is_digits; now rewrite U).
  destruct (is_digits_chars _ I). auto.
Qed.

Lemma digits_token s : all_chars is_digit s = true -> s <> ""%string -> token s.
Proof.
  intros D NE. split; [|exact NE]. apply (all_chars_weaken is_digit); [|exact D].
  intros ch Hc. assert (Hd : dd ch = true) by (unfold dd; now rewrite Hc). unfold nws. now rewrite (dd_not_ws ch Hd).
Qed.

Lemma dec_token n : token (dec n).
Proof. destruct (dec_digits n). now apply digits_token. Qed.

Lemma digits_af s : all_chars is_digit s = true -> s <> ""%string -> af s.
Proof.
  intros D NE. unfold af, address_free.
  assert (F : first_is_digit s = true).
  { destruct s as [|c r]; [congruence|]. cbn in *. now apply andb_prop in D as [D _]. }
  destruct (digit_first_not_kw s F) as (E0 & _ & E2 & E3 & E4). rewrite E0, E2, E3, E4. cbn [negb andb].
  unfold octets_prefix. rewrite (take_digits_all s D). cbn [fst snd]. destruct s; reflexivity.
Qed.

Lemma dec_af n : af (dec n).
Proof. destruct (dec_digits n). now apply digits_af. Qed.

(** * names of the port tables *)
Definition tokenb (s : string) : bool := all_chars nws s && str_nonempty s.
Lemma tokenb_token s : tokenb s = true -> token s.
Proof. unfold tokenb. intros H. apply andb_prop in H as [H1 H2]. split; [exact H1|]. destruct s; [discriminate|congruence]. Qed.

Lemma table_names_ok pr pl v15 :
  forallb (fun e => tokenb (fst e) && address_free (fst e)) (names_table pr pl v15) = true.
Proof. destruct pr, pl, v15; vm_compute; reflexivity. Qed.

Lemma swap_In (l : list (string * N)) : forall k v, In (k, v) (swap l) -> In (v, k) l.
Proof.
  unfold swap.
  assert (G : forall (l0 : list (string * N)) (acc : list (N * string)) (k : N) (v : string),
             In (k, v) (fold_left (fun acc e => if has_keyN (snd e) acc then acc else acc ++ [(snd e, fst e)]) l0 acc)
             -> In (k, v) acc \/ In (v, k) l0).
  { induction l0 as [|[nm n] t IH]; intros acc k v H; cbn [fold_left] in H; [now left|].
    apply IH in H as [H|H]; [|right; now right].
    cbn [fst snd] in H. destruct (has_keyN n acc); [now left|].
    apply in_app_or in H as [H|[E|[]]]; [now left|]. injection E as <- <-. right. now left. }
  intros k v H. destruct (G l [] k v H) as [[]|H']. exact H'.
Qed.

Lemma assoc_N_In {A} k (d : list (N * A)) v : assoc_N k d = Some v -> In (k, v) d.
Proof.
  induction d as [|[k' v'] t IH]; cbn [assoc_N]; [discriminate|].
  destruct (N.eqb k k') eqn:E; [apply N.eqb_eq in E; subst; intros [= <-]; now left|]. intros H. right. now apply IH.
Qed.

Lemma port_item_ok nr pr pl v15 n :
  token (render_port_item nr (names_table pr pl v15) n) /\ af (render_port_item nr (names_table pr pl v15) n).
Proof.
  unfold render_port_item. destruct nr; [split; [apply dec_token|apply dec_af]|].
  destruct (assoc_N n (swap (names_table pr pl v15))) as [nm|] eqn:E; [|split; [apply dec_token|apply dec_af]].
  destruct (str_nonempty nm); [|split; [apply dec_token|apply dec_af]].
  apply assoc_N_In, swap_In in E. pose proof (table_names_ok pr pl v15) as T. rewrite forallb_forall in T.
  specialize (T _ E). cbn [fst] in T. apply andb_prop in T as [T1 T2]. split; [now apply tokenb_token|exact T2].
Qed.

Lemma pop_name_ok o : token (pop_name o) /\ af (pop_name o).
Proof. destruct o; (split; [split; [reflexivity|discriminate]|vm_compute; reflexivity]). Qed.

(** the rendered port tokens are well-formed tokens and no address starts *)
Theorem render_port_toks nr c p : Forall token (render_port nr c p) /\ Forall af (render_port nr c p).
Proof.
  unfold render_port. destruct (p_op p) as [op|]; [|split; constructor].
  destruct (p_items p) as [|x xs]; [split; constructor|].
  destruct c as [[[pr pl] v15]|]; [|split; constructor].
  destruct (pop_name_ok op) as [T A]. split; (constructor; [assumption|]).
  - apply Forall_forall. intros s Hs. apply in_map_iff in Hs as (n & <- & _). apply port_item_ok.
  - apply Forall_forall. intros s Hs. apply in_map_iff in Hs as (n & <- & _). apply port_item_ok.
Qed.

(** * a port built by the reader is a fixed point of render / parse *)
Lemma parse_port_is_nums pl c o items p :
  parse_port pl c (o :: items) = Ok p -> exists op xs, parse_nums pl c op xs = Ok p.
Proof.
  intros H. unfold parse_port in H.
  destruct (pop_of_string o) as [op|] eqn:EO; [|discriminate].
  destruct items as [|i0 its]; [discriminate|].
  destruct (items_to_ints (ctx_table c) (i0 :: its)) as [ints| | | |] eqn:EI; cbn [bind] in H; try discriminate.
  assert (NE : ints <> []).
  { apply items_to_ints_length in EI. destruct ints; [cbn in EI; discriminate|discriminate]. }
  exists op, ints. rewrite (parse_nums_eq pl c op ints NE).
  destruct op, (ctx_platform_single pl); cbn [valid_count negb orb andb] in *;
    try exact H;
    match type of H with context [Nat.eqb ?n ?k] => destruct (Nat.eqb n k) end; try exact H; try discriminate.
Qed.

Theorem reader_port_fixpoint pl pr v15 nr toks p :
  parse_port pl (Some (pr, pl, v15)) toks = Ok p ->
  parse_port pl (Some (pr, pl, v15)) (render_port nr (Some (pr, pl, v15)) p) = Ok p.
Proof.
  intros H. destruct toks as [|o items].
  - injection H as <-. reflexivity.
  - destruct (parse_port_is_nums _ _ _ _ _ H) as (op & xs & HN). now apply (port_text_fixpoint pr pl v15 nr op xs).
Qed.

(** * the text of a standard-typed address is a canonical token list *)
Lemma no_group_names A : (forall kw name, A = [kw; name] -> ~ (kw = "object-group" \/ kw = "addrgroup")) -> names_ok A.
Proof. intros H kw name E K. exfalso. exact (H kw name E K). Qed.

Lemma render_addr_canon pl limit a m w :
  (pl = Ios \/ pl = Nxos) -> a < 2 ^ 32 -> m < 2 ^ 32 -> new_wild limit a m = Ok w ->
  exists A, split_ws (render_addr pl (ASingle (std_type pl w) w)) = A
            /\ addr_toks A (render_addr pl (ASingle (std_type pl w) w)) /\ names_ok A.
Proof.
  intros Hpl Ha Hm HW. pose proof (new_wild_fields _ _ _ _ HW) as EW.
  set (p := create_prefix a m) in *.
  assert (IP : w_ipnet w = match ncwb m with [] => Some (p, prefixlen m) | _ => None end).
  { rewrite EW. cbn [w_ipnet]. now apply create_ipnet_spec. }
  assert (WP : w_prefix w = p) by (now rewrite EW). assert (WM : w_mask w = m) by (now rewrite EW).
  assert (Thost : token "host") by (split; [reflexivity|discriminate]).
  assert (KW : forall x, render_ip x <> "object-group"%string /\ render_ip x <> "addrgroup"%string).
  { intros x. pose proof (render_ip_first x) as F. split; intro C; rewrite C in F; discriminate. }
  assert (Wild : exists A, split_ws (render_ip p ++ " " ++ render_ip m) = A
                   /\ addr_toks A (render_ip p ++ " " ++ render_ip m) /\ names_ok A).
  { exists [render_ip p; render_ip m]. split; [apply split_ws_two; apply render_ip_token|]. split; [apply AT_wild|].
    apply no_group_names. intros kw name E [K|K]; injection E as E1 _; destruct (KW p) as [K1 K2]; congruence. }
  unfold std_type. rewrite IP. destruct (ncwb m) as [|b0 bs] eqn:NC.
  - cbn [is_host_net is_any_net]. destruct (Nat.eqb (prefixlen m) 32) eqn:E32.
    + cbn [render_addr]. rewrite WP. exists ["host"; render_ip p]. split.
      * change ("host " ++ render_ip p)%string with ("host" ++ " " ++ render_ip p)%string.
        apply split_ws_two; [exact Thost|apply render_ip_token].
      * split; [apply AT_host|]. apply no_group_names. intros kw name E [K|K]; injection E as E1 _; subst kw; discriminate.
    + destruct (N.eqb p 0 && Nat.eqb (prefixlen m) 0) eqn:EA.
      * cbn [render_addr]. exists ["any"]. split; [reflexivity|]. split; [apply AT_any|].
        apply no_group_names. intros kw name E. discriminate.
      * destruct Hpl as [-> | ->]; cbn [render_addr].
        -- rewrite WP, WM. exact Wild.
        -- rewrite IP. unfold net_prefix_text. cbn [fst snd].
           exists [(render_ip p ++ "/" ++ dec (N.of_nat (prefixlen m)))%string]. split.
           ++ apply split_ws_one. split.
              ** rewrite !all_chars_app. destruct (render_ip_token p) as [R _]. rewrite R. cbn [all_chars andb].
                 change (nws "/") with true. cbn [andb]. apply (dec_token (N.of_nat (prefixlen m))).
              ** pose proof (render_first_digit_app p ("/" ++ dec (N.of_nat (prefixlen m)))) as F.
                 destruct (render_ip p ++ "/" ++ dec (N.of_nat (prefixlen m)))%string; [discriminate|congruence].
           ++ split; [apply AT_prefix|]. apply no_group_names. intros kw name E. discriminate.
  - cbn [is_host_net is_any_net].
    assert (RT : render_addr pl (ASingle TWildcard w) = (render_ip p ++ " " ++ render_ip m)%string).
    { cbn [render_addr]. now rewrite WP, WM. }
    destruct pl; rewrite RT; exact Wild.
Qed.

(** * the protocol token *)
Lemma proto_token_ok pl nr hp :
  forallb (fun n => tokenb (render_proto pl nr hp n)) (seqN 0 256) = true.
Proof. destruct pl, nr, hp; vm_compute; reflexivity. Qed.

Lemma seqN_In_256 n : n <= 255 -> In n (seqN 0 256).
Proof.
  intros H. apply memN_In. assert (E : n = N.of_nat (N.to_nat n)) by (now rewrite N2Nat.id).
  assert (Hn : (N.to_nat n < 256)%nat) by lia. rewrite E. generalize (N.to_nat n) Hn. clear.
  intros k Hk. do 256 (destruct k as [|k]; [vm_compute; reflexivity|]). lia.
Qed.

Lemma proto_token pl nr hp n : n <= 255 -> token (render_proto pl nr hp n).
Proof.
  intros H. pose proof (proto_token_ok pl nr hp) as F. rewrite forallb_forall in F.
  apply tokenb_token, F, seqN_In_256, H.
Qed.

(** with ports present the protocol is tcp or udp, never "ip" *)
Lemma proto_ports_not_ip pl v15 nr n :
  proto_ctx pl v15 n <> None -> String.eqb (render_proto pl nr true n) "ip" = false.
Proof.
  unfold proto_ctx, render_proto. rewrite andb_false_r.
  destruct (String.eqb (proto_name pl n) "tcp") eqn:E1.
  - apply String.eqb_eq in E1. rewrite E1. reflexivity.
  - destruct (String.eqb (proto_name pl n) "udp") eqn:E2; [|congruence].
    apply String.eqb_eq in E2. rewrite E2. reflexivity.
Qed.

Lemma reader_single pl limit sp a : sp_bounds sp -> addr_of_spelling pl limit sp = Ok a -> exists ty w, a = ASingle ty w.
Proof.
  intros HB H. destruct sp as [|x|x len|x m|nm its]; cbn [sp_bounds] in HB; try contradiction; unfold addr_of_spelling in H.
  - destruct (new_wild limit 0 ALL_ONES); cbn [bind] in H; try discriminate. injection H as <-. eauto.
  - destruct (new_wild limit x 0); cbn [bind] in H; try discriminate. injection H as <-. eauto.
  - destruct (Nat.ltb W len); [discriminate|].
    destruct (new_wild limit (N.land x (netmask len)) (hostmask len)); cbn [bind] in H; try discriminate. injection H as <-. eauto.
  - destruct (new_wild limit x m); cbn [bind] in H; try discriminate. injection H as <-. eauto.
Qed.

(** * THE THEOREM: an extended ACE whose fields were built by the readers is read back unchanged *)
Section Parsed.
  Variable c : cfg.
  Let pl := plat c.
  Let limit := Z.of_nat (max_ncwb c).
  Hypothesis Hpl : pl = Ios \/ pl = Nxos.

  Variables (permit : bool) (n sq : N) (ssp dsp : spelling) (s d : addr) (toks1 toks2 : list string)
            (p1 p2 : port) (opts flags logs : list string).
  Let pc := proto_ctx pl (is15 c) n.
  Let t := mkTace true sq (mkAce permit n s d p1 p2 flags logs) opts.

  Hypothesis Hn : n <= 255.
  Hypothesis Hs : sp_bounds ssp /\ ~ is_n1 pl ssp /\ addr_of_spelling pl limit ssp = Ok s.
  Hypothesis Hd : sp_bounds dsp /\ ~ is_n1 pl dsp /\ addr_of_spelling pl limit dsp = Ok d.
  (** ports come from the port reader; without tcp/udp there are none (they would not be rendered) *)
  Hypothesis Hp1 : parse_port pl pc toks1 = Ok p1 /\ (pc = None -> p1 = empty_port).
  Hypothesis Hp2 : parse_port pl pc toks2 = Ok p2 /\ (pc = None -> p2 = empty_port).
  (** option tokens: well-formed, no address starts, accepted by the option reader, and separable
      from the destination port *)
  Hypothesis Ho : Forall token opts /\ Forall af opts /\ parse_option opts = Ok (flags, logs)
                  /\ split_dstport_option (render_port (port_nr c) pc p2 ++ opts) = (render_port (port_nr c) pc p2, opts).

  Lemma port_fixed toks p : parse_port pl pc toks = Ok p -> (pc = None -> p = empty_port) ->
    parse_port pl pc (render_port (port_nr c) pc p) = Ok p.
  Proof.
    intros HP HE. destruct pc as [[[pr pl0] v15]|] eqn:EC.
    - assert (pl0 = pl).
      { unfold pc, proto_ctx in EC. destruct (String.eqb _ "tcp"); [now injection EC|].
        destruct (String.eqb _ "udp"); [now injection EC|discriminate]. }
      subst pl0. now apply (reader_port_fixpoint pl pr v15 (port_nr c) toks p).
    - rewrite (HE eq_refl). reflexivity.
  Qed.

  Theorem parsed_ace_fixpoint : parse_ace_text c (render_ace c t) = Ok t.
  Proof.
    destruct Hs as (B1 & N1 & A1). destruct Hd as (B2 & N2 & A2).
    destruct Hp1 as (P1 & E1). destruct Hp2 as (P2 & E2). destruct Ho as (O1 & O2 & O3 & O4).
    destruct (reader_single pl limit ssp s B1 A1) as (ty1 & w1 & ->).
    destruct (reader_single pl limit dsp d B2 A2) as (ty2 & w2 & ->).
    destruct (reader_std pl limit ssp ty1 w1 Hpl B1 N1 A1) as (-> & a1 & m1 & Ha1 & Hm1 & NW1).
    destruct (reader_std pl limit dsp ty2 w2 Hpl B2 N2 A2) as (-> & a2 & m2 & Ha2 & Hm2 & NW2).
    destruct (render_addr_canon pl limit a1 m1 w1 Hpl Ha1 Hm1 NW1) as (SRC & S1 & S2 & S3).
    destruct (render_addr_canon pl limit a2 m2 w2 Hpl Ha2 Hm2 NW2) as (DST & D1 & D2 & _).
    apply (ace_fixpoint c t SRC DST eq_refl). unfold fields_fixed. cbn [t_ace t a_src a_dst a_proto a_sport a_dport a_flags a_logs t_option_line].
    fold pl limit pc.
    split; [auto|]. split; [auto|].
    split; [now apply (addr_obj_fixpoint pl limit a1 m1 w1)|].
    split; [now apply (addr_obj_fixpoint pl limit a2 m2 w2)|].
    split; [now apply proto_token|]. split; [now apply proto_roundtrip|].
    split.
    { (* "ip" and ports exclude each other *)
      assert (NE : forall p, render_port (port_nr c) pc p <> [] -> pc <> None).
      { intros p HNE C. apply HNE. unfold render_port. rewrite C. destruct (p_op p); [destruct (p_items p)|]; reflexivity. }
      destruct (render_port (port_nr c) pc p1) as [|x1 r1] eqn:R1.
      - destruct (render_port (port_nr c) pc p2) as [|x2 r2] eqn:R2; [now rewrite andb_false_r|].
        apply andb_false_iff. left. apply (proto_ports_not_ip pl (is15 c)). apply (NE p2). rewrite R2. discriminate.
      - apply andb_false_iff. left. apply (proto_ports_not_ip pl (is15 c)). apply (NE p1). rewrite R1. discriminate. }
    split; [destruct (render_port_toks (port_nr c) pc p1); split; auto; split; auto; now apply (port_fixed toks1)|].
    split; [destruct (render_port_toks (port_nr c) pc p2); split; auto; split; auto; now apply (port_fixed toks2)|].
    auto.
  Qed.
End Parsed.
