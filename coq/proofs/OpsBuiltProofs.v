(** C17 without certificates: the class of flat Acls of reader-built entries is closed under every
    meaning-preserving operation of the model, every such operation succeeds on it (resequence:
    for valid arguments), and keeps the decision of every packet - hence for histories of any
    length. *)
From V Require Import base.Prelude base.Strs gen.Tables model.Cfg model.Names model.Wildcard
  model.Addr model.Ports model.Ace model.Lex model.AddrText model.AceText model.AclText
  model.Shading model.SplitPorts model.Platform model.Ops spec.AceSem spec.AclSem
  proofs.SplitterProofs proofs.AddrObjProofs proofs.ParsedAceProofs proofs.GroupAceProofs proofs.AclFixProofs
  proofs.DeleteShadowProofs proofs.HistoryProofs proofs.ConvProofs proofs.ConvSplitProofs proofs.PlatformOpProofs.
Local Open Scope N_scope.

(** C17's class: no attached group members (an entry rebuilt from its text has none) *)
Definition leaf_ok (c : cfg) (l : leaf) : Prop := item_src false c (leaf_aitem l).

Definition acl_built (a : acl) : Prop :=
  (plat (o_cfg a) = Ios \/ plat (o_cfg a) = Nxos) /\ o_gby a = ""%string
  /\ exists ls, o_tops a = map TLeaf ls /\ Forall (leaf_ok (o_cfg a)) ls.

(** * the class depends on platform, version and limit only *)
Definition cfg_same (c c' : cfg) : Prop := plat c = plat c' /\ is15 c = is15 c' /\ max_ncwb c = max_ncwb c'.

Lemma src_built_cfg c c' t : cfg_same c c' -> src_built false c t -> src_built false c' t.
Proof.
  intros (E1 & E2 & E3) (permit & n & sq & s & d & toks1 & toks2 & p1 & p2 & opts & flags & logs & H).
  exists permit, n, sq, s, d, toks1, toks2, p1, p2, opts, flags, logs.
  rewrite <- E1, <- E2, <- E3. exact H.
Qed.

Lemma leaf_ok_cfg c c' l : cfg_same c c' -> leaf_ok c l -> leaf_ok c' l.
Proof. unfold leaf_ok. destruct l; cbn [leaf_aitem item_src]; [apply src_built_cfg|auto]. Qed.

Lemma parse_cfg c c' line : cfg_same c c' -> parse_ace_text c' line = parse_ace_text c line.
Proof. intros (E1 & E2 & E3). unfold parse_ace_text. rewrite E1, E2, E3. reflexivity. Qed.

(** * an entry of the class is a fixed point of its own text *)
Lemma addr_src_built pl limit a : addr_src false pl limit a -> addr_built pl limit a.
Proof.
  intros [H|(name & items & -> & HN & HK & HM)]; [now left|].
  right. exists name. rewrite (HM eq_refl). auto.
Qed.

Lemma src_built_fixpoint c t : (plat c = Ios \/ plat c = Nxos) -> src_built false c t -> parse_ace_text c (render_ace c t) = Ok t.
Proof.
  intros Hpl (permit & n & sq & s & d & toks1 & toks2 & p1 & p2 & opts & flags & logs
              & -> & Hn & Hs & Hd & (P1 & E1 & _) & (P2 & E2 & _) & (O1 & O2 & O3 & O4)).
  apply (parsed_ace_fixpoint_groups c Hpl permit n sq s d toks1 toks2 p1 p2 opts flags logs Hn
           (addr_src_built _ _ _ Hs) (addr_src_built _ _ _ Hd) (conj P1 E1) (conj P2 E2)).
  split; [exact O1|]. split; [exact O2|]. split; [exact O3|]. now apply opt_sep_split.
Qed.

Lemma src_item_built c i : item_src false c i -> AclFixProofs.item_built c i.
Proof.
  destruct i as [t|sq text]; cbn [item_src AclFixProofs.item_built]; [|auto].
  intros (permit & n & sq & s & d & toks1 & toks2 & p1 & p2 & opts & flags & logs
          & -> & Hn & Hs & Hd & (P1 & E1 & _) & (P2 & E2 & _) & (O1 & O2 & O3 & O4)).
  exists permit, n, sq, s, d, toks1, toks2, p1, p2, opts, flags, logs.
  split; [reflexivity|]. split; [exact Hn|].
  split; [now apply addr_src_built|]. split; [now apply addr_src_built|]. split; [auto|]. split; [auto|].
  split; [exact O1|]. split; [exact O2|]. split; [exact O3|]. now apply opt_sep_split.
Qed.

(** * re-initialisation (port_nr, protocol_nr, type, import, copy) *)
Lemma rebuild_leaf_ok c c' l : (plat c = Ios \/ plat c = Nxos) -> cfg_same c c' -> leaf_ok c l -> rebuild_leaf c c' l = Ok l.
Proof.
  intros Hpl CS H. destruct l as [id nt t|id nt sq tx]; cbn [rebuild_leaf]; [|reflexivity].
  rewrite (parse_cfg c c' _ CS), (src_built_fixpoint c t Hpl H). reflexivity.
Qed.

Lemma rebuild_tops_ok c c' : (plat c = Ios \/ plat c = Nxos) -> cfg_same c c' ->
  forall ls, Forall (leaf_ok c) ls -> map_res (rebuild_top c c') (map TLeaf ls) = Ok (map TLeaf ls).
Proof.
  intros Hpl CS. induction 1 as [|l ls Hl _ IH]; [reflexivity|].
  cbn [map SplitPorts.map_res rebuild_top]. rewrite (rebuild_leaf_ok c c' l Hpl CS Hl). cbn [bind]. rewrite IH. reflexivity.
Qed.

Lemma reinit_built c' a : acl_built a -> cfg_same (o_cfg a) c' ->
  exists ls, o_tops a = map TLeaf ls /\ Forall (leaf_ok c') ls
             /\ reinit c' a = Ok (mkAcl c' (o_name a) ""%string (o_id a) (o_note a) (map TLeaf ls)).
Proof.
  intros (Hpl & G & ls & T & F) CS. exists ls. split; [exact T|].
  split; [eapply Forall_impl; [|exact F]; intros l; now apply leaf_ok_cfg|].
  unfold reinit. rewrite T, (rebuild_tops_ok (o_cfg a) c' Hpl CS ls F). cbn [bind]. rewrite G. reflexivity.
Qed.

Lemma built_intro c name id nt ls : (plat c = Ios \/ plat c = Nxos) -> Forall (leaf_ok c) ls ->
  acl_built (mkAcl c name ""%string id nt (map TLeaf ls)).
Proof. intros Hpl F. split; [exact Hpl|]. split; [reflexivity|]. exists ls. split; [reflexivity|exact F]. Qed.

Lemma decide_tops a a' ls : o_tops a = map TLeaf ls -> o_tops a' = map TLeaf ls -> forall k, acl_decide a' k = acl_decide a k.
Proof. intros T T' k. unfold acl_decide, den_items. now rewrite T, T'. Qed.

Lemma cfg_same_refl c : cfg_same c c. Proof. repeat split. Qed.

Lemma plat_same c c' : cfg_same c c' -> (plat c = Ios \/ plat c = Nxos) -> (plat c' = Ios \/ plat c' = Nxos).
Proof. intros (E & _). now rewrite <- E. Qed.

Lemma reinit_step c' a a' : acl_built a -> cfg_same (o_cfg a) c' -> reinit c' a = Ok a' ->
  acl_built a' /\ forall k, acl_decide a' k = acl_decide a k.
Proof.
  intros B CS H. destruct (reinit_built c' a B CS) as (ls & T & F & E). rewrite E in H. injection H as <-.
  split; [apply built_intro; [exact (plat_same _ _ CS (proj1 B))|exact F]|].
  intros k. unfold acl_decide, den_items. cbn [o_tops]. now rewrite T.
Qed.

Lemma reinit_progress c' a : acl_built a -> cfg_same (o_cfg a) c' -> exists a', reinit c' a = Ok a'.
Proof. intros B CS. destruct (reinit_built c' a B CS) as (ls & _ & _ & E). eauto. Qed.

(** * copy *)
Lemma fresh_aitem l : leaf_aitem (fresh l) = leaf_aitem l.
Proof. destruct l; reflexivity. Qed.

Lemma fresh_tops ls : map fresh_top (map TLeaf ls) = map TLeaf (map fresh ls).
Proof. rewrite !map_map. reflexivity. Qed.

Lemma leaf_item_fresh l : leaf_item (fresh l) = leaf_item l.
Proof. destruct l; reflexivity. Qed.

(** * type *)
Lemma type_ext_eq a : acl_built a -> op_type_ext a = reinit (o_cfg a) a.
Proof.
  intros (Hpl & G & ls & T & F). unfold op_type_ext.
  rewrite T, (rebuild_tops_ok (o_cfg a) (o_cfg a) Hpl (cfg_same_refl _) ls F). cbn [bind].
  unfold reinit, with_tops. cbn [o_cfg o_tops o_name o_gby o_id o_note]. rewrite T. reflexivity.
Qed.

(** * resequence *)
Lemma set_seq_ok c s l : leaf_ok c l -> leaf_ok c (set_leaf_seq s l).
Proof.
  unfold leaf_ok. destruct l as [id nt t|id nt sq tx]; cbn [set_leaf_seq leaf_aitem item_src]; [|auto].
  intros (permit & n & sq & s0 & d & toks1 & toks2 & p1 & p2 & opts & flags & logs & -> & H).
  cbn [t_type_ext t_ace t_option_line]. exists permit, n, s, s0, d, toks1, toks2, p1, p2, opts, flags, logs.
  split; [reflexivity|exact H].
Qed.

Lemma reseq_tops_leaf s step l rest :
  reseq_tops s step (TLeaf l :: rest) =
  match rest with
  | [] => Ok (s, [TLeaf (set_leaf_seq s l)])
  | _ => do q <- reseq_tops (s + step) step rest; Ok (fst q, TLeaf (set_leaf_seq s l) :: snd q)
  end.
Proof. destruct rest; reflexivity. Qed.

Lemma reseq_flat c : forall ls s step r, Forall (leaf_ok c) ls -> reseq_tops s step (map TLeaf ls) = Ok r ->
  exists ls', snd r = map TLeaf ls' /\ Forall (leaf_ok c) ls'.
Proof.
  induction ls as [|l ls IH]; intros s step r F H.
  - cbn in H. injection H as <-. exists []. split; [reflexivity|constructor].
  - apply Forall_cons_iff in F as [Fl F]. cbn [map] in H. rewrite reseq_tops_leaf in H.
    destruct ls as [|l2 ls2].
    + cbn [map] in H. injection H as <-. exists [set_leaf_seq s l]. split; [reflexivity|].
      constructor; [now apply set_seq_ok|constructor].
    + cbn [map] in H. change (TLeaf l2 :: map TLeaf ls2) with (map TLeaf (l2 :: ls2)) in H.
      destruct (reseq_tops (s + step) step (map TLeaf (l2 :: ls2))) as [q| | | |] eqn:Q; cbn [bind] in H; try discriminate.
      injection H as <-. cbn [snd].
      destruct (IH _ _ q F Q) as (ls' & E' & F'). exists (set_leaf_seq s l :: ls'). split; [cbn [map]; now rewrite E'|].
      constructor; [now apply set_seq_ok|exact F'].
Qed.

(** * ungroup_ports *)
Lemma tgt_src_same c t : tgt_built false c (plat c) t -> src_built false c t.
Proof. intros H. exact H. Qed.

Lemma ungroup_ports_built a : acl_built a ->
  exists a', op_ungroup_ports a = Ok a' /\ acl_built a' /\ forall k, acl_decide a' k = acl_decide a k.
Proof.
  intros (Hpl & G & ls & T & F).
  assert (FS : Forall (item_src false (o_cfg a)) (map leaf_aitem ls)).
  { apply Forall_forall. intros i Hi. apply in_map_iff in Hi as (l & <- & Hl). rewrite Forall_forall in F. now apply F. }
  destruct (split_items_tgt false (o_cfg a) (plat (o_cfg a)) Hpl Hpl _ FS) as (items1 & E1 & B1 & D1).
  destruct (split_leaves_sim (o_cfg a) ls items1 E1) as (ls1 & S1 & M1).
  unfold op_ungroup_ports. rewrite T, (split_tops_flat (o_cfg a) ls ls1 S1). cbn [bind].
  unfold set_items. rewrite G. cbn [str_nonempty]. eexists. split; [reflexivity|].
  assert (F1 : Forall (leaf_ok (o_cfg a)) ls1).
  { apply Forall_forall. intros l Hl. unfold leaf_ok. rewrite Forall_forall in B1.
    assert (Hi : In (leaf_aitem l) items1) by (rewrite <- M1; now apply in_map).
    specialize (B1 _ Hi). destruct (leaf_aitem l); [exact (tgt_src_same _ _ B1)|exact B1]. }
  split.
  - split; [exact Hpl|]. split; [exact G|]. exists ls1. split; [reflexivity|exact F1].
  - intros k. unfold acl_decide, den_items, with_tops. cbn [o_tops]. rewrite T, !flat_TLeaf.
    rewrite (map_ext _ _ leaf_item_sem ls1), (map_ext _ _ leaf_item_sem ls).
    rewrite <- (map_map leaf_aitem sem_item ls1), <- (map_map leaf_aitem sem_item ls), M1. apply D1.
Qed.

(** * platform *)
Lemma platform_built a p : acl_built a -> (p = Ios \/ p = Nxos) ->
  exists a', op_platform p a = Ok a' /\ acl_built a' /\ forall k, acl_decide a' k = acl_decide a k.
Proof.
  intros (Hpl & G & ls & T & F) Hp.
  assert (FS : Forall (item_src false (o_cfg a)) (map leaf_aitem ls)).
  { apply Forall_forall. intros i Hi. apply in_map_iff in Hi as (l & <- & Hl). rewrite Forall_forall in F. now apply F. }
  destruct (acl_conversion_closed false (o_cfg a) p Hpl Hp _ FS) as (conv & E & B & D).
  destruct (platform_flat_sim a p ls conv G T E) as (a' & ls' & OP & T' & M' & C' & G' & _).
  exists a'. split; [exact OP|]. split.
  - split; [rewrite C'; exact Hp|]. split; [exact G'|]. exists ls'. split; [exact T'|].
    apply Forall_forall. intros l Hl. unfold leaf_ok. rewrite C'. rewrite Forall_forall in B. apply B.
    rewrite <- M'. now apply in_map.
  - intros k. unfold acl_decide, den_items. rewrite T', T, !flat_TLeaf.
    rewrite (map_ext _ _ leaf_item_sem ls'), (map_ext _ _ leaf_item_sem ls).
    rewrite <- (map_map leaf_aitem sem_item ls'), <- (map_map leaf_aitem sem_item ls), M'. apply D.
Qed.

(** * re-parse *)
Lemma reparse_built_closed a : acl_built a ->
  exists a', op_reparse a = Ok a' /\ acl_built a' /\ forall k, acl_decide a' k = acl_decide a k.
Proof.
  intros (Hpl & G & ls & T & F). set (c := o_cfg a) in *. set (items := map leaf_aitem ls).
  assert (FB : Forall (AclFixProofs.item_built c) items).
  { apply Forall_forall. intros i Hi. apply in_map_iff in Hi as (l & <- & Hl). rewrite Forall_forall in F.
    apply src_item_built. now apply F. }
  destruct (acl_body_built_fixpoint c Hpl items FB) as (_ & AB & IO).
  unfold op_reparse. fold c. rewrite T, flat_TLeaf.
  assert (EL : map (leaf_line c) ls = map (render_item c) items) by (unfold items; now rewrite map_map).
  rewrite EL, AB, IO. eexists. split; [reflexivity|].
  assert (ET : map (fun i => TLeaf (leaf_of_aitem i)) items = map TLeaf (map leaf_of_aitem items)) by (now rewrite map_map).
  assert (EA : map leaf_aitem (map leaf_of_aitem items) = items).
  { rewrite map_map. rewrite <- (map_id items) at 2. apply map_ext. intros i. destruct i; reflexivity. }
  split.
  - split; [exact Hpl|]. split; [reflexivity|]. exists (map leaf_of_aitem items). split; [exact ET|].
    apply Forall_forall. intros l Hl. apply in_map_iff in Hl as (i & <- & Hi). unfold leaf_ok.
    assert (leaf_aitem (leaf_of_aitem i) = i) as -> by (destruct i; reflexivity).
    unfold items in Hi. apply in_map_iff in Hi as (l0 & <- & Hl0). rewrite Forall_forall in F. now apply F.
  - intros k. unfold acl_decide, den_items. cbn [o_tops]. rewrite ET, T, !flat_TLeaf.
    rewrite (map_ext _ _ leaf_item_sem (map leaf_of_aitem items)), (map_ext _ _ leaf_item_sem ls).
    rewrite <- (map_map leaf_aitem sem_item (map leaf_of_aitem items)), EA. unfold items. now rewrite map_map.
Qed.

(** * one step *)
Definition op_ok (o : op) : Prop :=
  match o with
  | OpPlatform Asa => False
  | OpPlatform _ | OpPortNr _ | OpProtocolNr _ | OpTypeExt | OpResequence _ _ | OpUngroup
  | OpCopy | OpImportUuid | OpReparse | OpUngroupPorts => True
  | _ => False
  end.

Theorem step_built a o a' : acl_built a -> op_ok o -> Ops.step a o = Ok a' ->
  acl_built a' /\ forall k, acl_decide a' k = acl_decide a k.
Proof.
  intros B OK H. destruct o; cbn [op_ok] in OK; try contradiction; cbn [Ops.step] in H.
  - (* platform *) destruct p; try contradiction.
    + destruct (platform_built a Ios B (or_introl eq_refl)) as (a2 & E & B2 & D2). rewrite E in H. injection H as <-. auto.
    + destruct (platform_built a Nxos B (or_intror eq_refl)) as (a2 & E & B2 & D2). rewrite E in H. injection H as <-. auto.
  - (* port_nr *) apply (reinit_step (with_port_nr (o_cfg a) b) a a' B); [repeat split|exact H].
  - (* protocol_nr *) apply (reinit_step (with_protocol_nr (o_cfg a) b) a a' B); [repeat split|exact H].
  - (* type *) rewrite (type_ext_eq a B) in H. apply (reinit_step (o_cfg a) a a' B (cfg_same_refl _) H).
  - (* resequence *)
    pose proof (resequence_items start step a a' H) as DI.
    destruct B as (Hpl & G & ls & T & F). unfold op_resequence in H.
    destruct (seq_args_ok start step) as [step'|]; [|discriminate].
    destruct (reseq_tops start step' (o_tops a)) as [r| | | |] eqn:E; cbn [bind] in H; try discriminate.
    destruct (SEQUENCE_MAX <? fst r); [discriminate|]. injection H as <-.
    rewrite T in E. destruct (reseq_flat (o_cfg a) ls start step' r F E) as (ls' & E' & F').
    split.
    + split; [exact Hpl|]. split; [exact G|]. exists ls'. split; [exact E'|exact F'].
    + intros k. unfold acl_decide. now rewrite DI.
  - (* ungroup *)
    injection H as <-. destruct B as (Hpl & G & ls & T & F). split.
    + split; [exact Hpl|]. split; [reflexivity|]. exists ls. split; [|exact F].
      cbn [op_ungroup o_tops]. now rewrite T, flat_TLeaf.
    + intros k. unfold acl_decide. now rewrite ungroup_items.
  - (* copy *)
    unfold op_copy in H. destruct (reinit_built (o_cfg a) a B (cfg_same_refl _)) as (ls & T & F & E).
    rewrite E in H. cbn [bind o_cfg o_name o_gby o_note o_tops] in H. injection H as <-.
    rewrite fresh_tops. split.
    + apply built_intro; [exact (proj1 B)|]. apply Forall_forall. intros l Hl. apply in_map_iff in Hl as (l0 & <- & Hl0).
      unfold leaf_ok. rewrite fresh_aitem. rewrite Forall_forall in F. now apply F.
    + intros k. unfold acl_decide, den_items. cbn [o_tops]. rewrite T, !flat_TLeaf, map_map.
      f_equal. apply map_ext. exact leaf_item_fresh.
  - (* import *) apply (reinit_step (o_cfg a) a a' B (cfg_same_refl _) H).
  - (* reparse *) destruct (reparse_built_closed a B) as (a2 & E & B2 & D2). rewrite E in H. injection H as <-. auto.
  - (* ungroup_ports *) destruct (ungroup_ports_built a B) as (a2 & E & B2 & D2). rewrite E in H. injection H as <-. auto.
Qed.

(** every operation of the class succeeds (resequence: when its arguments are valid) *)
Theorem step_progress a o : acl_built a -> op_ok o -> (forall s d, o <> OpResequence s d) -> exists a', Ops.step a o = Ok a'.
Proof.
  intros B OK NR. destruct o; cbn [op_ok] in OK; try contradiction; cbn [Ops.step].
  - destruct p; try contradiction.
    + destruct (platform_built a Ios B (or_introl eq_refl)) as (a2 & E & _). eauto.
    + destruct (platform_built a Nxos B (or_intror eq_refl)) as (a2 & E & _). eauto.
  - apply reinit_progress; [exact B|repeat split].
  - apply reinit_progress; [exact B|repeat split].
  - rewrite (type_ext_eq a B). apply reinit_progress; [exact B|apply cfg_same_refl].
  - exfalso. now apply (NR start step).
  - eauto.
  - unfold op_copy. destruct (reinit_built (o_cfg a) a B (cfg_same_refl _)) as (ls & _ & _ & E). rewrite E. cbn [bind]. eauto.
  - apply reinit_progress; [exact B|apply cfg_same_refl].
  - destruct (reparse_built_closed a B) as (a2 & E & _). eauto.
  - destruct (ungroup_ports_built a B) as (a2 & E & _). eauto.
Qed.

(** * histories of any length *)
Fixpoint steps (a : acl) (ops : list op) : res acl :=
  match ops with
  | [] => Ok a
  | o :: rest => do a' <- Ops.step a o; steps a' rest
  end.

Theorem history_built : forall ops a a', acl_built a -> Forall op_ok ops -> steps a ops = Ok a' ->
  acl_built a' /\ forall k, acl_decide a' k = acl_decide a k.
Proof.
  induction ops as [|o ops IH]; intros a a' B OK H.
  - cbn in H. injection H as <-. split; [exact B|reflexivity].
  - apply Forall_cons_iff in OK as [Ko OK]. cbn [steps] in H.
    destruct (Ops.step a o) as [a1| | | |] eqn:E; cbn [bind] in H; try discriminate.
    destruct (step_built a o a1 B Ko E) as (B1 & D1). destruct (IH a1 a' B1 OK H) as (B' & D').
    split; [exact B'|]. intros k. now rewrite D', D1.
Qed.

(** a history without resequence never fails *)
Theorem history_progress : forall ops a, acl_built a -> Forall op_ok ops ->
  (forall o s d, In o ops -> o <> OpResequence s d) -> exists a', steps a ops = Ok a'.
Proof.
  induction ops as [|o ops IH]; intros a B OK NR.
  - exists a. reflexivity.
  - apply Forall_cons_iff in OK as [Ko OK]. cbn [steps].
    destruct (step_progress a o B Ko (fun s d => NR o s d (or_introl eq_refl))) as (a1 & E). rewrite E. cbn [bind].
    destruct (step_built a o a1 B Ko E) as (B1 & _).
    apply (IH a1 B1 OK). intros o' s d Hin. apply NR. now right.
Qed.

(** * the history as the correspondence runs it: fresh objects are named after every step *)
Lemma relabel_leaf_aitem st l : leaf_aitem (snd (relabel_leaf st l)) = leaf_aitem l.
Proof. unfold relabel_leaf. destruct (leaf_id l =? 0); [destruct l|]; reflexivity. Qed.

Lemma relabel_tops_flat : forall ls st, exists ls', snd (relabel_tops st (map TLeaf ls)) = map TLeaf ls'
                                                  /\ map leaf_aitem ls' = map leaf_aitem ls.
Proof.
  induction ls as [|l ls IH]; intros st.
  - exists []. split; reflexivity.
  - cbn [map relabel_tops snd]. destruct (IH (fst (relabel_leaf st l))) as (ls' & E & M).
    exists (snd (relabel_leaf st l) :: ls'). cbn [map]. rewrite E, M, relabel_leaf_aitem. split; reflexivity.
Qed.

Lemma relabel_built next a : acl_built a ->
  acl_built (snd (relabel next a)) /\ forall k, acl_decide (snd (relabel next a)) k = acl_decide a k.
Proof.
  intros (Hpl & G & ls & T & F). unfold relabel. cbn [snd]. rewrite T.
  destruct (relabel_tops_flat ls (if o_id a =? 0 then next + 1 else next)) as (ls' & E & M).
  rewrite E. split.
  - split; [exact Hpl|]. split; [exact G|]. exists ls'. split; [reflexivity|].
    cbn [o_cfg]. apply Forall_forall. intros l Hl. unfold leaf_ok.
    assert (Hi : In (leaf_aitem l) (map leaf_aitem ls)) by (rewrite <- M; now apply in_map).
    apply in_map_iff in Hi as (l0 & <- & Hl0). rewrite Forall_forall in F. now apply F.
  - intros k. unfold acl_decide, den_items. cbn [o_tops]. rewrite T, !flat_TLeaf.
    rewrite (map_ext _ _ leaf_item_sem ls'), (map_ext _ _ leaf_item_sem ls).
    rewrite <- (map_map leaf_aitem sem_item ls'), <- (map_map leaf_aitem sem_item ls), M. reflexivity.
Qed.

Fixpoint steps_labelled (next : N) (a : acl) (ops : list op) : res acl :=
  match ops with
  | [] => Ok a
  | o :: rest => do a1 <- Ops.step a o; let p := relabel next a1 in steps_labelled (fst p) (snd p) rest
  end.

Theorem history_built_labelled : forall ops next a a', acl_built a -> Forall op_ok ops ->
  steps_labelled next a ops = Ok a' -> acl_built a' /\ forall k, acl_decide a' k = acl_decide a k.
Proof.
  induction ops as [|o ops IH]; intros next a a' B OK H.
  - cbn in H. injection H as <-. split; [exact B|reflexivity].
  - apply Forall_cons_iff in OK as [Ko OK]. cbn [steps_labelled] in H.
    destruct (Ops.step a o) as [a1| | | |] eqn:E; cbn [bind] in H; try discriminate.
    destruct (step_built a o a1 B Ko E) as (B1 & D1). destruct (relabel_built next a1 B1) as (B2 & D2).
    destruct (IH _ _ a' B2 OK H) as (B' & D').
    split; [exact B'|]. intros k. now rewrite D', D2, D1.
Qed.
