(** C06 for ACEs that refer to address groups: the group reference "object-group NAME" /
    "addrgroup NAME" is a fixed point of the address reader, and the whole-ACE fixed point holds
    for addresses that are reader-built singles or group references. *)
From V Require Import base.Prelude base.Strs gen.Tables model.Cfg model.Names model.Wildcard
  model.Addr model.Ports model.Ace model.Lex model.AddrText model.AceText
  proofs.NamesProofs proofs.PortsProofs proofs.TextProofs proofs.SplitterProofs proofs.AceFixProofs
  proofs.WildProofs proofs.AddrProofs proofs.AddrObjProofs proofs.ParsedAceProofs.
Local Open Scope N_scope.

(** * string facts *)
Lemma split_char_first ch : forall s c0 cur0, exists tl l, split_char_aux ch s (String c0 cur0) = String c0 tl :: l.
Proof.
  induction s as [|c s IH]; intros c0 cur0; cbn [split_char_aux].
  - eauto.
  - destruct (Ascii.eqb c ch); [eauto|]. cbn [append]. apply IH.
Qed.

Lemma is_digits_first c0 r : is_digit c0 = false -> is_digits (String c0 r) = false.
Proof.
  intros H. destruct (is_digits (String c0 r)) eqn:E; [|reflexivity].
  destruct (is_digits_chars _ E) as [_ A]. cbn [all_chars] in A. rewrite H in A. discriminate.
Qed.

Lemma is_octets_nondigit c0 r : is_digit c0 = false -> Ascii.eqb c0 "." = false -> is_octets (String c0 r) = false.
Proof.
  intros H Hd. unfold is_octets, split_char. cbn [split_char_aux]. rewrite Hd. cbn [append].
  destruct (split_char_first "." r c0 "") as (tl & l & ->).
  destruct l as [|b [|c [|d [|e l]]]]; try reflexivity. now rewrite (is_digits_first c0 tl H).
Qed.

Lemma starts_with_app p s : starts_with p (p ++ s) = true.
Proof. induction p as [|c p IH]; [destruct s; reflexivity|]. cbn [append starts_with]. now rewrite Ascii.eqb_refl, IH. Qed.

Lemma substring_skip p s n : substring (String.length p) n (p ++ s) = substring 0 n s.
Proof. induction p as [|c p IH]; [reflexivity|]. cbn [String.length append substring]. exact IH. Qed.

Lemma substring_all s : forall n, (String.length s <= n)%nat -> substring 0 n s = s.
Proof.
  induction s as [|c s IH]; intros n H; cbn [String.length] in H.
  - destruct n; reflexivity.
  - destruct n as [|n]; [lia|]. cbn [substring]. rewrite IH; [reflexivity|lia].
Qed.

Lemma length_app_s a b : String.length (a ++ b) = (String.length a + String.length b)%nat.
Proof. induction a as [|c a IH]; [reflexivity|]. cbn [append String.length]. now rewrite IH. Qed.

(** a valid group name is one token *)
Lemma name_char_nws ch : name_char_ok ch = true -> nws ch = true.
Proof.
  unfold name_char_ok, nws, is_ws. intros H. apply andb_prop in H as [H _]. apply andb_prop in H as [H1 H2].
  apply N.leb_le in H1. apply negb_true_iff. apply orb_false_iff. split; apply andb_false_iff.
  - right. apply N.leb_gt. lia.
  - right. apply N.leb_gt. lia.
Qed.

Lemma check_name_token name : check_name name = true -> token name.
Proof.
  unfold check_name. intros H. apply andb_prop in H as [H1 H2]. split.
  - apply (all_chars_weaken name_char_ok); [exact name_char_nws|exact H2].
  - destruct name; [discriminate|congruence].
Qed.

(** * the group reference is a fixed point of the address reader *)
Lemma group_text_fixpoint pl limit name : (pl = Ios \/ pl = Nxos) -> check_name name = true ->
  parse_address_text pl limit (render_addr pl (AGroup name [])) = Ok (AGroup name []).
Proof.
  intros Hpl HN. cbn [render_addr]. unfold parse_address_text, spelling_of_text.
  set (line := (group_cmd pl ++ " " ++ name)%string).
  assert (E1 : String.eqb line "any" = false) by (destruct Hpl as [-> | ->]; reflexivity).
  assert (E2 : first_is_digit line = false) by (destruct Hpl as [-> | ->]; reflexivity).
  assert (E3 : starts_with "host " line = false) by (destruct Hpl as [-> | ->]; reflexivity).
  assert (E4 : is_octets line = false).
  { destruct Hpl as [-> | ->]; unfold line; cbn [group_cmd append]; apply is_octets_nondigit; reflexivity. }
  assert (E5 : starts_with (group_cmd pl) line = true) by apply starts_with_app.
  assert (E6 : line = ((group_cmd pl ++ " ") ++ name)%string) by (destruct Hpl as [-> | ->]; reflexivity).
  rewrite E1, E2, E3, E4, E5. cbn [andb orb].
  clearbody line. subst line. rewrite starts_with_app, substring_skip, substring_all.
  - rewrite HN. reflexivity.
  - rewrite length_app_s. lia.
Qed.

Lemma group_text_canon pl name : check_name name = true -> after_group_kw name = false ->
  exists A, split_ws (render_addr pl (AGroup name [])) = A /\ addr_toks A (render_addr pl (AGroup name [])) /\ names_ok A.
Proof.
  intros HN HK. pose proof (check_name_token name HN) as TN. cbn [render_addr].
  assert (TG : token (group_cmd pl)) by (destruct pl; split; try reflexivity; discriminate).
  exists [group_cmd pl; name]. split; [now apply split_ws_two|]. split.
  - apply AT_group. destruct pl; auto.
  - intros kw nm E _. injection E as _ <-. auto.
Qed.

(** * addresses of an ACE: reader-built singles or group references *)
Definition addr_built (pl : platform) (limit : Z) (a : addr) : Prop :=
  (exists sp, sp_bounds sp /\ ~ is_n1 pl sp /\ addr_of_spelling pl limit sp = Ok a)
  \/ (exists name, a = AGroup name [] /\ check_name name = true /\ after_group_kw name = false).

Lemma addr_built_canon pl limit a : (pl = Ios \/ pl = Nxos) -> addr_built pl limit a ->
  parse_address_text pl limit (render_addr pl a) = Ok a
  /\ exists A, split_ws (render_addr pl a) = A /\ addr_toks A (render_addr pl a) /\ names_ok A.
Proof.
  intros Hpl [(sp & B & NN & A) | (name & -> & HN & HK)].
  - destruct (reader_single pl limit sp a B A) as (ty & w & ->).
    destruct (reader_std pl limit sp ty w Hpl B NN A) as (-> & a1 & m1 & Ha1 & Hm1 & NW1).
    split; [now apply (addr_obj_fixpoint pl limit a1 m1 w)|now apply (render_addr_canon pl limit a1 m1 w)].
  - split; [now apply group_text_fixpoint|now apply group_text_canon].
Qed.

(** * THE THEOREM with group references *)
Section ParsedG.
  Variable c : cfg.
  Let pl := plat c.
  Let limit := Z.of_nat (max_ncwb c).
  Hypothesis Hpl : pl = Ios \/ pl = Nxos.
  Variables (permit : bool) (n sq : N) (s d : addr) (toks1 toks2 : list string)
            (p1 p2 : port) (opts flags logs : list string).
  Let pc := proto_ctx pl (is15 c) n.
  Let t := mkTace true sq (mkAce permit n s d p1 p2 flags logs) opts.
  Hypothesis Hn : n <= 255.
  Hypothesis Hs : addr_built pl limit s.
  Hypothesis Hd : addr_built pl limit d.
  Hypothesis Hp1 : parse_port pl pc toks1 = Ok p1 /\ (pc = None -> p1 = empty_port).
  Hypothesis Hp2 : parse_port pl pc toks2 = Ok p2 /\ (pc = None -> p2 = empty_port).
  Hypothesis Ho : Forall token opts /\ Forall af opts /\ parse_option opts = Ok (flags, logs)
                  /\ split_dstport_option (render_port (port_nr c) pc p2 ++ opts) = (render_port (port_nr c) pc p2, opts).

  Lemma built_fields_fixed : exists SRC DST, fields_fixed c t SRC DST.
  Proof.
    destruct Hp1 as (P1 & E1). destruct Hp2 as (P2 & E2). destruct Ho as (O1 & O2 & O3 & O4).
    destruct (addr_built_canon pl limit s Hpl Hs) as (FS & SRC & S1 & S2 & S3).
    destruct (addr_built_canon pl limit d Hpl Hd) as (FD & DST & D1 & D2 & _).
    exists SRC, DST. unfold fields_fixed. cbn [t_ace t a_src a_dst a_proto a_sport a_dport a_flags a_logs t_option_line].
    fold pl limit pc.
    split; [auto|]. split; [auto|]. split; [exact FS|]. split; [exact FD|].
    split; [now apply proto_token|]. split; [now apply proto_roundtrip|].
    split.
    { assert (NE : forall p, render_port (port_nr c) pc p <> [] -> pc <> None).
      { intros p HNE C. apply HNE. unfold render_port. rewrite C. destruct (p_op p); [destruct (p_items p)|]; reflexivity. }
      destruct (render_port (port_nr c) pc p1) as [|x1 r1] eqn:R1.
      - destruct (render_port (port_nr c) pc p2) as [|x2 r2] eqn:R2; [now rewrite andb_false_r|].
        apply andb_false_iff. left. apply (proto_ports_not_ip pl (is15 c)). apply (NE p2). rewrite R2. discriminate.
      - apply andb_false_iff. left. apply (proto_ports_not_ip pl (is15 c)). apply (NE p1). rewrite R1. discriminate. }
    assert (PF : forall toks p, parse_port pl pc toks = Ok p -> (pc = None -> p = empty_port) ->
                 parse_port pl pc (render_port (port_nr c) pc p) = Ok p).
    { intros toks p HP HE. unfold pc in *. destruct (proto_ctx pl (is15 c) n) as [[[pr pl0] w15]|] eqn:EC.
      - assert (pl0 = pl /\ w15 = is15 c) as [-> ->].
        { unfold proto_ctx in EC. destruct (String.eqb _ "tcp"); [now injection EC|].
          destruct (String.eqb _ "udp"); [now injection EC|discriminate]. }
        now apply (reader_port_fixpoint pl pr (is15 c) (port_nr c) toks p).
      - rewrite (HE eq_refl). reflexivity. }
    split; [destruct (render_port_toks (port_nr c) pc p1); split; auto; split; auto; now apply (PF toks1)|].
    split; [destruct (render_port_toks (port_nr c) pc p2); split; auto; split; auto; now apply (PF toks2)|].
    auto.
  Qed.

  Theorem parsed_ace_fixpoint_groups : parse_ace_text c (render_ace c t) = Ok t.
  Proof. destruct built_fields_fixed as (SRC & DST & F). now apply (ace_fixpoint c t SRC DST eq_refl). Qed.
End ParsedG.
