(** C06 for standard-type ACEs ("permit SRC [options]"): the rendered line is refused by the
    extended pattern, read by the standard pattern, and gives the same entry back. *)
From V Require Import base.Prelude base.Strs gen.Tables model.Cfg model.Names model.Wildcard
  model.Addr model.Ports model.Ace model.Lex model.AddrText model.AceText
  proofs.NamesProofs proofs.PortsProofs proofs.TextProofs proofs.SplitterProofs proofs.AceFixProofs
  proofs.WildProofs proofs.AddrProofs proofs.AddrObjProofs proofs.ParsedAceProofs.
Local Open Scope N_scope.

(** * a dotted quad token has a dotted-quad prefix (the two recognisers agree) *)
Fixpoint cw (ch : ascii) (l : list string) : string :=
  match l with
  | [] => ""%string
  | [x] => x
  | x :: t => (x ++ String ch (cw ch t))%string
  end.

Lemma split_char_aux_nonempty ch : forall s cur, split_char_aux ch s cur <> [].
Proof. induction s as [|c s IH]; intros cur; cbn [split_char_aux]; [discriminate|]. destruct (Ascii.eqb c ch); [discriminate|apply IH]. Qed.

Lemma append_nil_r (s : string) : (s ++ "")%string = s.
Proof. induction s as [|c s IH]; [reflexivity|]. cbn [append]. now rewrite IH. Qed.

Lemma append_assoc3 (a b c : string) : ((a ++ b) ++ c)%string = (a ++ (b ++ c))%string.
Proof. induction a as [|x a IH]; [reflexivity|]. cbn [append]. now rewrite IH. Qed.

Lemma split_char_aux_cw ch : forall s cur, cw ch (split_char_aux ch s cur) = (cur ++ s)%string.
Proof.
  induction s as [|c s IH]; intros cur; cbn [split_char_aux].
  - cbn [cw]. now rewrite append_nil_r.
  - destruct (Ascii.eqb c ch) eqn:E.
    + apply Ascii.eqb_eq in E. subst c. specialize (IH ""%string).
      destruct (split_char_aux ch s "") as [|y l] eqn:R; [now apply split_char_aux_nonempty in R|].
      change (cw ch (cur :: y :: l)) with (cur ++ String ch (cw ch (y :: l)))%string. rewrite IH. reflexivity.
    + rewrite IH, append_assoc3. reflexivity.
Qed.

Lemma is_octets_prefix s : is_octets s = true -> octets_prefix s = Some (s, ""%string).
Proof.
  unfold is_octets. intros H. pose proof (split_char_aux_cw "." s "") as R. unfold split_char in H.
  destruct (split_char_aux "." s "") as [|a [|b [|c [|d [|e l]]]]]; try discriminate.
  apply andb_prop in H as [H Dd]. apply andb_prop in H as [H Dc]. apply andb_prop in H as [Da Db].
  destruct (is_digits_chars _ Da) as [Na Ca]. destruct (is_digits_chars _ Db) as [Nb Cb].
  destruct (is_digits_chars _ Dc) as [Nc Cc]. destruct (is_digits_chars _ Dd) as [Nd Cd].
  cbn [cw append] in R. rewrite <- R. unfold octets_prefix.
  rewrite (take_digits_app a "." _ Ca eq_refl). cbn [fst snd]. destruct a as [|a0 a']; [congruence|].
  rewrite (take_digits_app b "." _ Cb eq_refl). cbn [fst snd]. destruct b as [|b0 b']; [congruence|].
  rewrite (take_digits_app c "." _ Cc eq_refl). cbn [fst snd]. destruct c as [|c0 c']; [congruence|].
  rewrite (take_digits_all d Cd). cbn [fst snd]. destruct d as [|d0 d']; [congruence|]. reflexivity.
Qed.

Lemma af_not_octets t : af t -> is_octets t = false.
Proof.
  intros H. destruct (is_octets t) eqn:E; [|reflexivity].
  pose proof (is_octets_prefix t E) as P. rewrite (af_no_octets t H) in P. discriminate.
Qed.

(** * single (non-group) address spellings *)
Inductive single_toks : list string -> string -> Prop :=
| ST_any : single_toks ["any"%string] "any"
| ST_host x : single_toks ["host"%string; render_ip x] ("host " ++ render_ip x)
| ST_prefix x len : single_toks [(render_ip x ++ "/" ++ dec len)%string] (render_ip x ++ "/" ++ dec len)
| ST_wild x m : single_toks [render_ip x; render_ip m] (render_ip x ++ " " ++ render_ip m).

Lemma single_addr_toks A txt : single_toks A txt -> addr_toks A txt.
Proof. intros [|x|x len|x m]; [apply AT_any|apply AT_host|apply AT_prefix|apply AT_wild]. Qed.

(** no address starts at an address-free token, nor at the end of the line *)
Lemma addr_whole_af T : Forall af T -> addr_whole T = None.
Proof.
  intros F. destruct T as [|t0 r]; [reflexivity|]. inversion F as [|? ? Ht _]; subst.
  pose proof (af_no_octets t0 Ht) as OP. pose proof (af_not_octets t0 Ht) as IO.
  unfold af, address_free in Ht.
  apply andb_prop in Ht as [Ht _]. apply andb_prop in Ht as [Ht H4]. apply andb_prop in Ht as [Ht H3].
  apply andb_prop in Ht as [H1 H2]. apply negb_true_iff in H1, H2, H3, H4.
  assert (E1 : String.eqb t0 "any" = false).
  { destruct (String.eqb t0 "any") eqn:E; [|reflexivity]. apply String.eqb_eq in E. subst t0. discriminate. }
  unfold addr_whole. rewrite E1, H2, H3, H4. cbn [orb]. unfold is_prefix_token. rewrite OP, IO. reflexivity.
Qed.

(** a dotted quad followed by address-free tokens is no whole address *)
Lemma addr_whole_ip_af x T : Forall af T -> addr_whole (render_ip x :: T) = None.
Proof.
  intros F. unfold addr_whole.
  destruct (digit_first_not_kw _ (render_ip_first x)) as (_ & E1 & E2 & E3 & E4).
  rewrite E1, E2, E3, E4. cbn [orb]. unfold is_prefix_token. rewrite octets_prefix_render, is_octets_render.
  destruct T as [|t1 r]; [reflexivity|]. inversion F as [|? ? Ht _]; subst. now rewrite (af_not_octets t1 Ht).
Qed.

(** the loose address reader on a canonical spelling, with or without the bare alternative *)
Lemma addr_loose_canon_b bare D txt T : addr_toks D txt -> addr_loose bare (D ++ T) = Some (txt, Some T).
Proof.
  intros H. destruct H as [|x|kw name Hk|x len|x m]; cbn [app]; unfold addr_loose.
  - reflexivity.
  - change (starts_with "any" "host") with false. change (String.eqb "host" "host") with true. cbn iota.
    now rewrite octets_prefix_render.
  - destruct Hk as [-> | ->]; reflexivity.
  - destruct (digit_first_not_kw _ (render_first_digit_app x ("/" ++ dec len))) as (E0 & _ & E2 & E3 & E4).
    rewrite E0, E2, E3, E4. cbn [orb].
    change (render_ip x ++ "/" ++ dec len)%string with (render_ip x ++ String "/" (dec len))%string.
    rewrite (octets_prefix_render_app x "/" (dec len) eq_refl).
    assert (DL : all_chars is_digit (dec len) = true /\ dec len <> ""%string).
    { pose proof (undec_dec len) as U. assert (I : is_digits (dec len) = true) by (unfold is_digits; now rewrite U).
      destruct (is_digits_chars _ I). auto. }
    destruct DL as [DL NE]. rewrite (take_digits_all _ DL). cbn [fst snd].
    destruct (dec len) as [|c0 r0] eqn:EL; [congruence|]. reflexivity.
  - destruct (digit_first_not_kw _ (render_ip_first x)) as (E0 & _ & E2 & E3 & E4).
    rewrite E0, E2, E3, E4. cbn [orb]. now rewrite !octets_prefix_render.
Qed.

(** * the extended pattern refuses the rendered standard line *)
Lemma split_body_none proto A txt T : addr_toks A txt -> Forall af T -> split_body proto (A ++ T) = None.
Proof.
  intros HA F. unfold split_body. rewrite (addr_whole_canon A txt T HA). now rewrite find_dst_none.
Qed.

Lemma ext_none H sq act SRC txt T : head_toks H sq act -> single_toks SRC txt -> Forall af T ->
  parse_ace_extended (H ++ SRC ++ T) = None.
Proof.
  intros HH HS F. unfold parse_ace_extended. rewrite (split_head_canon H sq act (SRC ++ T) HH).
  rewrite (split_body_none "" SRC txt T (single_addr_toks _ _ HS) F).
  assert (W : match SRC ++ T with p :: r => split_body p r | [] => None end = None).
  { destruct HS as [|x|x len|x m]; cbn [app]; unfold split_body.
    - now rewrite (addr_whole_af T F).
    - now rewrite (addr_whole_ip_af x T F).
    - now rewrite (addr_whole_af T F).
    - now rewrite (addr_whole_ip_af m T F). }
  rewrite W. reflexivity.
Qed.

(** * the rendered text of a single address is never a group reference *)
Lemma render_single_not_group pl ty w kw name : (kw = "object-group"%string \/ kw = "addrgroup"%string) ->
  render_addr pl (ASingle ty w) <> (kw ++ " " ++ name)%string.
Proof.
  intros K E.
  assert (D : forall x s, (render_ip x ++ s)%string <> (kw ++ " " ++ name)%string).
  { intros x s Q. pose proof (render_first_digit_app x s) as F. rewrite Q in F. destruct K as [-> | ->]; discriminate. }
  cbn [render_addr] in E. destruct ty.
  - destruct K as [-> | ->]; discriminate.
  - destruct K as [-> | ->]; discriminate.
  - destruct (w_ipnet w) as [n|]; [unfold net_prefix_text in E; now apply D in E|destruct K as [-> | ->]; discriminate].
  - destruct (w_ipnet w) as [n|]; [now apply D in E|destruct K as [-> | ->]; discriminate].
  - now apply D in E.
  - now apply D in E.
Qed.

Lemma addr_toks_single A pl ty w : addr_toks A (render_addr pl (ASingle ty w)) -> single_toks A (render_addr pl (ASingle ty w)).
Proof.
  intros H. remember (render_addr pl (ASingle ty w)) as txt eqn:E. destruct H as [|x|kw name Hk|x len|x m].
  - constructor.
  - constructor.
  - exfalso. symmetry in E. exact (render_single_not_group pl ty w kw name Hk E).
  - constructor.
  - constructor.
Qed.

Lemma std_split H sq act SRC txt T : head_toks H sq act -> single_toks SRC txt ->
  parse_ace_standard (H ++ SRC ++ T) = Some (mkSplit sq act "ip" txt [] "any" T).
Proof.
  intros HH HS. unfold parse_ace_standard. rewrite (split_head_canon H sq act (SRC ++ T) HH).
  now rewrite (addr_loose_canon_b true SRC txt T (single_addr_toks _ _ HS)).
Qed.

(** * THE THEOREM: a standard ACE built by the readers is read back unchanged *)
Section StdFix.
  Variable c : cfg.
  Let pl := plat c.
  Let limit := Z.of_nat (max_ncwb c).
  Hypothesis Hpl : pl = Ios \/ pl = Nxos.
  Variables (permit : bool) (sq : N) (ssp : spelling) (s dany : addr) (opts flags logs : list string).
  Let t := mkTace false sq (mkAce permit 0 s dany empty_port empty_port flags logs) opts.
  Hypothesis Hs : sp_bounds ssp /\ ~ is_n1 pl ssp /\ addr_of_spelling pl limit ssp = Ok s.
  (** the destination of a standard entry is the reader's "any" *)
  Hypothesis Hany : addr_of_spelling pl limit SAny = Ok dany.
  (** option tokens: well-formed, no address starts, accepted by the option reader *)
  Hypothesis Ho : Forall token opts /\ Forall af opts /\ parse_option opts = Ok (flags, logs).

  Theorem std_ace_fixpoint : parse_ace_text c (render_ace c t) = Ok t.
  Proof.
    destruct Hs as (B1 & N1 & A1). destruct Ho as (O1 & O2 & O3).
    destruct (reader_single pl limit ssp s B1 A1) as (ty1 & w1 & ->).
    destruct (reader_std pl limit ssp ty1 w1 Hpl B1 N1 A1) as (-> & a1 & m1 & Ha1 & Hm1 & NW1).
    destruct (render_addr_canon pl limit a1 m1 w1 Hpl Ha1 Hm1 NW1) as (SRC & S1 & S2 & _).
    pose proof (addr_toks_single SRC pl (std_type pl w1) w1 S2) as SS.
    pose proof (addr_obj_fixpoint pl limit a1 m1 w1 Hpl Ha1 Hm1 NW1) as FS.
    set (src := render_addr pl (ASingle (std_type pl w1) w1)) in *.
    set (act := if permit then "permit"%string else "deny"%string).
    assert (Tact : token act) by (unfold act; destruct permit; split; try reflexivity; discriminate).
    assert (Aact : is_action act) by (unfold act, is_action; destruct permit; auto).
    set (H := if N.eqb sq 0 then [act] else [dec sq; act]).
    set (sqs := if N.eqb sq 0 then ""%string else dec sq).
    assert (HH : head_toks H sqs act).
    { unfold H, sqs. destruct (N.eqb sq 0); [now apply HT_plain|now apply HT_seq]. }
    assert (E : split_ws (render_ace c t) = H ++ SRC ++ opts).
    { unfold render_ace. cbn [t t_type_ext t_ace t_seq t_option_line a_permit a_src]. fold pl src act.
      rewrite split_ws_join, flat_split_filter. rewrite !flat_map_app. cbn [flat_map]. rewrite !app_nil_r.
      rewrite S1, (split_ws_one _ Tact), (flat_split_tokens _ O1).
      unfold H. destruct (N.eqb sq 0); cbn [flat_map app]; [reflexivity|].
      rewrite (split_ws_one _ (dec_token sq)). reflexivity. }
    unfold parse_ace_text. rewrite E.
    rewrite (ext_none H sqs act SRC src opts HH SS O2), (std_split H sqs act SRC src opts HH SS).
    cbn [s_proto s_sport s_src s_dst s_seq s_action s_dstopt].
    change (negb (str_nonempty "ip") && true) with false. change (String.eqb "ip" "ip" && false) with false. cbv iota.
    fold pl limit. rewrite FS. cbn [bind].
    assert (PA : parse_address_text pl limit "any" = Ok dany).
    { unfold parse_address_text, spelling_of_text. change (String.eqb "any" "any") with true. cbv iota. cbn [bind]. exact Hany. }
    rewrite PA. cbn [bind].
    assert (PP : parse_proto "ip" = Ok 0) by (vm_compute; reflexivity).
    rewrite PP. cbn [bind].
    assert (PC : proto_ctx pl (is15 c) 0 = None) by (destruct Hpl as [-> | ->]; reflexivity).
    rewrite PC. cbn [parse_port bind]. rewrite O3. cbn [bind fst snd].
    assert (Esq : seq_of sqs = sq).
    { unfold sqs, seq_of. destruct (N.eqb sq 0) eqn:Z; [apply N.eqb_eq in Z; now rewrite Z|now rewrite undec_dec]. }
    assert (Eact : String.eqb act "permit" = permit) by (unfold act; destruct permit; reflexivity).
    rewrite Esq, Eact. reflexivity.
  Qed.
End StdFix.
