From V Require Import base.Prelude base.Strs gen.Tables model.Cfg model.Names spec.Reference.

(** * assoc lists *)
Lemma assoc_str_In {A} k (v : A) l : assoc_str k l = Some v -> In (k, v) l.
Proof.
  induction l as [|[k' v'] t IH]; cbn; [discriminate|].
  destruct (String.eqb k k') eqn:E.
  - apply String.eqb_eq in E. intros [= ->]. subst. now left.
  - intros H. right. auto.
Qed.

Lemma assoc_N_In {A} k (v : A) l : assoc_N k l = Some v -> In (k, v) l.
Proof.
  induction l as [|[k' v'] t IH]; cbn; [discriminate|].
  destruct (N.eqb k k') eqn:E.
  - apply N.eqb_eq in E. intros [= ->]. subst. now left.
  - intros H. right. auto.
Qed.

Fixpoint nodup_keys {A} (l : list (string * A)) : bool :=
  match l with
  | [] => true
  | (k, _) :: t => negb (mem_str k (map fst t)) && nodup_keys t
  end.

Lemma assoc_str_nodup {A} (l : list (string * A)) k v :
  nodup_keys l = true -> In (k, v) l -> assoc_str k l = Some v.
Proof.
  induction l as [|[k' v'] t IH]; cbn; [tauto|].
  intros H [E|Hin]; apply andb_prop in H as [H1 H2].
  - inversion E; subst. now rewrite String.eqb_refl.
  - destruct (String.eqb k k') eqn:E.
    + apply String.eqb_eq in E. subst.
      apply negb_true_iff in H1.
      assert (mem_str k' (map fst t) = true) as C.
      { apply mem_str_In. change k' with (fst (k', v)). now apply in_map. }
      congruence.
    + auto.
Qed.

(** * _swap: first name wins *)
Definition first_name (l : list (string * N)) (p : N) : option string :=
  option_map fst (find (fun e => N.eqb (snd e) p) l).

Lemma has_keyN_assoc {A} k (d : list (N * A)) :
  has_keyN k d = true <-> assoc_N k d <> None.
Proof.
  induction d as [|[k' v] t IH]; cbn.
  - split; [discriminate|congruence].
  - rewrite (N.eqb_sym k' k). destruct (N.eqb k k'); cbn.
    + split; [discriminate|auto].
    + exact IH.
Qed.

Lemma assoc_N_app {A} k (d1 d2 : list (N * A)) :
  assoc_N k (d1 ++ d2) = match assoc_N k d1 with Some v => Some v | None => assoc_N k d2 end.
Proof.
  induction d1 as [|[k' v] t IH]; cbn; auto. destruct (N.eqb k k'); auto.
Qed.

Lemma swap_gen l : forall acc p,
  assoc_N p (fold_left (fun acc e => if has_keyN (snd e) acc then acc else acc ++ [(snd e, fst e)]) l acc)
  = match assoc_N p acc with Some nm => Some nm | None => first_name l p end.
Proof.
  induction l as [|[nm q] t IH]; intros acc p; cbn [fold_left].
  - unfold first_name; cbn. now destruct (assoc_N p acc).
  - rewrite IH. cbn [snd fst]. unfold first_name at 2. cbn [find snd].
    destruct (has_keyN q acc) eqn:HK.
    + destruct (assoc_N p acc) eqn:HA; auto.
      destruct (N.eqb q p) eqn:E; auto.
      apply N.eqb_eq in E. subst. apply has_keyN_assoc in HK. congruence.
    + rewrite assoc_N_app. destruct (assoc_N p acc) eqn:HA; auto.
      cbn [assoc_N]. rewrite (N.eqb_sym p q). destruct (N.eqb q p); auto.
Qed.

Lemma swap_lookup l p : assoc_N p (swap l) = first_name l p.
Proof. unfold swap. now rewrite swap_gen. Qed.

Lemma first_name_In l p nm : first_name l p = Some nm -> In (nm, p) l.
Proof.
  unfold first_name. destruct (find _ l) as [[nm' q]|] eqn:F; cbn; [|discriminate].
  intros [= ->]. apply find_some in F as [Hin E]. cbn in E. apply N.eqb_eq in E. now subst.
Qed.

(** * well-formedness facts of a name table, decided by computation *)
Definition table_ok (tbl : list (string * N)) : bool :=
  nodup_keys tbl &&
  forallb (fun e => negb (N.eqb (snd e) 0) && negb (is_digits (fst e)) && str_nonempty (fst e)
                    && N.leb 1 (snd e) && N.leb (snd e) 65535) tbl.

Lemma table_ok_entry tbl nm n :
  table_ok tbl = true -> In (nm, n) tbl ->
  assoc_str nm tbl = Some n /\ n <> 0%N /\ undec nm = None /\ (1 <= n <= 65535)%N.
Proof.
  unfold table_ok. intros H Hin. apply andb_prop in H as [H1 H2].
  rewrite forallb_forall in H2. specialize (H2 _ Hin). cbn [fst snd] in H2.
  repeat (apply andb_prop in H2 as [H2 ?]).
  split; [now apply assoc_str_nodup|].
  split. { apply negb_true_iff in H2. now apply N.eqb_neq. }
  split. { unfold is_digits in *. destruct (undec nm); [discriminate|reflexivity]. }
  split; now apply N.leb_le.
Qed.

Lemma names_table_ok p pl v15 : table_ok (names_table p pl v15) = true.
Proof. destruct p, pl, v15; vm_compute; reflexivity. Qed.

Lemma dec_nonempty n : String.eqb (dec n) "" = false.
Proof.
  destruct (String.eqb (dec n) "") eqn:E; auto.
  apply String.eqb_eq in E. pose proof (undec_dec n) as H. rewrite E in H. discriminate.
Qed.

(** * Ports: rendering then parsing returns the number, for every number *)
Lemma port_item_roundtrip tbl nr n :
  table_ok tbl = true -> parse_port_item tbl (render_port_item nr tbl n) = Ok n.
Proof.
  intros OK. unfold render_port_item, parse_port_item.
  destruct nr; [now rewrite undec_dec|].
  destruct (assoc_N n (swap tbl)) as [nm|] eqn:HA; [|now rewrite undec_dec].
  destruct (str_nonempty nm) eqn:NE; [|now rewrite undec_dec].
  rewrite swap_lookup in HA. apply first_name_In in HA.
  destruct (table_ok_entry _ _ _ OK HA) as (H1 & H2 & H3 & _).
  rewrite H3, H1. apply N.eqb_neq in H2. now rewrite H2.
Qed.

Lemma port_name_accepted tbl nm n :
  table_ok tbl = true -> In (nm, n) tbl -> parse_port_item tbl nm = Ok n.
Proof.
  intros OK Hin. destruct (table_ok_entry _ _ _ OK Hin) as (H1 & H2 & H3 & _).
  unfold parse_port_item. rewrite H3, H1. apply N.eqb_neq in H2. now rewrite H2.
Qed.

(** * agreement with the reference *)
Definition ref_of (p : l4) := match p with Tcp => REF_TCP | Udp => REF_UDP end.

Definition tables_standard : bool :=
  forallb (fun pt => forallb (fun e =>
     match assoc_str (fst e) (ref_of (fst pt)) with Some n => N.eqb n (snd e) | None => false end)
     (snd pt)) all_port_tables.

Lemma tables_standard_ok : tables_standard = true.
Proof. vm_compute. reflexivity. Qed.

Lemma names_table_listed p pl v15 : In (p, names_table p pl v15) all_port_tables.
Proof. destruct p, pl, v15; cbn; tauto. Qed.

Lemma port_standard p tbl nm n :
  In (p, tbl) all_port_tables -> In (nm, n) tbl -> assoc_str nm (ref_of p) = Some n.
Proof.
  intros H1 H2. pose proof tables_standard_ok as T. unfold tables_standard in T.
  rewrite forallb_forall in T. specialize (T _ H1). cbn [fst snd] in T.
  rewrite forallb_forall in T. specialize (T _ H2). cbn [fst snd] in T.
  destruct (assoc_str nm (ref_of p)); [|discriminate]. apply N.eqb_eq in T. now subst.
Qed.

(** * vocabulary *)
Definition KEYWORDS : list string :=
  OPERATORS ++ ["any"; "host"; "object-group"; "addrgroup"] ++ LOGS.

Definition vocab_complete : bool :=
  forallb (fun pt => forallb (fun e => is_known_name (fst e)) (snd pt)) all_port_tables.
Lemma vocab_complete_ok : vocab_complete = true.
Proof. vm_compute. reflexivity. Qed.

Definition vocab_clean : bool :=
  forallb (fun nm => negb (mem_str nm KEYWORDS) && negb (is_digits nm) && str_nonempty nm)
          all_known_names.
Lemma vocab_clean_ok : vocab_clean = true.
Proof. vm_compute. reflexivity. Qed.

Lemma vocab_In p tbl nm n :
  In (p, tbl) all_port_tables -> In (nm, n) tbl -> is_known_name nm = true.
Proof.
  intros H1 H2. pose proof vocab_complete_ok as T. unfold vocab_complete in T.
  rewrite forallb_forall in T. specialize (T _ H1). cbn [snd] in T.
  rewrite forallb_forall in T. now specialize (T _ H2).
Qed.

Lemma vocab_no_collision nm :
  is_known_name nm = true -> ~ In nm KEYWORDS /\ is_digits nm = false /\ nm <> "".
Proof.
  intros H. apply mem_str_In in H. pose proof vocab_clean_ok as T. unfold vocab_clean in T.
  rewrite forallb_forall in T. specialize (T _ H).
  apply andb_prop in T as [T T3]. apply andb_prop in T as [T1 T2].
  apply negb_true_iff in T1, T2. split; [|split].
  - intro C. apply mem_str_In in C. congruence.
  - exact T2.
  - destruct nm as [|a nm']; [cbn in T3; discriminate T3 | intro C; discriminate C].
Qed.

(** * protocols *)
Definition proto_rev_ok (pl : platform) : bool :=
  forallb (fun e => negb (str_nonempty (snd e)) ||
                    (negb (is_digits (snd e)) &&
                     match assoc_str (snd e) PROTOCOLS_ANY with
                     | Some n => N.eqb n (fst e) | None => false end))
          (nr_to_protocol pl).
Lemma proto_rev_ok_all pl : proto_rev_ok pl = true.
Proof. destruct pl; vm_compute; reflexivity. Qed.

Lemma proto_roundtrip pl nr hp n :
  (n <= 255)%N -> parse_proto (render_proto pl nr hp n) = Ok n.
Proof.
  intros Hn. unfold render_proto.
  assert (D : parse_proto (dec n) = Ok n).
  { unfold parse_proto. rewrite dec_nonempty, undec_dec. apply N.leb_le in Hn. now rewrite Hn. }
  destruct (nr && negb hp); [exact D|].
  destruct (str_nonempty (proto_name pl n)) eqn:NE; [|exact D].
  unfold proto_name in *. destruct (assoc_N n (nr_to_protocol pl)) as [s|] eqn:HA; [|discriminate].
  apply assoc_N_In in HA. pose proof (proto_rev_ok_all pl) as T. unfold proto_rev_ok in T.
  rewrite forallb_forall in T. specialize (T _ HA). cbn [fst snd] in T.
  rewrite NE in T. cbn [negb orb] in T. apply andb_prop in T as [T1 T2].
  unfold parse_proto. destruct (String.eqb s "") eqn:E.
  { apply String.eqb_eq in E. subst. cbn in NE. discriminate NE. }
  unfold is_digits in T1. destruct (undec s); [cbn in T1; discriminate T1|].
  destruct (assoc_str s PROTOCOLS_ANY) as [m|]; [|discriminate T2].
  apply N.eqb_eq in T2. now subst.
Qed.

Definition all_proto_tables := [PROTOCOLS_ASA; PROTOCOLS_IOS; PROTOCOLS_NXOS; PROTOCOLS_ANY].

Definition proto_tables_ok : bool :=
  forallb (fun tbl => forallb (fun e =>
     match assoc_str (fst e) REF_PROTO with Some n => N.eqb n (snd e) | None => false end
     && N.leb (snd e) 255
     && match parse_proto (fst e) with Ok n => N.eqb n (snd e) | _ => false end) tbl)
   all_proto_tables.
Lemma proto_tables_ok_true : proto_tables_ok = true.
Proof. vm_compute. reflexivity. Qed.

Lemma proto_entry tbl nm n :
  In tbl all_proto_tables -> In (nm, n) tbl ->
  assoc_str nm REF_PROTO = Some n /\ (n <= 255)%N /\ parse_proto nm = Ok n.
Proof.
  intros H1 H2. pose proof proto_tables_ok_true as T. unfold proto_tables_ok in T.
  rewrite forallb_forall in T. specialize (T _ H1).
  rewrite forallb_forall in T. specialize (T _ H2). cbn [fst snd] in T.
  apply andb_prop in T as [T T3]. apply andb_prop in T as [T1 T2].
  destruct (assoc_str nm REF_PROTO); [|discriminate]. apply N.eqb_eq in T1.
  destruct (parse_proto nm); try discriminate. apply N.eqb_eq in T3. apply N.leb_le in T2.
  subst. auto.
Qed.

Lemma proto_table_listed pl : In (proto_table pl) all_proto_tables.
Proof. destruct pl; cbn; tauto. Qed.
