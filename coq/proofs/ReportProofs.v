(** C11, ACL-level report: [shading] lists each ACE that some earlier ACE shadows exactly once,
    under the first such earlier ACE, and lists nothing else - for ACE lists with pairwise
    distinct lines ("same text => same entry", DESIGN section 5). *)
From V Require Import base.Prelude base.Strs model.Shading.
From Coq Require Import Permutation.

Section Report.
  Variable A : Type.
  Variable sh : A -> A -> bool.
  Notation ace := (string * A)%type.

  (** [v] is listed under [k] *)
  Definition InD (k v : string) (d : dict) : Prop := exists vs, In (k, vs) d /\ In v vs.
  Definition values (d : dict) : list string := flat_map snd d.

  Lemma InD_values v d : In v (values d) <-> exists k, InD k v d.
  Proof.
    unfold values, InD. rewrite in_flat_map. split.
    - intros ([k vs] & H1 & H2). exists k, vs. auto.
    - intros (k & vs & H1 & H2). exists (k, vs). auto.
  Qed.

  Lemma InD_append k v d k' v' :
    InD k' v' (dict_append k v d) <-> (k' = k /\ v' = v) \/ InD k' v' d.
  Proof.
    induction d as [|[k0 vs0] t IH]; cbn [dict_append].
    - unfold InD. split.
      + intros (vs & [E|[]] & Hv). injection E as <- <-. destruct Hv as [<-|[]]. now left.
      + intros [[-> ->]|(vs & [] & _)]. exists [v]. split; now left.
    - destruct (String.eqb k k0) eqn:E.
      + apply String.eqb_eq in E. subst k0. unfold InD. split.
        * intros (vs & [Eq|Hin] & Hv).
          -- injection Eq as <- <-. apply in_app_or in Hv as [Hv|[<-|[]]].
             ++ right. exists vs0. split; [now left|auto].
             ++ now left.
          -- right. exists vs. split; [now right|auto].
        * intros [[-> ->]|(vs & [Eq|Hin] & Hv)].
          -- exists (vs0 ++ [v]). split; [now left|apply in_or_app; right; now left].
          -- injection Eq as <- <-. exists (vs0 ++ [v]). split; [now left|apply in_or_app; now left].
          -- exists vs. split; [now right|auto].
      + unfold InD in *. split.
        * intros (vs & [Eq|Hin] & Hv).
          -- injection Eq as <- <-. right. exists vs0. split; [now left|auto].
          -- destruct (proj1 IH (ex_intro _ vs (conj Hin Hv))) as [H|(vs' & H1 & H2)]; [now left|].
             right. exists vs'. split; [now right|auto].
        * intros [H|(vs & [Eq|Hin] & Hv)].
          -- destruct (proj2 IH (or_introl H)) as (vs & H1 & H2). exists vs. split; [now right|auto].
          -- injection Eq as <- <-. exists vs0. split; [now left|auto].
          -- destruct (proj2 IH (or_intror (ex_intro _ vs (conj Hin Hv)))) as (vs' & H1 & H2).
             exists vs'. split; [now right|auto].
  Qed.

  Lemma values_append_perm k v d : Permutation (values (dict_append k v d)) (v :: values d).
  Proof.
    induction d as [|[k0 vs0] t IH]; cbn [dict_append values flat_map snd].
    - reflexivity.
    - destruct (String.eqb k k0); cbn [values flat_map snd].
      + rewrite <- app_assoc. cbn [app]. symmetry. apply Permutation_middle.
      + fold (values (dict_append k v t)) (values t). rewrite IH. symmetry. apply Permutation_middle.
  Qed.

  Lemma set_add_In x y s : In x (set_add y s) <-> x = y \/ In x s.
  Proof.
    unfold set_add. destruct (mem_str y s) eqn:E.
    - apply mem_str_In in E. split; [tauto|intros [->|H]; auto].
    - cbn [In]. split; intros [H|H]; auto.
  Qed.

  (** * the inner loop: one top ACE against the ACEs below it *)
  Lemma inner_spec top : forall bots d shadow,
    NoDup (map fst bots) ->
    (forall v, In v shadow <-> In v (values d)) -> NoDup (values d) ->
    let r := shading_inner A sh top bots d shadow in
    (forall k v, InD k v (fst r) <->
       InD k v d \/ (k = fst top /\ exists bot, In bot bots /\ fst bot = v /\ sh (snd bot) (snd top) = true /\ ~ In v shadow))
    /\ (forall v, In v (snd r) <-> In v (values (fst r)))
    /\ NoDup (values (fst r)).
  Proof.
    induction bots as [|bt rest IH]; intros d shadow ND SV NV; cbn [shading_inner].
    - cbn [fst snd]. split; [|split; auto]. intros k v. split; [now left|].
      intros [H|(_ & bot & [] & _)]. exact H.
    - cbn [map] in ND. apply NoDup_cons_iff in ND as [Hbt ND'].
      destruct (sh (snd bt) (snd top)) eqn:E.
      + set (d1 := if mem_str (fst bt) shadow then d else dict_append (fst top) (fst bt) d).
        set (s1 := set_add (fst bt) shadow).
        assert (SV1 : forall v, In v s1 <-> In v (values d1)).
        { intros v. unfold s1, d1. rewrite set_add_In. destruct (mem_str (fst bt) shadow) eqn:M.
          - apply mem_str_In in M. rewrite <- SV. split; [intros [->|H]; auto|tauto].
          - rewrite (Permutation_in' eq_refl (values_append_perm _ _ _)). cbn [In]. rewrite SV. split; intros [H|H]; auto. }
        assert (NV1 : NoDup (values d1)).
        { unfold d1. destruct (mem_str (fst bt) shadow) eqn:M; [exact NV|].
          apply (Permutation_NoDup (Permutation_sym (values_append_perm _ _ _))). constructor; [|exact NV].
          rewrite <- SV. intro C. apply mem_str_In in C. congruence. }
        destruct (IH d1 s1 ND' SV1 NV1) as (I1 & I2 & I3). split; [|split; auto].
        intros k v. rewrite I1. split.
        * intros [H|(-> & bot & Hb & Hv & Hs & Hn)].
          -- unfold d1 in H. destruct (mem_str (fst bt) shadow) eqn:M; [now left|].
             apply InD_append in H as [[-> ->]|H]; [|now left]. right. split; [reflexivity|].
             exists bt. split; [now left|]. split; [reflexivity|]. split; [exact E|].
             intro C. apply mem_str_In in C. congruence.
          -- right. split; [reflexivity|]. exists bot. split; [now right|]. split; [exact Hv|]. split; [exact Hs|].
             intro C. apply Hn. unfold s1. apply set_add_In. now right.
        * intros [H|(-> & bot & [<-|Hb] & Hv & Hs & Hn)].
          -- left. unfold d1. destruct (mem_str (fst bt) shadow); [exact H|]. apply InD_append. now right.
          -- left. unfold d1. destruct (mem_str (fst bt) shadow) eqn:M.
             ++ apply mem_str_In in M. subst v. contradiction.
             ++ apply InD_append. left. auto.
          -- right. split; [reflexivity|]. exists bot. split; [exact Hb|]. split; [exact Hv|]. split; [exact Hs|].
             unfold s1. rewrite set_add_In. intros [C|C]; [|contradiction].
             apply Hbt. rewrite <- C, <- Hv. now apply in_map.
      + destruct (IH d shadow ND' SV NV) as (I1 & I2 & I3). split; [|split; auto].
        intros k v. rewrite I1. split.
        * intros [H|(-> & bot & Hb & R)]; [now left|]. right. split; [reflexivity|]. exists bot. split; [now right|exact R].
        * intros [H|(-> & bot & [<-|Hb] & Hv & Hs & Hn)]; [now left|congruence|].
          right. split; [reflexivity|]. exists bot. auto.
  Qed.

  (** * the relation the report must describe *)
  (** in [L], [top] stands before [bot], shadows it, and no ACE before [top] does *)
  Definition first_shader (L : list ace) (top bot : ace) : Prop :=
    exists l1 l2 l3, L = l1 ++ top :: l2 ++ bot :: l3 /\ sh (snd bot) (snd top) = true
                     /\ forall t', In t' l1 -> sh (snd bot) (snd t') = false.

  Lemma find_first (p : ace -> bool) : forall l,
    (exists x, In x l /\ p x = true) ->
    exists l1 x l2, l = l1 ++ x :: l2 /\ p x = true /\ forall y, In y l1 -> p y = false.
  Proof.
    induction l as [|a l IH]; intros (x & Hx & Px); [destruct Hx|].
    destruct (p a) eqn:E.
    - exists [], a, l. split; [reflexivity|]. split; [exact E|]. intros y [].
    - destruct Hx as [->|Hx]; [congruence|].
      destruct (IH (ex_intro _ x (conj Hx Px))) as (l1 & y & l2 & -> & Py & F).
      exists (a :: l1), y, l2. split; [reflexivity|]. split; [exact Py|].
      intros z [<-|Hz]; auto.
  Qed.

  (** with distinct lines a line determines the ACE and its position *)
  Lemma unique_split (L : list ace) : NoDup (map fst L) ->
    forall a1 b1 x1 a2 b2 x2, L = a1 ++ x1 :: b1 -> L = a2 ++ x2 :: b2 -> fst x1 = fst x2 ->
    a1 = a2 /\ x1 = x2 /\ b1 = b2.
  Proof.
    intros ND a1. revert L ND. induction a1 as [|y a1 IH]; intros L ND b1 x1 a2 b2 x2 E1 E2 F.
    - destruct a2 as [|z a2].
      + cbn in E1, E2. rewrite E1 in E2. injection E2 as -> ->. auto.
      + exfalso. cbn in E1, E2. rewrite E1 in E2. injection E2 as -> E2.
        rewrite E1 in ND. cbn in ND. apply NoDup_cons_iff in ND as [Hn _]. apply Hn.
        rewrite E2, map_app. apply in_or_app. right. cbn. left. now symmetry.
    - destruct a2 as [|z a2].
      + exfalso. cbn in E1, E2. rewrite E2 in E1. injection E1 as -> E1.
        rewrite E2 in ND. cbn in ND. apply NoDup_cons_iff in ND as [Hn _]. apply Hn.
        rewrite E1, map_app. apply in_or_app. right. cbn. now left.
      + cbn in E1, E2. assert (E3 : y = z /\ a1 ++ x1 :: b1 = a2 ++ x2 :: b2).
        { rewrite E1 in E2. injection E2 as -> E2. auto. }
        destruct E3 as [-> E3]. rewrite E1 in ND. cbn in ND. apply NoDup_cons_iff in ND as [_ ND'].
        destruct (IH _ ND' b1 x1 a2 b2 x2 eq_refl E3 F) as (-> & -> & ->). auto.
  Qed.

  Lemma NoDup_app_r {T} (a b : list T) : NoDup (a ++ b) -> NoDup b.
  Proof. induction a as [|x a IH]; cbn; [auto|]. intros H. apply NoDup_cons_iff in H as [_ H]. auto. Qed.

  (** * the outer loop *)
  Definition Inv (L pre : list ace) (d : dict) (shadow : list string) : Prop :=
    (forall k v, InD k v d <->
       exists top bot, fst top = k /\ fst bot = v /\ In top pre /\ first_shader L top bot)
    /\ (forall v, In v shadow <-> In v (values d)) /\ NoDup (values d).

  Lemma outer_spec L : NoDup (map fst L) -> forall rest pre d shadow,
    L = pre ++ rest -> Inv L pre d shadow ->
    let r := shading_outer A sh rest d shadow in
    (forall k v, InD k v r <-> exists top bot, fst top = k /\ fst bot = v /\ first_shader L top bot)
    /\ NoDup (values r).
  Proof.
    intros ND. induction rest as [|top rest IH]; intros pre d shadow EL (I1 & I2 & I3); cbn [shading_outer].
    - rewrite app_nil_r in EL. subst pre. split; [|exact I3]. intros k v. rewrite I1. split.
      + intros (t & b & H1 & H2 & _ & H3). exists t, b. auto.
      + intros (t & b & H1 & H2 & H3). exists t, b. split; auto. split; auto. split; auto.
        destruct H3 as (l1 & l2 & l3 & -> & _). apply in_or_app. right. now left.
    - assert (NDr : NoDup (map fst rest)).
      { rewrite EL, map_app in ND. apply NoDup_app_r in ND. cbn in ND. now apply NoDup_cons_iff in ND. }
      destruct (inner_spec top rest d shadow NDr I2 I3) as (J1 & J2 & J3).
      set (r := shading_inner A sh top rest d shadow) in *.
      apply (IH (pre ++ [top]) (fst r) (snd r)); [now rewrite <- app_assoc|].
      split; [|split; auto]. intros k v. rewrite J1, I1. split.
      + intros [(t & b & H1 & H2 & H3 & H4)|(-> & bot & Hb & Hv & Hs & Hn)].
        * exists t, b. repeat split; auto. apply in_or_app. now left.
        * exists top, bot. split; [reflexivity|]. split; [exact Hv|]. split; [apply in_or_app; right; now left|].
          apply in_split in Hb as (l2 & l3 & ->). exists pre, l2, l3. split; [exact EL|]. split; [exact Hs|].
          (* no earlier ACE shadows bot: otherwise its line would already be listed *)
          intros t' Ht'. destruct (sh (snd bot) (snd t')) eqn:C; [|reflexivity]. exfalso. apply Hn.
          apply I2. apply InD_values.
          destruct (find_first (fun t => sh (snd bot) (snd t)) pre (ex_intro _ t' (conj Ht' C)))
            as (p1 & t0 & p2 & -> & P0 & F0).
          exists (fst t0). apply I1. exists t0, bot. split; [reflexivity|]. split; [exact Hv|].
          split; [apply in_or_app; right; now left|].
          exists p1, (p2 ++ top :: l2), l3. split; [|split; [exact P0|exact F0]].
          rewrite EL. rewrite <- app_assoc. cbn [app]. rewrite <- app_assoc. reflexivity.
      + intros (t & b & H1 & H2 & H3 & H4). apply in_app_or in H3 as [H3|[Et|[]]].
        * left. exists t, b. auto.
        * right. subst t. split; [now symmetry|].
          destruct H4 as (l1 & l2 & l3 & E4 & Hs & F).
          (* the position of top in L is fixed by its line *)
          destruct (unique_split L ND pre rest top l1 (l2 ++ b :: l3) top) as (-> & _ & Er); auto.
          exists b. split; [rewrite Er; apply in_or_app; right; now left|]. split; [exact H2|]. split; [exact Hs|].
          intro C. apply I2 in C. apply InD_values in C as (k0 & C). apply I1 in C as (t0 & b0 & _ & Hb0 & Ht0 & F0).
          destruct F0 as (m1 & m2 & m3 & E0 & Hs0 & _).
          (* b0 is b (same line), and t0 stands in pre: it shadows b, contradicting F *)
          assert (Eb : b0 = b /\ m1 ++ t0 :: m2 = l1 ++ top :: l2).
          { destruct (unique_split L ND (m1 ++ t0 :: m2) m3 b0 (l1 ++ top :: l2) l3 b) as (E5 & E6 & _).
            - rewrite E0, <- app_assoc. reflexivity.
            - rewrite E4, <- app_assoc. reflexivity.
            - congruence.
            - auto. }
          destruct Eb as [-> Epos].
          assert (Hin : In t0 l1).
          { apply in_split in Ht0 as (q1 & q2 & Eq). subst l1.
            apply in_or_app. right. now left. }
          rewrite (F t0 Hin) in Hs0. discriminate.
  Qed.

  Theorem shading_spec (items : list (item A)) :
    NoDup (map fst (aces_of items)) ->
    (forall k v, InD k v (shading sh items) <->
       exists top bot, fst top = k /\ fst bot = v /\ first_shader (aces_of items) top bot)
    /\ NoDup (values (shading sh items)).
  Proof.
    intros ND. unfold shading.
    apply (outer_spec (aces_of items) ND (aces_of items) [] [] []); [reflexivity|].
    split; [|split].
    - intros k v. split.
      + intros (vs & [] & _).
      + intros (t & b & _ & _ & [] & _).
    - intros v. split; intros [].
    - constructor.
  Qed.
End Report.
