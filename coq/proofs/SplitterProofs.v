(** C01 / C06: the token-level regex splitter on canonical lines.
    A canonical line is what the renderer writes: [sequence] action protocol SRC [source port
    tokens] DST [destination port and option tokens], where SRC / DST are addresses in one of the
    native spellings (any, host A, A/len, A W with dotted addresses as rendered, or a group
    reference) and every other token is "address free" (no regex alternative of an address can
    start at it: port names, operators, log keywords, TCP flags - [vocabulary_address_free] - and
    numbers).  On such a line the splitter finds exactly these fields. *)
From V Require Import base.Prelude base.Strs gen.Tables model.Cfg model.Names model.Wildcard
  model.Addr model.Ports model.Ace model.Lex model.AddrText model.AceText proofs.TextProofs.
Local Open Scope N_scope.

(** * canonical addresses *)
Inductive addr_toks : list string -> string -> Prop :=
| AT_any : addr_toks ["any"] "any"
| AT_host x : addr_toks ["host"; render_ip x] ("host " ++ render_ip x)
| AT_group kw name : kw = "object-group" \/ kw = "addrgroup" -> addr_toks [kw; name] (kw ++ " " ++ name)
| AT_prefix x len : addr_toks [(render_ip x ++ "/" ++ dec len)%string] (render_ip x ++ "/" ++ dec len)
| AT_wild x m : addr_toks [render_ip x; render_ip m] (render_ip x ++ " " ++ render_ip m).

(** a token that starts with a digit is none of the keywords *)
Lemma digit_first_not_kw t : first_is_digit t = true ->
  starts_with "any" t = false /\ String.eqb t "any" = false /\ String.eqb t "host" = false
  /\ String.eqb t "object-group" = false /\ String.eqb t "addrgroup" = false.
Proof.
  destruct t as [|c r]; [discriminate|]. cbn [first_is_digit]. intros H.
  assert (Ea : Ascii.eqb "a" c = false /\ Ascii.eqb c "a" = false /\ Ascii.eqb c "h" = false /\ Ascii.eqb c "o" = false).
  { destruct c as [[] [] [] [] [] [] [] []]; cbn in H; try discriminate; repeat split; reflexivity. }
  destruct Ea as (A1 & A2 & A3 & A4). cbn [starts_with String.eqb]. rewrite A1, A2, A3, A4. repeat split; reflexivity.
Qed.

Lemma octets_prefix_render_app n ch r : is_digit ch = false ->
  octets_prefix (render_ip n ++ String ch r) = Some (render_ip n, String ch r).
Proof.
  intros Hch. unfold render_ip.
  set (a := dec (n / 16777216 mod 256)). set (b := dec (n / 65536 mod 256)).
  set (c := dec (n / 256 mod 256)). set (d := dec (n mod 256)).
  destruct (octet_digits (n / 16777216 mod 256)) as [Da Na]; [apply N.mod_lt; lia|].
  destruct (octet_digits (n / 65536 mod 256)) as [Db Nb]; [apply N.mod_lt; lia|].
  destruct (octet_digits (n / 256 mod 256)) as [Dc Nc]; [apply N.mod_lt; lia|].
  destruct (octet_digits (n mod 256)) as [Dd Nd]; [apply N.mod_lt; lia|].
  fold a in Da, Na. fold b in Db, Nb. fold c in Dc, Nc. fold d in Dd, Nd.
  unfold octets_prefix.
  replace ((a ++ "." ++ b ++ "." ++ c ++ "." ++ d) ++ String ch r)%string
    with (a ++ String "." (b ++ String "." (c ++ String "." (d ++ String ch r))))%string
    by (rewrite !append_assoc_s; reflexivity).
  rewrite (take_digits_app a "." _ Da eq_refl). cbn [fst snd].
  destruct a as [|a0 a']; [congruence|].
  rewrite (take_digits_app b "." _ Db eq_refl). cbn [fst snd].
  destruct b as [|b0 b']; [congruence|].
  rewrite (take_digits_app c "." _ Dc eq_refl). cbn [fst snd].
  destruct c as [|c0 c']; [congruence|].
  rewrite (take_digits_app d ch r Dd Hch). cbn [fst snd].
  destruct d as [|d0 d']; [congruence|]. reflexivity.
Qed.

Lemma digits_no_char ch s : is_digit ch = false -> all_chars is_digit s = true -> no_char ch s = true.
Proof.
  intros Hc. induction s as [|c s IH]; cbn; auto. intros E. apply andb_prop in E as [E1 E2].
  rewrite (IH E2), andb_true_r. destruct (Ascii.eqb c ch) eqn:Q; auto. apply Ascii.eqb_eq in Q. congruence.
Qed.

Lemma is_octets_render n : is_octets (render_ip n) = true.
Proof.
  unfold is_octets, render_ip, split_char.
  assert (D : forall m, m < 256 -> no_char "." (dec m) = true).
  { intros m Hm. apply digits_no_char; [reflexivity|]. now apply octet_digits. }
  change (dec (n / 16777216 mod 256) ++ "." ++ dec (n / 65536 mod 256) ++ "." ++ dec (n / 256 mod 256) ++ "." ++ dec (n mod 256))%string
    with (dec (n / 16777216 mod 256) ++ String "." (dec (n / 65536 mod 256) ++ String "." (dec (n / 256 mod 256) ++ String "." (dec (n mod 256)))))%string.
  rewrite !(split_char_aux_nodot "." _ (D _ ltac:(apply N.mod_lt; lia))).
  rewrite (split_char_aux_last "." _ (D _ ltac:(apply N.mod_lt; lia))). cbn [append].
  unfold is_digits. now rewrite !undec_dec.
Qed.

Lemma render_first_digit_app n s : first_is_digit (render_ip n ++ s) = true.
Proof. apply first_is_digit_app, render_ip_first. Qed.

(** the source address (anchored, must end at a token boundary) *)
Lemma addr_whole_canon A txt rest : addr_toks A txt -> addr_whole (A ++ rest) = Some (txt, rest).
Proof.
  intros H. destruct H as [|x|kw name Hk|x len|x m]; cbn [app addr_whole].
  - reflexivity.
  - change (String.eqb "host" "any") with false. change (String.eqb "host" "host") with true. cbn iota.
    now rewrite is_octets_render.
  - destruct Hk as [-> | ->]; reflexivity.
  - destruct (digit_first_not_kw _ (render_first_digit_app x ("/" ++ dec len))) as (_ & E1 & E2 & E3 & E4).
    rewrite E1, E2, E3, E4. cbn [orb].
    assert (P : is_prefix_token (render_ip x ++ "/" ++ dec len) = true).
    { unfold is_prefix_token. change (render_ip x ++ "/" ++ dec len)%string with (render_ip x ++ String "/" (dec len))%string.
      rewrite (octets_prefix_render_app x "/" (dec len) eq_refl).
      assert (DL : all_chars is_digit (dec len) = true /\ dec len <> ""%string).
      { pose proof (undec_dec len) as U. assert (I : is_digits (dec len) = true) by (unfold is_digits; now rewrite U).
        destruct (is_digits_chars _ I). auto. }
      destruct DL as [DL NE]. rewrite (take_digits_all _ DL). cbn [fst snd].
      destruct (dec len); [congruence|reflexivity]. }
    now rewrite P.
  - destruct (digit_first_not_kw _ (render_ip_first x)) as (_ & E1 & E2 & E3 & E4).
    rewrite E1, E2, E3, E4. cbn [orb].
    assert (P : is_prefix_token (render_ip x) = false).
    { unfold is_prefix_token. now rewrite octets_prefix_render. }
    rewrite P, !is_octets_render. reflexivity.
Qed.

(** * the destination (rightmost match) *)
Definition af (t : string) : Prop := address_free t = true.

Lemma af_not_kw t : af t -> after_group_kw t = false.
Proof.
  unfold af, address_free, after_group_kw. intros H.
  apply andb_prop in H as [H _]. apply andb_prop in H as [H H4]. apply andb_prop in H as [_ H3].
  apply negb_true_iff in H3, H4. now rewrite H3, H4.
Qed.

Lemma af_no_octets t : af t -> octets_prefix t = None.
Proof.
  unfold af, address_free. intros H. apply andb_prop in H as [_ H].
  destruct (octets_prefix t); [discriminate|reflexivity].
Qed.

(** nothing after the destination can be taken for a destination *)
Lemma find_dst_none : forall T prev before, Forall af T -> find_dst prev before T = None.
Proof.
  induction T as [|t T IH]; intros prev before F; cbn [find_dst]; [reflexivity|].
  inversion F as [|? ? Ht FT]; subst. rewrite (IH t (before ++ [t]) FT).
  destruct (after_group_kw prev); [reflexivity|]. now rewrite (address_free_no_dst t T Ht).
Qed.

(** a dotted address followed by address-free tokens does not start a destination *)
Lemma ip_alone_no_dst x T : Forall af T -> addr_loose false (render_ip x :: T) = None.
Proof.
  intros F. unfold addr_loose.
  destruct (digit_first_not_kw _ (render_ip_first x)) as (E0 & _ & E2 & E3 & E4).
  rewrite E0, E2, E3, E4. cbn [orb]. rewrite octets_prefix_render.
  destruct T as [|t1 r]; [reflexivity|]. inversion F as [|? ? Ht _]; subst. now rewrite (af_no_octets t1 Ht).
Qed.

Lemma addr_loose_canon D txt T : addr_toks D txt -> Forall af T ->
  addr_loose false (D ++ T) = Some (txt, Some T).
Proof.
  intros H F. destruct H as [|x|kw name Hk|x len|x m]; cbn [app]; unfold addr_loose.
  - reflexivity.
  - change (starts_with "any" "host") with false. change (String.eqb "host" "host") with true. cbn iota.
    now rewrite octets_prefix_render.
  - destruct Hk as [-> | ->]; reflexivity.
  - destruct (digit_first_not_kw _ (render_first_digit_app x ("/" ++ dec len))) as (E0 & _ & E2 & E3 & E4).
    rewrite E0, E2, E3, E4. cbn [orb].
    change (render_ip x ++ "/" ++ dec len)%string with (render_ip x ++ String "/" (dec len))%string.
    rewrite (octets_prefix_render_app x "/" (dec len) eq_refl).
    assert (DL : all_chars is_digit (dec len) = true /\ dec len <> ""%string).
    { pose proof (undec_dec len) as U. assert (I : is_digits (dec len) = true) by (unfold is_digits; now rewrite U).
      destruct (is_digits_chars _ I). auto. }
    destruct DL as [DL NE]. rewrite (take_digits_all _ DL). cbn [fst snd].
    destruct (dec len) as [|c0 r0] eqn:EL; [congruence|]. reflexivity.
  - destruct (digit_first_not_kw _ (render_ip_first x)) as (E0 & _ & E2 & E3 & E4).
    rewrite E0, E2, E3, E4. cbn [orb]. now rewrite !octets_prefix_render.
Qed.

(** the destination itself: found at its first token, not inside it *)
Lemma find_dst_at D txt T prev before :
  addr_toks D txt -> Forall af T -> after_group_kw prev = false ->
  find_dst prev before (D ++ T) = Some (before, txt, Some T).
Proof.
  intros H F P. pose proof (addr_loose_canon D txt T H F) as AL.
  destruct H as [|x|kw name Hk|x len|x m]; cbn [app] in *; cbn [find_dst].
  - rewrite (find_dst_none T _ _ F), P. now rewrite AL.
  - rewrite (find_dst_none T _ _ F). change (after_group_kw "host") with false.
    rewrite (ip_alone_no_dst x T F), P. now rewrite AL.
  - rewrite (find_dst_none T _ _ F).
    assert (K : after_group_kw kw = true) by (destruct Hk as [-> | ->]; reflexivity).
    rewrite K, P. now rewrite AL.
  - rewrite (find_dst_none T _ _ F), P. now rewrite AL.
  - rewrite (find_dst_none T _ _ F).
    assert (K : after_group_kw (render_ip x) = false).
    { destruct (digit_first_not_kw _ (render_ip_first x)) as (_ & _ & _ & E3 & E4). unfold after_group_kw. now rewrite E3, E4. }
    rewrite K, (ip_alone_no_dst m T F), P. now rewrite AL.
Qed.

Lemma last_default {T} (l : list T) a d1 d2 : last (a :: l) d1 = last (a :: l) d2.
Proof. revert a. induction l as [|b l IH]; intros a; [reflexivity|]. cbn [last] in *. apply IH. Qed.

(** ... also behind any number of address-free tokens (the source port) *)
Lemma find_dst_canon : forall X D txt T prev before,
  Forall af X -> addr_toks D txt -> Forall af T ->
  after_group_kw (last X prev) = false ->
  find_dst prev before (X ++ D ++ T) = Some (before ++ X, txt, Some T).
Proof.
  induction X as [|x X IH]; intros D txt T prev before FX HD FT P.
  - cbn [app]. rewrite app_nil_r. now apply find_dst_at.
  - inversion FX as [|? ? Hx FX']; subst. cbn [app find_dst].
    rewrite (IH D txt T x (before ++ [x]) FX' HD FT).
    + now rewrite <- app_assoc.
    + destruct X as [|x2 X2]; [cbn; now apply af_not_kw|]. rewrite (last_default X2 x2 x prev). exact P.
Qed.

(** * sequence number and action *)
Definition is_action (act : string) : Prop := act = "permit" \/ act = "deny".

Lemma split_head_plain act rest : is_action act -> split_head (act :: rest) = Some (""%string, act, rest).
Proof. intros [-> | ->]; reflexivity. Qed.

Lemma split_head_seq n act rest : is_action act ->
  split_head (dec n :: act :: rest) = Some (dec n, act, rest).
Proof.
  intros A. unfold split_head.
  assert (DL : all_chars is_digit (dec n) = true /\ dec n <> ""%string).
  { pose proof (undec_dec n) as U. assert (I : is_digits (dec n) = true) by (unfold is_digits; now rewrite U).
    destruct (is_digits_chars _ I). auto. }
  destruct DL as [DL NE]. rewrite (take_digits_all _ DL). cbn [fst snd].
  change (String.eqb "" "permit") with false. change (String.eqb "" "deny") with false. cbn [orb].
  destruct (dec n) as [|c0 r0] eqn:E; [congruence|]. cbn [str_nonempty negb andb].
  destruct A as [-> | ->]; reflexivity.
Qed.

(** * the whole line *)
Definition nws (c : ascii) : bool := negb (is_ws c).
Definition token (s : string) : Prop := all_chars nws s = true /\ s <> ""%string.

Lemma split_ws_aux_tok s : all_chars nws s = true ->
  forall cur rest, split_ws_aux (s ++ String " " rest) cur =
                   (if str_nonempty (cur ++ s) then [(cur ++ s)%string] else []) ++ split_ws_aux rest "".
Proof.
  induction s as [|c s IH]; intros H cur rest; cbn [append split_ws_aux].
  - change (is_ws " ") with true. rewrite append_empty_r. destruct (str_nonempty cur); reflexivity.
  - cbn [all_chars] in H. apply andb_prop in H as [H1 H2]. unfold nws in H1. apply negb_true_iff in H1. rewrite H1.
    rewrite (IH H2). now rewrite append_assoc_s.
Qed.

Lemma split_ws_aux_end s : all_chars nws s = true ->
  forall cur, split_ws_aux s cur = if str_nonempty (cur ++ s) then [(cur ++ s)%string] else [].
Proof.
  induction s as [|c s IH]; intros H cur; cbn [split_ws_aux].
  - now rewrite append_empty_r.
  - cbn [all_chars] in H. apply andb_prop in H as [H1 H2]. unfold nws in H1. apply negb_true_iff in H1. rewrite H1.
    rewrite (IH H2). now rewrite append_assoc_s.
Qed.

Lemma nonempty_true s : s <> ""%string -> str_nonempty s = true.
Proof. destruct s; [congruence|reflexivity]. Qed.

Lemma split_ws_one s : token s -> split_ws s = [s].
Proof. intros [H N]. unfold split_ws. rewrite (split_ws_aux_end s H ""). cbn [append]. now rewrite nonempty_true. Qed.

Lemma split_ws_two a b : token a -> token b -> split_ws (a ++ " " ++ b) = [a; b].
Proof.
  intros [Ha Na] [Hb Nb]. unfold split_ws. change (a ++ " " ++ b)%string with (a ++ String " " b)%string.
  rewrite (split_ws_aux_tok a Ha "" b), (split_ws_aux_end b Hb ""). cbn [append]. now rewrite !nonempty_true.
Qed.

Lemma render_ip_token x : token (render_ip x).
Proof.
  split.
  - apply (all_chars_weaken dd); [|apply render_ip_dd]. intros c Hc. unfold nws. now rewrite (dd_not_ws c Hc).
  - pose proof (render_ip_nonempty x) as N. destruct (render_ip x); [discriminate|congruence].
Qed.

(** the token standing before the destination when there is no source port: the last token of
    the source address; it is a group keyword only for a group that is itself NAMED like the
    keyword, which we exclude *)
Lemma src_last_ok A txt : addr_toks A txt ->
  (forall kw name, A = [kw; name] -> (kw = "object-group" \/ kw = "addrgroup") -> token name /\ after_group_kw name = false) ->
  after_group_kw (last (split_ws txt) "") = false.
Proof.
  intros H G. destruct H as [|x|kw name Hk|x len|x m].
  - reflexivity.
  - assert (T : token "host") by (split; [reflexivity|discriminate]).
    change ("host " ++ render_ip x)%string with ("host" ++ " " ++ render_ip x)%string.
    rewrite (split_ws_two "host" (render_ip x) T (render_ip_token x)). cbn [last].
    destruct (digit_first_not_kw _ (render_ip_first x)) as (_ & _ & _ & E3 & E4). unfold after_group_kw. now rewrite E3, E4.
  - destruct (G kw name eq_refl Hk) as [Tn Kn].
    assert (T : token kw) by (destruct Hk as [-> | ->]; split; [reflexivity|discriminate|reflexivity|discriminate]).
    rewrite (split_ws_two kw name T Tn). exact Kn.
  - assert (T : token (render_ip x ++ "/" ++ dec len)).
    { split.
      - rewrite !all_chars_app. destruct (render_ip_token x) as [R _]. rewrite R. cbn [all_chars andb].
        change (nws "/") with true. cbn [andb].
        pose proof (undec_dec len) as U. assert (I : is_digits (dec len) = true) by (unfold is_digits; now rewrite U).
        destruct (is_digits_chars _ I) as [_ D]. apply (all_chars_weaken is_digit); [|exact D].
        intros c Hc. assert (Hd : dd c = true) by (unfold dd; now rewrite Hc).
        unfold nws. now rewrite (dd_not_ws c Hd).
      - pose proof (render_first_digit_app x ("/" ++ dec len)) as F. destruct (render_ip x ++ "/" ++ dec len)%string; [discriminate|congruence]. }
    rewrite (split_ws_one _ T). cbn [last].
    destruct (digit_first_not_kw _ (render_first_digit_app x ("/" ++ dec len))) as (_ & _ & _ & E3 & E4).
    unfold after_group_kw. now rewrite E3, E4.
  - rewrite (split_ws_two _ _ (render_ip_token x) (render_ip_token m)). cbn [last].
    destruct (digit_first_not_kw _ (render_ip_first m)) as (_ & _ & _ & E3 & E4). unfold after_group_kw. now rewrite E3, E4.
Qed.

(** a well-formed head: "permit" / "deny", optionally preceded by a decimal sequence number *)
Inductive head_toks : list string -> string -> string -> Prop :=
| HT_plain act : is_action act -> head_toks [act] "" act
| HT_seq n act : is_action act -> head_toks [dec n; act] (dec n) act.

Lemma split_head_canon H sq act rest : head_toks H sq act -> split_head (H ++ rest) = Some (sq, act, rest).
Proof. intros [a A|n a A]; cbn [app]; [now apply split_head_plain|now apply split_head_seq]. Qed.

(** group references: the name is one token and is not itself a group keyword *)
Definition names_ok (A : list string) : Prop :=
  forall kw name, A = [kw; name] -> (kw = "object-group" \/ kw = "addrgroup") -> token name /\ after_group_kw name = false.

(** THE SPLITTER THEOREM: on a canonical line the fields are found exactly *)
Theorem parse_ace_extended_canon H sq act proto SRC src SPORT DST dst TAIL :
  head_toks H sq act -> addr_toks SRC src -> names_ok SRC -> Forall af SPORT ->
  addr_toks DST dst -> Forall af TAIL ->
  parse_ace_extended (H ++ proto :: SRC ++ SPORT ++ DST ++ TAIL)
  = Some (mkSplit sq act proto src SPORT dst TAIL).
Proof.
  intros HH HS HN FS HD FT. unfold parse_ace_extended.
  rewrite (split_head_canon H sq act _ HH).
  assert (B : split_body proto (SRC ++ SPORT ++ DST ++ TAIL) = Some (proto, src, SPORT, dst, TAIL)).
  { unfold split_body. rewrite (addr_whole_canon SRC src _ HS).
    rewrite (find_dst_canon SPORT DST dst TAIL _ [] FS HD FT); [reflexivity|].
    destruct SPORT as [|s0 S0].
    - cbn [last]. now apply (src_last_ok SRC src HS).
    - inversion FS as [|? ? Hs FS']; subst.
      assert (L : Forall af (s0 :: S0)) by (constructor; auto).
      clear -L. revert s0 L. induction S0 as [|s1 S1 IH]; intros s0 L.
      + cbn [last]. inversion L; subst. now apply af_not_kw.
      + inversion L as [|? ? _ L']; subst. change (last (s0 :: s1 :: S1) _) with (last (s1 :: S1) (last (split_ws src) "")).
        now apply IH. }
  now rewrite B.
Qed.

(** * from the line to the object: the fields handed to the field constructors *)
(** the body of the Ace.line setter once the line is split (the local [build] of parse_ace_text) *)
Definition assemble (c : cfg) (ext : bool) (sp : split) (dport opts : list string) : res tace :=
  let pl := plat c in
  let limit := Z.of_nat (max_ncwb c) in
  if negb (str_nonempty (s_proto sp)) && match s_sport sp, dport with [], [] => true | _, _ => false end
  then VErr
  else if String.eqb (s_proto sp) "ip" && match s_sport sp, dport with [], [] => false | _, _ => true end
  then VErr
  else
    do src <- parse_address_text pl limit (s_src sp);
    do dst <- parse_address_text pl limit (s_dst sp);
    do pr <- parse_proto (s_proto sp);
    let pc := proto_ctx pl (is15 c) pr in
    do p1 <- parse_port pl pc (s_sport sp);
    do p2 <- parse_port pl pc dport;
    do o <- parse_option opts;
    Ok (mkTace ext (seq_of (s_seq sp))
               (mkAce (String.eqb (s_action sp) "permit") pr src dst p1 p2 (fst o) (snd o)) opts).

(** any line whose tokens are a canonical line, in any spacing *)
Theorem parse_ace_text_canon c line H sq act proto SRC src SPORT DST dst TAIL :
  split_ws line = H ++ proto :: SRC ++ SPORT ++ DST ++ TAIL ->
  head_toks H sq act -> addr_toks SRC src -> names_ok SRC -> Forall af SPORT ->
  addr_toks DST dst -> Forall af TAIL ->
  parse_ace_text c line =
  assemble c true (mkSplit sq act proto src SPORT dst TAIL)
           (fst (split_dstport_option TAIL)) (snd (split_dstport_option TAIL)).
Proof.
  intros E HH HS HN FS HD FT. unfold parse_ace_text. rewrite E.
  rewrite (parse_ace_extended_canon H sq act proto SRC src SPORT DST dst TAIL HH HS HN FS HD FT).
  reflexivity.
Qed.

(** the address texts of a canonical line are read as the spellings they are *)
Inductive addr_spelled (pl : platform) : list string -> string -> spelling -> Prop :=
| AS_any : addr_spelled pl ["any"] "any" SAny
| AS_host x : x < 2 ^ 32 -> addr_spelled pl ["host"; render_ip x] ("host " ++ render_ip x) (SHost x)
| AS_prefix x len : x < 2 ^ 32 -> (len <= 32)%nat ->
    addr_spelled pl [(render_ip x ++ "/" ++ dec (N.of_nat len))%string] (render_ip x ++ "/" ++ dec (N.of_nat len)) (SPrefix x len)
| AS_wild x m : x < 2 ^ 32 -> m < 2 ^ 32 ->
    addr_spelled pl [render_ip x; render_ip m] (render_ip x ++ " " ++ render_ip m) (SWild x m).

Lemma addr_spelled_toks pl A txt sp : addr_spelled pl A txt sp -> addr_toks A txt /\ names_ok A.
Proof.
  intros H. destruct H as [|x Hx|x len Hx Hl|x m Hx Hm].
  - split; [apply AT_any|]. intros kw name E. discriminate.
  - split; [apply AT_host|]. intros kw name E [K | K]; subst kw; discriminate.
  - split; [apply AT_prefix|]. intros kw name E. discriminate.
  - split; [apply AT_wild|]. intros kw name E K. injection E as E1 E2.
    pose proof (render_ip_first x) as F. rewrite E1 in F. destruct K as [-> | ->]; discriminate.
Qed.

Lemma addr_spelled_text pl limit A txt sp : addr_spelled pl A txt sp ->
  parse_address_text pl limit txt = addr_of_spelling pl limit sp.
Proof.
  intros H. unfold parse_address_text. destruct H.
  - rewrite any_text_fixpoint. reflexivity.
  - rewrite host_text_fixpoint by assumption. reflexivity.
  - rewrite prefix_text_fixpoint by assumption. reflexivity.
  - rewrite wild_text_fixpoint by assumption. reflexivity.
Qed.

(** END TO END for group-free canonical lines: the object is built by the field constructors from
    exactly the spellings, port tokens and option tokens that stand in the line *)
Theorem parse_ace_text_fields c line H sq act proto SRC src ssp SPORT DST dst dsp TAIL :
  split_ws line = H ++ proto :: SRC ++ SPORT ++ DST ++ TAIL ->
  head_toks H sq act -> addr_spelled (plat c) SRC src ssp -> Forall af SPORT ->
  addr_spelled (plat c) DST dst dsp -> Forall af TAIL ->
  let dport := fst (split_dstport_option TAIL) in
  let opts := snd (split_dstport_option TAIL) in
  parse_ace_text c line =
    if negb (str_nonempty proto) && match SPORT, dport with [], [] => true | _, _ => false end then VErr
    else if String.eqb proto "ip" && match SPORT, dport with [], [] => false | _, _ => true end then VErr
    else
      do s <- addr_of_spelling (plat c) (Z.of_nat (max_ncwb c)) ssp;
      do d <- addr_of_spelling (plat c) (Z.of_nat (max_ncwb c)) dsp;
      do pr <- parse_proto proto;
      do p1 <- parse_port (plat c) (proto_ctx (plat c) (is15 c) pr) SPORT;
      do p2 <- parse_port (plat c) (proto_ctx (plat c) (is15 c) pr) dport;
      do o <- parse_option opts;
      Ok (mkTace true (seq_of sq) (mkAce (String.eqb act "permit") pr s d p1 p2 (fst o) (snd o)) opts).
Proof.
  intros E HH HS FS HD FT dport opts.
  destruct (addr_spelled_toks _ _ _ _ HS) as [TS NS]. destruct (addr_spelled_toks _ _ _ _ HD) as [TD _].
  rewrite (parse_ace_text_canon c line H sq act proto SRC src SPORT DST dst TAIL E HH TS NS FS TD FT).
  unfold assemble. cbn [s_proto s_sport s_src s_dst s_seq s_action].
  rewrite (addr_spelled_text _ _ _ _ _ HS), (addr_spelled_text _ _ _ _ _ HD). reflexivity.
Qed.
