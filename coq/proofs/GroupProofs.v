(** Proofs about grouping / ungrouping / sorting / TCAM (C15). *)
From V Require Import base.Prelude base.Strs model.Group.
From Coq Require Import Sorting.Permutation Sorting.Sorted.
Local Open Scope N_scope.

Definition flat (d : buckets) : list gitem := concat (map snd d).

Lemma concat_filter_nonempty {A} (l : list (list A)) :
  concat (filter (fun v => match v with [] => false | _ => true end) l) = concat l.
Proof. induction l as [|x t IH]; cbn; auto. destruct x; cbn; now rewrite IH. Qed.

Lemma ungroup_group l : ungroup (group l) = flat (group_buckets l).
Proof. unfold ungroup, group, flat. apply concat_filter_nonempty. Qed.

Definition last_key (d : buckets) : string := match rev d with (k, _) :: _ => k | [] => "" end.

Lemma last_key_app d k v : last_key (d ++ [(k, v)]) = k.
Proof. unfold last_key. now rewrite rev_app_distr. Qed.

Definition keys (d : buckets) : list string := map fst d.

Lemma has_key_In k d : has_key k d = true <-> In k (keys d).
Proof.
  induction d as [|[k' v] t IH]; cbn; [split; [discriminate|tauto]|].
  rewrite orb_true_iff, IH, String.eqb_eq. split; intros [H|H]; auto.
Qed.

Lemma NoDup_app_single {A} (l : list A) (x : A) : NoDup l -> ~ In x l -> NoDup (l ++ [x]).
Proof.
  intros ND NI. apply NoDup_rev in ND. rewrite <- (rev_involutive (l ++ [x])). apply NoDup_rev.
  rewrite rev_app_distr. cbn. constructor; auto. intro C. apply NI. now apply in_rev.
Qed.

(** appending to the last bucket appends to the flattened list *)
Lemma append_last d k v x :
  ~ In k (keys d) -> flat (bucket_append k x (d ++ [(k, v)])) = flat (d ++ [(k, v)]) ++ [x] /\
  keys (bucket_append k x (d ++ [(k, v)])) = keys (d ++ [(k, v)]) /\
  bucket_append k x (d ++ [(k, v)]) = d ++ [(k, v ++ [x])].
Proof.
  induction d as [|[k' v'] t IH]; intros NI; cbn [app bucket_append].
  - rewrite String.eqb_refl. unfold flat, keys. cbn. rewrite !app_nil_r. auto.
  - assert (String.eqb k k' = false) as E.
    { apply String.eqb_neq. intro; subst. apply NI. now left. }
    rewrite E. destruct IH as (I1 & I2 & I3); [intro C; apply NI; now right|].
    rewrite I3. unfold flat, keys in *. cbn [map concat fst snd].
    rewrite !map_app, !concat_app. cbn. rewrite !app_nil_r, !app_assoc. auto.
Qed.

(** with pairwise distinct headings, grouping then ungrouping gives back the same list *)
Theorem group_ungroup_id l : NoDup (headings l) -> ~ In "" (headings l) -> ungroup (group l) = l.
Proof.
  intros ND NE. rewrite ungroup_group. unfold group_buckets.
  (* invariant: d = pre ++ [(cur, v)], keys distinct, flat d = processed *)
  assert (G : forall rest pre cur v acc,
             NoDup (keys (pre ++ [(cur, v)])) ->
             flat (pre ++ [(cur, v)]) = acc ->
             NoDup (headings rest) -> (forall h, In h (headings rest) -> ~ In h (keys (pre ++ [(cur, v)]))) ->
             flat (fst (fold_left group_step rest (pre ++ [(cur, v)], cur))) = acc ++ rest).
  { induction rest as [|it rest IH]; intros pre cur v acc NDk F NDh Fresh; cbn [fold_left].
    - now rewrite app_nil_r.
    - destruct it as [text id|id cnt]; cbn [group_step fst snd].
      + cbn [headings flat_map app] in NDh, Fresh. apply NoDup_cons_iff in NDh as [Hn NDh'].
        assert (has_key text (pre ++ [(cur, v)]) = false) as HK.
        { destruct (has_key text _) eqn:E; auto. apply has_key_In in E. exfalso.
          apply (Fresh text); [now left|exact E]. }
        rewrite HK.
        replace (acc ++ GHead text id :: rest) with ((acc ++ [GHead text id]) ++ rest)
          by (rewrite <- app_assoc; reflexivity).
        apply (IH (pre ++ [(cur, v)]) text [GHead text id]).
        * unfold keys in *. rewrite map_app. cbn [map fst]. apply NoDup_app_single; auto.
          intro C. apply (Fresh text); [now left|exact C].
        * unfold flat in *. rewrite map_app, concat_app, F. reflexivity.
        * exact NDh'.
        * intros h Hh C. unfold keys in C. rewrite map_app in C. apply in_app_or in C as [C|[C|[]]].
          -- apply (Fresh h); [now right|exact C].
          -- cbn in C. subst. contradiction.
      + assert (NI : ~ In cur (keys pre)).
        { unfold keys in NDk. rewrite map_app in NDk. cbn in NDk. apply NoDup_remove_2 in NDk.
          now rewrite app_nil_r in NDk. }
        destruct (append_last pre cur v (GOther id cnt) NI) as (A1 & A2 & A3).
        rewrite A3.
        replace (acc ++ GOther id cnt :: rest) with ((acc ++ [GOther id cnt]) ++ rest)
          by (rewrite <- app_assoc; reflexivity).
        apply (IH pre cur (v ++ [GOther id cnt])).
        * rewrite <- A3, A2. exact NDk.
        * rewrite <- A3, A1, F. reflexivity.
        * exact NDh.
        * intros h Hh. rewrite <- A3, A2. now apply Fresh. }
  apply (G l [] "" [] []); auto.
  - cbn. constructor; [intros []|constructor].
  - intros h Hh [C|[]]. cbn in C. subst. contradiction.
Qed.

(** * conservation of entries (always, also with repeated headings) *)
Definition is_other (it : gitem) : bool := match it with GOther _ _ => true | GHead _ _ => false end.
Definition others (l : list gitem) : list gitem := filter is_other l.

Lemma others_app a b : others (a ++ b) = others a ++ others b.
Proof. unfold others. apply filter_app. Qed.

Lemma others_perm a b : Permutation a b -> Permutation (others a) (others b).
Proof.
  induction 1 as [|x l l' P IH|x y l|l l' l'' P1 IH1 P2 IH2]; cbn [others filter].
  - constructor.
  - destruct (is_other x); [now constructor|exact IH].
  - destruct (is_other x), (is_other y); try apply Permutation_refl. apply perm_swap.
  - eapply Permutation_trans; eauto.
Qed.

Lemma bucket_append_perm k x d :
  In k (keys d) -> Permutation (flat (bucket_append k x d)) (x :: flat d) /\
                   keys (bucket_append k x d) = keys d.
Proof.
  induction d as [|[k' v] t IH]; intros H; [destruct H|]. cbn [bucket_append].
  destruct (String.eqb k k') eqn:E.
  - unfold flat, keys. cbn [map concat fst snd]. split; auto.
    rewrite <- app_assoc. cbn [app]. apply Permutation_sym. apply Permutation_middle.
  - destruct H as [H|H]; [cbn in H; subst; rewrite String.eqb_refl in E; discriminate|].
    destruct (IH H) as [P K]. unfold flat, keys in *. cbn [map concat fst snd]. split.
    + eapply Permutation_trans; [apply Permutation_app_head; exact P|].
      apply Permutation_sym. apply Permutation_middle.
    + now rewrite K.
Qed.

Theorem group_conserves l : Permutation (others (ungroup (group l))) (others l).
Proof.
  rewrite ungroup_group. unfold group_buckets.
  assert (G : forall rest d cur acc,
             In cur (keys d) -> Permutation (others (flat d)) (others acc) ->
             Permutation (others (flat (fst (fold_left group_step rest (d, cur))))) (others (acc ++ rest))).
  { induction rest as [|it rest IH]; intros d cur acc Hc P; cbn [fold_left].
    - now rewrite app_nil_r.
    - replace (acc ++ it :: rest) with ((acc ++ [it]) ++ rest) by (rewrite <- app_assoc; reflexivity).
      destruct it as [text id|id cnt]; cbn [group_step fst snd].
      + destruct (has_key text d) eqn:HK.
        * apply IH; [now apply has_key_In|]. rewrite others_app. cbn. now rewrite app_nil_r.
        * apply IH.
          -- unfold keys. rewrite map_app. apply in_or_app. right. now left.
          -- unfold flat. rewrite map_app, concat_app, !others_app. cbn. now rewrite !app_nil_r.
      + destruct (bucket_append_perm cur (GOther id cnt) d Hc) as [P' K]. apply IH.
        * now rewrite K.
        * rewrite others_app. cbn [others filter is_other].
          eapply Permutation_trans; [apply others_perm; exact P'|].
          cbn [others filter is_other]. eapply Permutation_trans; [apply perm_skip; exact P|].
          apply Permutation_cons_append. }
  apply (G l [("", [])] "" []); [now left|constructor].
Qed.

(** * TCAM *)
Definition cnt_sum (l : list gitem) : N := fold_right (fun it a => item_cnt it + a) 0 l.

Lemma cnt_sum_app a b : cnt_sum (a ++ b) = cnt_sum a + cnt_sum b.
Proof. induction a as [|x a IH]; cbn; [reflexivity|]. fold (cnt_sum (a ++ b)) (cnt_sum a). lia. Qed.

Lemma cnt_sum_perm a b : Permutation a b -> cnt_sum a = cnt_sum b.
Proof.
  induction 1 as [|x l l' P IH|x y l|l l' l'' P1 IH1 P2 IH2]; cbn [cnt_sum fold_right].
  - reflexivity.
  - fold (cnt_sum l) (cnt_sum l'). lia.
  - fold (cnt_sum l). lia.
  - congruence.
Qed.

Lemma cnt_sum_others l : cnt_sum (others l) = cnt_sum l.
Proof.
  induction l as [|x l IH]; [reflexivity|]. destruct x as [t i|i c].
  - change (others (GHead t i :: l)) with (others l).
    change (cnt_sum (GHead t i :: l)) with (0 + cnt_sum l). rewrite IH. lia.
  - change (others (GOther i c :: l)) with (GOther i c :: others l).
    change (cnt_sum (GOther i c :: others l)) with (c + cnt_sum (others l)).
    change (cnt_sum (GOther i c :: l)) with (c + cnt_sum l). now rewrite IH.
Qed.

Lemma tcam_grouped_flat g : tcam_grouped g = 1 + cnt_sum (concat g).
Proof.
  unfold tcam_grouped. f_equal. induction g as [|b g IH]; cbn; auto.
  fold (cnt_sum b). rewrite cnt_sum_app, IH. reflexivity.
Qed.

(** the estimate is one plus the sum of the ACE contributions, and grouping does not change it *)
Theorem tcam_group l : tcam_grouped (group l) = tcam_flat l.
Proof.
  rewrite tcam_grouped_flat. unfold tcam_flat. fold (cnt_sum l). f_equal.
  fold (ungroup (group l)). rewrite <- (cnt_sum_others (ungroup (group l))), <- (cnt_sum_others l).
  apply cnt_sum_perm, group_conserves.
Qed.

Theorem tcam_perm a b : Permutation a b -> tcam_flat a = tcam_flat b.
Proof. intros P. unfold tcam_flat. fold (cnt_sum a) (cnt_sum b). f_equal. now apply cnt_sum_perm. Qed.

(** * sorting: with distinct sequence numbers the sorted arrangement is unique *)
Section SortUnique.
  Variable A : Type.
  Variable key : A -> N.
  Definition key_sorted (l : list A) : Prop := StronglySorted (fun a b => key a < key b) l.

  Theorem sorted_unique l1 : forall l2,
    Permutation l1 l2 -> key_sorted l1 -> key_sorted l2 -> l1 = l2.
  Proof.
    induction l1 as [|a t IH]; intros l2 P S1 S2.
    - apply Permutation_nil in P. now subst.
    - destruct l2 as [|b t2]; [apply Permutation_sym, Permutation_nil in P; discriminate|].
      inversion S1 as [|? ? S1' F1]; inversion S2 as [|? ? S2' F2]; subst.
      rewrite Forall_forall in F1, F2.
      assert (a = b).
      { assert (In a (b :: t2)) as Ha by (eapply Permutation_in; [exact P|now left]).
        assert (In b (a :: t)) as Hb by (eapply Permutation_in; [apply Permutation_sym, P|now left]).
        destruct Ha as [->|Ha]; auto. destruct Hb as [->|Hb]; auto.
        specialize (F1 _ Hb). specialize (F2 _ Ha). lia. }
      subst. f_equal. apply IH; auto. now apply Permutation_cons_inv in P.
  Qed.

  Lemma insert_by_perm x l : Permutation (insert_by key x l) (x :: l).
  Proof.
    induction l as [|y t IH]; cbn; [apply Permutation_refl|].
    destruct (N.leb (key x) (key y)); [apply Permutation_refl|].
    eapply Permutation_trans; [apply perm_skip; exact IH|apply perm_swap].
  Qed.

  Lemma sort_by_perm l : Permutation (sort_by key l) l.
  Proof.
    induction l as [|x t IH]; cbn; [constructor|].
    eapply Permutation_trans; [apply insert_by_perm|now constructor].
  Qed.

  Lemma insert_by_sorted x l :
    key_sorted l -> ~ In (key x) (map key l) -> key_sorted (insert_by key x l).
  Proof.
    induction 1 as [|y t S IH F]; intros NI; cbn [insert_by].
    - repeat constructor.
    - rewrite Forall_forall in F. destruct (N.leb_spec (key x) (key y)).
      + assert (key x <> key y) by (intro E; apply NI; left; auto).
        constructor; [constructor; auto; now apply Forall_forall|].
        apply Forall_forall. intros z [<-|Hz]; [lia|]. specialize (F _ Hz). lia.
      + constructor.
        * apply IH. intro C. apply NI. now right.
        * apply Forall_forall. intros z Hz.
          eapply Permutation_in in Hz; [|apply insert_by_perm]. destruct Hz as [<-|Hz]; auto.
  Qed.

  Lemma sort_by_sorted l : NoDup (map key l) -> key_sorted (sort_by key l).
  Proof.
    induction l as [|x t IH]; intros ND; cbn; [constructor|].
    inversion ND as [|? ? Hn ND']; subst. apply insert_by_sorted; auto.
    intro C. apply Hn. apply in_map_iff in C as (z & E & Hz). apply in_map_iff. exists z. split; auto.
    eapply Permutation_in; [apply sort_by_perm|exact Hz].
  Qed.

  (** sorting any permutation of a list with distinct numbers gives the numbered order *)
  Theorem sort_restores l l' :
    NoDup (map key l) -> key_sorted l -> Permutation l' l -> sort_by key l' = l.
  Proof.
    intros ND S P. apply sorted_unique.
    - eapply Permutation_trans; [apply sort_by_perm|exact P].
    - apply sort_by_sorted. eapply Permutation_NoDup; [|exact ND].
      apply Permutation_map, Permutation_sym, P.
    - exact S.
  Qed.
End SortUnique.
