(** C17 / C02: the operation Acl.platform = p of the operations model (Ops.op_platform) on a flat
    Acl is the list conversion [acl_set_platform] on its entries; with [acl_conversion_split] this
    gives the operation an unconditional theorem on Acls of reader-built entries. *)
From V Require Import base.Prelude base.Strs gen.Tables model.Cfg model.Names model.Wildcard
  model.Addr model.Ports model.Ace model.Lex model.AddrText model.AceText model.AclText
  model.Shading model.SplitPorts model.Platform model.Ops spec.AceSem spec.AclSem
  proofs.DeleteShadowProofs proofs.HistoryProofs proofs.ConvProofs proofs.ConvSplitProofs.
Local Open Scope N_scope.

Lemma leaf_item_sem l : leaf_item l = sem_item (leaf_aitem l).
Proof. destruct l; reflexivity. Qed.

Lemma flat_TLeaf ls : flat (map TLeaf ls) = ls.
Proof. induction ls as [|l t IH]; [reflexivity|]. unfold flat in *. cbn [map flat_map top_leaves app]. now rewrite IH. Qed.

(** splitting one leaf is splitting its item *)
Lemma split_leaf_sim c l pcs : split_titem c (leaf_aitem l) = Ok pcs ->
  exists ls', split_leaf c l = Ok ls' /\ map leaf_aitem ls' = pcs.
Proof.
  destruct l as [id nt t|id nt sq tx]; cbn [leaf_aitem split_titem split_leaf].
  - destruct (ungroup_ports (plat c) (is15 c) (t_ace t)) as [[l b]| | | |] eqn:U; cbn [bind]; try discriminate.
    intros H. injection H as <-. cbn [fst snd]. destruct b.
    + eexists. split; [reflexivity|]. cbn [map leaf_aitem].
      unfold ungroup_ports in U. destruct (split_ace (plat c) (is15 c) (t_ace t)) as [l0| | | |]; cbn [bind] in U; try discriminate.
      destruct l0 as [|x [|y l1]]; injection U as <-; try discriminate. cbn [map]. destruct t; reflexivity.
    + eexists. split; [reflexivity|]. rewrite map_map. reflexivity.
  - intros H. injection H as <-. eexists. split; reflexivity.
Qed.

Lemma split_leaves_sim c : forall ls items1, flat_map_res (split_titem c) (map leaf_aitem ls) = Ok items1 ->
  exists ls1, flat_map_res (split_leaf c) ls = Ok ls1 /\ map leaf_aitem ls1 = items1.
Proof.
  induction ls as [|l t IH]; intros items1 H; cbn [map flat_map_res] in *.
  - injection H as <-. exists []. split; reflexivity.
  - destruct (split_titem c (leaf_aitem l)) as [pcs| | | |] eqn:E; cbn [bind] in H; try discriminate.
    destruct (flat_map_res (split_titem c) (map leaf_aitem t)) as [r| | | |] eqn:R; cbn [bind] in H; try discriminate.
    injection H as <-. destruct (split_leaf_sim c l pcs E) as (ls' & S & M). destruct (IH r eq_refl) as (ls1 & S1 & M1).
    exists (ls' ++ ls1). rewrite S. cbn [bind]. rewrite S1. cbn [bind]. split; [reflexivity|]. now rewrite map_app, M, M1.
Qed.

Lemma split_tops_flat c : forall ls ls1, flat_map_res (split_leaf c) ls = Ok ls1 ->
  flat_map_res (split_top c) (map TLeaf ls) = Ok (map TLeaf ls1).
Proof.
  induction ls as [|l t IH]; intros ls1 H; cbn [map flat_map_res] in *.
  - injection H as <-. reflexivity.
  - cbn [split_top]. destruct (split_leaf c l) as [r| | | |]; cbn [bind] in *; try discriminate.
    destruct (flat_map_res (split_leaf c) t) as [r2| | | |]; cbn [bind] in *; try discriminate.
    injection H as <-. rewrite (IH r2 eq_refl). cbn [bind]. now rewrite map_app.
Qed.

Lemma set_platform_sim c c' : forall ls conv, map_res (item_set_platform c') (map leaf_aitem ls) = Ok conv ->
  exists ls2, map_res (top_set_platform c c') (map TLeaf ls) = Ok (map TLeaf ls2)
              /\ map leaf_aitem ls2 = conv /\ map leaf_tag ls2 = map leaf_tag ls.
Proof.
  induction ls as [|l t IH]; intros conv H; cbn [map SplitPorts.map_res] in *.
  - injection H as <-. exists []. repeat split.
  - destruct (item_set_platform c' (leaf_aitem l)) as [y| | | |] eqn:E; cbn [bind] in H; try discriminate.
    destruct (map_res (item_set_platform c') (map leaf_aitem t)) as [r| | | |] eqn:R; cbn [bind] in H; try discriminate.
    injection H as <-. destruct (IH r eq_refl) as (ls2 & S & M & T).
    destruct l as [id nt tt|id nt sq tx]; cbn [leaf_aitem item_set_platform top_set_platform leaf_set_platform] in *.
    + destruct (ace_set_platform c' tt) as [rr| | | |]; cbn [bind] in *; try discriminate. injection E as <-.
      exists (LAce id nt rr :: ls2). rewrite S. cbn [bind map leaf_aitem]. rewrite M. split; [reflexivity|]. split; [reflexivity|].
      cbn [map]. now rewrite T.
    + injection E as <-. exists (LRem id nt sq tx :: ls2). cbn [bind]. rewrite S. cbn [bind map leaf_aitem]. rewrite M.
      split; [reflexivity|]. split; [reflexivity|]. cbn [map]. now rewrite T.
Qed.

(** the operation on a flat Acl is the list conversion of its entries *)
Theorem platform_flat_sim a p ls conv :
  o_gby a = ""%string -> o_tops a = map TLeaf ls ->
  acl_set_platform (o_cfg a) (with_plat (o_cfg a) p) (map leaf_aitem ls) = Ok conv ->
  exists a' ls', op_platform p a = Ok a' /\ o_tops a' = map TLeaf ls' /\ map leaf_aitem ls' = conv
                 /\ o_cfg a' = with_plat (o_cfg a) p /\ o_gby a' = ""%string /\ o_name a' = o_name a
                 /\ o_id a' = o_id a /\ o_note a' = o_note a.
Proof.
  intros G T H. unfold acl_set_platform in H. unfold op_platform.
  destruct p; cbn [plat with_plat] in H.
  - (* asa *) cbn [bind] in *. rewrite T. destruct (set_platform_sim (o_cfg a) (with_plat (o_cfg a) Asa) ls conv H) as (ls2 & S & M & _).
    rewrite S. cbn [bind]. eexists _, ls2. cbn [o_tops o_cfg o_gby o_name o_id o_note]. repeat split; auto.
  - cbn [bind] in *. rewrite T. destruct (set_platform_sim (o_cfg a) (with_plat (o_cfg a) Ios) ls conv H) as (ls2 & S & M & _).
    rewrite S. cbn [bind]. eexists _, ls2. cbn [o_tops o_cfg o_gby o_name o_id o_note]. repeat split; auto.
  - destruct (flat_map_res (split_titem (o_cfg a)) (map leaf_aitem ls)) as [items1| | | |] eqn:E1; cbn [bind] in H; try discriminate.
    destruct (split_leaves_sim (o_cfg a) ls items1 E1) as (ls1 & S1 & M1).
    unfold op_ungroup_ports. rewrite T, (split_tops_flat (o_cfg a) ls ls1 S1). cbn [bind].
    unfold set_items. rewrite G. cbn [str_nonempty with_tops o_tops].
    rewrite <- M1 in H. destruct (set_platform_sim (o_cfg a) (with_plat (o_cfg a) Nxos) ls1 conv H) as (ls2 & S & M & _).
    rewrite S. cbn [bind]. eexists _, ls2. cbn [o_tops o_cfg o_gby o_name o_id o_note]. repeat split; auto.
Qed.

(** THE THEOREM for the operation: a flat Acl of reader-built entries *)
Theorem platform_op_built mem a p ls :
  (plat (o_cfg a) = Ios \/ plat (o_cfg a) = Nxos) -> (p = Ios \/ p = Nxos) ->
  o_gby a = ""%string -> o_tops a = map TLeaf ls ->
  Forall (fun l => item_src mem (o_cfg a) (leaf_aitem l)) ls ->
  exists a', op_platform p a = Ok a' /\ o_gby a' = ""%string /\ plat (o_cfg a') = p
             /\ forall k, acl_decide a' k = acl_decide a k.
Proof.
  intros Hpl Hp G T HB.
  assert (FB : Forall (item_src mem (o_cfg a)) (map leaf_aitem ls)).
  { apply Forall_forall. intros i Hi. apply in_map_iff in Hi as (l & <- & Hl). rewrite Forall_forall in HB. now apply HB. }
  destruct (acl_conversion_split mem (o_cfg a) p Hpl Hp _ FB) as (conv & E & D).
  destruct (platform_flat_sim a p ls conv G T E) as (a' & ls' & OP & T' & M' & C' & G' & _).
  exists a'. split; [exact OP|]. split; [exact G'|]. split; [now rewrite C'|].
  intros k. unfold acl_decide, den_items. rewrite T', T, !flat_TLeaf.
  rewrite (map_ext _ _ leaf_item_sem ls'), (map_ext _ _ leaf_item_sem ls).
  rewrite <- (map_map leaf_aitem sem_item ls'), <- (map_map leaf_aitem sem_item ls), M'. apply D.
Qed.
