(** C02: decision preservation of a platform conversion from a checkable certificate. *)
From V Require Import base.Prelude base.Strs gen.Tables model.Cfg model.Names model.Wildcard
  model.Addr model.Ports model.Ace model.Shading model.SplitPorts spec.AceSem spec.AclSem
  model.Platform proofs.ShadowProofs proofs.AclProofs proofs.DeleteShadowProofs proofs.SplitProofs.
Local Open Scope N_scope.

Fixpoint list_eqb {A} (eqb : A -> A -> bool) (a b : list A) : bool :=
  match a, b with
  | [], [] => true
  | x :: a', y :: b' => eqb x y && list_eqb eqb a' b'
  | _, _ => false
  end.

Lemma list_eqb_eq {A} (eqb : A -> A -> bool) (H : forall x y, eqb x y = true -> x = y) a :
  forall b, list_eqb eqb a b = true -> a = b.
Proof.
  induction a as [|x a IH]; intros [|y b] E; cbn in E; try discriminate; auto.
  apply andb_prop in E as [E1 E2]. f_equal; auto.
Qed.

Definition pair_eqb (x y : N * N) : bool := N.eqb (fst x) (fst y) && N.eqb (snd x) (snd y).
Lemma pair_eqb_eq x y : pair_eqb x y = true -> x = y.
Proof.
  destruct x, y. unfold pair_eqb. cbn. intros H. apply andb_prop in H as [A B].
  apply N.eqb_eq in A, B. now subst.
Qed.

(** same action and same packet set, decided on the objects *)
Definition port_eqb_sem (p q : port) : bool :=
  Bool.eqb (has_op p) (has_op q) && list_eqb N.eqb (p_ports p) (p_ports q).

Definition ace_eqb_sem (a b : ace) : bool :=
  Bool.eqb (a_permit a) (a_permit b) && N.eqb (a_proto a) (a_proto b)
  && list_eqb pair_eqb (sets_of (a_src a)) (sets_of (a_src b))
  && list_eqb pair_eqb (sets_of (a_dst a)) (sets_of (a_dst b))
  && port_eqb_sem (a_sport a) (a_sport b) && port_eqb_sem (a_dport a) (a_dport b)
  && list_eqb String.eqb (a_flags a) (a_flags b).

Lemma port_eqb_sem_sound p q proto x : port_eqb_sem p q = true -> port_matchb p proto x = port_matchb q proto x.
Proof.
  unfold port_eqb_sem, port_matchb, has_op. intros H. apply andb_prop in H as [H1 H2].
  apply (list_eqb_eq N.eqb (fun a b E => proj1 (N.eqb_eq a b) E)) in H2. rewrite H2.
  destruct (p_op p), (p_op q); cbn in H1; try discriminate; reflexivity.
Qed.

Theorem ace_eqb_sem_sound a b :
  ace_eqb_sem a b = true -> a_permit a = a_permit b /\ forall k, denb a k = denb b k.
Proof.
  unfold ace_eqb_sem. intros H.
  repeat (match type of H with (_ && _) = true => let H' := fresh "E" in apply andb_prop in H as [H H'] end).
  apply Bool.eqb_prop in H. apply N.eqb_eq in E4.
  apply (list_eqb_eq pair_eqb pair_eqb_eq) in E3, E2.
  apply (list_eqb_eq String.eqb (fun x y E => proj1 (String.eqb_eq x y) E)) in E.
  split; auto. intros k. unfold denb. rewrite E4, E3, E2, E.
  rewrite (port_eqb_sem_sound _ _ _ _ E1), (port_eqb_sem_sound _ _ _ _ E0). reflexivity.
Qed.

(** the boolean form of C19_eq *)
Lemma split_denb pl v15 a l :
  eq_or_unsplit (a_sport a) -> eq_or_unsplit (a_dport a) -> split_ace pl v15 a = Ok l ->
  (forall a', In a' l -> a_permit a' = a_permit a) /\
  forall k, denb a k = existsb (fun a' => denb a' k) l.
Proof.
  intros Hs Hd E. destruct (split_den pl v15 a Hs Hd) as (l' & E' & M & F). rewrite E in E'. injection E' as <-.
  split; [intros a' Ha'; now apply F|]. intros k.
  destruct (denb a k) eqn:D.
  - symmetry. apply existsb_exists. apply denb_spec in D. apply M in D as (a' & Ha' & D').
    exists a'. split; auto. apply denb_spec. destruct (F a' Ha') as (_ & _ & S1 & S2 & _). now rewrite S1, S2.
  - symmetry. apply not_true_is_false. intro C. apply existsb_exists in C as (a' & Ha' & D').
    apply denb_spec in D'. destruct (F a' Ha') as (_ & _ & S1 & S2 & _). rewrite S1, S2 in D'.
    assert (den a (sets_of (a_src a)) (sets_of (a_dst a)) k) by (apply M; exists a'; auto).
    apply denb_spec in H. congruence.
Qed.

(** certificate: [conv] is [orig] with every ACE replaced, in place, by entries that are
    semantically equal to its split ([do_split]) or to itself; remarks stay *)
Fixpoint take_sem (l : list ace) (conv : list (item ace)) : option (list (item ace)) :=
  match l with
  | [] => Some conv
  | a :: t => match conv with
              | IAce _ b :: conv' => if ace_eqb_sem a b then take_sem t conv' else None
              | _ => None
              end
  end.

Fixpoint conv_okb (pl : platform) (v15 do_split : bool) (orig conv : list (item ace)) : bool :=
  match orig with
  | [] => match conv with [] => true | _ => false end
  | IRemark _ :: orig' =>
      match conv with IRemark _ :: conv' => conv_okb pl v15 do_split orig' conv' | _ => false end
  | IAce _ a :: orig' =>
      match (if do_split then split_ace pl v15 a else Ok [a]) with
      | Ok l => match take_sem l conv with
                | Some conv' => conv_okb pl v15 do_split orig' conv'
                | None => false
                end
      | _ => false
      end
  end.

Lemma take_sem_decide l : forall conv rest k,
  take_sem l conv = Some rest ->
  (forall a', In a' l -> exists p, a_permit a' = p) ->
  forall act, (forall a', In a' l -> a_permit a' = act) ->
  decide denb a_permit conv k =
  if existsb (fun a' => denb a' k) l then Some act else decide denb a_permit rest k.
Proof.
  induction l as [|a t IH]; intros conv rest k H _ act A; cbn [take_sem] in H.
  - injection H as <-. reflexivity.
  - destruct conv as [|[ln b|ln] conv']; try discriminate.
    destruct (ace_eqb_sem a b) eqn:E; [|discriminate].
    destruct (ace_eqb_sem_sound a b E) as [P D]. cbn [decide existsb]. rewrite <- D.
    destruct (denb a k); cbn [orb].
    + f_equal. rewrite <- P. apply A. now left.
    + apply (IH conv' rest k H); [intros; eauto|]. intros a' Ha'. apply A. now right.
Qed.

Definition splittable_ok (items : list (item ace)) : Prop :=
  forall l a, In (IAce l a) items -> eq_or_unsplit (a_sport a) /\ eq_or_unsplit (a_dport a).

Theorem conversion_decision pl v15 do_split : forall orig conv,
  splittable_ok orig -> conv_okb pl v15 do_split orig conv = true ->
  forall k, decide denb a_permit conv k = decide denb a_permit orig k.
Proof.
  induction orig as [|o orig IH]; intros conv OKs H k.
  - destruct conv; [reflexivity|discriminate].
  - assert (OK' : splittable_ok orig) by (intros l a Hin; apply (OKs l a); now right).
    destruct o as [ln a|ln]; cbn [conv_okb] in H.
    + destruct (OKs ln a (or_introl eq_refl)) as [Hs Hd].
      destruct (if do_split then split_ace pl v15 a else Ok [a]) as [l| | | |] eqn:EL; try discriminate.
      destruct (take_sem l conv) as [conv'|] eqn:ET; [|discriminate].
      assert (SP : (forall a', In a' l -> a_permit a' = a_permit a) /\
                   forall k, denb a k = existsb (fun a' => denb a' k) l).
      { destruct do_split.
        - now apply (split_denb pl v15 a l).
        - injection EL as <-. split; [intros a' [<-|[]]; reflexivity|]. intros k0. cbn. now rewrite orb_false_r. }
      destruct SP as [ACT DEN].
      rewrite (take_sem_decide l conv conv' k ET (fun a' _ => ex_intro _ _ eq_refl) (a_permit a) ACT).
      cbn [decide]. rewrite DEN. destruct (existsb _ l); auto.
    + destruct conv as [|[?|?] conv']; try discriminate. cbn [decide]. now apply IH.
Qed.

(** re-typing an address for another platform changes its spelling class only *)
Lemma retype_sets pl a : sets_of (retype pl a) = sets_of a.
Proof. destruct a as [ty w|n items]; reflexivity. Qed.

Lemma retype_idem pl a : retype pl (retype pl a) = retype pl a.
Proof.
  destruct a as [ty w|n items]; [|reflexivity]. cbn [retype].
  destruct pl; try reflexivity; destruct (w_ipnet w) as [[p len]|]; reflexivity.
Qed.

(** the part of the ACE setter that happens before the re-parse keeps the packet set and the action *)
Definition retype_ace (pl : platform) (a : ace) : ace :=
  mkAce (a_permit a) (a_proto a) (retype pl (a_src a)) (retype pl (a_dst a))
        (a_sport a) (a_dport a) (a_flags a) (a_logs a).

Lemma retype_ace_sem pl a : ace_eqb_sem a (retype_ace pl a) = true -> forall k, denb a k = denb (retype_ace pl a) k.
Proof. intros H. now destruct (ace_eqb_sem_sound _ _ H). Qed.

Theorem retype_ace_den pl a k : denb (retype_ace pl a) k = denb a k.
Proof. unfold denb, retype_ace. cbn [a_proto a_src a_dst a_sport a_dport a_flags]. now rewrite !retype_sets. Qed.
