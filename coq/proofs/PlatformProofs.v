(** C02: decision preservation of a platform conversion from a checkable certificate. *)
From V Require Import base.Prelude base.Strs gen.Tables model.Cfg model.Names model.Wildcard
  model.Addr model.Ports model.Ace model.Shading model.SplitPorts spec.AceSem spec.AclSem
  model.Platform proofs.ShadowProofs proofs.AclProofs proofs.DeleteShadowProofs proofs.SplitProofs.
Local Open Scope N_scope.

Fixpoint list_eqb {A} (eqb : A -> A -> bool) (a b : list A) : bool :=
  match a, b with
  | [], [] => true
  | x :: a', y :: b' => eqb x y && list_eqb eqb a' b'
  | _, _ => false
  end.

Lemma list_eqb_eq {A} (eqb : A -> A -> bool) (H : forall x y, eqb x y = true -> x = y) a :
  forall b, list_eqb eqb a b = true -> a = b.
Proof.
  induction a as [|x a IH]; intros [|y b] E; cbn in E; try discriminate; auto.
  apply andb_prop in E as [E1 E2]. f_equal; auto.
Qed.

Definition pair_eqb (x y : N * N) : bool := N.eqb (fst x) (fst y) && N.eqb (snd x) (snd y).
Lemma pair_eqb_eq x y : pair_eqb x y = true -> x = y.
Proof.
  destruct x, y. unfold pair_eqb. cbn. intros H. apply andb_prop in H as [A B].
  apply N.eqb_eq in A, B. now subst.
Qed.

(** two (base, wildcard mask) pairs that denote the same address set: same mask, same base
    outside the wildcard bits (a base with wildcard bits set is legal text, e.g. under "any") *)
Definition set_eqb (x y : N * N) : bool :=
  N.eqb (snd x) (snd y)
  && N.eqb (N.land (fst x) (N.lxor ALL_ONES (snd x))) (N.land (fst y) (N.lxor ALL_ONES (snd y))).

Lemma set_eqb_sound x y k : set_eqb x y = true -> in_wildb k (fst x) (snd x) = in_wildb k (fst y) (snd y).
Proof.
  unfold set_eqb, in_wildb. intros H. apply andb_prop in H as [A B]. apply N.eqb_eq in A, B.
  rewrite B. now rewrite A.
Qed.

Lemma sets_eqb_sound a : forall b k,
  list_eqb set_eqb a b = true -> in_setsb k a = in_setsb k b.
Proof.
  induction a as [|x a IH]; intros [|y b] k E; cbn [list_eqb] in E; try discriminate; auto.
  apply andb_prop in E as [E1 E2]. unfold in_setsb in *. cbn [existsb].
  rewrite (set_eqb_sound _ _ k E1). f_equal. now apply IH.
Qed.

(** same action and same packet set, decided on the objects *)
Definition port_eqb_sem (p q : port) : bool :=
  Bool.eqb (has_op p) (has_op q) && list_eqb N.eqb (p_ports p) (p_ports q).

Definition ace_eqb_sem (a b : ace) : bool :=
  Bool.eqb (a_permit a) (a_permit b) && N.eqb (a_proto a) (a_proto b)
  && list_eqb set_eqb (sets_of (a_src a)) (sets_of (a_src b))
  && list_eqb set_eqb (sets_of (a_dst a)) (sets_of (a_dst b))
  && port_eqb_sem (a_sport a) (a_sport b) && port_eqb_sem (a_dport a) (a_dport b)
  && list_eqb String.eqb (a_flags a) (a_flags b).

Lemma port_eqb_sem_sound p q proto x : port_eqb_sem p q = true -> port_matchb p proto x = port_matchb q proto x.
Proof.
  unfold port_eqb_sem, port_matchb, has_op. intros H. apply andb_prop in H as [H1 H2].
  apply (list_eqb_eq N.eqb (fun a b E => proj1 (N.eqb_eq a b) E)) in H2. rewrite H2.
  destruct (p_op p), (p_op q); cbn in H1; try discriminate; reflexivity.
Qed.

Theorem ace_eqb_sem_sound a b :
  ace_eqb_sem a b = true -> a_permit a = a_permit b /\ forall k, denb a k = denb b k.
Proof.
  unfold ace_eqb_sem. intros H.
  repeat (match type of H with (_ && _) = true => let H' := fresh "E" in apply andb_prop in H as [H H'] end).
  apply Bool.eqb_prop in H. apply N.eqb_eq in E4.
  apply (list_eqb_eq String.eqb (fun x y E => proj1 (String.eqb_eq x y) E)) in E.
  split; auto. intros k. unfold denb. rewrite E4, E.
  rewrite (sets_eqb_sound _ _ (k_src k) E3), (sets_eqb_sound _ _ (k_dst k) E2).
  rewrite (port_eqb_sem_sound _ _ _ _ E1), (port_eqb_sem_sound _ _ _ _ E0). reflexivity.
Qed.

(** the boolean form of C19_eq *)
Lemma split_denb pl v15 a l :
  eq_or_unsplit (a_sport a) -> eq_or_unsplit (a_dport a) -> split_ace pl v15 a = Ok l ->
  (forall a', In a' l -> a_permit a' = a_permit a) /\
  forall k, denb a k = existsb (fun a' => denb a' k) l.
Proof.
  intros Hs Hd E. destruct (split_den pl v15 a Hs Hd) as (l' & E' & M & F). rewrite E in E'. injection E' as <-.
  split; [intros a' Ha'; now apply F|]. intros k.
  destruct (denb a k) eqn:D.
  - symmetry. apply existsb_exists. apply denb_spec in D. apply M in D as (a' & Ha' & D').
    exists a'. split; auto. apply denb_spec. destruct (F a' Ha') as (_ & _ & S1 & S2 & _). now rewrite S1, S2.
  - symmetry. apply not_true_is_false. intro C. apply existsb_exists in C as (a' & Ha' & D').
    apply denb_spec in D'. destruct (F a' Ha') as (_ & _ & S1 & S2 & _). rewrite S1, S2 in D'.
    assert (den a (sets_of (a_src a)) (sets_of (a_dst a)) k) by (apply M; exists a'; auto).
    apply denb_spec in H. congruence.
Qed.

(** certificate: [conv] is [orig] with every ACE replaced, in place, by entries that are
    semantically equal to its split ([do_split]) or to itself; remarks stay *)
Fixpoint take_sem (l : list ace) (conv : list (item ace)) : option (list (item ace)) :=
  match l with
  | [] => Some conv
  | a :: t => match conv with
              | IAce _ b :: conv' => if ace_eqb_sem a b then take_sem t conv' else None
              | _ => None
              end
  end.

Fixpoint conv_okb (pl : platform) (v15 do_split : bool) (orig conv : list (item ace)) : bool :=
  match orig with
  | [] => match conv with [] => true | _ => false end
  | IRemark _ :: orig' =>
      match conv with IRemark _ :: conv' => conv_okb pl v15 do_split orig' conv' | _ => false end
  | IAce _ a :: orig' =>
      match (if do_split then split_ace pl v15 a else Ok [a]) with
      | Ok l => match take_sem l conv with
                | Some conv' => conv_okb pl v15 do_split orig' conv'
                | None => false
                end
      | _ => false
      end
  end.

Lemma take_sem_decide l : forall conv rest k,
  take_sem l conv = Some rest ->
  (forall a', In a' l -> exists p, a_permit a' = p) ->
  forall act, (forall a', In a' l -> a_permit a' = act) ->
  decide denb a_permit conv k =
  if existsb (fun a' => denb a' k) l then Some act else decide denb a_permit rest k.
Proof.
  induction l as [|a t IH]; intros conv rest k H _ act A; cbn [take_sem] in H.
  - injection H as <-. reflexivity.
  - destruct conv as [|[ln b|ln] conv']; try discriminate.
    destruct (ace_eqb_sem a b) eqn:E; [|discriminate].
    destruct (ace_eqb_sem_sound a b E) as [P D]. cbn [decide existsb]. rewrite <- D.
    destruct (denb a k); cbn [orb].
    + f_equal. rewrite <- P. apply A. now left.
    + apply (IH conv' rest k H); [intros; eauto|]. intros a' Ha'. apply A. now right.
Qed.

(** what the certificate needs to know about the split of an ACE: same action, same packets *)
Definition split_sem (pl : platform) (v15 : bool) (a : ace) : Prop :=
  forall l, split_ace pl v15 a = Ok l ->
    (forall a', In a' l -> a_permit a' = a_permit a) /\ forall k, denb a k = existsb (fun a' => denb a' k) l.

Lemma split_sem_eq pl v15 a :
  eq_or_unsplit (a_sport a) -> eq_or_unsplit (a_dport a) -> split_sem pl v15 a.
Proof. intros Hs Hd l E. now apply (split_denb pl v15 a l). Qed.

(** a split that yields a single entry is checked directly on the objects (single-port neq) *)
Lemma split_sem_single pl v15 a a' :
  split_ace pl v15 a = Ok [a'] -> ace_eqb_sem a a' = true -> split_sem pl v15 a.
Proof.
  intros E Q l E'. rewrite E in E'. injection E' as <-. destruct (ace_eqb_sem_sound _ _ Q) as [P D]. split.
  - intros x [<-|[]]. now symmetry.
  - intros k. cbn. now rewrite orb_false_r.
Qed.

Definition eq_or_unsplitb (p : port) : bool :=
  (match p_op p with Some Eq => true | _ => false end && list_eqb N.eqb (p_ports p) (p_items p))
  || negb (splittable p).

Lemma eq_or_unsplitb_ok p : eq_or_unsplitb p = true -> eq_or_unsplit p.
Proof.
  unfold eq_or_unsplitb, eq_or_unsplit. intros H. apply orb_prop in H as [H|H].
  - apply andb_prop in H as [H1 H2]. left. split.
    + destruct (p_op p) as [[]|]; try discriminate; reflexivity.
    + apply (list_eqb_eq N.eqb (fun a b E => proj1 (N.eqb_eq a b) E)) in H2. exact H2.
  - right. now apply negb_true_iff in H.
Qed.

(** one side of the split, semantically: the single-port expressions match exactly what the
    expression matched *)
Definition side_sem (pl : platform) (c : pctx) (p : port) : Prop :=
  exists ps, side_ports pl c p = Ok ps /\
    forall proto x, port_match p proto x <-> exists q, In q ps /\ port_match q proto x.

Lemma side_sem_spec pl c p : eq_or_unsplit p -> side_sem pl c p.
Proof. intros H. destruct (side_spec pl c p H) as (ps & E & M & _). now exists ps. Qed.

(** an expression whose split is one expression, equal to it on the objects (single-port neq) *)
Lemma side_sem_single pl c p q : side_ports pl c p = Ok [q] -> port_eqb_sem p q = true -> side_sem pl c p.
Proof.
  intros E Q. exists [q]. split; auto. intros proto x.
  rewrite <- (port_matchb_spec p proto x). rewrite (port_eqb_sem_sound _ _ proto x Q). rewrite port_matchb_spec.
  split; [intros M; exists q; split; [now left|auto]|intros (q' & [<-|[]] & M); auto].
Qed.

Lemma split_den_gen pl v15 a :
  side_sem pl (proto_ctx pl v15 (a_proto a)) (a_sport a) -> side_sem pl (proto_ctx pl v15 (a_proto a)) (a_dport a) ->
  exists l, split_ace pl v15 a = Ok l /\
    (forall srcs dsts k, den a srcs dsts k <-> exists a', In a' l /\ den a' srcs dsts k) /\
    (forall a', In a' l -> a_permit a' = a_permit a /\ a_src a' = a_src a /\ a_dst a' = a_dst a).
Proof.
  intros (ss & Es & Ms) (dd & Ed & Md). unfold split_ace. rewrite Es, Ed. cbn [bind].
  eexists. split; [reflexivity|]. split.
  - intros srcs dsts k. unfold den. split.
    + intros (D1 & D2 & D3 & D4 & D5 & D6).
      apply Ms in D4 as (s0 & Hs' & Ms'). apply Md in D5 as (d0 & Hd' & Md').
      exists (with_ports a s0 d0). split.
      * apply in_flat_map. exists s0. split; auto. now apply in_map.
      * cbn. tauto.
    + intros (a' & Ha' & (D1 & D2 & D3 & D4 & D5 & D6)).
      apply in_flat_map in Ha' as (s0 & Hs' & Ha'). apply in_map_iff in Ha' as (d0 & <- & Hd').
      cbn in *. repeat split; auto.
      * apply Ms. exists s0. auto.
      * apply Md. exists d0. auto.
  - intros a' Ha'. apply in_flat_map in Ha' as (s0 & Hs' & Ha'). apply in_map_iff in Ha' as (d0 & <- & Hd').
    cbn. repeat split; auto.
Qed.

Lemma split_sem_sides pl v15 a :
  side_sem pl (proto_ctx pl v15 (a_proto a)) (a_sport a) -> side_sem pl (proto_ctx pl v15 (a_proto a)) (a_dport a) ->
  split_sem pl v15 a.
Proof.
  intros Hs Hd l E. destruct (split_den_gen pl v15 a Hs Hd) as (l' & E' & M & F). rewrite E in E'. injection E' as <-.
  split; [intros a' Ha'; now apply F|]. intros k.
  destruct (denb a k) eqn:D.
  - symmetry. apply existsb_exists. apply denb_spec in D. apply M in D as (a' & Ha' & D').
    exists a'. split; auto. apply denb_spec. destruct (F a' Ha') as (_ & S1 & S2). now rewrite S1, S2.
  - symmetry. apply not_true_is_false. intro C. apply existsb_exists in C as (a' & Ha' & D').
    apply denb_spec in D'. destruct (F a' Ha') as (_ & S1 & S2). rewrite S1, S2 in D'.
    assert (den a (sets_of (a_src a)) (sets_of (a_dst a)) k) by (apply M; exists a'; auto).
    apply denb_spec in H. congruence.
Qed.

Definition side_certb (pl : platform) (c : pctx) (p : port) : bool :=
  eq_or_unsplitb p || match side_ports pl c p with Ok [q] => port_eqb_sem p q | _ => false end.

Lemma side_certb_ok pl c p : side_certb pl c p = true -> side_sem pl c p.
Proof.
  unfold side_certb. intros H. apply orb_prop in H as [H|H].
  - apply side_sem_spec. now apply eq_or_unsplitb_ok.
  - destruct (side_ports pl c p) as [[|q [|? ?]]| | | |] eqn:E; try discriminate.
    now apply (side_sem_single pl c p q).
Qed.

Definition split_certb (pl : platform) (v15 : bool) (a : ace) : bool :=
  side_certb pl (proto_ctx pl v15 (a_proto a)) (a_sport a) && side_certb pl (proto_ctx pl v15 (a_proto a)) (a_dport a).

Lemma split_certb_ok pl v15 a : split_certb pl v15 a = true -> split_sem pl v15 a.
Proof.
  unfold split_certb. intros H. apply andb_prop in H as [H1 H2].
  apply split_sem_sides; now apply side_certb_ok.
Qed.

Definition split_sem_ok (pl : platform) (v15 : bool) (items : list (item ace)) : Prop :=
  forall l a, In (IAce l a) items -> split_sem pl v15 a.

Definition splittable_ok (items : list (item ace)) : Prop :=
  forall l a, In (IAce l a) items -> eq_or_unsplit (a_sport a) /\ eq_or_unsplit (a_dport a).

Lemma splittable_split_sem pl v15 items : splittable_ok items -> split_sem_ok pl v15 items.
Proof. intros H l a Hin. destruct (H l a Hin). now apply split_sem_eq. Qed.

Theorem conversion_decision_gen pl v15 do_split : forall orig conv,
  split_sem_ok pl v15 orig -> conv_okb pl v15 do_split orig conv = true ->
  forall k, decide denb a_permit conv k = decide denb a_permit orig k.
Proof.
  induction orig as [|o orig IH]; intros conv OKs H k.
  - destruct conv; [reflexivity|discriminate].
  - assert (OK' : split_sem_ok pl v15 orig) by (intros l a Hin; apply (OKs l a); now right).
    destruct o as [ln a|ln]; cbn [conv_okb] in H.
    + pose proof (OKs ln a (or_introl eq_refl)) as Hsem.
      destruct (if do_split then split_ace pl v15 a else Ok [a]) as [l| | | |] eqn:EL; try discriminate.
      destruct (take_sem l conv) as [conv'|] eqn:ET; [|discriminate].
      assert (SP : (forall a', In a' l -> a_permit a' = a_permit a) /\
                   forall k, denb a k = existsb (fun a' => denb a' k) l).
      { destruct do_split.
        - now apply Hsem.
        - injection EL as <-. split; [intros a' [<-|[]]; reflexivity|]. intros k0. cbn. now rewrite orb_false_r. }
      destruct SP as [ACT DEN].
      rewrite (take_sem_decide l conv conv' k ET (fun a' _ => ex_intro _ _ eq_refl) (a_permit a) ACT).
      cbn [decide]. rewrite DEN. destruct (existsb _ l); auto.
    + destruct conv as [|[?|?] conv']; try discriminate. cbn [decide]. now apply IH.
Qed.

Theorem conversion_decision pl v15 do_split : forall orig conv,
  splittable_ok orig -> conv_okb pl v15 do_split orig conv = true ->
  forall k, decide denb a_permit conv k = decide denb a_permit orig k.
Proof. intros orig conv H. apply conversion_decision_gen. now apply splittable_split_sem. Qed.

(** re-typing an address for another platform changes its spelling class only *)
Lemma retype_sets pl a : sets_of (retype pl a) = sets_of a.
Proof. destruct a as [ty w|n items]; reflexivity. Qed.

Lemma retype_idem pl a : retype pl (retype pl a) = retype pl a.
Proof.
  destruct a as [ty w|n items]; [|reflexivity]. cbn [retype].
  destruct pl; try reflexivity; destruct (w_ipnet w) as [[p len]|]; reflexivity.
Qed.

(** the part of the ACE setter that happens before the re-parse keeps the packet set and the action *)
Definition retype_ace (pl : platform) (a : ace) : ace :=
  mkAce (a_permit a) (a_proto a) (retype pl (a_src a)) (retype pl (a_dst a))
        (a_sport a) (a_dport a) (a_flags a) (a_logs a).

Lemma retype_ace_sem pl a : ace_eqb_sem a (retype_ace pl a) = true -> forall k, denb a k = denb (retype_ace pl a) k.
Proof. intros H. now destruct (ace_eqb_sem_sound _ _ H). Qed.

Theorem retype_ace_den pl a k : denb (retype_ace pl a) k = denb a k.
Proof. unfold denb, retype_ace. cbn [a_proto a_src a_dst a_sport a_dport a_flags]. now rewrite !retype_sets. Qed.

(** the hypothesis of the certificate, as a check *)
Definition splittable_okb (pl : platform) (v15 : bool) (items : list (item ace)) : bool :=
  forallb (fun i => match i with IAce _ a => split_certb pl v15 a | IRemark _ => true end) items.

Lemma splittable_okb_ok pl v15 items : splittable_okb pl v15 items = true -> split_sem_ok pl v15 items.
Proof.
  unfold splittable_okb, split_sem_ok. rewrite forallb_forall. intros H l a Hin.
  specialize (H _ Hin). cbn in H. now apply split_certb_ok.
Qed.

Theorem conversion_decision_checked pl v15 do_split orig conv :
  splittable_okb pl v15 orig = true -> conv_okb pl v15 do_split orig conv = true ->
  forall k, decide denb a_permit conv k = decide denb a_permit orig k.
Proof. intros S. apply conversion_decision_gen. now apply splittable_okb_ok. Qed.
