(** Proofs about model/Ports.v (C08). *)
From V Require Import base.Prelude base.Strs gen.Tables model.Cfg model.Names model.Ports.
From Coq Require Import Sorting.Sorted Sorting.Permutation Sorting.Mergesort.
Local Open Scope N_scope.

Global Strategy 100 [all_ports].

(** * sorting *)
Definition le_sorted (l : list N) : Prop := StronglySorted N.le l.
Definition lt_sorted (l : list N) : Prop := StronglySorted N.lt l.

Lemma sortN_perm l : Permutation l (sortN l).
Proof. apply NSort.Permuted_sort. Qed.

Lemma sortN_sorted l : le_sorted (sortN l).
Proof.
  unfold le_sorted, sortN.
  assert (T : Relations_1.Transitive (fun x y => is_true (NOrder.leb x y))).
  { intros x y z. unfold NOrder.leb, is_true. rewrite !N.leb_le. lia. }
  pose proof (NSort.StronglySorted_sort l T) as H.
  induction H; constructor; auto.
  eapply Forall_impl; [|eassumption]. intros b Hb. now apply N.leb_le.
Qed.

Lemma sortN_In l x : In x (sortN l) <-> In x l.
Proof.
  split; intro H.
  - eapply Permutation_in; [apply Permutation_sym, sortN_perm|exact H].
  - eapply Permutation_in; [apply sortN_perm|exact H].
Qed.

Lemma sortN_length l : length (sortN l) = length l.
Proof. symmetry. apply Permutation_length, sortN_perm. Qed.

Lemma le_sorted_unique l1 : forall l2,
  le_sorted l1 -> le_sorted l2 -> Permutation l1 l2 -> l1 = l2.
Proof.
  induction l1 as [|a t IH]; intros l2 S1 S2 P.
  - apply Permutation_nil in P. now subst.
  - destruct l2 as [|b t2]; [apply Permutation_sym, Permutation_nil in P; discriminate|].
    inversion S1 as [|? ? S1' F1]; inversion S2 as [|? ? S2' F2]; subst.
    assert (a = b).
    { assert (In a (b :: t2)) as Ha by (eapply Permutation_in; [exact P|now left]).
      assert (In b (a :: t)) as Hb by (eapply Permutation_in; [apply Permutation_sym, P|now left]).
      rewrite Forall_forall in F1, F2.
      destruct Ha as [->|Ha]; auto. destruct Hb as [->|Hb]; auto.
      specialize (F1 _ Hb). specialize (F2 _ Ha). lia. }
    subst. f_equal. apply IH; auto. now apply Permutation_cons_inv in P.
Qed.

Lemma sortN_id l : le_sorted l -> sortN l = l.
Proof.
  intros H. apply le_sorted_unique; auto using sortN_sorted.
  apply Permutation_sym, sortN_perm.
Qed.

Lemma lt_le_sorted l : lt_sorted l -> le_sorted l.
Proof.
  induction 1; constructor; auto. eapply Forall_impl; [|eassumption]. intros; lia.
Qed.

Lemma sortN_idem l : sortN (sortN l) = sortN l.
Proof. apply sortN_id, sortN_sorted. Qed.

Lemma sortN_NoDup_lt l : NoDup l -> lt_sorted (sortN l).
Proof.
  intros ND.
  assert (ND' : NoDup (sortN l)) by (eapply Permutation_NoDup; [apply sortN_perm|exact ND]).
  pose proof (sortN_sorted l) as S. induction S as [|a t S IH F]; constructor.
  - apply IH. now inversion ND'.
  - inversion ND' as [|? ? Hn _]; subst. rewrite Forall_forall in *. intros x Hx.
    specialize (F x Hx). assert (x <> a) by (intro; subst; contradiction). lia.
Qed.

Lemma sort_pair a b : sortN [a; b] = [N.min a b; N.max a b].
Proof.
  apply le_sorted_unique.
  - apply sortN_sorted.
  - repeat constructor; lia.
  - eapply Permutation_trans; [apply Permutation_sym, sortN_perm|].
    destruct (N.le_ge_cases a b).
    + rewrite N.min_l, N.max_r by lia. apply Permutation_refl.
    + rewrite N.min_r, N.max_l by lia. apply perm_swap.
Qed.

(** * seqN and filters over it *)
Lemma seqN_lt_sorted len : forall s, lt_sorted (seqN s len).
Proof.
  induction len as [|len IH]; intros s; cbn [seqN]; [constructor|].
  constructor; [apply IH|].
  apply Forall_forall. intros x Hx. apply in_seqN in Hx. lia.
Qed.

Lemma filter_lt_sorted f l : lt_sorted l -> lt_sorted (filter f l).
Proof.
  induction 1 as [|a t S IH F]; cbn [filter]; [constructor|].
  destruct (f a); auto. constructor; auto.
  rewrite Forall_forall in *. intros x Hx. apply filter_In in Hx as [Hx _]. auto.
Qed.

Lemma in_all_ports p : In p all_ports <-> 1 <= p <= 65535.
Proof. unfold all_ports. rewrite in_seqN. lia. Qed.

Lemma all_ports_lt_sorted : lt_sorted all_ports.
Proof. unfold all_ports. apply seqN_lt_sorted. Qed.

(* from here on the 65535-element list is never unfolded by a tactic *)
Global Opaque all_ports.

Lemma range_incl_In a b p : In p (range_incl a b) <-> a <= p <= b.
Proof. unfold range_incl. rewrite in_seqN. lia. Qed.

(** * the meaning of a port expression over its validated, sorted operand list *)
Definition sem (o : pop) (xs : list N) (p : N) : Prop :=
  match o with
  | Eq => In p xs
  | Neq => ~ In p xs
  | Gt => exists x, xs = [x] /\ x < p
  | Lt => exists x, xs = [x] /\ p < x
  | Range => exists a b, xs = [a; b] /\ N.min a b <= p <= N.max a b
  end.

Definition valid_count (single : bool) (o : pop) (n : nat) : bool :=
  match o with
  | Lt | Gt => Nat.eqb n 1
  | Range => Nat.eqb n 2
  | Eq | Neq => negb single || Nat.eqb n 1
  end.

(** parsing numeric operands: the name table is not consulted *)
Lemma items_to_ints_dec tbl xs : items_to_ints tbl (map dec xs) = Ok xs.
Proof.
  induction xs as [|x t IH]; cbn [map items_to_ints]; auto.
  rewrite undec_dec. cbn [bind]. rewrite IH. reflexivity.
Qed.

Definition parse_nums (pl : platform) (c : pctx) (o : pop) (xs : list N) : res port :=
  parse_port pl c (pop_name o :: map dec xs).

Lemma pop_of_name o : pop_of_string (pop_name o) = Some o.
Proof. destruct o; reflexivity. Qed.

Lemma parse_nums_eq pl c o xs :
  xs <> [] ->
  parse_nums pl c o xs =
  if valid_count (ctx_platform_single pl) o (length xs)
  then do ps <- items_to_ports o (sortN xs);
       Ok (mkPort (Some o) (sortN xs) ps (ports_to_string ps))
  else VErr.
Proof.
  intros Hne. unfold parse_nums, parse_port. rewrite pop_of_name.
  destruct xs as [|x t]; [congruence|]. cbn [map].
  change (dec x :: map dec t) with (map dec (x :: t)). rewrite items_to_ints_dec. cbn [bind].
  set (n := length (x :: t)).
  destruct o, (ctx_platform_single pl); cbn [valid_count negb orb andb];
    try reflexivity;
    match goal with |- context [Nat.eqb n ?k] => destruct (Nat.eqb n k) end; reflexivity.
Qed.

Theorem ports_sem pl c o xs prt :
  parse_nums pl c o xs = Ok prt ->
  (forall x, In x xs -> 1 <= x <= 65535) ->
  forall p, In p (p_ports prt) <-> (1 <= p <= 65535 /\ sem o xs p).
Proof.
  intros HP HR p. destruct xs as [|x0 t0] eqn:EX.
  { unfold parse_nums, parse_port in HP. rewrite pop_of_name in HP. discriminate. }
  rewrite <- EX in *. rewrite parse_nums_eq in HP by (rewrite EX; discriminate).
  destruct (valid_count _ o (length xs)) eqn:VC; [|discriminate].
  destruct o; cbn [items_to_ports valid_count] in *.
  - (* eq *) injection HP as <-; cbn [p_ports]. rewrite sortN_In. cbn [sem]. split.
    + intros H. split; auto.
    + tauto.
  - (* gt *) apply Nat.eqb_eq in VC. destruct xs as [|x [|? ?]]; try discriminate.
    rewrite (sortN_id [x]) in HP by (repeat constructor). injection HP as <-; cbn [p_ports].
    rewrite filter_In, in_all_ports, N.ltb_lt. cbn [sem]. split.
    + intros [H1 H2]. split; auto. exists x. auto.
    + intros [H1 (y & [= <-] & H2)]. auto.
  - (* lt *) apply Nat.eqb_eq in VC. destruct xs as [|x [|? ?]]; try discriminate.
    rewrite (sortN_id [x]) in HP by (repeat constructor). injection HP as <-; cbn [p_ports].
    rewrite filter_In, in_all_ports, N.ltb_lt. cbn [sem]. split.
    + intros [H1 H2]. split; auto. exists x. auto.
    + intros [H1 (y & [= <-] & H2)]. auto.
  - (* neq *) injection HP as <-; cbn [p_ports].
    rewrite filter_In, in_all_ports, negb_true_iff. cbn [sem].
    rewrite <- (sortN_In xs p). rewrite <- memN_In.
    destruct (memN p (sortN xs)); split; intros [H1 H2]; split; auto; congruence.
  - (* range *) apply Nat.eqb_eq in VC. destruct xs as [|a [|b [|? ?]]]; try discriminate.
    rewrite sort_pair in HP. injection HP as <-; cbn [p_ports].
    rewrite range_incl_In. cbn [sem].
    assert (1 <= a <= 65535) by (apply HR; cbn; auto).
    assert (1 <= b <= 65535) by (apply HR; cbn; auto).
    split.
    + intros H1. split; [lia|]. exists a, b. auto.
    + intros [H1 (a' & b' & [= <- <-] & H2)]. auto.
Qed.

Theorem ports_sorted pl c o xs prt :
  parse_nums pl c o xs = Ok prt -> (o = Eq -> NoDup xs) -> lt_sorted (p_ports prt).
Proof.
  intros HP ND. destruct xs as [|x0 t0] eqn:EX.
  { unfold parse_nums, parse_port in HP. rewrite pop_of_name in HP. discriminate. }
  rewrite <- EX in *. rewrite parse_nums_eq in HP by (rewrite EX; discriminate).
  destruct (valid_count _ o (length xs)) eqn:VC; [|discriminate].
  destruct o; cbn [items_to_ports valid_count] in *.
  - injection HP as <-; cbn [p_ports]. apply sortN_NoDup_lt; auto.
  - destruct (sortN xs); [discriminate|]. injection HP as <-; cbn [p_ports].
    apply filter_lt_sorted, all_ports_lt_sorted.
  - destruct (sortN xs); [discriminate|]. injection HP as <-; cbn [p_ports].
    apply filter_lt_sorted, all_ports_lt_sorted.
  - injection HP as <-; cbn [p_ports]. apply filter_lt_sorted, all_ports_lt_sorted.
  - destruct (sortN xs) as [|a [|b [|? ?]]]; try discriminate. injection HP as <-; cbn [p_ports].
    apply seqN_lt_sorted.
Qed.

(** * strictly increasing lists are determined by their elements *)
Lemma lt_sorted_ext l1 : forall l2,
  lt_sorted l1 -> lt_sorted l2 -> (forall p, In p l1 <-> In p l2) -> l1 = l2.
Proof.
  induction l1 as [|a t IH]; intros l2 S1 S2 E.
  - destruct l2 as [|b t2]; auto. exfalso. apply (E b). now left.
  - destruct l2 as [|b t2]; [exfalso; apply (E a); now left|].
    inversion S1 as [|? ? S1' F1]; inversion S2 as [|? ? S2' F2]; subst.
    rewrite Forall_forall in F1, F2.
    assert (a = b).
    { destruct (proj1 (E a) (or_introl eq_refl)) as [->|Ha]; auto.
      destruct (proj2 (E b) (or_introl eq_refl)) as [->|Hb]; auto.
      specialize (F1 _ Hb). specialize (F2 _ Ha). lia. }
    subst b. f_equal. apply IH; auto. intros p. split; intros Hp.
    + destruct (proj1 (E p) (or_intror Hp)) as [->|H]; auto.
      specialize (F1 _ Hp). lia.
    + destruct (proj2 (E p) (or_intror Hp)) as [->|H]; auto.
      specialize (F2 _ Hp). lia.
Qed.

Lemma last_seqN n : forall s d, last (seqN s (S n)) d = s + N.of_nat n.
Proof.
  induction n as [|n IH]; intros s d; [cbn; lia|].
  change (seqN s (S (S n))) with (s :: seqN (N.succ s) (S n)).
  change (last (s :: seqN (N.succ s) (S n)) d) with (last (seqN (N.succ s) (S n)) d).
  rewrite IH. lia.
Qed.

Lemma filter_gt_all x : x <= 65535 ->
  filter (fun i => N.ltb x i) all_ports = seqN (x + 1) (N.to_nat (65535 - x)).
Proof.
  intros Hx. apply lt_sorted_ext.
  - apply filter_lt_sorted, all_ports_lt_sorted.
  - apply seqN_lt_sorted.
  - intros p. rewrite filter_In, in_all_ports, N.ltb_lt, in_seqN. lia.
Qed.

Lemma filter_lt_all x : 1 <= x <= 65536 ->
  filter (fun i => N.ltb i x) all_ports = seqN 1 (N.to_nat (x - 1)).
Proof.
  intros Hx. apply lt_sorted_ext.
  - apply filter_lt_sorted, all_ports_lt_sorted.
  - apply seqN_lt_sorted.
  - intros p. rewrite filter_In, in_all_ports, N.ltb_lt, in_seqN. lia.
Qed.

(** * complement (the "neq" inverse) *)
Lemma complement_spec fuel : forall cur l,
  lt_sorted l -> Forall (fun x => cur <= x) l ->
  lt_sorted (complement_from cur fuel l) /\
  forall p, In p (complement_from cur fuel l) <-> (cur <= p < cur + N.of_nat fuel /\ ~ In p l).
Proof.
  induction fuel as [|f IH]; intros cur l S G; cbn [complement_from].
  - split; [constructor|]. intros p. cbn. lia.
  - destruct l as [|x t].
    + destruct (IH (N.succ cur) [] S (Forall_nil _)) as [S' M]. split.
      * constructor; auto. apply Forall_forall. intros y Hy. apply M in Hy. lia.
      * intros p. cbn [In]. rewrite M. cbn [In]. lia.
    + inversion S as [|? ? St Ft]; subst. inversion G as [|? ? Gx Gt']; subst.
      rewrite Forall_forall in Ft.
      destruct (N.eqb x cur) eqn:E.
      * apply N.eqb_eq in E. subst x.
        assert (Forall (fun y => N.succ cur <= y) t) as G'.
        { apply Forall_forall. intros y Hy. specialize (Ft _ Hy). lia. }
        destruct (IH (N.succ cur) t St G') as [S' M]. split; auto.
        intros p. rewrite M. cbn [In]. split.
        -- intros [H1 H2]. split; [lia|]. intros [C|C]; [lia|auto].
        -- intros [H1 H2]. split; [|tauto]. assert (p <> cur) by (intro; subst; apply H2; now left). lia.
      * apply N.eqb_neq in E.
        assert (Forall (fun y => N.succ cur <= y) (x :: t)) as G'.
        { constructor; [lia|]. apply Forall_forall. intros y Hy. specialize (Ft _ Hy). lia. }
        destruct (IH (N.succ cur) (x :: t) S G') as [S' M]. split.
        -- constructor; auto. apply Forall_forall. intros y Hy. apply M in Hy. lia.
        -- intros p. cbn [In]. rewrite M. cbn [In]. split.
           ++ intros [->|[H1 H2]].
              ** split; [lia|]. intros [C|C]; [lia|]. specialize (Ft _ C). lia.
              ** split; [lia|auto].
           ++ intros [H1 H2]. destruct (N.eq_dec cur p); [now left|right]. split; [lia|auto].
Qed.

Lemma strictly_inc_spec l : forall lo,
  lt_sorted l -> Forall (fun x => lo < x <= 65535) l -> strictly_inc_from lo l = true.
Proof.
  induction l as [|x t IH]; intros lo S F; cbn [strictly_inc_from]; auto.
  inversion S as [|? ? St Ft]; subst. inversion F as [|? ? Fx Ft']; subst.
  rewrite Forall_forall in Ft, Ft'.
  rewrite (proj2 (N.ltb_lt lo x)) by lia. rewrite (proj2 (N.leb_le x 65535)) by lia. cbn [andb].
  apply IH; auto. apply Forall_forall. intros y Hy. specialize (Ft _ Hy). specialize (Ft' _ Hy). lia.
Qed.

(** * _ports_to_items inverts items_to_ports on validated operands *)
Definition in_range (xs : list N) : Prop := forall x, In x xs -> 1 <= x <= 65535.

Lemma ports_items_inverse o its ps :
  lt_sorted its -> in_range its ->
  valid_count false o (length its) = true -> its <> [] ->
  items_to_ports o its = Ok ps -> ports_to_items o ps = Ok its.
Proof.
  intros HS R VC NE H. destruct o; cbn [items_to_ports ports_to_items valid_count negb orb] in *.
  - now injection H as <-.
  - apply Nat.eqb_eq in VC. destruct its as [|x [|? ?]]; try discriminate. injection H as <-.
    assert (1 <= x <= 65535) as Hx by (apply R; now left).
    rewrite filter_gt_all by lia. destruct (N.to_nat (65535 - x)) as [|n] eqn:En; cbn [seqN].
    + f_equal. f_equal. lia.
    + f_equal. f_equal. lia.
  - apply Nat.eqb_eq in VC. destruct its as [|x [|? ?]]; try discriminate. injection H as <-.
    assert (1 <= x <= 65535) as Hx by (apply R; now left).
    rewrite filter_lt_all by lia. destruct (N.to_nat (x - 1)) as [|n] eqn:En.
    + cbn [seqN]. f_equal. f_equal. lia.
    + cbn [seqN]. change (1 :: seqN (N.succ 1) n) with (seqN 1 (S n)).
      rewrite last_seqN. f_equal. f_equal. lia.
  - injection H as <-.
    set (L := filter (fun i => negb (memN i its)) all_ports).
    assert (SL : lt_sorted L) by (apply filter_lt_sorted, all_ports_lt_sorted).
    assert (ML : forall p, In p L <-> (1 <= p <= 65535 /\ ~ In p its)).
    { intros p. unfold L. rewrite filter_In, in_all_ports, negb_true_iff. rewrite <- memN_In.
      destruct (memN p its); split; intros [? ?]; split; auto; congruence. }
    rewrite (sortN_id L) by now apply lt_le_sorted.
    rewrite strictly_inc_spec; auto.
    2:{ apply Forall_forall. intros y Hy. apply ML in Hy. lia. }
    f_equal.
    assert (G : Forall (fun x => 1 <= x) L).
    { apply Forall_forall. intros y Hy. apply ML in Hy. lia. }
    destruct (complement_spec (N.to_nat 65535) 1 L SL G) as [SC MC].
    apply lt_sorted_ext; auto. intros p. rewrite MC, ML. split.
    + intros [H1 H2]. destruct (in_dec N.eq_dec p its) as [|Hn]; auto. exfalso. apply H2. split; auto. lia.
    + intros Hp. specialize (R _ Hp). split; [lia|]. tauto.
  - apply Nat.eqb_eq in VC. destruct its as [|a [|b [|? ?]]]; try discriminate. injection H as <-.
    inversion HS as [|? ? _ Fa]; subst. rewrite Forall_forall in Fa.
    assert (a < b) by (apply Fa; now left).
    unfold range_incl. destruct (N.to_nat (b + 1 - a)) as [|n] eqn:En; [lia|].
    cbn [seqN]. change (a :: seqN (N.succ a) n) with (seqN a (S n)).
    rewrite last_seqN. f_equal. f_equal. f_equal. lia.
Qed.

(** * the range-string codec *)
From Coq Require Import DecimalString.

Lemma contains_app c a b :
  str_contains_char c (a ++ b)%string = str_contains_char c a || str_contains_char c b.
Proof. induction a as [|x a IH]; cbn; auto. rewrite IH. now rewrite orb_assoc. Qed.

Lemma uint_string_no_comma d : str_contains_char "," (NilEmpty.string_of_uint d) = false.
Proof. induction d; cbn; auto. Qed.
Lemma uint_string_no_dash d : str_contains_char "-" (NilEmpty.string_of_uint d) = false.
Proof. induction d; cbn; auto. Qed.

Lemma dec_no_comma n : str_contains_char "," (dec n) = false.
Proof.
  unfold dec, NilZero.string_of_uint. destruct (N.to_uint n); auto; apply uint_string_no_comma.
Qed.
Lemma dec_no_dash n : str_contains_char "-" (dec n) = false.
Proof.
  unfold dec, NilZero.string_of_uint. destruct (N.to_uint n); auto; apply uint_string_no_dash.
Qed.
Lemma dec_nonempty_b n : str_nonempty (dec n) = true.
Proof.
  destruct (dec n) eqn:E; auto. pose proof (undec_dec n) as H. rewrite E in H. discriminate.
Qed.

Lemma uint_of_string_dash s :
  str_contains_char "-" s = true -> NilEmpty.uint_of_string s = None.
Proof.
  induction s as [|a s IH]; cbn; [discriminate|].
  destruct (Ascii.eqb a "-") eqn:E; cbn.
  - apply Ascii.eqb_eq in E. subst. intros _. now destruct (NilEmpty.uint_of_string s).
  - intros H. rewrite (IH H). reflexivity.
Qed.

Lemma undec_dash s : str_contains_char "-" s = true -> undec s = None.
Proof.
  intros H. unfold undec, NilZero.uint_of_string. destruct s; auto.
  now rewrite (uint_of_string_dash _ H).
Qed.

Lemma app_assoc_s (a b c : string) : ((a ++ b) ++ c = a ++ (b ++ c))%string.
Proof. induction a; cbn; congruence. Qed.
Lemma app_nil_r_s (a : string) : (a ++ "")%string = a.
Proof. induction a; cbn; congruence. Qed.

Lemma split_no_sep c s : forall cur,
  str_contains_char c s = false -> split_on_aux c s cur = [(cur ++ s)%string].
Proof.
  induction s as [|a s IH]; intros cur H; cbn in *.
  - now rewrite app_nil_r_s.
  - apply orb_false_iff in H as [H1 H2]. rewrite H1. rewrite IH by auto.
    now rewrite app_assoc_s.
Qed.

Lemma split_at_sep c s1 s2 : forall cur,
  str_contains_char c s1 = false ->
  split_on_aux c (s1 ++ String c s2) cur = (cur ++ s1)%string :: split_on_aux c s2 "".
Proof.
  induction s1 as [|a s1 IH]; intros cur H; cbn in *.
  - rewrite Ascii.eqb_refl. now rewrite app_nil_r_s.
  - apply orb_false_iff in H as [H1 H2]. rewrite H1. rewrite IH by auto.
    now rewrite app_assoc_s.
Qed.

Lemma split_join c xs :
  xs <> [] -> Forall (fun x => str_contains_char c x = false) xs ->
  split_on c (join (String c "") xs) = xs.
Proof.
  unfold split_on. induction xs as [|x t IH]; intros NE F; [congruence|].
  inversion F as [|? ? Fx Ft]; subst. destruct t as [|y t'].
  - cbn [join]. now rewrite split_no_sep.
  - change (join (String c "") (x :: y :: t')) with (x ++ String c "" ++ join (String c "") (y :: t'))%string.
    cbn [String.append]. rewrite split_at_sep by auto. cbn [String.append].
    f_equal. apply IH; [discriminate|auto].
Qed.

Lemma value_ports_single x : value_ports (dec x) = [x].
Proof. unfold value_ports. now rewrite undec_dec. Qed.

Lemma value_ports_range f x : value_ports (dec f ++ "-" ++ dec x) = range_incl f x.
Proof.
  unfold value_ports. rewrite undec_dash.
  2:{ rewrite contains_app. cbn. now rewrite orb_true_r. }
  change (dec f ++ "-" ++ dec x)%string with (dec f ++ String "-" (dec x))%string.
  unfold split_on. rewrite split_at_sep by apply dec_no_dash.
  rewrite split_no_sep by apply dec_no_dash. cbn [String.append].
  now rewrite !undec_dec.
Qed.

Lemma seqN_snoc n : forall s, seqN s (S n) = seqN s n ++ [s + N.of_nat n].
Proof.
  induction n as [|n IH]; intros s.
  - cbn. f_equal. lia.
  - change (seqN s (S (S n))) with (s :: seqN (N.succ s) (S n)). rewrite IH.
    cbn [seqN app]. f_equal. f_equal. f_equal. lia.
Qed.

Lemma range_incl_snoc f x : f <= x -> range_incl f x = seqN f (N.to_nat (x - f)) ++ [x].
Proof.
  intros H. unfold range_incl. replace (N.to_nat (x + 1 - f)) with (S (N.to_nat (x - f))) by lia.
  rewrite seqN_snoc. f_equal. f_equal. lia.
Qed.

Definition prefix_of (first : option N) (x : N) : list N :=
  match first with Some f => seqN f (N.to_nat (x - f)) | None => [] end.

Lemma render_run_ports first x :
  match first with Some f => f <= x | None => True end ->
  value_ports (render_run first x) = prefix_of first x ++ [x].
Proof.
  destruct first as [f|]; cbn [render_run prefix_of]; intros H.
  - rewrite value_ports_range. now apply range_incl_snoc.
  - apply value_ports_single.
Qed.

Lemma runs_expand l : forall first x,
  lt_sorted (x :: l) -> match first with Some f => f <= x | None => True end ->
  flat_map value_ports (runs_aux first (x :: l)) = prefix_of first x ++ x :: l.
Proof.
  induction l as [|y t IH]; intros first x HS Hf.
  - cbn [runs_aux flat_map]. rewrite render_run_ports by auto. now rewrite app_nil_r.
  - inversion HS as [|? ? HS' Fx]; subst. rewrite Forall_forall in Fx.
    assert (x < y) by (apply Fx; now left).
    change (runs_aux first (x :: y :: t)) with
      (if N.leb (y - x) 1
       then runs_aux (Some (match first with None => x | Some f => f end)) (y :: t)
       else render_run first x :: runs_aux None (y :: t)).
    destruct (N.leb (y - x) 1) eqn:E.
    + apply N.leb_le in E. assert (y = x + 1) by lia. subst y.
      rewrite IH; auto.
      * destruct first as [f|]; cbn [prefix_of].
        -- replace (N.to_nat (x + 1 - f)) with (S (N.to_nat (x - f))) by lia.
           rewrite seqN_snoc, <- app_assoc. cbn [app]. f_equal. f_equal. lia.
        -- replace (N.to_nat (x + 1 - x)) with 1%nat by lia. reflexivity.
      * destruct first; lia.
    + cbn [flat_map]. rewrite render_run_ports by auto. rewrite IH by (auto; exact I).
      cbn [prefix_of app]. now rewrite <- app_assoc.
Qed.

Lemma render_run_ok first x :
  str_contains_char "," (render_run first x) = false /\ str_nonempty (render_run first x) = true.
Proof.
  destruct first as [f|]; cbn [render_run].
  - split.
    + rewrite !contains_app, !dec_no_comma. reflexivity.
    + pose proof (dec_nonempty_b f) as H. destruct (dec f) eqn:E; [discriminate H|reflexivity].
  - split; [apply dec_no_comma|apply dec_nonempty_b].
Qed.

Lemma runs_aux_ok l : forall first,
  Forall (fun r => str_contains_char "," r = false /\ str_nonempty r = true) (runs_aux first l).
Proof.
  induction l as [|x t IH]; intros first; [constructor|].
  destruct t as [|y t'].
  - cbn [runs_aux]. constructor; [apply render_run_ok|constructor].
  - change (runs_aux first (x :: y :: t')) with
      (if N.leb (y - x) 1
       then runs_aux (Some (match first with None => x | Some f => f end)) (y :: t')
       else render_run first x :: runs_aux None (y :: t')).
    destruct (N.leb (y - x) 1); [apply IH|]. constructor; [apply render_run_ok|apply IH].
Qed.

Lemma runs_aux_nonempty first x l : runs_aux first (x :: l) <> [].
Proof.
  revert first x. induction l as [|y t IH]; intros first x; [cbn; discriminate|].
  change (runs_aux first (x :: y :: t)) with
      (if N.leb (y - x) 1
       then runs_aux (Some (match first with None => x | Some f => f end)) (y :: t)
       else render_run first x :: runs_aux None (y :: t)).
  destruct (N.leb (y - x) 1); [apply IH|discriminate].
Qed.

Lemma dedup_sorted_id l : lt_sorted l -> dedup_sorted l = l.
Proof.
  induction 1 as [|a t HS IH F]; auto. destruct t as [|b t']; auto.
  change (dedup_sorted (a :: b :: t')) with
    (if N.eqb a b then dedup_sorted (b :: t') else a :: dedup_sorted (b :: t')).
  rewrite Forall_forall in F. assert (a < b) by (apply F; now left).
  rewrite (proj2 (N.eqb_neq a b)) by lia. now rewrite IH.
Qed.

Lemma filter_all {A} (f : A -> bool) l : Forall (fun x => f x = true) l -> filter f l = l.
Proof. induction 1 as [|a t Ha _ IH]; cbn; auto. now rewrite Ha, IH. Qed.

Theorem codec_roundtrip_sorted ps :
  lt_sorted ps -> in_range ps -> string_to_ports (ports_to_string ps) = ps.
Proof.
  intros HS R. unfold ports_to_string, string_to_ports.
  rewrite (sortN_id ps) by now apply lt_le_sorted.
  destruct ps as [|x l]; [vm_compute; reflexivity|].
  pose proof (runs_aux_ok (x :: l) None) as OK.
  rewrite split_join.
  2: apply runs_aux_nonempty.
  2:{ eapply Forall_impl; [|exact OK]. intros r [H _]. exact H. }
  rewrite (filter_all str_nonempty (runs_aux None (x :: l))).
  2:{ eapply Forall_impl; [|exact OK]. intros r [_ H]. exact H. }
  rewrite runs_expand by (auto; exact I). cbn [prefix_of app].
  rewrite filter_all.
  2:{ apply Forall_forall. intros p Hp. specialize (R _ Hp).
      rewrite (proj2 (N.leb_le 1 p)), (proj2 (N.leb_le p 65535)) by lia. reflexivity. }
  rewrite (sortN_id (x :: l)) by now apply lt_le_sorted.
  now apply dedup_sorted_id.
Qed.

Theorem codec_roundtrip l :
  NoDup l -> in_range l -> string_to_ports (ports_to_string l) = sortN l.
Proof.
  intros ND R. unfold ports_to_string.
  change (join "," (runs_aux None (sortN l))) with
    (join "," (runs_aux None (sortN l))).
  assert (E : ports_to_string (sortN l) = ports_to_string l).
  { unfold ports_to_string. now rewrite sortN_idem. }
  fold (ports_to_string l). rewrite <- E. apply codec_roundtrip_sorted.
  - now apply sortN_NoDup_lt.
  - intros x Hx. apply R. now apply sortN_In.
Qed.

(** * write-back through the three views *)
Lemma valid_count_weaken single o n : valid_count single o n = true -> valid_count false o n = true.
Proof. destruct o, single; cbn; auto. Qed.

Theorem writeback pl c o xs prt :
  parse_nums pl c o xs = Ok prt -> in_range xs -> NoDup xs ->
  set_items pl c prt (p_items prt) = Ok prt /\
  set_ports pl c prt (p_ports prt) = Ok prt /\
  set_sport pl c prt (p_sport prt) = Ok prt.
Proof.
  intros HP R ND.
  pose proof (ports_sem pl c o xs prt HP R) as SEM.
  pose proof (ports_sorted pl c o xs prt HP (fun _ => ND)) as PS.
  destruct xs as [|x0 t0] eqn:EX.
  { unfold parse_nums, parse_port in HP. rewrite pop_of_name in HP. discriminate. }
  rewrite <- EX in *. assert (NE : xs <> []) by (rewrite EX; discriminate). clear EX x0 t0.
  pose proof HP as HP0. rewrite parse_nums_eq in HP by auto.
  destruct (valid_count _ o (length xs)) eqn:VC; [|discriminate].
  destruct (items_to_ports o (sortN xs)) as [ps| | | |k] eqn:IP; try discriminate.
  cbn [bind] in HP. injection HP as <-. cbn [p_items p_ports p_sport p_op] in *.
  assert (NE' : sortN xs <> []).
  { intro C. apply (f_equal (@length N)) in C. rewrite sortN_length in C. destruct xs; [congruence|discriminate]. }
  assert (I1 : set_items pl c (mkPort (Some o) (sortN xs) ps (ports_to_string ps)) (sortN xs)
               = Ok (mkPort (Some o) (sortN xs) ps (ports_to_string ps))).
  { unfold set_items. cbn [p_op op_token app].
    fold (parse_nums pl c o (sortN xs)). rewrite parse_nums_eq by auto.
    rewrite sortN_length, VC, sortN_idem, IP. reflexivity. }
  assert (I2 : ports_to_items o ps = Ok (sortN xs)).
  { apply ports_items_inverse; auto.
    - now apply sortN_NoDup_lt.
    - intros x Hx. apply R. now apply sortN_In.
    - rewrite sortN_length. eapply valid_count_weaken; eauto. }
  assert (I3 : set_ports pl c (mkPort (Some o) (sortN xs) ps (ports_to_string ps)) ps
               = Ok (mkPort (Some o) (sortN xs) ps (ports_to_string ps))).
  { unfold set_ports. cbn [p_op]. rewrite I2. cbn [bind]. exact I1. }
  split; [exact I1|]. split; [exact I3|].
  unfold set_sport. cbn [p_sport]. rewrite codec_roundtrip_sorted; auto.
  intros p Hp. apply SEM in Hp. tauto.
Qed.
