(** Proofs about collapse (C14): the covered address set is preserved exactly. *)
From V Require Import base.Prelude gen.Tables model.Cfg model.Wildcard model.Addr model.Collapse
  proofs.WildProofs proofs.AddrProofs.
From Coq Require Import Sorting.Sorted.
Local Open Scope N_scope.

Definition covered (l : list net) (x : N) : Prop := Exists (in_net x) l.

Lemma covered_app a b x : covered (a ++ b) x <-> covered a x \/ covered b x.
Proof. unfold covered. apply Exists_app. Qed.

Lemma net_eqb_eq a b : net_eqb a b = true -> a = b.
Proof.
  destruct a, b. unfold net_eqb. cbn. intros H. apply andb_prop in H as [H1 H2].
  apply N.eqb_eq in H1. apply Nat.eqb_eq in H2. now subst.
Qed.

Lemma net_mem_In n l : net_mem n l = true -> In n l.
Proof.
  unfold net_mem. intros H. apply existsb_exists in H as (m & Hm & E). apply net_eqb_eq in E. now subst.
Qed.

(** * supernet and halves of strict networks *)
Lemma supernet_strict n : strict_net n -> strict_net (supernet n).
Proof.
  destruct n as [p len]. intros (L & P & HS). unfold supernet. cbn [fst snd] in *.
  destruct len as [|l]; [repeat split; auto|]. unfold W. repeat split; cbn [fst snd].
  - lia.
  - apply bits_lt_pow2. intros i Hi. rewrite tb_clearbit.
    destruct (Nat.eqb i (32 - S l)); auto. now apply tb_high.
  - intros i Hi. rewrite tb_clearbit. destruct (Nat.eqb i (32 - S l)) eqn:E; auto.
    apply Nat.eqb_neq in E. apply HS. lia.
Qed.

Lemma in_supernet x n : strict_net n -> in_net x n -> in_net x (supernet n).
Proof.
  destruct n as [p len]. intros (L & P & HS). destruct len as [|l]; [auto|].
  unfold supernet, in_net, W. cbn [fst snd] in *. rewrite !shiftr_eq_bits. intros H i Hi.
  rewrite tb_clearbit. replace (Nat.eqb i (32 - S l)) with false by (symmetry; apply Nat.eqb_neq; lia).
  apply H. lia.
Qed.

Lemma in_halves x q l :
  strict_net (q, l) -> (l < 32)%nat ->
  (in_net x (q, l) <-> Exists (in_net x) (halves (q, l))).
Proof.
  intros (L & P & HS) Hl. unfold halves. cbn [fst snd] in *.
  replace (Nat.ltb l W) with true by (symmetry; apply Nat.ltb_lt; unfold W; lia).
  unfold in_net, W. cbn [fst snd]. rewrite Exists_cons, Exists_cons, Exists_nil.
  rewrite !shiftr_eq_bits. cbn [fst snd]. set (b := (32 - S l)%nat).
  assert (Qb : tb q b = false) by (apply HS; unfold b; lia).
  split.
  - intros H. destruct (tb x b) eqn:Xb; [right; left|left]; intros i Hi.
    + rewrite tb_setbit. destruct (Nat.eqb i b) eqn:E; [apply Nat.eqb_eq in E; now subst|].
      apply Nat.eqb_neq in E. apply H. unfold b in *. lia.
    + destruct (Nat.eq_dec i b) as [->|NE]; [congruence|]. apply H. unfold b in *. lia.
  - intros [H|[H|[]]] i Hi.
    + apply H. unfold b in *. lia.
    + rewrite H by (unfold b in *; lia). rewrite tb_setbit.
      replace (Nat.eqb i b) with false by (symmetry; apply Nat.eqb_neq; unfold b in *; lia). reflexivity.
Qed.

Lemma halves_supernet_len n : strict_net n -> (snd (supernet n) < 32)%nat \/ snd n = 0%nat.
Proof. destruct n as [p [|l]]; intros (L & _); cbn in *; [now right|left; lia]. Qed.

(** * the loop preserves the covered set *)
Lemma rev_cons_inv {A} (l : list A) x r : rev l = x :: r -> l = rev r ++ [x].
Proof. intros H. rewrite <- (rev_involutive l), H. reflexivity. Qed.

Theorem collapse_loop_covered fuel : forall work acc r,
  collapse_loop fuel work acc = Some r -> Forall strict_net work -> Forall strict_net acc ->
  Forall strict_net r /\ forall x, covered r x <-> covered (work ++ acc) x.
Proof.
  induction fuel as [|f IH]; intros work acc r H SW SA; [discriminate|].
  cbn [collapse_loop] in H. destruct (rev work) as [|n rr] eqn:ER.
  - injection H as <-. assert (work = []) by (destruct work; auto; cbn in ER; destruct (rev work); discriminate).
    subst. split; auto. tauto.
  - apply rev_cons_inv in ER. set (rest := rev rr) in *. subst work.
    apply Forall_app in SW as [SR SN]. inversion SN as [|? ? Sn _]; subst.
    destruct (existsb (net_subnet_of n) rest) eqn:E1.
    + destruct (IH _ _ _ H SR SA) as [S1 C1]. split; auto. intros x. rewrite C1.
      rewrite !covered_app. split; [tauto|]. intros [[H1|H1]|H1]; auto.
      inversion H1 as [? ? IN|? ? IN]; [|inversion IN]. subst.
      apply existsb_exists in E1 as (o & Ho & Sub). left. apply Exists_exists. exists o. split; auto.
      rewrite Forall_forall in SR. exact (net_subnet_of_in x n o Sn (SR o Ho) Sub IN).
    + pose proof (supernet_strict n Sn) as SS.
      destruct (forallb (fun h => net_mem h (n :: rest)) (halves (supernet n))) eqn:E2.
      * assert (SW' : Forall strict_net (if net_mem (supernet n) rest then rest else supernet n :: rest)).
        { destruct (net_mem (supernet n) rest); auto. }
        destruct (IH _ _ _ H SW' SA) as [S1 C1]. split; auto. intros x. rewrite C1.
        rewrite !covered_app.
        assert (SUPIN : covered (if net_mem (supernet n) rest then rest else supernet n :: rest) x
                        <-> covered rest x \/ in_net x (supernet n)).
        { destruct (net_mem (supernet n) rest) eqn:M.
          - split; [tauto|]. intros [H1|H1]; auto. apply net_mem_In in M.
            apply Exists_exists. exists (supernet n). auto.
          - unfold covered. rewrite Exists_cons. tauto. }
        rewrite SUPIN.
        assert (ONE : covered [n] x <-> in_net x n).
        { unfold covered. rewrite Exists_cons, Exists_nil. tauto. }
        rewrite ONE.
        assert (SUB : in_net x (supernet n) -> covered rest x \/ in_net x n).
        { intros IN. destruct (halves_supernet_len n Sn) as [Hl|Hz].
          - destruct (supernet n) as [q l] eqn:ES. cbn [snd] in Hl.
            apply (in_halves x q l SS Hl) in IN. apply Exists_exists in IN as (h & Hh & INh).
            rewrite forallb_forall in E2. specialize (E2 h Hh). apply net_mem_In in E2.
            destruct E2 as [<-|E2]; auto. left. apply Exists_exists. exists h. auto.
          - destruct n as [p len]. cbn in Hz. subst len. cbn in IN. auto. }
        pose proof (in_supernet x n Sn). tauto.
      * assert (SA' : Forall strict_net (acc ++ [n])) by (apply Forall_app; auto).
        destruct (IH _ _ _ H SR SA') as [S1 C1]. split; auto. intros x. rewrite C1.
        rewrite !covered_app. tauto.
Qed.

Lemma insert_net_perm x l y : In y (insert_net x l) <-> y = x \/ In y l.
Proof.
  induction l as [|z t IH]; cbn; [intuition congruence|].
  destruct (net_leb x z); cbn; [intuition congruence|]. rewrite IH. intuition congruence.
Qed.

Lemma sort_nets_In l y : In y (sort_nets l) <-> In y l.
Proof.
  induction l as [|x t IH]; cbn; [tauto|]. rewrite insert_net_perm, IH. intuition congruence.
Qed.

Lemma insert_net_length x l : length (insert_net x l) = S (length l).
Proof. induction l as [|z t IH]; cbn; auto. destruct (net_leb x z); cbn; auto. Qed.
Lemma sort_nets_length l : length (sort_nets l) = length l.
Proof.
  induction l as [|x t IH]; [reflexivity|].
  change (sort_nets (x :: t)) with (insert_net x (sort_nets t)).
  rewrite insert_net_length, IH. reflexivity.
Qed.

(** collapsing returns networks covering exactly the same addresses: none gained, none lost *)
Theorem collapse_set nets r :
  Forall strict_net nets -> collapse_nets nets = Some r ->
  forall x, covered r x <-> covered nets x.
Proof.
  intros SN H. unfold collapse_nets in H.
  destruct (collapse_loop _ nets []) as [r0|] eqn:E; [|discriminate]. injection H as <-.
  destruct (collapse_loop_covered _ _ _ _ E SN (Forall_nil _)) as [_ C]. intros x.
  rewrite <- (app_nil_r nets), <- C. unfold covered. rewrite !Exists_exists.
  split; intros (n & Hn & IN); exists n; split; auto; now apply sort_nets_In.
Qed.

(** never more elements than the input *)
Lemma collapse_loop_length fuel : forall work acc r,
  collapse_loop fuel work acc = Some r -> (length r <= length work + length acc)%nat.
Proof.
  induction fuel as [|f IH]; intros work acc r H; [discriminate|].
  cbn [collapse_loop] in H. destruct (rev work) as [|n rr] eqn:ER.
  - injection H as <-. lia.
  - apply rev_cons_inv in ER. subst work. rewrite app_length. cbn [length].
    destruct (existsb _ _).
    + apply IH in H. lia.
    + destruct (forallb _ _).
      * apply IH in H. destruct (net_mem _ _); cbn [length] in H; lia.
      * apply IH in H. rewrite app_length in H. cbn [length] in H. lia.
Qed.

Theorem collapse_count nets r : collapse_nets nets = Some r -> (length r <= length nets)%nat.
Proof.
  unfold collapse_nets. destruct (collapse_loop _ nets []) as [r0|] eqn:E; [|discriminate].
  intros [= <-]. rewrite sort_nets_length. apply collapse_loop_length in E. cbn in E. lia.
Qed.

(** sorted output *)
Definition net_sorted (l : list net) : Prop := StronglySorted (fun a b => net_leb a b = true) l.

Lemma net_leb_total a b : net_leb a b = false -> net_leb b a = true.
Proof.
  unfold net_leb. destruct a as [p l], b as [q m]. cbn [fst snd].
  destruct (N.ltb_spec p q), (N.ltb_spec q p), (N.eqb_spec p q), (N.eqb_spec q p),
    (Nat.leb_spec l m), (Nat.leb_spec m l); cbn; auto; try lia; try congruence.
Qed.

Lemma net_leb_trans a b c : net_leb a b = true -> net_leb b c = true -> net_leb a c = true.
Proof.
  unfold net_leb. destruct a as [p l], b as [q m], c as [s k]. cbn [fst snd].
  destruct (N.ltb_spec p q), (N.ltb_spec q s), (N.ltb_spec p s), (N.eqb_spec p q), (N.eqb_spec q s),
    (N.eqb_spec p s), (Nat.leb_spec l m), (Nat.leb_spec m k), (Nat.leb_spec l k); cbn; auto; try lia; try congruence.
Qed.

Lemma insert_net_sorted x l : net_sorted l -> net_sorted (insert_net x l).
Proof.
  induction 1 as [|y t S IH F]; cbn [insert_net]; [repeat constructor|].
  destruct (net_leb x y) eqn:E.
  - constructor; [constructor; auto|]. constructor; auto.
    eapply Forall_impl; [|exact F]. intros z Hz. eapply net_leb_trans; eauto.
  - constructor; auto. apply Forall_forall. intros z Hz. apply insert_net_perm in Hz as [->|Hz].
    + now apply net_leb_total.
    + rewrite Forall_forall in F. auto.
Qed.

Theorem collapse_sorted nets r : collapse_nets nets = Some r -> net_sorted r.
Proof.
  unfold collapse_nets. destruct (collapse_loop _ nets []) as [r0|]; [|discriminate]. intros [= <-].
  induction r0 as [|x t IH]; cbn; [constructor|]. now apply insert_net_sorted.
Qed.

(** non-contiguous wildcards are refused *)
Theorem collapse_refuses l : l <> [] -> existsb addr_is_nc l = true -> collapse_addrs l = TErr.
Proof. intros NE H. unfold collapse_addrs. destruct l; [congruence|]. now rewrite H. Qed.

(** * termination: the fuel of [collapse_nets] is never exhausted (strict inputs)
    Each iteration drops the popped network, or replaces it by its supernet (one bit shorter),
    or moves it to the result: the sum of (length + 1) over the work list decreases - except for
    one step: a popped 0.0.0.0/0 whose two halves are in the list is put back at the front.
    The potential 2 * sum - [the front element is a /0] decreases in every step. *)
Definition zfront (work : list net) : nat :=
  match work with n :: _ => if Nat.eqb (snd n) 0 then 1%nat else 0%nat | [] => 0%nat end.

Lemma work_measure_app a b : work_measure (a ++ b) = (work_measure a + work_measure b)%nat.
Proof. unfold work_measure. induction a as [|x a IH]; cbn [app fold_right]; [reflexivity|]. rewrite IH. lia. Qed.

Lemma zfront_le1 l : (zfront l <= 1)%nat.
Proof. destruct l as [|n t]; cbn; [lia|]. destruct (Nat.eqb (snd n) 0); lia. Qed.

Lemma zfront_pos_measure l : (zfront l <= work_measure l)%nat.
Proof. destruct l as [|n t]; cbn; [lia|]. destruct (Nat.eqb (snd n) 0); lia. Qed.

Lemma strict_len0 n : strict_net n -> snd n = 0%nat -> n = (0, 0%nat).
Proof.
  destruct n as [p len]. intros (_ & P & Z) E. cbn in E. subst len. f_equal.
  apply N.bits_inj_0. intros i. destruct (N.lt_ge_cases i 32) as [Hi|Hi].
  - specialize (Z (N.to_nat i)). unfold tb in Z. rewrite N2Nat.id in Z. apply Z. cbn [snd]. lia.
  - destruct (N.eq_dec p 0) as [->|Hp]; [apply N.bits_0|].
    apply N.bits_above_log2. apply N.log2_lt_pow2; [lia|]. eapply N.lt_le_trans; [exact P|].
    apply N.pow_le_mono_r; lia.
Qed.

Lemma collapse_loop_terminates : forall fuel work acc,
  Forall strict_net work ->
  (2 * work_measure work < fuel + zfront work)%nat ->
  collapse_loop fuel work acc <> None.
Proof.
  induction fuel as [|f IH]; intros work acc SW Hm.
  - exfalso. pose proof (zfront_pos_measure work). pose proof (zfront_le1 work). lia.
  - cbn [collapse_loop]. destruct (rev work) as [|n rr] eqn:ER; [discriminate|].
    apply rev_cons_inv in ER. set (rest := rev rr) in *. subst work.
    rewrite work_measure_app in Hm. cbn [work_measure fold_right] in Hm.
    apply Forall_app in SW as [SR SN]. inversion SN as [|? ? Sn _]; subst.
    assert (Zw : (zfront (rest ++ [n]) <= 1)%nat) by apply zfront_le1.
    assert (Drop : collapse_loop f rest acc <> None /\ forall acc', collapse_loop f rest acc' <> None).
    { assert (G : forall acc', collapse_loop f rest acc' <> None).
      { intros acc'. apply IH; [exact SR|]. pose proof (zfront_le1 rest). lia. }
      split; auto. }
    destruct Drop as [D1 D2].
    destruct (existsb (net_subnet_of n) rest) eqn:Esub; [exact D1|].
    destruct (forallb (fun h => net_mem h (n :: rest)) (halves (supernet n))) eqn:Eh; [|apply D2].
    destruct (net_mem (supernet n) rest) eqn:Em; [exact D1|].
    apply IH.
    + constructor; [now apply supernet_strict|exact SR].
    + cbn [work_measure fold_right]. destruct (snd n) as [|l] eqn:El.
      * (* the /0 case: the list cannot be empty and cannot start with a /0 *)
        assert (En : n = (0, 0%nat)) by (now apply strict_len0).
        subst n. cbn [supernet snd] in *. cbn [zfront snd Nat.eqb].
        destruct rest as [|r0 rest'].
        -- exfalso. cbn in Eh. discriminate.
        -- cbn [app zfront] in Hm. destruct (Nat.eqb (snd r0) 0) eqn:E0.
           ++ exfalso. apply Nat.eqb_eq in E0. inversion SR as [|? ? Sr0 _]; subst.
              rewrite (strict_len0 r0 Sr0 E0) in Esub. cbn in Esub. discriminate.
           ++ unfold work_measure in *. cbn [fold_right snd] in *. lia.
      * assert (Es : snd (supernet n) = l).
        { unfold supernet. rewrite El. reflexivity. }
        rewrite Es. pose proof (zfront_le1 (supernet n :: rest)). unfold work_measure in *. lia.
Qed.

Theorem collapse_terminates nets : Forall strict_net nets -> collapse_nets nets <> None.
Proof.
  intros HS. unfold collapse_nets.
  destruct (collapse_loop (2 * S (work_measure nets) + 2) nets []) eqn:E; [discriminate|].
  exfalso. revert E. apply collapse_loop_terminates; [exact HS|]. lia.
Qed.
