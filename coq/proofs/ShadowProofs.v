(** Proofs about Ace.shadow_of (C03 soundness + skip antitonicity; C11 exactness). *)
From V Require Import base.Prelude base.Strs gen.Tables model.Cfg model.Names model.Wildcard
  model.Addr model.Ports model.Ace spec.AceSem
  proofs.WildProofs proofs.AddrProofs proofs.PortsProofs proofs.NamesProofs.
From Coq Require Import Sorting.Sorted.
Local Open Scope N_scope.

(** * subset test on sorted port lists *)
Lemma subset_sorted_aux_sound fuel : forall a b,
  subset_sorted_aux fuel a b = true -> incl a b.
Proof.
  induction fuel as [|f IH]; intros a b H; cbn [subset_sorted_aux] in H.
  - destruct a; [intros x []|discriminate].
  - destruct a as [|x a']; [intros y []|]. destruct b as [|y b']; [discriminate|].
    destruct (N.eqb x y) eqn:E.
    + apply N.eqb_eq in E. subst y. intros z [<-|Hz]; [now left|]. now apply (IH a' (x :: b')).
    + destruct (N.ltb y x) eqn:L; [|discriminate].
      intros z Hz. right. now apply (IH (x :: a') b').
Qed.

Lemma subset_sorted_sound a b : subset_sorted a b = true -> incl a b.
Proof. apply subset_sorted_aux_sound. Qed.

Lemma subset_sorted_aux_complete fuel : forall a b,
  (length a + length b <= fuel)%nat -> le_sorted a -> le_sorted b -> incl a b ->
  subset_sorted_aux fuel a b = true.
Proof.
  induction fuel as [|f IH]; intros a b Hf Sa Sb I; cbn [subset_sorted_aux].
  - destruct a; auto. cbn in Hf. lia.
  - destruct a as [|x a']; auto. destruct b as [|y b'].
    + exfalso. apply (I x). now left.
    + inversion Sa as [|? ? Sa' Fa]; subst. inversion Sb as [|? ? Sb' Fb]; subst.
      rewrite Forall_forall in Fa, Fb.
      destruct (N.eqb x y) eqn:E.
      * apply N.eqb_eq in E. subst y. apply IH; auto.
        -- cbn [length] in *. lia.
        -- intros z Hz. apply I. now right.
      * apply N.eqb_neq in E.
        assert (y < x).
        { destruct (I x (or_introl eq_refl)) as [->|Hx]; [congruence|]. specialize (Fb _ Hx). lia. }
        rewrite (proj2 (N.ltb_lt y x)) by auto. apply IH; auto.
        -- cbn [length] in *. lia.
        -- intros z Hz. destruct (I z Hz) as [->|Hz']; auto.
           destruct Hz as [->|Hz]; [lia|]. specialize (Fa _ Hz). lia.
Qed.

Lemma subset_sorted_complete a b :
  le_sorted a -> le_sorted b -> incl a b -> subset_sorted a b = true.
Proof. intros. apply subset_sorted_aux_complete; auto. Qed.

(** * dedup of a sorted list *)
Lemma dedup_sorted_In l : forall x, In x (dedup_sorted l) <-> In x l.
Proof.
  induction l as [|a t IH]; intros x; [reflexivity|]. destruct t as [|b t'].
  - reflexivity.
  - change (dedup_sorted (a :: b :: t')) with
      (if N.eqb a b then dedup_sorted (b :: t') else a :: dedup_sorted (b :: t')).
    destruct (N.eqb a b) eqn:E.
    + apply N.eqb_eq in E. subst b. rewrite IH. cbn [In]. tauto.
    + cbn [In]. rewrite IH. cbn [In]. tauto.
Qed.

Lemma dedup_sorted_lt l : le_sorted l -> lt_sorted (dedup_sorted l).
Proof.
  induction 1 as [|a t S IH F]; [constructor|]. destruct t as [|b t'].
  - repeat constructor.
  - change (dedup_sorted (a :: b :: t')) with
      (if N.eqb a b then dedup_sorted (b :: t') else a :: dedup_sorted (b :: t')).
    destruct (N.eqb a b) eqn:E; auto. apply N.eqb_neq in E. constructor; auto.
    rewrite Forall_forall in *. intros x Hx. apply (proj1 (dedup_sorted_In _ _)) in Hx.
    inversion S as [|? ? _ Fb]; subst. rewrite Forall_forall in Fb.
    destruct Hx as [<-|Hx].
    + specialize (F b (or_introl eq_refl)). lia.
    + specialize (F b (or_introl eq_refl)). specialize (Fb _ Hx). lia.
Qed.

Lemma lt_sorted_NoDup l : lt_sorted l -> NoDup l.
Proof.
  induction 1 as [|a t S IH F]; constructor; auto.
  rewrite Forall_forall in F. intro C. specialize (F _ C). lia.
Qed.

Lemma all_ports_length : length all_ports = N.to_nat 65535.
Proof. Transparent all_ports. unfold all_ports. apply seqN_length. Opaque all_ports. Qed.

(** a duplicate-free list of 65535 ports inside 1..65535 contains every port *)
Lemma full_port_set l :
  le_sorted l -> (forall x, In x l -> 1 <= x <= 65535) ->
  length (dedup_sorted l) = N.to_nat 65535 -> forall p, 1 <= p <= 65535 -> In p l.
Proof.
  intros S R L p Hp. apply dedup_sorted_In.
  assert (ND : NoDup (dedup_sorted l)) by (apply lt_sorted_NoDup, dedup_sorted_lt; auto).
  assert (I : incl (dedup_sorted l) all_ports).
  { intros x Hx. apply in_all_ports. apply R. now apply (proj1 (dedup_sorted_In _ _)). }
  apply (NoDup_length_incl ND) in I.
  - apply I. now apply in_all_ports.
  - rewrite L, all_ports_length. lia.
Qed.

(** * well-formed ACEs (what every parsed ACE of the grammar satisfies) *)
Definition port_wf (p : port) : Prop :=
  le_sorted (p_ports p) /\ (forall x, In x (p_ports p) -> 1 <= x <= 65535).

Definition ace_wf (a : ace) : Prop :=
  port_wf (a_sport a) /\ port_wf (a_dport a) /\
  (has_op (a_sport a) = true \/ has_op (a_dport a) = true -> a_proto a = 6 \/ a_proto a = 17) /\
  (a_flags a <> [] -> a_proto a = 6).

(** * protocol name "ip" is number 0 on every platform (checked on the generated tables) *)
Definition ip_is_zero (pl : platform) : bool :=
  forallb (fun e => Bool.eqb (String.eqb (snd e) "ip") (N.eqb (fst e) 0)) (nr_to_protocol pl)
  && String.eqb (proto_name pl 0) "ip".
Lemma ip_is_zero_ok pl : ip_is_zero pl = true.
Proof. destruct pl; vm_compute; reflexivity. Qed.

Lemma proto_ip pl n : String.eqb (proto_name pl n) "ip" = N.eqb n 0.
Proof.
  pose proof (ip_is_zero_ok pl) as H. unfold ip_is_zero in H. apply andb_prop in H as [H1 H2].
  destruct (N.eqb n 0) eqn:E.
  - apply N.eqb_eq in E. now subst.
  - unfold proto_name. destruct (assoc_N n (nr_to_protocol pl)) as [s|] eqn:A; [|reflexivity].
    pose proof A as A'. apply assoc_N_In in A'. rewrite forallb_forall in H1. specialize (H1 _ A').
    cbn [fst snd] in H1. rewrite E in H1. now destruct (String.eqb s "ip").
Qed.

(** * soundness *)
Lemma has_op_match p proto x :
  has_op p = true -> port_match p proto x -> (proto = 6 \/ proto = 17) /\ In x (p_ports p).
Proof. unfold has_op, port_match. destruct (p_op p); [auto|discriminate]. Qed.

Lemma shadow_port_sound bottom top proto x :
  port_wf top -> (has_op top = true -> proto = 6 \/ proto = 17) -> 1 <= x <= 65535 ->
  shadow_port bottom top = true -> port_match bottom proto x -> port_match top proto x.
Proof.
  intros (St & Rt) HP Hx H M. unfold shadow_port in H.
  destruct (has_op top) eqn:Ot; [|unfold port_match, has_op in *; destruct (p_op top); [discriminate|exact I]].
  unfold port_match at 1. unfold has_op in Ot. destruct (p_op top) eqn:Eo; [|discriminate].
  split; [now apply HP|].
  destruct (has_op bottom) eqn:Ob.
  - apply subset_sorted_sound in H. apply H. apply (has_op_match bottom proto x Ob M).
  - apply Nat.eqb_eq in H. now apply full_port_set.
Qed.

Lemma shadow_flags_sound fb ft proto kf :
  shadow_flags fb ft = true -> flags_match fb proto kf -> flags_match ft proto kf.
Proof.
  unfold shadow_flags, flags_match. destruct ft as [|t0 tt]; [auto|].
  destruct fb as [|b0 bb]; [discriminate|]. intros H [C|(P & f & Hf & Hk)]; [discriminate|].
  right. split; auto. exists f. split; auto. rewrite forallb_forall in H.
  apply mem_str_In. now apply H.
Qed.

Lemma shadow_addr_true sg snc b t : shadow_addr sg snc b t = Ok true -> addr_subnet_of b t = Ok true.
Proof.
  unfold shadow_addr. destruct (sg && _); [discriminate|]. destruct (snc && _ && _); [discriminate|]. auto.
Qed.

Theorem shadow_sound pl sg snc b t sb db st dt :
  ace_wf b -> ace_wf t ->
  addr_sets (a_src b) sb -> addr_sets (a_dst b) db -> addr_sets (a_src t) st -> addr_sets (a_dst t) dt ->
  shadow_of pl sg snc b t = Ok true ->
  a_permit b = a_permit t /\ forall k, pkt_wf k -> den b sb db k -> den t st dt k.
Proof.
  intros (Wbs & Wbd & Wbp & Wbf) (Wts & Wtd & Wtp & Wtf) Ssb Sdb Sst Sdt H.
  unfold shadow_of in H.
  destruct (Bool.eqb (a_permit b) (a_permit t)) eqn:EA; [|discriminate]. cbn [negb] in H.
  apply Bool.eqb_prop in EA.
  destruct (shadow_proto pl b t) eqn:EP; [|discriminate]. cbn [negb] in H.
  destruct (shadow_addr sg snc (a_src b) (a_src t)) as [s| | | |] eqn:ES; try discriminate. cbn [bind] in H.
  destruct s; [|discriminate]. cbn [negb] in H.
  destruct (shadow_addr sg snc (a_dst b) (a_dst t)) as [d| | | |] eqn:ED; try discriminate. cbn [bind] in H.
  destruct d; [|discriminate]. cbn [negb] in H. injection H as H.
  apply andb_prop in H as [H HF]. apply andb_prop in H as [HS HD].
  apply shadow_addr_true in ES. apply shadow_addr_true in ED.
  split; auto. intros k (Kp & Ks & Kd & Ksp & Kdp) (D1 & D2 & D3 & D4 & D5 & D6).
  unfold shadow_proto in EP. rewrite proto_ip in EP.
  assert (PR : a_proto t = 0 \/ a_proto t = k_proto k /\ a_proto t = a_proto b).
  { apply orb_prop in EP as [E|E]; apply N.eqb_eq in E; [now left|].
    destruct D1 as [Z|Z]; [|right; split; congruence].
    (* bottom is ip: then top is ip too *) left. congruence. }
  assert (TP : has_op (a_sport t) = true \/ has_op (a_dport t) = true -> k_proto k = 6 \/ k_proto k = 17).
  { intros Ho. specialize (Wtp Ho). destruct PR as [Z|[Z1 Z2]]; [|now rewrite <- Z1].
    exfalso. destruct Wtp; congruence. }
  repeat split.
  - destruct PR as [Z|[Z _]]; auto.
  - exact (subnet_of_sound_groups _ _ sb st Ssb Sst ES (k_src k) Ks D2).
  - exact (subnet_of_sound_groups _ _ db dt Sdb Sdt ED (k_dst k) Kd D3).
  - apply (shadow_port_sound (a_sport b) (a_sport t) (k_proto k) (k_sport k) Wts); auto.
  - apply (shadow_port_sound (a_dport b) (a_dport t) (k_proto k) (k_dport k) Wtd); auto.
  - exact (shadow_flags_sound _ _ _ _ HF D6).
Qed.

(** * adding skip options can only turn true into false *)
Theorem skip_antitone pl sg snc sg' snc' b t :
  (sg = true -> sg' = true) -> (snc = true -> snc' = true) ->
  shadow_of pl sg' snc' b t = Ok true -> shadow_of pl sg snc b t = Ok true.
Proof.
  intros Hg Hn H. unfold shadow_of in *.
  destruct (negb (Bool.eqb (a_permit b) (a_permit t))); [discriminate|].
  destruct (negb (shadow_proto pl b t)); [discriminate|].
  assert (A : forall x y, shadow_addr sg' snc' x y = Ok true -> shadow_addr sg snc x y = Ok true).
  { intros x y Hxy. unfold shadow_addr in *.
    destruct sg, sg'; try (specialize (Hg eq_refl); discriminate);
      destruct snc, snc'; try (specialize (Hn eq_refl); discriminate); cbn [andb] in *; auto;
      repeat match goal with
             | H : (if ?c then _ else _) = Ok true |- _ => destruct c; try discriminate
             end; auto. }
  destruct (shadow_addr sg' snc' (a_src b) (a_src t)) as [s| | | |] eqn:ES; try discriminate. cbn [bind] in H.
  destruct s; [|discriminate]. rewrite (A _ _ ES). cbn [bind negb] in *.
  destruct (shadow_addr sg' snc' (a_dst b) (a_dst t)) as [d| | | |] eqn:ED; try discriminate. cbn [bind] in H.
  destruct d; [|discriminate]. rewrite (A _ _ ED). cbn [bind negb] in *. exact H.
Qed.

(** * parsed port expressions are well-formed *)
Lemma parse_nums_wf pl c o xs p : parse_nums pl c o xs = Ok p -> in_range xs -> port_wf p.
Proof.
  intros HP R. split.
  - destruct xs as [|x0 t0] eqn:EX.
    { unfold parse_nums, parse_port in HP. rewrite pop_of_name in HP. discriminate. }
    rewrite <- EX in *. pose proof HP as HP0. rewrite parse_nums_eq in HP by (rewrite EX; discriminate).
    destruct (valid_count _ o (length xs)) eqn:VC; [|discriminate].
    destruct o; cbn [items_to_ports] in HP.
    + injection HP as <-. cbn [p_ports]. apply sortN_sorted.
    + apply lt_le_sorted. eapply ports_sorted; [exact HP0|discriminate].
    + apply lt_le_sorted. eapply ports_sorted; [exact HP0|discriminate].
    + apply lt_le_sorted. eapply ports_sorted; [exact HP0|discriminate].
    + apply lt_le_sorted. eapply ports_sorted; [exact HP0|discriminate].
  - intros x Hx. apply (ports_sem pl c o xs p HP R) in Hx. tauto.
Qed.

Lemma empty_port_wf : port_wf empty_port.
Proof. split; [constructor|intros x []]. Qed.
