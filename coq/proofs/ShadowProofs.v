(** Proofs about Ace.shadow_of (C03 soundness + skip antitonicity; C11 exactness). *)
From V Require Import base.Prelude base.Strs gen.Tables model.Cfg model.Names model.Wildcard
  model.Addr model.Ports model.Ace spec.AceSem
  proofs.WildProofs proofs.AddrProofs proofs.PortsProofs proofs.NamesProofs.
From Coq Require Import Sorting.Sorted.
Local Open Scope N_scope.

(** * subset test on sorted port lists *)
Lemma subset_sorted_aux_sound fuel : forall a b,
  subset_sorted_aux fuel a b = true -> incl a b.
Proof.
  induction fuel as [|f IH]; intros a b H; cbn [subset_sorted_aux] in H.
  - destruct a; [intros x []|discriminate].
  - destruct a as [|x a']; [intros y []|]. destruct b as [|y b']; [discriminate|].
    destruct (N.eqb x y) eqn:E.
    + apply N.eqb_eq in E. subst y. intros z [<-|Hz]; [now left|]. now apply (IH a' (x :: b')).
    + destruct (N.ltb y x) eqn:L; [|discriminate].
      intros z Hz. right. now apply (IH (x :: a') b').
Qed.

Lemma subset_sorted_sound a b : subset_sorted a b = true -> incl a b.
Proof. apply subset_sorted_aux_sound. Qed.

Lemma subset_sorted_aux_complete fuel : forall a b,
  (length a + length b <= fuel)%nat -> le_sorted a -> le_sorted b -> incl a b ->
  subset_sorted_aux fuel a b = true.
Proof.
  induction fuel as [|f IH]; intros a b Hf Sa Sb I; cbn [subset_sorted_aux].
  - destruct a; auto. cbn in Hf. lia.
  - destruct a as [|x a']; auto. destruct b as [|y b'].
    + exfalso. apply (I x). now left.
    + inversion Sa as [|? ? Sa' Fa]; subst. inversion Sb as [|? ? Sb' Fb]; subst.
      rewrite Forall_forall in Fa, Fb.
      destruct (N.eqb x y) eqn:E.
      * apply N.eqb_eq in E. subst y. apply IH; auto.
        -- cbn [length] in *. lia.
        -- intros z Hz. apply I. now right.
      * apply N.eqb_neq in E.
        assert (y < x).
        { destruct (I x (or_introl eq_refl)) as [->|Hx]; [congruence|]. specialize (Fb _ Hx). lia. }
        rewrite (proj2 (N.ltb_lt y x)) by auto. apply IH; auto.
        -- cbn [length] in *. lia.
        -- intros z Hz. destruct (I z Hz) as [->|Hz']; auto.
           destruct Hz as [->|Hz]; [lia|]. specialize (Fa _ Hz). lia.
Qed.

Lemma subset_sorted_complete a b :
  le_sorted a -> le_sorted b -> incl a b -> subset_sorted a b = true.
Proof. intros. apply subset_sorted_aux_complete; auto. Qed.

(** * dedup of a sorted list *)
Lemma dedup_sorted_In l : forall x, In x (dedup_sorted l) <-> In x l.
Proof.
  induction l as [|a t IH]; intros x; [reflexivity|]. destruct t as [|b t'].
  - reflexivity.
  - change (dedup_sorted (a :: b :: t')) with
      (if N.eqb a b then dedup_sorted (b :: t') else a :: dedup_sorted (b :: t')).
    destruct (N.eqb a b) eqn:E.
    + apply N.eqb_eq in E. subst b. rewrite IH. cbn [In]. tauto.
    + cbn [In]. rewrite IH. cbn [In]. tauto.
Qed.

Lemma dedup_sorted_lt l : le_sorted l -> lt_sorted (dedup_sorted l).
Proof.
  induction 1 as [|a t S IH F]; [constructor|]. destruct t as [|b t'].
  - repeat constructor.
  - change (dedup_sorted (a :: b :: t')) with
      (if N.eqb a b then dedup_sorted (b :: t') else a :: dedup_sorted (b :: t')).
    destruct (N.eqb a b) eqn:E; auto. apply N.eqb_neq in E. constructor; auto.
    rewrite Forall_forall in *. intros x Hx. apply (proj1 (dedup_sorted_In _ _)) in Hx.
    inversion S as [|? ? _ Fb]; subst. rewrite Forall_forall in Fb.
    destruct Hx as [<-|Hx].
    + specialize (F b (or_introl eq_refl)). lia.
    + specialize (F b (or_introl eq_refl)). specialize (Fb _ Hx). lia.
Qed.

Lemma lt_sorted_NoDup l : lt_sorted l -> NoDup l.
Proof.
  induction 1 as [|a t S IH F]; constructor; auto.
  rewrite Forall_forall in F. intro C. specialize (F _ C). lia.
Qed.

Lemma all_ports_length : length all_ports = N.to_nat 65535.
Proof. Transparent all_ports. unfold all_ports. apply seqN_length. Opaque all_ports. Qed.

(** a duplicate-free list of 65535 ports inside 1..65535 contains every port *)
Lemma full_port_set l :
  le_sorted l -> (forall x, In x l -> 1 <= x <= 65535) ->
  length (dedup_sorted l) = N.to_nat 65535 -> forall p, 1 <= p <= 65535 -> In p l.
Proof.
  intros S R L p Hp. apply dedup_sorted_In.
  assert (ND : NoDup (dedup_sorted l)) by (apply lt_sorted_NoDup, dedup_sorted_lt; auto).
  assert (I : incl (dedup_sorted l) all_ports).
  { intros x Hx. apply in_all_ports. apply R. now apply (proj1 (dedup_sorted_In _ _)). }
  apply (NoDup_length_incl ND) in I.
  - apply I. now apply in_all_ports.
  - rewrite L, all_ports_length. lia.
Qed.

(** * well-formed ACEs (what every parsed ACE of the grammar satisfies) *)
Definition port_wf (p : port) : Prop :=
  le_sorted (p_ports p) /\ (forall x, In x (p_ports p) -> 1 <= x <= 65535).

Definition ace_wf (a : ace) : Prop :=
  port_wf (a_sport a) /\ port_wf (a_dport a) /\
  (has_op (a_sport a) = true \/ has_op (a_dport a) = true -> a_proto a = 6 \/ a_proto a = 17) /\
  (a_flags a <> [] -> a_proto a = 6).

(** * protocol name "ip" is number 0 on every platform (checked on the generated tables) *)
Definition ip_is_zero (pl : platform) : bool :=
  forallb (fun e => Bool.eqb (String.eqb (snd e) "ip") (N.eqb (fst e) 0)) (nr_to_protocol pl)
  && String.eqb (proto_name pl 0) "ip".
Lemma ip_is_zero_ok pl : ip_is_zero pl = true.
Proof. destruct pl; vm_compute; reflexivity. Qed.

Lemma proto_ip pl n : String.eqb (proto_name pl n) "ip" = N.eqb n 0.
Proof.
  pose proof (ip_is_zero_ok pl) as H. unfold ip_is_zero in H. apply andb_prop in H as [H1 H2].
  destruct (N.eqb n 0) eqn:E.
  - apply N.eqb_eq in E. now subst.
  - unfold proto_name. destruct (assoc_N n (nr_to_protocol pl)) as [s|] eqn:A; [|reflexivity].
    pose proof A as A'. apply assoc_N_In in A'. rewrite forallb_forall in H1. specialize (H1 _ A').
    cbn [fst snd] in H1. rewrite E in H1. now destruct (String.eqb s "ip").
Qed.

(** * soundness *)
Lemma has_op_match p proto x :
  has_op p = true -> port_match p proto x -> (proto = 6 \/ proto = 17) /\ In x (p_ports p).
Proof. unfold has_op, port_match. destruct (p_op p); [auto|discriminate]. Qed.

Lemma shadow_port_sound bottom top proto x :
  port_wf top -> (has_op top = true -> proto = 6 \/ proto = 17) -> 1 <= x <= 65535 ->
  shadow_port bottom top = true -> port_match bottom proto x -> port_match top proto x.
Proof.
  intros (St & Rt) HP Hx H M. unfold shadow_port in H.
  destruct (has_op top) eqn:Ot; [|unfold port_match, has_op in *; destruct (p_op top); [discriminate|exact I]].
  unfold port_match at 1. unfold has_op in Ot. destruct (p_op top) eqn:Eo; [|discriminate].
  split; [now apply HP|].
  destruct (has_op bottom) eqn:Ob.
  - apply subset_sorted_sound in H. apply H. apply (has_op_match bottom proto x Ob M).
  - apply Nat.eqb_eq in H. now apply full_port_set.
Qed.

Lemma shadow_flags_sound fb ft proto kf :
  shadow_flags fb ft = true -> flags_match fb proto kf -> flags_match ft proto kf.
Proof.
  unfold shadow_flags, flags_match. destruct ft as [|t0 tt]; [auto|].
  destruct fb as [|b0 bb]; [discriminate|]. intros H [C|(P & f & Hf & Hk)]; [discriminate|].
  right. split; auto. exists f. split; auto. rewrite forallb_forall in H.
  apply mem_str_In. now apply H.
Qed.

Lemma shadow_addr_true sg snc b t : shadow_addr sg snc b t = Ok true -> addr_subnet_of b t = Ok true.
Proof.
  unfold shadow_addr. destruct (sg && _); [discriminate|]. destruct (snc && _ && _); [discriminate|]. auto.
Qed.

Theorem shadow_sound pl sg snc b t sb db st dt :
  ace_wf b -> ace_wf t ->
  addr_sets (a_src b) sb -> addr_sets (a_dst b) db -> addr_sets (a_src t) st -> addr_sets (a_dst t) dt ->
  shadow_of pl sg snc b t = Ok true ->
  a_permit b = a_permit t /\ forall k, pkt_wf k -> den b sb db k -> den t st dt k.
Proof.
  intros (Wbs & Wbd & Wbp & Wbf) (Wts & Wtd & Wtp & Wtf) Ssb Sdb Sst Sdt H.
  unfold shadow_of in H.
  destruct (Bool.eqb (a_permit b) (a_permit t)) eqn:EA; [|discriminate]. cbn [negb] in H.
  apply Bool.eqb_prop in EA.
  destruct (shadow_proto pl b t) eqn:EP; [|discriminate]. cbn [negb] in H.
  destruct (shadow_addr sg snc (a_src b) (a_src t)) as [s| | | |] eqn:ES; try discriminate. cbn [bind] in H.
  destruct s; [|discriminate]. cbn [negb] in H.
  destruct (shadow_addr sg snc (a_dst b) (a_dst t)) as [d| | | |] eqn:ED; try discriminate. cbn [bind] in H.
  destruct d; [|discriminate]. cbn [negb] in H. injection H as H.
  apply andb_prop in H as [H HF]. apply andb_prop in H as [HS HD].
  apply shadow_addr_true in ES. apply shadow_addr_true in ED.
  split; auto. intros k (Kp & Ks & Kd & Ksp & Kdp) (D1 & D2 & D3 & D4 & D5 & D6).
  unfold shadow_proto in EP. rewrite proto_ip in EP.
  assert (PR : a_proto t = 0 \/ a_proto t = k_proto k /\ a_proto t = a_proto b).
  { apply orb_prop in EP as [E|E]; apply N.eqb_eq in E; [now left|].
    destruct D1 as [Z|Z]; [|right; split; congruence].
    (* bottom is ip: then top is ip too *) left. congruence. }
  assert (TP : has_op (a_sport t) = true \/ has_op (a_dport t) = true -> k_proto k = 6 \/ k_proto k = 17).
  { intros Ho. specialize (Wtp Ho). destruct PR as [Z|[Z1 Z2]]; [|now rewrite <- Z1].
    exfalso. destruct Wtp; congruence. }
  repeat split.
  - destruct PR as [Z|[Z _]]; auto.
  - exact (subnet_of_sound_groups _ _ sb st Ssb Sst ES (k_src k) Ks D2).
  - exact (subnet_of_sound_groups _ _ db dt Sdb Sdt ED (k_dst k) Kd D3).
  - apply (shadow_port_sound (a_sport b) (a_sport t) (k_proto k) (k_sport k) Wts); auto.
  - apply (shadow_port_sound (a_dport b) (a_dport t) (k_proto k) (k_dport k) Wtd); auto.
  - exact (shadow_flags_sound _ _ _ _ HF D6).
Qed.

(** * adding skip options can only turn true into false *)
Theorem skip_antitone pl sg snc sg' snc' b t :
  (sg = true -> sg' = true) -> (snc = true -> snc' = true) ->
  shadow_of pl sg' snc' b t = Ok true -> shadow_of pl sg snc b t = Ok true.
Proof.
  intros Hg Hn H. unfold shadow_of in *.
  destruct (negb (Bool.eqb (a_permit b) (a_permit t))); [discriminate|].
  destruct (negb (shadow_proto pl b t)); [discriminate|].
  assert (A : forall x y, shadow_addr sg' snc' x y = Ok true -> shadow_addr sg snc x y = Ok true).
  { intros x y Hxy. unfold shadow_addr in *.
    destruct sg, sg'; try (specialize (Hg eq_refl); discriminate);
      destruct snc, snc'; try (specialize (Hn eq_refl); discriminate); cbn [andb] in *; auto;
      repeat match goal with
             | H : (if ?c then _ else _) = Ok true |- _ => destruct c; try discriminate
             end; auto. }
  destruct (shadow_addr sg' snc' (a_src b) (a_src t)) as [s| | | |] eqn:ES; try discriminate. cbn [bind] in H.
  destruct s; [|discriminate]. rewrite (A _ _ ES). cbn [bind negb] in *.
  destruct (shadow_addr sg' snc' (a_dst b) (a_dst t)) as [d| | | |] eqn:ED; try discriminate. cbn [bind] in H.
  destruct d; [|discriminate]. rewrite (A _ _ ED). cbn [bind negb] in *. exact H.
Qed.

(** * parsed port expressions are well-formed *)
Lemma parse_nums_wf pl c o xs p : parse_nums pl c o xs = Ok p -> in_range xs -> port_wf p.
Proof.
  intros HP R. split.
  - destruct xs as [|x0 t0] eqn:EX.
    { unfold parse_nums, parse_port in HP. rewrite pop_of_name in HP. discriminate. }
    rewrite <- EX in *. pose proof HP as HP0. rewrite parse_nums_eq in HP by (rewrite EX; discriminate).
    destruct (valid_count _ o (length xs)) eqn:VC; [|discriminate].
    destruct o; cbn [items_to_ports] in HP.
    + injection HP as <-. cbn [p_ports]. apply sortN_sorted.
    + apply lt_le_sorted. eapply ports_sorted; [exact HP0|discriminate].
    + apply lt_le_sorted. eapply ports_sorted; [exact HP0|discriminate].
    + apply lt_le_sorted. eapply ports_sorted; [exact HP0|discriminate].
    + apply lt_le_sorted. eapply ports_sorted; [exact HP0|discriminate].
  - intros x Hx. apply (ports_sem pl c o xs p HP R) in Hx. tauto.
Qed.

Lemma empty_port_wf : port_wf empty_port.
Proof. split; [constructor|intros x []]. Qed.

(** * exactness on group-free entries with non-empty port sets (C11) *)
Definition nonempty_ports (a : ace) : Prop :=
  (has_op (a_sport a) = true -> p_ports (a_sport a) <> []) /\
  (has_op (a_dport a) = true -> p_ports (a_dport a) <> []).

Definition some_port (p : port) : N := hd 1 (p_ports p).

Lemma some_port_ok p : port_wf p -> (has_op p = true -> p_ports p <> []) ->
  1 <= some_port p <= 65535 /\ forall proto, (has_op p = true -> proto = 6 \/ proto = 17) ->
  port_match p proto (some_port p).
Proof.
  intros (S & R) NE. unfold some_port, port_match, has_op in *. destruct (p_op p).
  - destruct (p_ports p) as [|x l] eqn:E; [exfalso; now apply NE|]. cbn [hd]. split.
    + apply R. now left.
    + intros proto H. split; [now apply H|now left].
  - split; [destruct (p_ports p); cbn; [lia|]|auto].
    apply R. now left.
Qed.

Section Exact.
  Variables (pl : platform) (b t : ace).
  Variables (bsb msb bdb mdb bst mst bdt mdt : N).
  Hypotheses (Wb : ace_wf b) (Wt : ace_wf t) (NEb : nonempty_ports b).
  Hypotheses (Pb : a_proto b < 256).
  Hypotheses (B1 : bsb < 2 ^ 32) (B2 : msb < 2 ^ 32) (B3 : bdb < 2 ^ 32) (B4 : mdb < 2 ^ 32)
             (B5 : bst < 2 ^ 32) (B6 : mst < 2 ^ 32) (B7 : bdt < 2 ^ 32) (B8 : mdt < 2 ^ 32).
  Hypotheses (Dsb : denotes (a_src b) bsb msb) (Ddb : denotes (a_dst b) bdb mdb)
             (Dst : denotes (a_src t) bst mst) (Ddt : denotes (a_dst t) bdt mdt).
  Hypothesis INC : forall k, pkt_wf k ->
      den b [(bsb, msb)] [(bdb, mdb)] k -> den t [(bst, mst)] [(bdt, mdt)] k.

  Let pb := if N.eqb (a_proto b) 0 then 1 else a_proto b.
  Let src0 := create_prefix bsb msb.
  Let dst0 := create_prefix bdb mdb.

  Lemma in_wild_self base mask : base < 2 ^ 32 -> in_wild (create_prefix base mask) base mask.
  Proof.
    intros Hb. unfold in_wild, create_prefix. rewrite <- N.land_assoc. f_equal. apply N.land_diag.
  Qed.

  Lemma create_prefix_lt base mask : base < 2 ^ 32 -> create_prefix base mask < 2 ^ 32.
  Proof. intros H. unfold create_prefix. now apply land_lt. Qed.

  Lemma in_sets_single x base mask : in_sets x [(base, mask)] <-> in_wild x base mask.
  Proof.
    unfold in_sets. split.
    - intros H. inversion H; subst; auto. inversion H1.
    - intros H. now constructor.
  Qed.

  (** the generic packet of the bottom entry with chosen protocol / addresses / ports / flags *)
  Lemma den_bottom proto s d sp dp fl :
    (a_proto b = 0 \/ a_proto b = proto) -> proto < 256 ->
    s < 2 ^ 32 -> in_wild s bsb msb -> d < 2 ^ 32 -> in_wild d bdb mdb ->
    1 <= sp <= 65535 -> port_match (a_sport b) proto sp ->
    1 <= dp <= 65535 -> port_match (a_dport b) proto dp ->
    flags_match (a_flags b) proto fl ->
    den t [(bst, mst)] [(bdt, mdt)] (mkPkt proto s d sp dp fl).
  Proof.
    intros. apply INC.
    - unfold pkt_wf; cbn; tauto.
    - unfold den; cbn. rewrite !in_sets_single. tauto.
  Qed.

  Lemma pb_ok : (a_proto b = 0 \/ a_proto b = pb) /\ pb < 256.
  Proof. unfold pb. destruct (N.eqb_spec (a_proto b) 0); split; auto; lia. Qed.

  Lemma ops_proto : has_op (a_sport b) = true \/ has_op (a_dport b) = true -> pb = 6 \/ pb = 17.
  Proof.
    intros H. destruct Wb as (_ & _ & Hp & _). specialize (Hp H). unfold pb.
    destruct (N.eqb_spec (a_proto b) 0); [destruct Hp; congruence|auto].
  Qed.

  Lemma flags_proto : a_flags b <> [] -> pb = 6.
  Proof.
    intros H. destruct Wb as (_ & _ & _ & Hf). specialize (Hf H). unfold pb.
    destruct (N.eqb_spec (a_proto b) 0); congruence.
  Qed.

  Lemma flags_all : flags_match (a_flags b) pb (a_flags b).
  Proof.
    unfold flags_match. destruct (a_flags b) as [|f l] eqn:E; [now left|right].
    split; [apply flags_proto; rewrite E; discriminate|]. exists f. split; now left.
  Qed.

  Let sp0 := some_port (a_sport b).
  Let dp0 := some_port (a_dport b).

  Lemma sp0_ok : 1 <= sp0 <= 65535 /\ port_match (a_sport b) pb sp0.
  Proof.
    destruct Wb as (W1 & _). destruct NEb as (N1 & _).
    destruct (some_port_ok (a_sport b) W1 N1) as [R M]. split; auto. apply M.
    intros H. apply ops_proto. now left.
  Qed.
  Lemma dp0_ok : 1 <= dp0 <= 65535 /\ port_match (a_dport b) pb dp0.
  Proof.
    destruct Wb as (_ & W2 & _). destruct NEb as (_ & N2).
    destruct (some_port_ok (a_dport b) W2 N2) as [R M]. split; auto. apply M.
    intros H. apply ops_proto. now right.
  Qed.

  (** 1. protocol *)
  Lemma exact_proto : shadow_proto pl b t = true.
  Proof.
    unfold shadow_proto. rewrite proto_ip. destruct (N.eqb_spec (a_proto t) 0) as [|NZ]; [reflexivity|].
    cbn [orb]. apply N.eqb_eq.
    destruct pb_ok as [P1 P2]. destruct sp0_ok as [S1 S2]. destruct dp0_ok as [D1 D2].
    pose proof (den_bottom pb src0 dst0 sp0 dp0 (a_flags b) P1 P2
                  (create_prefix_lt _ _ B1) (in_wild_self _ _ B1)
                  (create_prefix_lt _ _ B3) (in_wild_self _ _ B3) S1 S2 D1 D2 flags_all) as K.
    destruct K as ([Z|Z] & _); [congruence|]. cbn [k_proto] in Z.
    destruct (N.eq_dec (a_proto b) 0) as [E0|NE0].
    - (* bottom is ip: a second packet with another protocol *)
      exfalso.
      assert (HS : has_op (a_sport b) = false /\ has_op (a_dport b) = false /\ a_flags b = []).
      { destruct Wb as (_ & _ & Hp & Hf).
        destruct (has_op (a_sport b)) eqn:O1; [destruct (Hp (or_introl eq_refl)); congruence|].
        destruct (has_op (a_dport b)) eqn:O2; [destruct (Hp (or_intror eq_refl)); congruence|].
        destruct (a_flags b) eqn:F; auto. exfalso. assert (a_proto b = 6) by (apply Hf; discriminate). congruence. }
      destruct HS as (O1 & O2 & F).
      assert (PM : forall p x, port_match p 2 x \/ has_op p = true).
      { intros p x. unfold port_match, has_op. destruct (p_op p); auto. }
      pose proof (den_bottom 2 src0 dst0 1 1 [] (or_introl E0) ltac:(lia)
                  (create_prefix_lt _ _ B1) (in_wild_self _ _ B1)
                  (create_prefix_lt _ _ B3) (in_wild_self _ _ B3) ltac:(lia)) as K2.
      assert (M1 : port_match (a_sport b) 2 1) by (destruct (PM (a_sport b) 1); [auto|congruence]).
      assert (M2 : port_match (a_dport b) 2 1) by (destruct (PM (a_dport b) 1); [auto|congruence]).
      specialize (K2 M1 ltac:(lia) M2). rewrite F in K2. specialize (K2 (or_introl eq_refl)).
      destruct K2 as ([Z2|Z2] & _); [congruence|]. cbn [k_proto] in Z2.
      assert (Hpb : pb = 1) by (unfold pb; rewrite E0; reflexivity). congruence.
    - assert (Hpb : pb = a_proto b) by (unfold pb; rewrite (proj2 (N.eqb_neq _ _) NE0); reflexivity).
      congruence.
  Qed.

  (** 2. addresses *)
  Lemma exact_src : wild_subset bsb msb bst mst.
  Proof.
    intros x Hx IN. destruct pb_ok as [P1 P2]. destruct sp0_ok as [S1 S2]. destruct dp0_ok as [D1 D2].
    pose proof (den_bottom pb x dst0 sp0 dp0 (a_flags b) P1 P2 Hx IN
                  (create_prefix_lt _ _ B3) (in_wild_self _ _ B3) S1 S2 D1 D2 flags_all) as K.
    destruct K as (_ & K & _). cbn in K. now apply in_sets_single in K.
  Qed.
  Lemma exact_dst : wild_subset bdb mdb bdt mdt.
  Proof.
    intros x Hx IN. destruct pb_ok as [P1 P2]. destruct sp0_ok as [S1 S2]. destruct dp0_ok as [D1 D2].
    pose proof (den_bottom pb src0 x sp0 dp0 (a_flags b) P1 P2
                  (create_prefix_lt _ _ B1) (in_wild_self _ _ B1) Hx IN S1 S2 D1 D2 flags_all) as K.
    destruct K as (_ & _ & K & _). cbn in K. now apply in_sets_single in K.
  Qed.

  (** 3. ports *)
  Lemma port_match_in p proto x : has_op p = true -> port_match p proto x -> In x (p_ports p).
  Proof. intros H M. now apply (has_op_match p proto x H M). Qed.

  Lemma full_list l : le_sorted l -> (forall x, In x l -> 1 <= x <= 65535) ->
    (forall p, 1 <= p <= 65535 -> In p l) -> length (dedup_sorted l) = N.to_nat 65535.
  Proof.
    intros S R F. rewrite <- all_ports_length. f_equal. apply lt_sorted_ext.
    - now apply dedup_sorted_lt.
    - apply all_ports_lt_sorted.
    - intros p. rewrite dedup_sorted_In, in_all_ports. split; auto.
  Qed.

  Lemma exact_sport : shadow_port (a_sport b) (a_sport t) = true.
  Proof.
    unfold shadow_port. destruct (has_op (a_sport t)) eqn:Ot; [|reflexivity].
    destruct Wb as ((Sb & Rb) & _). destruct Wt as ((St & Rt) & _).
    destruct pb_ok as [P1 P2]. destruct dp0_ok as [D1 D2].
    assert (K : forall x, 1 <= x <= 65535 -> port_match (a_sport b) pb x -> In x (p_ports (a_sport t))).
    { intros x Hx M.
      pose proof (den_bottom pb src0 dst0 x dp0 (a_flags b) P1 P2
                  (create_prefix_lt _ _ B1) (in_wild_self _ _ B1)
                  (create_prefix_lt _ _ B3) (in_wild_self _ _ B3) Hx M D1 D2 flags_all) as K.
      destruct K as (_ & _ & _ & K & _). cbn in K. now apply (port_match_in _ _ _ Ot K). }
    destruct (has_op (a_sport b)) eqn:Ob.
    - apply subset_sorted_complete; auto. intros x Hx. apply K; [now apply Rb|].
      unfold port_match. unfold has_op in Ob. destruct (p_op (a_sport b)) eqn:E; [|discriminate].
      split; auto. apply ops_proto. left. unfold has_op. now rewrite E.
    - apply Nat.eqb_eq. apply full_list; auto. intros p Hp. apply K; auto.
      unfold port_match. unfold has_op in Ob. now destruct (p_op (a_sport b)).
  Qed.

  Lemma exact_dport : shadow_port (a_dport b) (a_dport t) = true.
  Proof.
    unfold shadow_port. destruct (has_op (a_dport t)) eqn:Ot; [|reflexivity].
    destruct Wb as (_ & (Sb & Rb) & _). destruct Wt as (_ & (St & Rt) & _).
    destruct pb_ok as [P1 P2]. destruct sp0_ok as [S1 S2].
    assert (K : forall x, 1 <= x <= 65535 -> port_match (a_dport b) pb x -> In x (p_ports (a_dport t))).
    { intros x Hx M.
      pose proof (den_bottom pb src0 dst0 sp0 x (a_flags b) P1 P2
                  (create_prefix_lt _ _ B1) (in_wild_self _ _ B1)
                  (create_prefix_lt _ _ B3) (in_wild_self _ _ B3) S1 S2 Hx M flags_all) as K.
      destruct K as (_ & _ & _ & _ & K & _). cbn in K. now apply (port_match_in _ _ _ Ot K). }
    destruct (has_op (a_dport b)) eqn:Ob.
    - apply subset_sorted_complete; auto. intros x Hx. apply K; [now apply Rb|].
      unfold port_match. unfold has_op in Ob. destruct (p_op (a_dport b)) eqn:E; [|discriminate].
      split; auto. apply ops_proto. right. unfold has_op. now rewrite E.
    - apply Nat.eqb_eq. apply full_list; auto. intros p Hp. apply K; auto.
      unfold port_match. unfold has_op in Ob. now destruct (p_op (a_dport b)).
  Qed.

  (** 4. flags *)
  Lemma exact_flags : shadow_flags (a_flags b) (a_flags t) = true.
  Proof.
    unfold shadow_flags. destruct (a_flags t) as [|t0 tt] eqn:Ft; [reflexivity|].
    destruct pb_ok as [P1 P2]. destruct sp0_ok as [S1 S2]. destruct dp0_ok as [D1 D2].
    assert (K : forall fl, flags_match (a_flags b) pb fl -> flags_match (t0 :: tt) pb fl).
    { intros fl M.
      pose proof (den_bottom pb src0 dst0 sp0 dp0 fl P1 P2
                  (create_prefix_lt _ _ B1) (in_wild_self _ _ B1)
                  (create_prefix_lt _ _ B3) (in_wild_self _ _ B3) S1 S2 D1 D2 M) as K.
      destruct K as (_ & _ & _ & _ & _ & K). cbn in K. now rewrite Ft in K. }
    destruct (a_flags b) as [|b0 bb] eqn:Fb.
    - exfalso. destruct (K [] (or_introl eq_refl)) as [C|(_ & f & _ & [])]. discriminate.
    - apply forallb_forall. intros f Hf. apply mem_str_In.
      assert (P6 : pb = 6) by (apply flags_proto; rewrite Fb; discriminate).
      destruct (K [f]) as [C|(_ & f' & H1 & [<-|[]])]; [|discriminate|exact H1].
      right. split; auto. exists f. split; [exact Hf|now left].
  Qed.

  Theorem exact_complete : a_permit b = a_permit t -> shadow_of pl false false b t = Ok true.
  Proof.
    intros EA. unfold shadow_of. rewrite EA, Bool.eqb_reflx. cbn [negb].
    rewrite exact_proto. cbn [negb]. unfold shadow_addr. cbn [andb].
    destruct (subnet_of_exact (a_src b) (a_src t) bsb msb bst mst B1 B2 B5 B6 Dsb Dst) as (r1 & E1 & H1).
    destruct (subnet_of_exact (a_dst b) (a_dst t) bdb mdb bdt mdt B3 B4 B7 B8 Ddb Ddt) as (r2 & E2 & H2).
    rewrite E1. cbn [bind]. rewrite (proj2 H1 exact_src). cbn [negb].
    rewrite E2. cbn [bind]. rewrite (proj2 H2 exact_dst). cbn [negb].
    now rewrite exact_sport, exact_dport, exact_flags.
  Qed.
End Exact.

(** * the skip options (C11) *)
Definition skipped (sg snc : bool) (x y : addr) : bool :=
  (sg && (atype_eqb (addr_type x) TGroup || atype_eqb (addr_type y) TGroup))
  || (snc && (atype_eqb (addr_type x) TWildcard || atype_eqb (addr_type y) TWildcard)
          && negb (has_ipnet x && has_ipnet y)).

Lemma shadow_addr_skip sg snc x y r :
  shadow_addr false false x y = Ok r ->
  shadow_addr sg snc x y = Ok (r && negb (skipped sg snc x y)).
Proof.
  unfold shadow_addr, skipped. cbn [andb]. intros H.
  destruct (sg && _) eqn:E1; cbn [orb negb].
  - now rewrite andb_false_r.
  - destruct (snc && _ && _) eqn:E2; cbn [negb].
    + now rewrite andb_false_r.
    + now rewrite andb_true_r.
Qed.

Theorem skip_rule pl sg snc b t r :
  shadow_of pl false false b t = Ok r ->
  shadow_of pl sg snc b t =
    Ok (r && negb (skipped sg snc (a_src b) (a_src t)) && negb (skipped sg snc (a_dst b) (a_dst t))).
Proof.
  unfold shadow_of. destruct (negb (Bool.eqb (a_permit b) (a_permit t))); [intros [= <-]; reflexivity|].
  destruct (negb (shadow_proto pl b t)); [intros [= <-]; reflexivity|].
  destruct (shadow_addr false false (a_src b) (a_src t)) as [s| | | |] eqn:ES; try discriminate.
  cbn [bind]. rewrite (shadow_addr_skip sg snc _ _ s ES). cbn [bind].
  destruct s; cbn [andb negb].
  - destruct (shadow_addr false false (a_dst b) (a_dst t)) as [d| | | |] eqn:ED; try discriminate.
    cbn [bind]. rewrite (shadow_addr_skip sg snc _ _ d ED).
    destruct (skipped sg snc (a_src b) (a_src t)); cbn [negb bind andb].
    + intros H. destruct d; cbn [negb] in H; injection H as <-; [|reflexivity].
      now rewrite andb_false_r.
    + cbn [bind]. destruct d; cbn [andb negb].
      * destruct (skipped sg snc (a_dst b) (a_dst t)); cbn [negb].
        -- intros [= <-]. now rewrite andb_false_r.
        -- intros [= <-]. now rewrite !andb_true_r.
      * intros [= <-]. reflexivity.
  - intros [= <-]. reflexivity.
Qed.

Lemma tb_ones k i : tb (N.ones (N.of_nat k)) i = Nat.ltb i k.
Proof.
  unfold tb. destruct (Nat.ltb i k) eqn:E.
  - apply Nat.ltb_lt in E. apply N.ones_spec_low. lia.
  - apply Nat.ltb_ge in E. apply N.ones_spec_high. lia.
Qed.

Lemma ncwb_hostmask len : ncwb (hostmask len) = [].
Proof.
  unfold hostmask, W.
  assert (E : prefixlen_idx (N.ones (N.of_nat (32 - len))) = (32 - len)%nat).
  { apply lowrun_unique; [lia|]. intros i _. apply tb_ones. }
  apply ncwb_nil_iff. rewrite E. intros i Hi. rewrite tb_ones. apply Nat.ltb_ge. lia.
Qed.

(** for addresses built from spellings the skipped kinds are exactly "group" and
    "wildcard without a single network" (a non-contiguous wildcard) *)
Lemma spelled_nc_type pl limit sp a :
  addr_of_spelling pl limit sp = Ok a -> has_ipnet a = false ->
  addr_type a = TWildcard \/ addr_type a = TGroup.
Proof.
  destruct sp as [|x|x len|x m|n its]; cbn [addr_of_spelling]; intros H NI.
  - destruct (new_wild limit 0 ALL_ONES) as [w| | | |] eqn:E; try discriminate. injection H as <-.
    exfalso. apply new_wild_consistent in E. destruct E as (_ & _ & I & _).
    unfold has_ipnet in NI. cbn [addr_ipnet] in NI. rewrite I in NI.
    rewrite ALL_ONES_val in NI. vm_compute in NI. discriminate.
  - destruct (new_wild limit x 0) as [w| | | |] eqn:E; try discriminate. injection H as <-.
    exfalso. apply new_wild_consistent in E. destruct E as (_ & _ & I & _).
    unfold has_ipnet in NI. cbn [addr_ipnet] in NI. rewrite I in NI.
    unfold create_ipnet in NI. cbn in NI. destruct (N.eqb 0 ALL_ONES); discriminate.
  - destruct (Nat.ltb W len); [discriminate|].
    destruct (new_wild limit _ _) as [w| | | |] eqn:E; try discriminate. cbn [bind] in H.
    injection H as <-. exfalso. apply new_wild_consistent in E. destruct E as (_ & _ & I & _).
    unfold has_ipnet in NI. cbn [addr_ipnet] in NI. rewrite I in NI.
    rewrite create_ipnet_spec in NI by apply hostmask_lt.
    pose proof (ncwb_hostmask len) as NC.
    rewrite NC in NI. discriminate.
  - destruct (new_wild limit x m) as [w| | | |] eqn:E; try discriminate. cbn [bind] in H.
    injection H as <-. unfold has_ipnet in NI. cbn [addr_ipnet addr_type] in *.
    destruct (w_ipnet w); [discriminate|]. cbn. now left.
  - injection H as <-. now right.
Qed.
