(** C06, address objects: an address object built by the reader from a native spelling renders to
    text that is read back as the same object - except the listed finding N1 (IOS, zero-length
    prefix). *)
From V Require Import base.Prelude base.Strs gen.Tables model.Cfg model.Wildcard model.Addr model.Lex
  model.AddrText proofs.WildProofs proofs.AddrProofs proofs.TextProofs.
Local Open Scope N_scope.

(** * masks of prefixes *)
Lemma tb_hostmask len i : (len <= 32)%nat -> tb (hostmask len) i = Nat.ltb i (32 - len).
Proof.
  intros Hl. unfold tb, hostmask, W. destruct (Nat.ltb i (32 - len)) eqn:E.
  - apply Nat.ltb_lt in E. apply N.ones_spec_low. lia.
  - apply Nat.ltb_ge in E. apply N.ones_spec_high. lia.
Qed.

Lemma hostmask_idx len : (len <= 32)%nat -> prefixlen_idx (hostmask len) = (32 - len)%nat.
Proof. intros Hl. apply lowrun_unique; [lia|]. intros i _. now apply tb_hostmask. Qed.

Lemma hostmask_ncwb len : (len <= 32)%nat -> ncwb (hostmask len) = [].
Proof.
  intros Hl. apply ncwb_nil_iff. rewrite hostmask_idx by auto. intros i Hi.
  rewrite tb_hostmask by auto. apply Nat.ltb_ge. lia.
Qed.

Lemma create_ipnet_hostmask p len : (len <= 32)%nat -> create_ipnet p (hostmask len) = Some (p, len).
Proof.
  intros Hl. rewrite create_ipnet_spec by apply hostmask_lt. rewrite hostmask_ncwb by auto.
  unfold prefixlen, W. rewrite hostmask_idx by auto. f_equal. f_equal. lia.
Qed.

(** a contiguous mask is the host mask of its prefix length *)
Lemma contiguous_is_hostmask m : m < 2 ^ 32 -> ncwb m = [] -> hostmask (prefixlen m) = m.
Proof.
  intros Hm NC. destruct (lowrun_spec m) as (R1 & R2 & _ & _). cbn zeta in *.
  apply N.bits_inj. intros n.
  destruct (N.lt_ge_cases n 32) as [Hn|Hn].
  - assert (E : n = N.of_nat (N.to_nat n)) by (now rewrite N2Nat.id). rewrite E.
    change (N.testbit (hostmask (prefixlen m)) (N.of_nat (N.to_nat n))) with (tb (hostmask (prefixlen m)) (N.to_nat n)).
    change (N.testbit m (N.of_nat (N.to_nat n))) with (tb m (N.to_nat n)).
    unfold prefixlen, W. rewrite tb_hostmask by lia.
    replace (32 - (32 - prefixlen_idx m))%nat with (prefixlen_idx m) by lia.
    destruct (Nat.ltb (N.to_nat n) (prefixlen_idx m)) eqn:L.
    + apply Nat.ltb_lt in L. symmetry. now apply R2.
    + apply Nat.ltb_ge in L. symmetry. apply (proj1 (ncwb_nil_iff m) NC). lia.
  - rewrite (N.bits_above_log2 m n).
    + unfold hostmask, W. apply N.ones_spec_high. unfold prefixlen, W. lia.
    + destruct (N.eq_dec m 0) as [->|Hz]; [cbn; lia|]. apply N.log2_lt_pow2; [lia|].
      eapply N.lt_le_trans; [exact Hm|]. apply N.pow_le_mono_r; lia.
Qed.

(** * the wildcard object depends on (address outside the mask, mask, limit) only *)
Lemma create_prefix_idem a m : create_prefix (create_prefix a m) m = create_prefix a m.
Proof. unfold create_prefix. now rewrite <- N.land_assoc, N.land_diag. Qed.

Lemma new_wild_norm limit a m : new_wild limit (create_prefix a m) m = new_wild limit a m.
Proof. unfold new_wild, set_line. now rewrite create_prefix_idem. Qed.

Lemma new_wild_fields limit a m w : new_wild limit a m = Ok w ->
  w = mkWild (create_prefix a m) m (create_ipnet (create_prefix a m) m) (ncwb m) (prefixlen m) (Z.to_nat limit) None.
Proof.
  unfold new_wild, set_line. destruct (valid_limit limit); [|discriminate].
  destruct (Nat.ltb (Z.to_nat limit) (length (ncwb m))); [discriminate|]. now intros [= <-].
Qed.

Lemma create_prefix_zero a : a < 2 ^ 32 -> create_prefix a 0 = a.
Proof.
  intros Ha. unfold create_prefix. rewrite N.lxor_0_r.
  change ALL_ONES with (N.ones 32). rewrite N.land_ones. apply N.mod_small. exact Ha.
Qed.

Lemma create_prefix_all a : a < 2 ^ 32 -> create_prefix a ALL_ONES = 0.
Proof. intros _. unfold create_prefix. rewrite N.lxor_nilpotent. apply N.land_0_r. Qed.

(** * the type the reader gives to an address written as "A W" *)
Definition std_type (pl : platform) (w : wild) : atype :=
  if is_host_net (w_ipnet w) then THost
  else if is_any_net (w_ipnet w) then TAny
  else match w_ipnet w, pl with Some _, Nxos => TPrefix | _, _ => TWildcard end.

Lemma swild_gives pl limit a m w : new_wild limit a m = Ok w ->
  addr_of_spelling pl limit (SWild a m) = Ok (ASingle (std_type pl w) w).
Proof. intros H. unfold addr_of_spelling. rewrite H. reflexivity. Qed.

Lemma create_prefix_lt a m : a < 2 ^ 32 -> create_prefix a m < 2 ^ 32.
Proof. intros H. unfold create_prefix. now apply land_lt. Qed.

Lemma netmask_is_create_prefix p len : N.land p (netmask len) = create_prefix p (hostmask len).
Proof. reflexivity. Qed.

(** * THE THEOREM: a standard-typed address object is a fixed point of render / parse *)
Theorem addr_obj_fixpoint pl limit a m w :
  (pl = Ios \/ pl = Nxos) -> a < 2 ^ 32 -> m < 2 ^ 32 -> new_wild limit a m = Ok w ->
  parse_address_text pl limit (render_addr pl (ASingle (std_type pl w) w)) = Ok (ASingle (std_type pl w) w).
Proof.
  intros Hpl Ha Hm HW. pose proof (new_wild_fields _ _ _ _ HW) as EW.
  set (p := create_prefix a m) in *. assert (Hp : p < 2 ^ 32) by (now apply create_prefix_lt).
  assert (IP : w_ipnet w = match ncwb m with [] => Some (p, prefixlen m) | _ => None end).
  { rewrite EW. cbn [w_ipnet]. now apply create_ipnet_spec. }
  assert (WP : w_prefix w = p) by (now rewrite EW). assert (WM : w_mask w = m) by (now rewrite EW).
  unfold parse_address_text, std_type.
  destruct (ncwb m) as [|b0 bs] eqn:NC.
  - (* contiguous mask *)
    pose proof (contiguous_is_hostmask m Hm NC) as HM.
    assert (Hlen : (prefixlen m <= 32)%nat) by (unfold prefixlen, W; lia).
    rewrite IP. cbn [is_host_net is_any_net].
    destruct (Nat.eqb (prefixlen m) 32) eqn:E32.
    + (* a host *)
      apply Nat.eqb_eq in E32. assert (M0 : m = 0) by (rewrite <- HM, E32; reflexivity).
      cbn [render_addr]. rewrite WP, (host_text_fixpoint pl p Hp). cbn [bind addr_of_spelling].
      assert (NW : new_wild limit p 0 = Ok w).
      { unfold p. rewrite M0. rewrite new_wild_norm. now rewrite <- M0. }
      rewrite NW. reflexivity.
    + destruct (N.eqb p 0 && Nat.eqb (prefixlen m) 0) eqn:EA.
      * (* any *)
        apply andb_prop in EA as [P0 L0]. apply N.eqb_eq in P0. apply Nat.eqb_eq in L0.
        assert (MA : m = ALL_ONES) by (rewrite <- HM, L0; reflexivity).
        cbn [render_addr]. rewrite any_text_fixpoint. cbn [bind addr_of_spelling].
        assert (NW : new_wild limit 0 ALL_ONES = Ok w).
        { rewrite <- (create_prefix_all a Ha), new_wild_norm. now rewrite <- MA. }
        rewrite NW. reflexivity.
      * destruct Hpl as [-> | ->].
        -- (* IOS: written as "P W" *)
           cbn [render_addr]. rewrite WP, WM, (wild_text_fixpoint Ios p m Hp Hm). cbn [bind].
           assert (NW : new_wild limit p m = Ok w) by (unfold p; now rewrite new_wild_norm).
           rewrite (swild_gives Ios limit p m w NW). unfold std_type. rewrite IP. cbn [is_host_net is_any_net].
           now rewrite E32, EA.
        -- (* NX-OS: written as "P/len" *)
           cbn [render_addr]. rewrite IP. unfold net_prefix_text. cbn [fst snd].
           rewrite (prefix_text_fixpoint Nxos p (prefixlen m) Hp Hlen). cbn [bind addr_of_spelling].
           replace (Nat.ltb W (prefixlen m)) with false by (symmetry; apply Nat.ltb_ge; unfold W; lia).
           rewrite netmask_is_create_prefix, HM.
           assert (NW : new_wild limit (create_prefix p m) m = Ok w) by (unfold p; now rewrite !new_wild_norm).
           rewrite NW. cbn [bind]. rewrite E32, IP. cbn [is_any_net]. now rewrite EA.
  - (* non-contiguous: written as "P W" on both platforms *)
    rewrite IP. cbn [is_host_net is_any_net]. 
    assert (RT : forall pl0, render_addr pl0 (ASingle TWildcard w) = (render_ip p ++ " " ++ render_ip m)%string).
    { intros pl0. cbn [render_addr]. now rewrite WP, WM. }
    assert (T : match pl with Nxos => TWildcard | _ => TWildcard end = TWildcard) by (destruct pl; reflexivity).
    destruct pl; rewrite ?RT; try (destruct Hpl; discriminate).
    + rewrite (wild_text_fixpoint Ios p m Hp Hm). cbn [bind].
      assert (NW : new_wild limit p m = Ok w) by (unfold p; now rewrite new_wild_norm).
      rewrite (swild_gives Ios limit p m w NW). unfold std_type. now rewrite IP.
    + rewrite (wild_text_fixpoint Nxos p m Hp Hm). cbn [bind].
      assert (NW : new_wild limit p m = Ok w) by (unfold p; now rewrite new_wild_norm).
      rewrite (swild_gives Nxos limit p m w NW). unfold std_type. now rewrite IP.
Qed.

(** * every address the reader builds from a native spelling is standard-typed (except N1) *)
Definition sp_bounds (sp : spelling) : Prop :=
  match sp with
  | SAny => True
  | SHost x => x < 2 ^ 32
  | SPrefix x len => x < 2 ^ 32 /\ (len <= 32)%nat
  | SWild x m => x < 2 ^ 32 /\ m < 2 ^ 32
  | SGroup _ _ => False
  end.

(** the listed finding N1: a zero-length prefix on IOS *)
Definition is_n1 (pl : platform) (sp : spelling) : Prop :=
  pl = Ios /\ exists x, sp = SPrefix x 0.

Lemma all_ones_lt : ALL_ONES < 2 ^ 32.
Proof. vm_compute. reflexivity. Qed.

Theorem reader_std pl limit sp ty w :
  (pl = Ios \/ pl = Nxos) -> sp_bounds sp -> ~ is_n1 pl sp ->
  addr_of_spelling pl limit sp = Ok (ASingle ty w) ->
  ty = std_type pl w /\ exists a m, a < 2 ^ 32 /\ m < 2 ^ 32 /\ new_wild limit a m = Ok w.
Proof.
  intros Hpl HB HN H. destruct sp as [|x|x len|x m|name items]; cbn [sp_bounds] in HB; try contradiction;
    unfold addr_of_spelling in H.
  - destruct (new_wild limit 0 ALL_ONES) as [w0| | | |] eqn:NW; cbn [bind] in H; try discriminate.
    injection H as <- <-. split.
    + rewrite (new_wild_fields _ _ _ _ NW). unfold std_type. cbn [w_ipnet]. reflexivity.
    + exists 0, ALL_ONES. split; [lia|]. split; [apply all_ones_lt|exact NW].
  - destruct (new_wild limit x 0) as [w0| | | |] eqn:NW; cbn [bind] in H; try discriminate.
    injection H as <- <-. split.
    + rewrite (new_wild_fields _ _ _ _ NW). unfold std_type. cbn [w_ipnet]. reflexivity.
    + exists x, 0. split; [exact HB|]. split; [lia|exact NW].
  - destruct HB as [Hx Hl].
    replace (Nat.ltb W len) with false in H by (symmetry; apply Nat.ltb_ge; unfold W; lia).
    destruct (new_wild limit (N.land x (netmask len)) (hostmask len)) as [w0| | | |] eqn:NW; cbn [bind] in H; try discriminate.
    injection H as <- <-. pose proof (new_wild_fields _ _ _ _ NW) as EW.
    assert (IP : w_ipnet w0 = Some (create_prefix (N.land x (netmask len)) (hostmask len), len)).
    { rewrite EW. cbn [w_ipnet]. now apply create_ipnet_hostmask. }
    split.
    + unfold std_type. rewrite IP. cbn [is_host_net is_any_net].
      destruct (Nat.eqb len 32) eqn:E32; [reflexivity|].
      destruct Hpl as [-> | ->].
      * (* IOS: not N1, so the length is not 0 *)
        destruct (Nat.eqb len 0) eqn:E0.
        -- exfalso. apply HN. split; [reflexivity|]. apply Nat.eqb_eq in E0. subst len. now exists x.
        -- now rewrite andb_false_r.
      * destruct (N.eqb _ 0 && Nat.eqb len 0); reflexivity.
    + exists (N.land x (netmask len)), (hostmask len). split; [now apply land_lt|]. split; [apply hostmask_lt|exact NW].
  - destruct HB as [Hx Hm]. destruct (new_wild limit x m) as [w0| | | |] eqn:NW; cbn [bind] in H; try discriminate.
    injection H as <- <-. split; [reflexivity|]. exists x, m. auto.
Qed.

(** the object-level fixed point for everything the reader builds from a native spelling *)
Corollary reader_addr_fixpoint pl limit sp a :
  (pl = Ios \/ pl = Nxos) -> sp_bounds sp -> ~ is_n1 pl sp ->
  addr_of_spelling pl limit sp = Ok a ->
  parse_address_text pl limit (render_addr pl a) = Ok a.
Proof.
  intros Hpl HB HN H. destruct a as [ty w|name items].
  - destruct (reader_std pl limit sp ty w Hpl HB HN H) as (-> & x & m & Hx & Hm & NW).
    now apply (addr_obj_fixpoint pl limit x m w).
  - exfalso. destruct sp as [|x|x len|x m|nm its]; cbn [sp_bounds] in HB; try contradiction; unfold addr_of_spelling in H.
    + destruct (new_wild limit 0 ALL_ONES); cbn [bind] in H; discriminate.
    + destruct (new_wild limit x 0); cbn [bind] in H; discriminate.
    + destruct (Nat.ltb W len); [discriminate|].
      destruct (new_wild limit (N.land x (netmask len)) (hostmask len)); cbn [bind] in H; discriminate.
    + destruct (new_wild limit x m); cbn [bind] in H; discriminate.
Qed.
