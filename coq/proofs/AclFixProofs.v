(** C06 above the ACE: the body of an ACL made of remarks and field-fixed extended ACEs is a fixed
    point of the text round trip - every rendered line is classified as an item and read back as
    the same item, nothing is dropped, reported or aborted. *)
From V Require Import base.Prelude base.Strs gen.Tables model.Cfg model.Names model.Wildcard
  model.Addr model.Ports model.Ace model.Lex model.AddrText model.AceText model.AclText
  proofs.TextProofs proofs.SplitterProofs proofs.AceFixProofs proofs.AddrObjProofs
  proofs.ParsedAceProofs proofs.GroupAceProofs.
Local Open Scope N_scope.

Lemma dec_all_digits n : all_chars is_digit (dec n) = true /\ dec n <> ""%string /\ is_digits (dec n) = true.
Proof.
  pose proof (undec_dec n) as U. assert (I : is_digits (dec n) = true) by (unfold is_digits; now rewrite U).
  destruct (is_digits_chars _ I). auto.
Qed.

Lemma dec_not_word n w : is_digits w = false -> String.eqb (dec n) w = false.
Proof.
  intros H. destruct (String.eqb (dec n) w) eqn:E; [|reflexivity].
  apply String.eqb_eq in E. destruct (dec_all_digits n) as (_ & _ & D). rewrite E in D. congruence.
Qed.

(** the head of a rendered item line is accepted by is_line_for_acl and split by parse_action *)
Definition is_kw (act : string) : Prop := act = "permit"%string \/ act = "deny"%string \/ act = "remark"%string.

Lemma head_plain act rest : is_kw act -> rest <> [] ->
  is_line_for_acl (act :: rest) = true /\ parse_action (act :: rest) = Some (""%string, act, rest).
Proof.
  intros K NE. destruct rest as [|r0 rs]; [congruence|].
  destruct K as [-> | [-> | ->]]; split; reflexivity.
Qed.

Lemma head_seq n act rest : is_kw act -> rest <> [] ->
  is_line_for_acl (dec n :: act :: rest) = true /\ parse_action (dec n :: act :: rest) = Some (dec n, act, rest).
Proof.
  intros K NE. destruct (dec_all_digits n) as (DL & NEd & ID). split.
  - cbn [is_line_for_acl]. rewrite !dec_not_word by reflexivity. cbn [orb]. rewrite ID.
    exact (proj1 (head_plain act rest K NE)).
  - unfold parse_action. rewrite (take_digits_all _ DL). cbn [fst snd].
    change (String.eqb "" "remark") with false. change (String.eqb "" "permit") with false. change (String.eqb "" "deny") with false.
    cbn [orb]. destruct (dec n) as [|c0 r0] eqn:E; [congruence|]. cbn [str_nonempty negb andb].
    destruct rest as [|r1 rs]; [congruence|]. destruct K as [-> | [-> | ->]]; reflexivity.
Qed.

(** * an ACE line *)
Lemma line_to_oace_ace c t SRC DST :
  t_type_ext t = true -> fields_fixed c t SRC DST -> line_to_oace c (render_ace c t) = LItem (AIAce t).
Proof.
  intros Hext F. pose proof (ace_fixpoint c t SRC DST Hext F) as FP.
  destruct (ace_head c t SRC DST Hext F) as (H & sq & act & rest & HH & NE & E).
  unfold line_to_oace. rewrite E.
  assert (R : is_line_for_acl (H ++ rest) = true /\ exists sq', parse_action (H ++ rest) = Some (sq', act, rest) /\ String.eqb act "remark" = false).
  { destruct HH as [a A|n a A]; cbn [app].
    - assert (K : is_kw a) by (destruct A; [left|right; left]; assumption).
      destruct (head_plain a rest K NE) as [L P]. split; [exact L|]. exists ""%string. split; [exact P|]. destruct A as [-> | ->]; reflexivity.
    - assert (K : is_kw a) by (destruct A; [left|right; left]; assumption).
      destruct (head_seq n a rest K NE) as [L P]. split; [exact L|]. exists (dec n). split; [exact P|]. destruct A as [-> | ->]; reflexivity. }
  destruct R as (L & sq' & P & NR).
  destruct (H ++ rest) as [|h0 hr] eqn:EH.
  - destruct HH; discriminate.
  - rewrite L, P, NR, FP. reflexivity.
Qed.

(** * a remark line *)
Lemma line_to_oace_remark c sq toks : toks <> [] -> Forall token toks ->
  line_to_oace c (render_item c (AIRemark sq (join " " toks))) = LItem (AIRemark sq (join " " toks)).
Proof.
  intros NE FT. unfold line_to_oace. cbn [render_item].
  assert (TR : token "remark") by (split; [reflexivity|discriminate]).
  assert (ST : split_ws (join " " toks) = toks) by (rewrite split_ws_join; now apply flat_split_tokens).
  assert (E : split_ws (join " " (filter str_nonempty [if N.eqb sq 0 then ""%string else dec sq; "remark"%string; join " " toks]))
              = (if N.eqb sq 0 then [] else [dec sq]) ++ "remark"%string :: toks).
  { rewrite split_ws_join, flat_split_filter. cbn [flat_map]. rewrite app_nil_r, ST, (split_ws_one _ TR).
    destruct (N.eqb sq 0); [reflexivity|].
    assert (Td : token (dec sq)).
    { destruct (dec_all_digits sq) as (D & NEd & _). split; [|exact NEd].
      apply (all_chars_weaken is_digit); [|exact D]. intros ch Hc.
      assert (Hd : dd ch = true) by (unfold dd; now rewrite Hc). unfold nws. now rewrite (dd_not_ws ch Hd). }
    now rewrite (split_ws_one _ Td). }
  rewrite E. assert (K : is_kw "remark") by (right; right; reflexivity).
  destruct (N.eqb sq 0) eqn:Z; cbn [app].
  - destruct (head_plain "remark" toks K NE) as [L P]. rewrite L, P. cbn [String.eqb Ascii.eqb Bool.eqb].
    change (String.eqb "remark" "remark") with true. cbv iota. apply N.eqb_eq in Z. subst sq. reflexivity.
  - destruct (head_seq sq "remark" toks K NE) as [L P]. rewrite L, P.
    change (String.eqb "remark" "remark") with true. cbv iota. unfold seq_of. now rewrite undec_dec.
Qed.

(** * the body *)
Definition item_fixed (c : cfg) (i : aitem) : Prop :=
  match i with
  | AIAce t => t_type_ext t = true /\ exists SRC DST, fields_fixed c t SRC DST
  | AIRemark sq text => exists toks, toks <> [] /\ Forall token toks /\ text = join " " toks
  end.

Lemma line_to_oace_item c i : item_fixed c i -> line_to_oace c (render_item c i) = LItem i.
Proof.
  destruct i as [t|sq text]; cbn [item_fixed].
  - intros (Hext & SRC & DST & F). now apply (line_to_oace_ace c t SRC DST).
  - intros (toks & NE & FT & ->). now apply line_to_oace_remark.
Qed.

Lemma stamp_fixed c i : item_fixed c i -> stamp_ext i = i.
Proof. destruct i as [t|sq text]; [|reflexivity]. intros (Hext & _). destruct t as [e s a o]. cbn in *. now subst e. Qed.

Theorem acl_body_fixpoint c : forall items, Forall (item_fixed c) items ->
  let cl := classify_all c (map (render_item c) items) in
  cl = map LItem items /\ aborted cl = false /\ items_of cl = items.
Proof.
  induction 1 as [|i items Hi _ (IH1 & IH2 & IH3)]; cbn zeta in *.
  - repeat split.
  - cbn [map classify_all]. rewrite (line_to_oace_item c i Hi). split; [now rewrite IH1|]. split.
    + unfold aborted. cbn [existsb orb]. exact IH2.
    + unfold items_of in *. cbn [flat_map app]. rewrite IH3, (stamp_fixed c i Hi). reflexivity.
Qed.

(** reader-built ACEs (with group references) are field-fixed *)
Definition ace_built (c : cfg) (t : tace) : Prop :=
  exists permit n sq s d toks1 toks2 p1 p2 opts flags logs,
    t = mkTace true sq (mkAce permit n s d p1 p2 flags logs) opts
    /\ n <= 255
    /\ addr_built (plat c) (Z.of_nat (max_ncwb c)) s
    /\ addr_built (plat c) (Z.of_nat (max_ncwb c)) d
    /\ (parse_port (plat c) (proto_ctx (plat c) (is15 c) n) toks1 = Ok p1 /\ (proto_ctx (plat c) (is15 c) n = None -> p1 = empty_port))
    /\ (parse_port (plat c) (proto_ctx (plat c) (is15 c) n) toks2 = Ok p2 /\ (proto_ctx (plat c) (is15 c) n = None -> p2 = empty_port))
    /\ (Forall token opts /\ Forall af opts /\ parse_option opts = Ok (flags, logs)
        /\ split_dstport_option (render_port (port_nr c) (proto_ctx (plat c) (is15 c) n) p2 ++ opts)
           = (render_port (port_nr c) (proto_ctx (plat c) (is15 c) n) p2, opts)).

Definition item_built (c : cfg) (i : aitem) : Prop :=
  match i with
  | AIAce t => ace_built c t
  | AIRemark sq text => exists toks, toks <> [] /\ Forall token toks /\ text = join " " toks
  end.

Lemma item_built_fixed c i : (plat c = Ios \/ plat c = Nxos) -> item_built c i -> item_fixed c i.
Proof.
  intros Hpl. destruct i as [t|sq text]; cbn [item_built item_fixed]; [|auto].
  intros (permit & n & sq & s & d & toks1 & toks2 & p1 & p2 & opts & flags & logs & -> & Hn & Hs & Hd & Hp1 & Hp2 & Ho).
  split; [reflexivity|].
  exact (built_fields_fixed c Hpl permit n sq s d toks1 toks2 p1 p2 opts flags logs Hn Hs Hd Hp1 Hp2 Ho).
Qed.

Theorem acl_body_built_fixpoint c : (plat c = Ios \/ plat c = Nxos) ->
  forall items, Forall (item_built c) items ->
  let cl := classify_all c (map (render_item c) items) in
  cl = map LItem items /\ aborted cl = false /\ items_of cl = items.
Proof.
  intros Hpl items H. apply acl_body_fixpoint. eapply Forall_impl; [|exact H]. intros i. now apply item_built_fixed.
Qed.
