(** Proofs about the text layer (C01 partial, C12, C20). *)
From V Require Import base.Prelude base.Strs gen.Tables model.Cfg model.Names model.Wildcard
  model.Addr model.Ports model.Ace model.Lex model.AddrText model.AceText model.AclText
  proofs.WildProofs proofs.AddrProofs proofs.PortsProofs proofs.NamesProofs proofs.ShadowProofs.
Local Open Scope N_scope.

(** * no word that can follow the destination address looks like an address
    (this is what makes the greedy "last address occurrence" the true destination) *)
Definition address_free (t : string) : bool :=
  negb (starts_with "any" t) && negb (String.eqb t "host") && negb (String.eqb t "object-group")
  && negb (String.eqb t "addrgroup")
  && match octets_prefix t with None => true | Some _ => false end.

Definition TCP_FLAGS : list string := ["ack"; "fin"; "psh"; "rst"; "syn"; "urg"].

Definition vocabulary_address_free : bool :=
  forallb address_free (all_known_names ++ OPERATORS ++ LOGS ++ TCP_FLAGS).
Lemma vocabulary_address_free_ok : vocabulary_address_free = true.
Proof. vm_compute. reflexivity. Qed.

Lemma address_free_no_dst t rest : address_free t = true -> addr_loose false (t :: rest) = None.
Proof.
  unfold address_free. intros H.
  apply andb_prop in H as [H H5]. apply andb_prop in H as [H H4]. apply andb_prop in H as [H H3].
  apply andb_prop in H as [H1 H2].
  apply negb_true_iff in H1, H2, H3, H4. unfold addr_loose. rewrite H1, H2, H3, H4. cbn [orb].
  destruct (octets_prefix t); [discriminate|reflexivity].
Qed.

Theorem known_word_no_dst t rest :
  In t (all_known_names ++ OPERATORS ++ LOGS ++ TCP_FLAGS) -> addr_loose false (t :: rest) = None.
Proof.
  intros H. apply address_free_no_dst. pose proof vocabulary_address_free_ok as V.
  unfold vocabulary_address_free in V. rewrite forallb_forall in V. now apply V.
Qed.

(** * fields of an ACE built from already split fields equal the meaning of the spellings *)
Theorem build_ace_fields pl v15 limit permit proto src dst sp dp opts a :
  sp_single src -> sp_single dst ->
  build_ace pl v15 limit permit proto src dst sp dp opts = Ok a ->
  a_permit a = permit /\ a_proto a = proto /\
  denotes (a_src a) (sp_base src) (sp_mask src) /\ denotes (a_dst a) (sp_base dst) (sp_mask dst) /\
  parse_port pl (proto_ctx pl v15 proto) sp = Ok (a_sport a) /\
  parse_port pl (proto_ctx pl v15 proto) dp = Ok (a_dport a) /\
  a_flags a = filter (fun s => negb (mem_str s LOGS)) opts /\
  a_logs a = filter (fun s => mem_str s LOGS) opts.
Proof.
  intros S1 S2 H. unfold build_ace in H.
  destruct (addr_of_spelling pl limit src) as [s| | | |] eqn:E1; try discriminate. cbn [bind] in H.
  destruct (addr_of_spelling pl limit dst) as [d| | | |] eqn:E2; try discriminate. cbn [bind] in H.
  destruct (parse_port pl (proto_ctx pl v15 proto) sp) as [p1| | | |] eqn:E3; try discriminate. cbn [bind] in H.
  destruct (parse_port pl (proto_ctx pl v15 proto) dp) as [p2| | | |] eqn:E4; try discriminate. cbn [bind] in H.
  unfold parse_option in H. destruct (forallb lower_first opts); [|discriminate]. cbn [bind fst snd] in H.
  injection H as <-. cbn. repeat split; auto; eapply spelling_denotes; eauto.
Qed.

(** * digits: [is_digits] (Python isdigit on ASCII) and the character-level scanner agree *)
From Coq Require Import DecimalString.

Lemma uint_of_char_digit c d : DecimalString.uint_of_char c d <> None -> is_digit c = true /\ d <> None.
Proof.
  destruct d as [d|]; [|destruct c as [[] [] [] [] [] [] [] []]; cbn; congruence].
  destruct c as [[] [] [] [] [] [] [] []]; cbn; intros H; try congruence; split; try reflexivity; discriminate.
Qed.

Lemma uint_string_digits s : NilEmpty.uint_of_string s <> None -> all_chars is_digit s = true.
Proof.
  induction s as [|c s IH]; cbn; auto. intros H.
  destruct (uint_of_char_digit c (NilEmpty.uint_of_string s) H) as [Hc Hs]. rewrite Hc. cbn. now apply IH.
Qed.

Lemma is_digits_chars s : is_digits s = true -> s <> "" /\ all_chars is_digit s = true.
Proof.
  unfold is_digits, undec, NilZero.uint_of_string. destruct s as [|c s]; [discriminate|].
  intros H. split; [discriminate|]. apply uint_string_digits. intro C. rewrite C in H. discriminate.
Qed.

Lemma take_digits_all s : all_chars is_digit s = true -> take_digits s = (s, "").
Proof.
  induction s as [|c s IH]; cbn; auto. intros H. apply andb_prop in H as [Hc Hs].
  rewrite Hc, (IH Hs). reflexivity.
Qed.

(** * valid lines are never dropped (C12): a line the ACE constructor accepts and that has the
    documented shape "[sequence] permit|deny ..." is represented by its item *)
Definition acl_shaped (toks : list string) : Prop :=
  (exists act r, toks = act :: r /\ (act = "permit" \/ act = "deny") /\ r <> []) \/
  (exists sq act r, toks = sq :: act :: r /\ is_digits sq = true /\ (act = "permit" \/ act = "deny") /\ r <> []).

Theorem valid_line_kept c line t :
  acl_shaped (split_ws line) -> parse_ace_text c line = Ok t -> line_to_oace c line = LItem (AIAce t).
Proof.
  intros SH OK. unfold line_to_oace.
  destruct SH as [(act & r & E & A & NE)|(sq & act & r & E & D & A & NE)]; rewrite E.
  - destruct r as [|r0 r']; [congruence|].
    destruct A as [-> | ->]; cbn [is_line_for_acl String.eqb orb parse_action take_digits]; cbn; now rewrite OK.
  - destruct r as [|r0 r']; [congruence|].
    destruct (is_digits_chars sq D) as [NEs CH]. pose proof (take_digits_all sq CH) as TD.
    assert (NA : (String.eqb sq "permit" || String.eqb sq "remark" || String.eqb sq "deny") = false).
    { destruct sq as [|c0 s0]; [congruence|]. cbn in CH. apply andb_prop in CH as [C0 _].
      destruct c0 as [[] [] [] [] [] [] [] []]; cbn in C0; try discriminate; reflexivity. }
    cbn [is_line_for_acl]. rewrite NA, D.
    assert (SNE : str_nonempty sq = true) by (destruct sq; [congruence|reflexivity]).
    destruct A as [-> | ->]; cbn [is_line_for_acl String.eqb orb]; cbn [parse_action]; rewrite TD; cbn [fst snd];
      cbn; rewrite SNE; cbn; now rewrite OK.
Qed.

(** items keep the line order: classification is a line-by-line map, the item list its filter *)
Theorem items_in_order c l1 l2 :
  items_of (classify_all c (l1 ++ l2)) = items_of (classify_all c l1) ++ items_of (classify_all c l2).
Proof.
  induction l1 as [|x t IH]; cbn [app classify_all items_of flat_map]; auto.
  fold (items_of (classify_all c (t ++ l2))). fold (items_of (classify_all c t)). rewrite IH.
  now rewrite app_assoc.
Qed.

(** a silently dropped line is blank or starts with a documented ignorable prefix *)
Theorem silent_drop_documented c line :
  line_to_oace c line = LIgnorable ->
  exists k, In k KNOWN_SKIP /\ starts_with k (init_line line) = true.
Proof.
  unfold line_to_oace, init_line. destruct (split_ws line) as [|t0 ts] eqn:E; [discriminate|].
  destruct (is_line_for_acl (t0 :: ts)).
  - destruct (parse_action (t0 :: ts)) as [[[sq act] text]|]; [|discriminate].
    destruct (String.eqb act "remark"); [discriminate|].
    destruct (parse_ace_text c line); discriminate.
  - destruct (existsb _ KNOWN_SKIP) eqn:X; [|discriminate]. intros _.
    apply existsb_exists in X as (k & Hk & S). exists k. auto.
Qed.

(** * rendered port expressions parse back to the same object (C06, component level) *)
Lemma items_to_ints_render tb nr l :
  table_ok tb = true -> items_to_ints (Some tb) (map (render_port_item nr tb) l) = Ok l.
Proof.
  intros OK. induction l as [|x t IH]; cbn [map items_to_ints]; auto.
  pose proof (port_item_roundtrip tb nr x OK) as R. unfold parse_port_item in R.
  destruct (undec (render_port_item nr tb x)) as [n|] eqn:U.
  - injection R as ->. cbn [bind]. rewrite IH. reflexivity.
  - unfold parse_port_item. rewrite U. rewrite R. cbn [bind]. rewrite IH. reflexivity.
Qed.

Theorem port_text_fixpoint pr pl v15 nr o xs p :
  parse_nums pl (Some (pr, pl, v15)) o xs = Ok p ->
  parse_port pl (Some (pr, pl, v15)) (render_port nr (Some (pr, pl, v15)) p) = Ok p.
Proof.
  intros HP. destruct xs as [|x0 t0] eqn:EX.
  { unfold parse_nums, parse_port in HP. rewrite pop_of_name in HP. discriminate. }
  rewrite <- EX in *. assert (NE : xs <> []) by (rewrite EX; discriminate). clear EX x0 t0.
  pose proof HP as HP0. rewrite parse_nums_eq in HP by auto.
  destruct (valid_count _ o (length xs)) eqn:VC; [|discriminate].
  destruct (items_to_ports o (sortN xs)) as [ps| | | |k] eqn:IP; try discriminate.
  cbn [bind] in HP. injection HP as <-.
  unfold render_port. cbn [p_op p_items].
  destruct (sortN xs) as [|s0 st] eqn:ES.
  { exfalso. apply (f_equal (@length N)) in ES. rewrite sortN_length in ES. destruct xs; [congruence|discriminate]. }
  rewrite <- ES in *.
  unfold parse_port. rewrite pop_of_name.
  destruct (map (render_port_item nr (names_table pr pl v15)) (sortN xs)) as [|m0 mt] eqn:EM.
  { rewrite ES in EM. discriminate. }
  rewrite <- EM. cbn [ctx_table].
  rewrite (items_to_ints_render _ nr (sortN xs) (names_table_ok pr pl v15)). cbn [bind].
  rewrite sortN_length, sortN_idem.
  assert (B : (match o with
               | Lt | Gt => negb (Nat.eqb (length xs) 1)
               | Range => negb (Nat.eqb (length xs) 2)
               | Eq | Neq => ctx_platform_single pl && negb (Nat.eqb (length xs) 1)
               end) = false).
  { destruct o, (ctx_platform_single pl); cbn [valid_count negb orb andb] in *;
      try (rewrite VC; reflexivity); try reflexivity; rewrite negb_true_iff in *; auto;
      try (now rewrite VC). }
  rewrite B. rewrite IP. reflexivity.
Qed.

(** * the error algebra: text constructors only yield an object or a documented error (C20) *)
Definition documented {A} (r : res A) : Prop :=
  match r with Crash _ => False | _ => True end.

Lemma bind_documented {A B} (r : res A) (f : A -> res B) :
  documented r -> (forall a, documented (f a)) -> documented (bind r f).
Proof. destruct r; cbn; auto. Qed.

Lemma items_to_ints_documented tbl l : documented (items_to_ints tbl l).
Proof.
  induction l as [|x t IH]; cbn [items_to_ints]; [exact I|].
  apply bind_documented.
  - destruct (undec x); [exact I|]. destruct tbl as [tb|]; [|exact I].
    unfold parse_port_item. destruct (undec x); [exact I|]. destruct (assoc_str x tb); [|exact I].
    destruct (N.eqb n 0); exact I.
  - intros n. apply bind_documented; [exact IH|]. intros; exact I.
Qed.

Lemma items_to_ints_length tbl l r : items_to_ints tbl l = Ok r -> length r = length l.
Proof.
  revert r. induction l as [|x t IH]; intros r H; cbn [items_to_ints] in H.
  - now injection H as <-.
  - destruct (match undec x with Some n => Ok n | None => _ end) as [n| | | |]; cbn [bind] in H; try discriminate.
    destruct (items_to_ints tbl t) as [r'| | | |]; cbn [bind] in H; try discriminate.
    injection H as <-. cbn. f_equal. now apply IH.
Qed.

Lemma parse_port_documented pl c toks : documented (parse_port pl c toks).
Proof.
  unfold parse_port. destruct toks as [|o items]; [exact I|].
  destruct (pop_of_string o) as [op|]; [|exact I]. destruct items as [|i0 it]; [exact I|].
  pose proof (items_to_ints_documented (ctx_table c) (i0 :: it)) as D.
  destruct (items_to_ints (ctx_table c) (i0 :: it)) as [ints| | | |k] eqn:E; cbn [bind]; try exact I; [|exact D].
  set (n := length ints).
  destruct op; cbn [items_to_ports].
  - destruct (ctx_platform_single pl && negb (Nat.eqb n 1)); exact I.
  - destruct (negb (Nat.eqb n 1)) eqn:B; [exact I|]. apply negb_false_iff, Nat.eqb_eq in B.
    assert (L : length (sortN ints) = 1%nat) by (rewrite sortN_length; exact B).
    destruct (sortN ints) as [|x [|? ?]]; try discriminate. exact I.
  - destruct (negb (Nat.eqb n 1)) eqn:B; [exact I|]. apply negb_false_iff, Nat.eqb_eq in B.
    assert (L : length (sortN ints) = 1%nat) by (rewrite sortN_length; exact B).
    destruct (sortN ints) as [|x [|? ?]]; try discriminate. exact I.
  - destruct (ctx_platform_single pl && negb (Nat.eqb n 1)); exact I.
  - destruct (negb (Nat.eqb n 2)) eqn:B; [exact I|]. apply negb_false_iff, Nat.eqb_eq in B.
    assert (L : length (sortN ints) = 2%nat) by (rewrite sortN_length; exact B).
    destruct (sortN ints) as [|x [|y [|? ?]]]; try discriminate. exact I.
Qed.

Lemma new_wild_documented limit a m : documented (new_wild limit a m).
Proof. unfold new_wild, set_line. destruct (valid_limit limit); [|exact I]. destruct (Nat.ltb _ _); exact I. Qed.

Lemma addr_of_spelling_documented pl limit sp : documented (addr_of_spelling pl limit sp).
Proof.
  destruct sp; cbn [addr_of_spelling]; try exact I.
  - apply bind_documented; [apply new_wild_documented|intros; exact I].
  - apply bind_documented; [apply new_wild_documented|intros; exact I].
  - destruct (Nat.ltb W len); [exact I|]. apply bind_documented; [apply new_wild_documented|intros; exact I].
  - apply bind_documented; [apply new_wild_documented|intros; exact I].
Qed.

Lemma parse_address_text_documented pl limit line : documented (parse_address_text pl limit line).
Proof.
  unfold parse_address_text. apply bind_documented; [|intros; apply addr_of_spelling_documented].
  unfold spelling_of_text.
  destruct (String.eqb line "any"); [exact I|].
  destruct (first_is_digit line && str_contains_char "/" line).
  { unfold parse_prefix_text. destruct (split_char "/" line) as [|a [|m [|? ?]]]; try exact I.
    destruct (parse_ip a); [|exact I]. destruct (parse_masklen m); exact I. }
  destruct (first_is_digit line && str_contains_char " " line).
  { destruct (split_ws line) as [|a [|m [|? ?]]]; try exact I. destruct (parse_ip a), (parse_ip m); exact I. }
  destruct (starts_with "host " line || is_octets line).
  { destruct (find_octets line) as [t|]; [|exact I]. destruct (parse_ip t); exact I. }
  destruct (starts_with (group_cmd pl) line); [|exact I].
  destruct (starts_with _ line); [|exact I]. destruct (check_name _); exact I.
Qed.

Theorem parse_ace_text_documented c line : documented (parse_ace_text c line).
Proof.
  unfold parse_ace_text.
  assert (B : forall ext sp dport opts,
    documented
      (if negb (str_nonempty (s_proto sp)) && match s_sport sp, dport with [], [] => true | _, _ => false end
       then VErr
       else if String.eqb (s_proto sp) "ip" && match s_sport sp, dport with [], [] => false | _, _ => true end
       then VErr
       else
         do src <- parse_address_text (plat c) (Z.of_nat (max_ncwb c)) (s_src sp);
         do dst <- parse_address_text (plat c) (Z.of_nat (max_ncwb c)) (s_dst sp);
         do pr <- parse_proto (s_proto sp);
         do p1 <- parse_port (plat c) (proto_ctx (plat c) (is15 c) pr) (s_sport sp);
         do p2 <- parse_port (plat c) (proto_ctx (plat c) (is15 c) pr) dport;
         do o <- parse_option opts;
         Ok (mkTace ext (seq_of (s_seq sp))
               (mkAce (String.eqb (s_action sp) "permit") pr src dst p1 p2 (fst o) (snd o)) opts))).
  { intros ext sp dport opts. destruct (_ && _); [exact I|]. destruct (_ && _); [exact I|].
    apply bind_documented; [apply parse_address_text_documented|intros src].
    apply bind_documented; [apply parse_address_text_documented|intros dst].
    apply bind_documented.
    { unfold parse_proto. destruct (String.eqb _ ""); [exact I|]. destruct (undec _).
      - destruct (N.leb _ 255); exact I.
      - destruct (assoc_str _ _); exact I. }
    intros pr. apply bind_documented; [apply parse_port_documented|intros p1].
    apply bind_documented; [apply parse_port_documented|intros p2].
    apply bind_documented; [|intros; exact I]. unfold parse_option. destruct (forallb _ _); exact I. }
  destruct (parse_ace_extended (split_ws line)) as [sp|].
  { exact (B true sp (fst (split_dstport_option (s_dstopt sp))) (snd (split_dstport_option (s_dstopt sp)))). }
  destruct (parse_ace_standard (split_ws line)) as [sp|]; [|exact I].
  exact (B false sp [] (s_dstopt sp)).
Qed.

(** * whitespace: the parser sees the token list only, and the token list does not change when
      whitespace characters are doubled, exchanged for other whitespace characters, or added at
      either end of the line *)
Theorem parse_depends_on_tokens c l1 l2 :
  split_ws l1 = split_ws l2 -> parse_ace_text c l1 = parse_ace_text c l2.
Proof. unfold parse_ace_text. intros ->. reflexivity. Qed.

Lemma split_ws_aux_congr a X Y :
  (forall cur, split_ws_aux X cur = split_ws_aux Y cur) ->
  forall cur, split_ws_aux (a ++ X) cur = split_ws_aux (a ++ Y) cur.
Proof.
  intros H. induction a as [|ch a IH]; intros cur; cbn [append split_ws_aux]; [apply H|].
  destruct (is_ws ch); [destruct (str_nonempty cur); now rewrite IH|apply IH].
Qed.

Theorem ws_double a c c' b : is_ws c = true -> is_ws c' = true ->
  split_ws (a ++ String c (String c' b)) = split_ws (a ++ String c b).
Proof.
  intros Hc Hc'. unfold split_ws. apply split_ws_aux_congr. intros cur.
  cbn [split_ws_aux]. rewrite Hc, Hc'. cbn [str_nonempty]. reflexivity.
Qed.

Theorem ws_exchange a c c' b : is_ws c = true -> is_ws c' = true ->
  split_ws (a ++ String c b) = split_ws (a ++ String c' b).
Proof.
  intros Hc Hc'. unfold split_ws. apply split_ws_aux_congr. intros cur.
  cbn [split_ws_aux]. now rewrite Hc, Hc'.
Qed.

Theorem ws_leading c b : is_ws c = true -> split_ws (String c b) = split_ws b.
Proof. intros Hc. unfold split_ws. cbn [split_ws_aux]. rewrite Hc. reflexivity. Qed.

Lemma append_empty_r (a : string) : (a ++ "")%string = a.
Proof. induction a as [|ch a IH]; cbn; [reflexivity|now rewrite IH]. Qed.

Theorem ws_trailing a c : is_ws c = true -> split_ws (a ++ String c "") = split_ws a.
Proof.
  intros Hc. unfold split_ws. rewrite <- (append_empty_r a) at 2. apply split_ws_aux_congr. intros cur.
  cbn [split_ws_aux]. rewrite Hc. destruct (str_nonempty cur); reflexivity.
Qed.

(** * IPv4 text: rendering an address and reading it back *)
Lemma append_assoc_s (a b c : string) : ((a ++ b) ++ c)%string = (a ++ (b ++ c))%string.
Proof. induction a as [|ch a IH]; cbn; [reflexivity|now rewrite IH]. Qed.

Fixpoint no_char (ch : ascii) (s : string) : bool :=
  match s with EmptyString => true | String c s' => negb (Ascii.eqb c ch) && no_char ch s' end.

Lemma split_char_aux_nodot ch s : no_char ch s = true ->
  forall cur rest, split_char_aux ch (s ++ String ch rest) cur = (cur ++ s)%string :: split_char_aux ch rest "".
Proof.
  induction s as [|c s IH]; intros H cur rest; cbn [append split_char_aux].
  - rewrite Ascii.eqb_refl. now rewrite append_empty_r.
  - cbn [no_char] in H. apply andb_prop in H as [H1 H2]. apply negb_true_iff in H1. rewrite H1.
    rewrite (IH H2). f_equal. rewrite append_assoc_s. reflexivity.
Qed.

Lemma split_char_aux_last ch s : no_char ch s = true ->
  forall cur, split_char_aux ch s cur = [(cur ++ s)%string].
Proof.
  induction s as [|c s IH]; intros H cur; cbn [split_char_aux].
  - now rewrite append_empty_r.
  - cbn [no_char] in H. apply andb_prop in H as [H1 H2]. apply negb_true_iff in H1. rewrite H1.
    rewrite (IH H2). f_equal. rewrite append_assoc_s. reflexivity.
Qed.

(** finite facts about the 256 octet spellings, by computation *)
Definition octet_ok (m : N) : bool :=
  no_char "." (dec m) && match parse_octet (dec m) with Some k => N.eqb k m | None => false end.

Lemma octets_ok : forallb octet_ok (seqN 0 256) = true.
Proof. vm_compute. reflexivity. Qed.

Lemma octet_ok_lt m : m < 256 -> octet_ok m = true.
Proof.
  intros H. assert (F := octets_ok). rewrite forallb_forall in F. apply F.
  apply memN_In. clear F.
  (* membership in a 256-element literal range: by computation on the bounded value *)
  assert (E : m = N.of_nat (N.to_nat m)) by (now rewrite N2Nat.id).
  assert (Hn : (N.to_nat m < 256)%nat) by lia.
  rewrite E. generalize (N.to_nat m) Hn. clear.
  intros n Hn. do 256 (destruct n as [|n]; [vm_compute; reflexivity|]). lia.
Qed.

Theorem parse_render_ip n : n < 2 ^ 32 -> parse_ip (render_ip n) = Some n.
Proof.
  intros Hn. unfold parse_ip, render_ip.
  set (a := n / 16777216 mod 256). set (b := n / 65536 mod 256). set (c := n / 256 mod 256). set (d := n mod 256).
  assert (Ha : a < 256) by (unfold a; apply N.mod_lt; lia).
  assert (Hb : b < 256) by (unfold b; apply N.mod_lt; lia).
  assert (Hc : c < 256) by (unfold c; apply N.mod_lt; lia).
  assert (Hd : d < 256) by (unfold d; apply N.mod_lt; lia).
  pose proof (octet_ok_lt a Ha) as Oa. pose proof (octet_ok_lt b Hb) as Ob.
  pose proof (octet_ok_lt c Hc) as Oc. pose proof (octet_ok_lt d Hd) as Od.
  unfold octet_ok in Oa, Ob, Oc, Od.
  apply andb_prop in Oa as [Na Pa]. apply andb_prop in Ob as [Nb Pb].
  apply andb_prop in Oc as [Nc Pc]. apply andb_prop in Od as [Nd Pd].
  unfold split_char.
  change (dec a ++ "." ++ dec b ++ "." ++ dec c ++ "." ++ dec d)%string
    with (dec a ++ String "." (dec b ++ String "." (dec c ++ String "." (dec d))))%string.
  rewrite (split_char_aux_nodot "." (dec a) Na), (split_char_aux_nodot "." (dec b) Nb),
          (split_char_aux_nodot "." (dec c) Nc), (split_char_aux_last "." (dec d) Nd).
  cbn [append].
  destruct (parse_octet (dec a)) as [ka|]; [|discriminate]. apply N.eqb_eq in Pa. subst ka.
  destruct (parse_octet (dec b)) as [kb|]; [|discriminate]. apply N.eqb_eq in Pb. subst kb.
  destruct (parse_octet (dec c)) as [kc|]; [|discriminate]. apply N.eqb_eq in Pc. subst kc.
  destruct (parse_octet (dec d)) as [kd|]; [|discriminate]. apply N.eqb_eq in Pd. subst kd.
  f_equal. unfold a, b, c, d. clear -Hn.
  change (2 ^ 32) with 4294967296 in Hn.
  pose proof (N.div_mod n 16777216 ltac:(lia)). pose proof (N.mod_lt n 16777216 ltac:(lia)).
  pose proof (N.div_mod (n mod 16777216) 65536 ltac:(lia)). pose proof (N.mod_lt (n mod 16777216) 65536 ltac:(lia)).
  pose proof (N.div_mod (n mod 65536) 256 ltac:(lia)). pose proof (N.mod_lt (n mod 65536) 256 ltac:(lia)).
  assert (E1 : n / 16777216 mod 256 = n / 16777216).
  { apply N.mod_small. apply N.div_lt_upper_bound; lia. }
  assert (E2 : n / 65536 mod 256 = (n mod 16777216) / 65536).
  { replace 16777216 with (65536 * 256) by reflexivity. rewrite N.mod_mul_r by lia.
    rewrite N.mul_comm, N.div_add by lia. rewrite (N.div_small (n mod 65536)) by (apply N.mod_lt; lia). now rewrite N.add_0_l. }
  assert (E3 : n / 256 mod 256 = (n mod 65536) / 256).
  { replace 65536 with (256 * 256) by reflexivity. rewrite N.mod_mul_r by lia.
    rewrite N.mul_comm, N.div_add by lia. rewrite (N.div_small (n mod 256)) by (apply N.mod_lt; lia). now rewrite N.add_0_l. }
  assert (E4 : n mod 16777216 mod 65536 = n mod 65536).
  { replace 16777216 with (65536 * 256) by reflexivity. rewrite N.mod_mul_r by lia.
    rewrite N.mul_comm, N.mod_add by lia. apply N.mod_mod. lia. }
  assert (E5 : n mod 65536 mod 256 = n mod 256).
  { replace 65536 with (256 * 256) by reflexivity. rewrite N.mod_mul_r by lia.
    rewrite N.mul_comm, N.mod_add by lia. apply N.mod_mod. lia. }
  rewrite E1, E2, E3. rewrite E4 in *. rewrite E5 in *. lia.
Qed.

(** * address text: what the renderer writes is read back as the same spelling *)
Lemma octet_digits_ok : forallb (fun m => all_chars is_digit (dec m) && str_nonempty (dec m)) (seqN 0 256) = true.
Proof. vm_compute. reflexivity. Qed.

Lemma octet_digits m : m < 256 -> all_chars is_digit (dec m) = true /\ dec m <> ""%string.
Proof.
  intros H. assert (F := octet_digits_ok). rewrite forallb_forall in F.
  assert (Hin : In m (seqN 0 256)).
  { apply memN_In. assert (E : m = N.of_nat (N.to_nat m)) by (now rewrite N2Nat.id).
    assert (Hn : (N.to_nat m < 256)%nat) by lia. rewrite E. generalize (N.to_nat m) Hn. clear.
    intros n Hn. do 256 (destruct n as [|n]; [vm_compute; reflexivity|]). lia. }
  specialize (F m Hin). apply andb_prop in F as [F1 F2]. split; [exact F1|].
  destruct (dec m); [discriminate|discriminate].
Qed.

(** strings made of digits and dots (what [render_ip] writes) *)
Definition dd (c : ascii) : bool := is_digit c || Ascii.eqb c ".".

Lemma all_chars_app f a b : all_chars f (a ++ b) = all_chars f a && all_chars f b.
Proof. induction a as [|c a IH]; cbn; [reflexivity|]. now rewrite IH, andb_assoc. Qed.

Lemma all_chars_weaken (f g : ascii -> bool) s :
  (forall c, f c = true -> g c = true) -> all_chars f s = true -> all_chars g s = true.
Proof.
  intros H. induction s as [|c s IH]; cbn; auto. intros E. apply andb_prop in E as [E1 E2].
  rewrite (H c E1). cbn. auto.
Qed.

Lemma render_ip_dd n : all_chars dd (render_ip n) = true.
Proof.
  unfold render_ip.
  assert (D : forall m, m < 256 -> all_chars dd (dec m) = true).
  { intros m Hm. apply (all_chars_weaken is_digit); [|apply octet_digits; exact Hm].
    intros c Hc. unfold dd. now rewrite Hc. }
  rewrite !all_chars_app. cbn [all_chars dd]. rewrite !D by (apply N.mod_lt; lia). reflexivity.
Qed.

Lemma render_ip_first n : first_is_digit (render_ip n) = true.
Proof.
  unfold render_ip. destruct (octet_digits (n / 16777216 mod 256)) as [D N0]; [apply N.mod_lt; lia|].
  destruct (dec (n / 16777216 mod 256)) as [|c r]; [congruence|]. cbn in *. now apply andb_prop in D as [D _].
Qed.

Lemma dd_no_char ch s : dd ch = false -> all_chars dd s = true -> str_contains_char ch s = false.
Proof.
  intros Hc. induction s as [|c s IH]; cbn; auto. intros E. apply andb_prop in E as [E1 E2].
  rewrite (IH E2), orb_false_r. destruct (Ascii.eqb c ch) eqn:Q; auto. apply Ascii.eqb_eq in Q. congruence.
Qed.

Lemma contains_app ch a b : str_contains_char ch (a ++ b) = str_contains_char ch a || str_contains_char ch b.
Proof. induction a as [|c a IH]; cbn; [reflexivity|]. now rewrite IH, orb_assoc. Qed.

Lemma first_is_digit_app a b : first_is_digit a = true -> first_is_digit (a ++ b) = true.
Proof. destruct a; cbn; [discriminate|auto]. Qed.

Lemma dd_no_char_b ch s : dd ch = false -> all_chars dd s = true -> no_char ch s = true.
Proof.
  intros Hc. induction s as [|c s IH]; cbn; auto. intros E. apply andb_prop in E as [E1 E2].
  rewrite (IH E2), andb_true_r. destruct (Ascii.eqb c ch) eqn:Q; auto. apply Ascii.eqb_eq in Q. congruence.
Qed.

(** prefix notation *)
Theorem prefix_text_fixpoint pl x len : x < 2 ^ 32 -> (len <= 32)%nat ->
  spelling_of_text pl (render_ip x ++ "/" ++ dec (N.of_nat len)) = Ok (SPrefix x len).
Proof.
  intros Hx Hl. unfold spelling_of_text.
  assert (Hany : String.eqb (render_ip x ++ "/" ++ dec (N.of_nat len)) "any" = false).
  { apply String.eqb_neq. intro C. pose proof (render_ip_first x) as F.
    apply (first_is_digit_app _ ("/" ++ dec (N.of_nat len))) in F. rewrite C in F. discriminate. }
  rewrite Hany, (first_is_digit_app _ _ (render_ip_first x)), contains_app. cbn [append str_contains_char].
  rewrite Ascii.eqb_refl, orb_true_r. cbn [andb].
  unfold parse_prefix_text, split_char.
  change (render_ip x ++ String "/" (dec (N.of_nat len)))%string
    with (render_ip x ++ String "/" (dec (N.of_nat len)))%string.
  rewrite (split_char_aux_nodot "/" (render_ip x) (dd_no_char_b "/" _ eq_refl (render_ip_dd x))).
  assert (ND : no_char "/" (dec (N.of_nat len)) = true).
  { assert (F : forallb (fun k => no_char "/" (dec k)) (seqN 0 33) = true) by (vm_compute; reflexivity).
    rewrite forallb_forall in F. apply F. apply memN_In.
    do 33 (destruct len as [|len]; [vm_compute; reflexivity|]). lia. }
  rewrite (split_char_aux_last "/" _ ND). cbn [append].
  rewrite (parse_render_ip x Hx). unfold parse_masklen. rewrite undec_dec.
  replace (N.of_nat len <=? 32) with true by (symmetry; apply N.leb_le; lia).
  cbn. now rewrite Nat2N.id.
Qed.

Theorem any_text_fixpoint pl : spelling_of_text pl "any" = Ok SAny.
Proof. reflexivity. Qed.

Lemma take_digits_app D ch r : all_chars is_digit D = true -> is_digit ch = false ->
  take_digits (D ++ String ch r) = (D, String ch r).
Proof.
  intros HD Hc. induction D as [|c D IH]; cbn [append take_digits].
  - now rewrite Hc.
  - cbn [all_chars] in HD. apply andb_prop in HD as [H1 H2]. rewrite H1, (IH H2). reflexivity.
Qed.

Lemma octets_prefix_render n : octets_prefix (render_ip n) = Some (render_ip n, ""%string).
Proof.
  unfold render_ip.
  set (a := dec (n / 16777216 mod 256)). set (b := dec (n / 65536 mod 256)).
  set (c := dec (n / 256 mod 256)). set (d := dec (n mod 256)).
  destruct (octet_digits (n / 16777216 mod 256)) as [Da Na]; [apply N.mod_lt; lia|].
  destruct (octet_digits (n / 65536 mod 256)) as [Db Nb]; [apply N.mod_lt; lia|].
  destruct (octet_digits (n / 256 mod 256)) as [Dc Nc]; [apply N.mod_lt; lia|].
  destruct (octet_digits (n mod 256)) as [Dd Nd]; [apply N.mod_lt; lia|].
  fold a in Da, Na. fold b in Db, Nb. fold c in Dc, Nc. fold d in Dd, Nd.
  unfold octets_prefix.
  change (a ++ "." ++ b ++ "." ++ c ++ "." ++ d)%string
    with (a ++ String "." (b ++ String "." (c ++ String "." d)))%string.
  rewrite (take_digits_app a "." _ Da eq_refl). cbn [fst snd].
  destruct a as [|a0 a']; [congruence|].
  rewrite (take_digits_app b "." _ Db eq_refl). cbn [fst snd].
  destruct b as [|b0 b']; [congruence|].
  rewrite (take_digits_app c "." _ Dc eq_refl). cbn [fst snd].
  destruct c as [|c0 c']; [congruence|].
  rewrite (take_digits_all d Dd). cbn [fst snd].
  destruct d as [|d0 d']; [congruence|]. reflexivity.
Qed.

Lemma octets_prefix_nondigit c s : is_digit c = false -> octets_prefix (String c s) = None.
Proof. intros H. unfold octets_prefix. cbn [take_digits]. rewrite H. reflexivity. Qed.

Theorem host_text_fixpoint pl x : x < 2 ^ 32 ->
  spelling_of_text pl ("host " ++ render_ip x) = Ok (SHost x).
Proof.
  intros Hx. unfold spelling_of_text.
  change (String.eqb ("host " ++ render_ip x) "any") with false.
  change (first_is_digit ("host " ++ render_ip x)) with false. cbn [andb].
  change (starts_with "host " ("host " ++ render_ip x)) with true. cbn [orb].
  change ("host " ++ render_ip x)%string
    with (String "h" (String "o" (String "s" (String "t" (String " " (render_ip x)))))).
  assert (E : find_octets (render_ip x) = Some (render_ip x)).
  { destruct (render_ip x) as [|c r] eqn:R.
    - pose proof (render_ip_first x) as F. rewrite R in F. discriminate.
    - cbn [find_octets]. rewrite <- R. now rewrite octets_prefix_render. }
  cbn [find_octets].
  rewrite !octets_prefix_nondigit by reflexivity.
  rewrite E, (parse_render_ip x Hx). reflexivity.
Qed.

(** two dotted addresses separated by one blank *)
Lemma dd_not_ws c : dd c = true -> is_ws c = false.
Proof.
  unfold dd, is_digit, is_ws. intros H. apply orb_prop in H as [H|H].
  - apply andb_prop in H as [H1 H2]. apply N.leb_le in H1, H2.
    cbv zeta. apply orb_false_iff. split; apply andb_false_iff; right; apply N.leb_gt; lia.
  - apply Ascii.eqb_eq in H. subst c. reflexivity.
Qed.

Lemma split_ws_aux_token s : all_chars dd s = true ->
  forall cur rest, split_ws_aux (s ++ String " " rest) cur =
                   (if str_nonempty (cur ++ s) then [(cur ++ s)%string] else []) ++ split_ws_aux rest "".
Proof.
  induction s as [|c s IH]; intros H cur rest; cbn [append split_ws_aux].
  - change (is_ws " ") with true. rewrite append_empty_r. destruct (str_nonempty cur); reflexivity.
  - cbn [all_chars] in H. apply andb_prop in H as [H1 H2]. rewrite (dd_not_ws c H1).
    rewrite (IH H2). now rewrite append_assoc_s.
Qed.

Lemma split_ws_aux_last s : all_chars dd s = true ->
  forall cur, split_ws_aux s cur = if str_nonempty (cur ++ s) then [(cur ++ s)%string] else [].
Proof.
  induction s as [|c s IH]; intros H cur; cbn [split_ws_aux].
  - now rewrite append_empty_r.
  - cbn [all_chars] in H. apply andb_prop in H as [H1 H2]. rewrite (dd_not_ws c H1).
    rewrite (IH H2). now rewrite append_assoc_s.
Qed.

Lemma render_ip_nonempty n : str_nonempty (render_ip n) = true.
Proof. pose proof (render_ip_first n) as F. destruct (render_ip n); [discriminate|reflexivity]. Qed.

Theorem wild_text_fixpoint pl x m : x < 2 ^ 32 -> m < 2 ^ 32 ->
  spelling_of_text pl (render_ip x ++ " " ++ render_ip m) = Ok (SWild x m).
Proof.
  intros Hx Hm. unfold spelling_of_text.
  assert (Hany : String.eqb (render_ip x ++ " " ++ render_ip m) "any" = false).
  { apply String.eqb_neq. intro C. pose proof (render_ip_first x) as F.
    apply (first_is_digit_app _ (" " ++ render_ip m)) in F. rewrite C in F. discriminate. }
  rewrite Hany, (first_is_digit_app _ _ (render_ip_first x)). cbn [andb].
  rewrite !contains_app.
  rewrite (dd_no_char "/" _ eq_refl (render_ip_dd x)), (dd_no_char "/" _ eq_refl (render_ip_dd m)).
  change (str_contains_char "/" " ") with false. cbn [orb].
  change (str_contains_char " " " ") with true. cbn [orb]. rewrite orb_true_r.
  unfold split_ws. change (render_ip x ++ " " ++ render_ip m)%string with (render_ip x ++ String " " (render_ip m))%string.
  rewrite (split_ws_aux_token _ (render_ip_dd x)), (split_ws_aux_last _ (render_ip_dd m)).
  cbn [append]. rewrite !render_ip_nonempty. cbn [app].
  rewrite (parse_render_ip x Hx), (parse_render_ip m Hm). reflexivity.
Qed.
