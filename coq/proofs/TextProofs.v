(** Proofs about the text layer (C01 partial, C12, C20). *)
From V Require Import base.Prelude base.Strs gen.Tables model.Cfg model.Names model.Wildcard
  model.Addr model.Ports model.Ace model.Lex model.AddrText model.AceText model.AclText
  proofs.WildProofs proofs.AddrProofs proofs.PortsProofs proofs.NamesProofs proofs.ShadowProofs.
Local Open Scope N_scope.

(** * no word that can follow the destination address looks like an address
    (this is what makes the greedy "last address occurrence" the true destination) *)
Definition address_free (t : string) : bool :=
  negb (starts_with "any" t) && negb (String.eqb t "host") && negb (String.eqb t "object-group")
  && negb (String.eqb t "addrgroup")
  && match octets_prefix t with None => true | Some _ => false end.

Definition TCP_FLAGS : list string := ["ack"; "fin"; "psh"; "rst"; "syn"; "urg"].

Definition vocabulary_address_free : bool :=
  forallb address_free (all_known_names ++ OPERATORS ++ LOGS ++ TCP_FLAGS).
Lemma vocabulary_address_free_ok : vocabulary_address_free = true.
Proof. vm_compute. reflexivity. Qed.

Lemma address_free_no_dst t rest : address_free t = true -> addr_loose false (t :: rest) = None.
Proof.
  unfold address_free. intros H.
  apply andb_prop in H as [H H5]. apply andb_prop in H as [H H4]. apply andb_prop in H as [H H3].
  apply andb_prop in H as [H1 H2].
  apply negb_true_iff in H1, H2, H3, H4. unfold addr_loose. rewrite H1, H2, H3, H4. cbn [orb].
  destruct (octets_prefix t); [discriminate|reflexivity].
Qed.

Theorem known_word_no_dst t rest :
  In t (all_known_names ++ OPERATORS ++ LOGS ++ TCP_FLAGS) -> addr_loose false (t :: rest) = None.
Proof.
  intros H. apply address_free_no_dst. pose proof vocabulary_address_free_ok as V.
  unfold vocabulary_address_free in V. rewrite forallb_forall in V. now apply V.
Qed.

(** * fields of an ACE built from already split fields equal the meaning of the spellings *)
Theorem build_ace_fields pl v15 limit permit proto src dst sp dp opts a :
  sp_single src -> sp_single dst ->
  build_ace pl v15 limit permit proto src dst sp dp opts = Ok a ->
  a_permit a = permit /\ a_proto a = proto /\
  denotes (a_src a) (sp_base src) (sp_mask src) /\ denotes (a_dst a) (sp_base dst) (sp_mask dst) /\
  parse_port pl (proto_ctx pl v15 proto) sp = Ok (a_sport a) /\
  parse_port pl (proto_ctx pl v15 proto) dp = Ok (a_dport a) /\
  a_flags a = filter (fun s => negb (mem_str s LOGS)) opts /\
  a_logs a = filter (fun s => mem_str s LOGS) opts.
Proof.
  intros S1 S2 H. unfold build_ace in H.
  destruct (addr_of_spelling pl limit src) as [s| | | |] eqn:E1; try discriminate. cbn [bind] in H.
  destruct (addr_of_spelling pl limit dst) as [d| | | |] eqn:E2; try discriminate. cbn [bind] in H.
  destruct (parse_port pl (proto_ctx pl v15 proto) sp) as [p1| | | |] eqn:E3; try discriminate. cbn [bind] in H.
  destruct (parse_port pl (proto_ctx pl v15 proto) dp) as [p2| | | |] eqn:E4; try discriminate. cbn [bind] in H.
  unfold parse_option in H. destruct (forallb lower_first opts); [|discriminate]. cbn [bind fst snd] in H.
  injection H as <-. cbn. repeat split; auto; eapply spelling_denotes; eauto.
Qed.

(** * digits: [is_digits] (Python isdigit on ASCII) and the character-level scanner agree *)
From Coq Require Import DecimalString.

Lemma uint_of_char_digit c d : DecimalString.uint_of_char c d <> None -> is_digit c = true /\ d <> None.
Proof.
  destruct d as [d|]; [|destruct c as [[] [] [] [] [] [] [] []]; cbn; congruence].
  destruct c as [[] [] [] [] [] [] [] []]; cbn; intros H; try congruence; split; try reflexivity; discriminate.
Qed.

Lemma uint_string_digits s : NilEmpty.uint_of_string s <> None -> all_chars is_digit s = true.
Proof.
  induction s as [|c s IH]; cbn; auto. intros H.
  destruct (uint_of_char_digit c (NilEmpty.uint_of_string s) H) as [Hc Hs]. rewrite Hc. cbn. now apply IH.
Qed.

Lemma is_digits_chars s : is_digits s = true -> s <> "" /\ all_chars is_digit s = true.
Proof.
  unfold is_digits, undec, NilZero.uint_of_string. destruct s as [|c s]; [discriminate|].
  intros H. split; [discriminate|]. apply uint_string_digits. intro C. rewrite C in H. discriminate.
Qed.

Lemma take_digits_all s : all_chars is_digit s = true -> take_digits s = (s, "").
Proof.
  induction s as [|c s IH]; cbn; auto. intros H. apply andb_prop in H as [Hc Hs].
  rewrite Hc, (IH Hs). reflexivity.
Qed.

(** * valid lines are never dropped (C12): a line the ACE constructor accepts and that has the
    documented shape "[sequence] permit|deny ..." is represented by its item *)
Definition acl_shaped (toks : list string) : Prop :=
  (exists act r, toks = act :: r /\ (act = "permit" \/ act = "deny") /\ r <> []) \/
  (exists sq act r, toks = sq :: act :: r /\ is_digits sq = true /\ (act = "permit" \/ act = "deny") /\ r <> []).

Theorem valid_line_kept c line t :
  acl_shaped (split_ws line) -> parse_ace_text c line = Ok t -> line_to_oace c line = LItem (AIAce t).
Proof.
  intros SH OK. unfold line_to_oace.
  destruct SH as [(act & r & E & A & NE)|(sq & act & r & E & D & A & NE)]; rewrite E.
  - destruct r as [|r0 r']; [congruence|].
    destruct A as [-> | ->]; cbn [is_line_for_acl String.eqb orb parse_action take_digits]; cbn; now rewrite OK.
  - destruct r as [|r0 r']; [congruence|].
    destruct (is_digits_chars sq D) as [NEs CH]. pose proof (take_digits_all sq CH) as TD.
    assert (NA : (String.eqb sq "permit" || String.eqb sq "remark" || String.eqb sq "deny") = false).
    { destruct sq as [|c0 s0]; [congruence|]. cbn in CH. apply andb_prop in CH as [C0 _].
      destruct c0 as [[] [] [] [] [] [] [] []]; cbn in C0; try discriminate; reflexivity. }
    cbn [is_line_for_acl]. rewrite NA, D.
    assert (SNE : str_nonempty sq = true) by (destruct sq; [congruence|reflexivity]).
    destruct A as [-> | ->]; cbn [is_line_for_acl String.eqb orb]; cbn [parse_action]; rewrite TD; cbn [fst snd];
      cbn; rewrite SNE; cbn; now rewrite OK.
Qed.

(** items keep the line order: classification is a line-by-line map, the item list its filter *)
Theorem items_in_order c l1 l2 :
  items_of (classify_all c (l1 ++ l2)) = items_of (classify_all c l1) ++ items_of (classify_all c l2).
Proof.
  induction l1 as [|x t IH]; cbn [app classify_all items_of flat_map]; auto.
  fold (items_of (classify_all c (t ++ l2))). fold (items_of (classify_all c t)). rewrite IH.
  now rewrite app_assoc.
Qed.

(** a silently dropped line is blank or starts with a documented ignorable prefix *)
Theorem silent_drop_documented c line :
  line_to_oace c line = LIgnorable ->
  exists k, In k KNOWN_SKIP /\ starts_with k (init_line line) = true.
Proof.
  unfold line_to_oace, init_line. destruct (split_ws line) as [|t0 ts] eqn:E; [discriminate|].
  destruct (is_line_for_acl (t0 :: ts)).
  - destruct (parse_action (t0 :: ts)) as [[[sq act] text]|]; [|discriminate].
    destruct (String.eqb act "remark"); [discriminate|].
    destruct (parse_ace_text c line); discriminate.
  - destruct (existsb _ KNOWN_SKIP) eqn:X; [|discriminate]. intros _.
    apply existsb_exists in X as (k & Hk & S). exists k. auto.
Qed.

(** * rendered port expressions parse back to the same object (C06, component level) *)
Lemma items_to_ints_render tb nr l :
  table_ok tb = true -> items_to_ints (Some tb) (map (render_port_item nr tb) l) = Ok l.
Proof.
  intros OK. induction l as [|x t IH]; cbn [map items_to_ints]; auto.
  pose proof (port_item_roundtrip tb nr x OK) as R. unfold parse_port_item in R.
  destruct (undec (render_port_item nr tb x)) as [n|] eqn:U.
  - injection R as ->. cbn [bind]. rewrite IH. reflexivity.
  - unfold parse_port_item. rewrite U. rewrite R. cbn [bind]. rewrite IH. reflexivity.
Qed.

Theorem port_text_fixpoint pr pl v15 nr o xs p :
  parse_nums pl (Some (pr, pl, v15)) o xs = Ok p ->
  parse_port pl (Some (pr, pl, v15)) (render_port nr (Some (pr, pl, v15)) p) = Ok p.
Proof.
  intros HP. destruct xs as [|x0 t0] eqn:EX.
  { unfold parse_nums, parse_port in HP. rewrite pop_of_name in HP. discriminate. }
  rewrite <- EX in *. assert (NE : xs <> []) by (rewrite EX; discriminate). clear EX x0 t0.
  pose proof HP as HP0. rewrite parse_nums_eq in HP by auto.
  destruct (valid_count _ o (length xs)) eqn:VC; [|discriminate].
  destruct (items_to_ports o (sortN xs)) as [ps| | | |k] eqn:IP; try discriminate.
  cbn [bind] in HP. injection HP as <-.
  unfold render_port. cbn [p_op p_items].
  destruct (sortN xs) as [|s0 st] eqn:ES.
  { exfalso. apply (f_equal (@length N)) in ES. rewrite sortN_length in ES. destruct xs; [congruence|discriminate]. }
  rewrite <- ES in *.
  unfold parse_port. rewrite pop_of_name.
  destruct (map (render_port_item nr (names_table pr pl v15)) (sortN xs)) as [|m0 mt] eqn:EM.
  { rewrite ES in EM. discriminate. }
  rewrite <- EM. cbn [ctx_table].
  rewrite (items_to_ints_render _ nr (sortN xs) (names_table_ok pr pl v15)). cbn [bind].
  rewrite sortN_length, sortN_idem.
  assert (B : (match o with
               | Lt | Gt => negb (Nat.eqb (length xs) 1)
               | Range => negb (Nat.eqb (length xs) 2)
               | Eq | Neq => ctx_platform_single pl && negb (Nat.eqb (length xs) 1)
               end) = false).
  { destruct o, (ctx_platform_single pl); cbn [valid_count negb orb andb] in *;
      try (rewrite VC; reflexivity); try reflexivity; rewrite negb_true_iff in *; auto;
      try (now rewrite VC). }
  rewrite B. rewrite IP. reflexivity.
Qed.

(** * the error algebra: text constructors only yield an object or a documented error (C20) *)
Definition documented {A} (r : res A) : Prop :=
  match r with Crash _ => False | _ => True end.

Lemma bind_documented {A B} (r : res A) (f : A -> res B) :
  documented r -> (forall a, documented (f a)) -> documented (bind r f).
Proof. destruct r; cbn; auto. Qed.

Lemma items_to_ints_documented tbl l : documented (items_to_ints tbl l).
Proof.
  induction l as [|x t IH]; cbn [items_to_ints]; [exact I|].
  apply bind_documented.
  - destruct (undec x); [exact I|]. destruct tbl as [tb|]; [|exact I].
    unfold parse_port_item. destruct (undec x); [exact I|]. destruct (assoc_str x tb); [|exact I].
    destruct (N.eqb n 0); exact I.
  - intros n. apply bind_documented; [exact IH|]. intros; exact I.
Qed.

Lemma items_to_ints_length tbl l r : items_to_ints tbl l = Ok r -> length r = length l.
Proof.
  revert r. induction l as [|x t IH]; intros r H; cbn [items_to_ints] in H.
  - now injection H as <-.
  - destruct (match undec x with Some n => Ok n | None => _ end) as [n| | | |]; cbn [bind] in H; try discriminate.
    destruct (items_to_ints tbl t) as [r'| | | |]; cbn [bind] in H; try discriminate.
    injection H as <-. cbn. f_equal. now apply IH.
Qed.

Lemma parse_port_documented pl c toks : documented (parse_port pl c toks).
Proof.
  unfold parse_port. destruct toks as [|o items]; [exact I|].
  destruct (pop_of_string o) as [op|]; [|exact I]. destruct items as [|i0 it]; [exact I|].
  pose proof (items_to_ints_documented (ctx_table c) (i0 :: it)) as D.
  destruct (items_to_ints (ctx_table c) (i0 :: it)) as [ints| | | |k] eqn:E; cbn [bind]; try exact I; [|exact D].
  set (n := length ints).
  destruct op; cbn [items_to_ports].
  - destruct (ctx_platform_single pl && negb (Nat.eqb n 1)); exact I.
  - destruct (negb (Nat.eqb n 1)) eqn:B; [exact I|]. apply negb_false_iff, Nat.eqb_eq in B.
    assert (L : length (sortN ints) = 1%nat) by (rewrite sortN_length; exact B).
    destruct (sortN ints) as [|x [|? ?]]; try discriminate. exact I.
  - destruct (negb (Nat.eqb n 1)) eqn:B; [exact I|]. apply negb_false_iff, Nat.eqb_eq in B.
    assert (L : length (sortN ints) = 1%nat) by (rewrite sortN_length; exact B).
    destruct (sortN ints) as [|x [|? ?]]; try discriminate. exact I.
  - destruct (ctx_platform_single pl && negb (Nat.eqb n 1)); exact I.
  - destruct (negb (Nat.eqb n 2)) eqn:B; [exact I|]. apply negb_false_iff, Nat.eqb_eq in B.
    assert (L : length (sortN ints) = 2%nat) by (rewrite sortN_length; exact B).
    destruct (sortN ints) as [|x [|y [|? ?]]]; try discriminate. exact I.
Qed.

Lemma new_wild_documented limit a m : documented (new_wild limit a m).
Proof. unfold new_wild, set_line. destruct (valid_limit limit); [|exact I]. destruct (Nat.ltb _ _); exact I. Qed.

Lemma addr_of_spelling_documented pl limit sp : documented (addr_of_spelling pl limit sp).
Proof.
  destruct sp; cbn [addr_of_spelling]; try exact I.
  - apply bind_documented; [apply new_wild_documented|intros; exact I].
  - apply bind_documented; [apply new_wild_documented|intros; exact I].
  - destruct (Nat.ltb W len); [exact I|]. apply bind_documented; [apply new_wild_documented|intros; exact I].
  - apply bind_documented; [apply new_wild_documented|intros; exact I].
Qed.

Lemma parse_address_text_documented pl limit line : documented (parse_address_text pl limit line).
Proof.
  unfold parse_address_text. apply bind_documented; [|intros; apply addr_of_spelling_documented].
  unfold spelling_of_text.
  destruct (String.eqb line "any"); [exact I|].
  destruct (first_is_digit line && str_contains_char "/" line).
  { unfold parse_prefix_text. destruct (split_char "/" line) as [|a [|m [|? ?]]]; try exact I.
    destruct (parse_ip a); [|exact I]. destruct (parse_masklen m); exact I. }
  destruct (first_is_digit line && str_contains_char " " line).
  { destruct (split_ws line) as [|a [|m [|? ?]]]; try exact I. destruct (parse_ip a), (parse_ip m); exact I. }
  destruct (starts_with "host " line || is_octets line).
  { destruct (find_octets line) as [t|]; [|exact I]. destruct (parse_ip t); exact I. }
  destruct (starts_with (group_cmd pl) line); [|exact I].
  destruct (starts_with _ line); [|exact I]. destruct (check_name _); exact I.
Qed.

Theorem parse_ace_text_documented c line : documented (parse_ace_text c line).
Proof.
  unfold parse_ace_text.
  assert (B : forall ext sp dport opts,
    documented
      (if negb (str_nonempty (s_proto sp)) && match s_sport sp, dport with [], [] => true | _, _ => false end
       then VErr
       else if String.eqb (s_proto sp) "ip" && match s_sport sp, dport with [], [] => false | _, _ => true end
       then VErr
       else
         do src <- parse_address_text (plat c) (Z.of_nat (max_ncwb c)) (s_src sp);
         do dst <- parse_address_text (plat c) (Z.of_nat (max_ncwb c)) (s_dst sp);
         do pr <- parse_proto (s_proto sp);
         do p1 <- parse_port (plat c) (proto_ctx (plat c) (is15 c) pr) (s_sport sp);
         do p2 <- parse_port (plat c) (proto_ctx (plat c) (is15 c) pr) dport;
         do o <- parse_option opts;
         Ok (mkTace ext (seq_of (s_seq sp))
               (mkAce (String.eqb (s_action sp) "permit") pr src dst p1 p2 (fst o) (snd o)) opts))).
  { intros ext sp dport opts. destruct (_ && _); [exact I|]. destruct (_ && _); [exact I|].
    apply bind_documented; [apply parse_address_text_documented|intros src].
    apply bind_documented; [apply parse_address_text_documented|intros dst].
    apply bind_documented.
    { unfold parse_proto. destruct (String.eqb _ ""); [exact I|]. destruct (undec _).
      - destruct (N.leb _ 255); exact I.
      - destruct (assoc_str _ _); exact I. }
    intros pr. apply bind_documented; [apply parse_port_documented|intros p1].
    apply bind_documented; [apply parse_port_documented|intros p2].
    apply bind_documented; [|intros; exact I]. unfold parse_option. destruct (forallb _ _); exact I. }
  destruct (parse_ace_extended (split_ws line)) as [sp|].
  { exact (B true sp (fst (split_dstport_option (s_dstopt sp))) (snd (split_dstport_option (s_dstopt sp)))). }
  destruct (parse_ace_standard (split_ws line)) as [sp|]; [|exact I].
  exact (B false sp [] (s_dstopt sp)).
Qed.

(** * whitespace: the parser sees the token list only, and the token list does not change when
      whitespace characters are doubled, exchanged for other whitespace characters, or added at
      either end of the line *)
Theorem parse_depends_on_tokens c l1 l2 :
  split_ws l1 = split_ws l2 -> parse_ace_text c l1 = parse_ace_text c l2.
Proof. unfold parse_ace_text. intros ->. reflexivity. Qed.

Lemma split_ws_aux_congr a X Y :
  (forall cur, split_ws_aux X cur = split_ws_aux Y cur) ->
  forall cur, split_ws_aux (a ++ X) cur = split_ws_aux (a ++ Y) cur.
Proof.
  intros H. induction a as [|ch a IH]; intros cur; cbn [append split_ws_aux]; [apply H|].
  destruct (is_ws ch); [destruct (str_nonempty cur); now rewrite IH|apply IH].
Qed.

Theorem ws_double a c c' b : is_ws c = true -> is_ws c' = true ->
  split_ws (a ++ String c (String c' b)) = split_ws (a ++ String c b).
Proof.
  intros Hc Hc'. unfold split_ws. apply split_ws_aux_congr. intros cur.
  cbn [split_ws_aux]. rewrite Hc, Hc'. cbn [str_nonempty]. reflexivity.
Qed.

Theorem ws_exchange a c c' b : is_ws c = true -> is_ws c' = true ->
  split_ws (a ++ String c b) = split_ws (a ++ String c' b).
Proof.
  intros Hc Hc'. unfold split_ws. apply split_ws_aux_congr. intros cur.
  cbn [split_ws_aux]. now rewrite Hc, Hc'.
Qed.

Theorem ws_leading c b : is_ws c = true -> split_ws (String c b) = split_ws b.
Proof. intros Hc. unfold split_ws. cbn [split_ws_aux]. rewrite Hc. reflexivity. Qed.

Lemma append_empty_r (a : string) : (a ++ "")%string = a.
Proof. induction a as [|ch a IH]; cbn; [reflexivity|now rewrite IH]. Qed.

Theorem ws_trailing a c : is_ws c = true -> split_ws (a ++ String c "") = split_ws a.
Proof.
  intros Hc. unfold split_ws. rewrite <- (append_empty_r a) at 2. apply split_ws_aux_congr. intros cur.
  cbn [split_ws_aux]. rewrite Hc. destruct (str_nonempty cur); reflexivity.
Qed.
