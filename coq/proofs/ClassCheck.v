(** A checker for the class of the certificate-free theorems: [acl_builtb a = true] implies
    [acl_built a] (C17) - so that the check can count, by evaluation inside Coq, how many of the
    explored Acls the unconditional theorems apply to.  Sound, not complete. *)
From V Require Import base.Prelude base.Strs gen.Tables model.Cfg model.Names model.Wildcard
  model.Addr model.Ports model.Ace model.Lex model.AddrText model.AceText model.AclText
  model.Shading model.SplitPorts model.Platform model.Ops
  proofs.TextProofs proofs.SplitterProofs proofs.AceFixProofs proofs.AddrObjProofs proofs.ParsedAceProofs proofs.PlatformProofs
  proofs.ConvProofs proofs.ConvSplitProofs proofs.OpsBuiltProofs spec.AclSem proofs.DeleteShadowProofs proofs.HistoryProofs.
Local Open Scope N_scope.

(** * decidable equalities (Leibniz) *)
Definition option_eqb {A} (e : A -> A -> bool) (a b : option A) : bool :=
  match a, b with Some x, Some y => e x y | None, None => true | _, _ => false end.
Lemma option_eqb_eq {A} (e : A -> A -> bool) (H : forall x y, e x y = true -> x = y) a b :
  option_eqb e a b = true -> a = b.
Proof. destruct a, b; cbn; intros E; try discriminate; [now rewrite (H _ _ E)|reflexivity]. Qed.

Definition net_eqb2 (a b : N * nat) : bool := N.eqb (fst a) (fst b) && Nat.eqb (snd a) (snd b).
Lemma net_eqb2_eq a b : net_eqb2 a b = true -> a = b.
Proof.
  destruct a, b. unfold net_eqb2. cbn. intros E. apply andb_prop in E as [E1 E2].
  apply N.eqb_eq in E1. apply Nat.eqb_eq in E2. now subst.
Qed.

Definition wild_eqb (a b : wild) : bool :=
  N.eqb (w_prefix a) (w_prefix b) && N.eqb (w_mask a) (w_mask b)
  && option_eqb net_eqb2 (w_ipnet a) (w_ipnet b)
  && list_eqb Nat.eqb (w_ncwb a) (w_ncwb b) && Nat.eqb (w_plen a) (w_plen b) && Nat.eqb (w_limit a) (w_limit b)
  && option_eqb (list_eqb net_eqb2) (w_cache a) (w_cache b).
Lemma wild_eqb_eq a b : wild_eqb a b = true -> a = b.
Proof.
  destruct a, b. unfold wild_eqb. cbn. intros E.
  repeat (apply andb_prop in E as [E ?]).
  apply N.eqb_eq in E.
  repeat match goal with
         | H : N.eqb _ _ = true |- _ => apply N.eqb_eq in H
         | H : Nat.eqb _ _ = true |- _ => apply Nat.eqb_eq in H
         | H : option_eqb net_eqb2 _ _ = true |- _ => apply (option_eqb_eq _ net_eqb2_eq) in H
         | H : list_eqb Nat.eqb _ _ = true |- _ => apply (list_eqb_eq Nat.eqb (fun x y Q => proj1 (Nat.eqb_eq x y) Q)) in H
         | H : option_eqb (list_eqb net_eqb2) _ _ = true |- _ =>
             apply (option_eqb_eq _ (fun x y Q => list_eqb_eq net_eqb2 net_eqb2_eq x y Q)) in H
         end.
  now subst.
Qed.

Definition atype_eqb (a b : atype) : bool :=
  match a, b with
  | TAny, TAny | THost, THost | TPrefix, TPrefix | TSubnet, TSubnet | TWildcard, TWildcard | TGroup, TGroup => true
  | _, _ => false
  end.
Lemma atype_eqb_eq a b : atype_eqb a b = true -> a = b.
Proof. destruct a, b; cbn; intros E; try discriminate; reflexivity. Qed.

Definition pop_eqb (a b : pop) : bool :=
  match a, b with Eq, Eq | Gt, Gt | Lt, Lt | Neq, Neq | Range, Range => true | _, _ => false end.
Lemma pop_eqb_eq a b : pop_eqb a b = true -> a = b.
Proof. destruct a, b; cbn; intros E; try discriminate; reflexivity. Qed.

Definition port_eqb (p q : port) : bool :=
  option_eqb pop_eqb (p_op p) (p_op q) && list_eqb N.eqb (p_items p) (p_items q)
  && list_eqb N.eqb (p_ports p) (p_ports q) && String.eqb (p_sport p) (p_sport q).
Lemma port_eqb_eq p q : port_eqb p q = true -> p = q.
Proof.
  destruct p, q. unfold port_eqb. cbn. intros E. repeat (apply andb_prop in E as [E ?]).
  apply (option_eqb_eq _ pop_eqb_eq) in E.
  repeat match goal with
         | H : list_eqb N.eqb _ _ = true |- _ => apply (list_eqb_eq N.eqb (fun x y Q => proj1 (N.eqb_eq x y) Q)) in H
         | H : String.eqb _ _ = true |- _ => apply String.eqb_eq in H
         end.
  now subst.
Qed.

(** * the checkers *)
Definition addr_srcb (pl : platform) (limit : Z) (a : addr) : bool :=
  match a with
  | ASingle ty w =>
      (w_prefix w <? 2 ^ 32) && (w_mask w <? 2 ^ 32)
      && match addr_of_spelling pl limit (SWild (w_prefix w) (w_mask w)) with
         | Ok (ASingle ty' w') => atype_eqb ty ty' && wild_eqb w w'
         | _ => false
         end
  | AGroup name [] => check_name name && negb (after_group_kw name)
  | AGroup _ (_ :: _) => false
  end.

Lemma addr_srcb_ok pl limit a : addr_srcb pl limit a = true -> addr_src false pl limit a.
Proof.
  destruct a as [ty w|name [|i its]]; cbn [addr_srcb]; intros H; try discriminate.
  - apply andb_prop in H as [H E]. apply andb_prop in H as [B1 B2].
    apply N.ltb_lt in B1. apply N.ltb_lt in B2.
    destruct (addr_of_spelling pl limit (SWild (w_prefix w) (w_mask w))) as [[ty' w'|]| | | |] eqn:A; try discriminate.
    apply andb_prop in E as [E1 E2]. apply atype_eqb_eq in E1. apply wild_eqb_eq in E2. subst ty' w'.
    left. exists (SWild (w_prefix w) (w_mask w)). split; [split; assumption|]. split; [intros [_ [x Hx]]; discriminate|exact A].
  - apply andb_prop in H as [H1 H2]. apply negb_true_iff in H2. right. exists name, []. auto.
Qed.

Definition port_clsb (p : port) : bool :=
  negb (option_eqb pop_eqb (p_op p) (Some Neq)) || Nat.eqb (length (p_items p)) 1.
Lemma port_clsb_ok p : port_clsb p = true -> port_cls p.
Proof.
  unfold port_clsb, port_cls. intros H. apply orb_prop in H as [H|H].
  - left. intros E. rewrite E in H. discriminate.
  - right. now apply Nat.eqb_eq.
Qed.

Definition port_cand (p : port) : list string :=
  match p_op p with Some o => pop_name o :: map dec (p_items p) | None => [] end.

Definition port_srcb (pl : platform) (pc : pctx) (p : port) : bool :=
  match parse_port pl pc (port_cand p) with Ok q => port_eqb p q | _ => false end
  && match pc with None => port_eqb p empty_port | Some _ => true end
  && port_clsb p.

Lemma port_srcb_ok pl pc p : port_srcb pl pc p = true ->
  parse_port pl pc (port_cand p) = Ok p /\ (pc = None -> p = empty_port) /\ port_cls p.
Proof.
  unfold port_srcb. intros H. apply andb_prop in H as [H C]. apply andb_prop in H as [P E].
  destruct (parse_port pl pc (port_cand p)) as [q| | | |] eqn:PP; try discriminate.
  apply port_eqb_eq in P. subst q. split; [reflexivity|]. split; [|now apply port_clsb_ok].
  intros ->. now apply port_eqb_eq.
Qed.

Definition opt_sepb (opts : list string) : bool :=
  match opts with
  | [] => true
  | o0 :: _ => negb (is_digits o0 || is_known_name o0) && negb (mem_str o0 OPERATORS)
  end.
Lemma opt_sepb_ok opts : opt_sepb opts = true -> opt_sep opts.
Proof.
  destruct opts as [|o0 r]; cbn [opt_sepb opt_sep]; [auto|]. intros H. apply andb_prop in H as [H1 H2].
  apply negb_true_iff in H1, H2. auto.
Qed.

Definition src_builtb (c : cfg) (t : tace) : bool :=
  let a := t_ace t in
  let pc := proto_ctx (plat c) (is15 c) (a_proto a) in
  t_type_ext t && (a_proto a <=? 255)
  && addr_srcb (plat c) (Z.of_nat (max_ncwb c)) (a_src a) && addr_srcb (plat c) (Z.of_nat (max_ncwb c)) (a_dst a)
  && port_srcb (plat c) pc (a_sport a) && port_srcb (plat c) pc (a_dport a)
  && forallb tokenb (t_option_line t) && forallb address_free (t_option_line t)
  && match parse_option (t_option_line t) with
     | Ok (f, l) => list_eqb String.eqb f (a_flags a) && list_eqb String.eqb l (a_logs a)
     | _ => false
     end
  && opt_sepb (t_option_line t).

Lemma src_builtb_ok c t : src_builtb c t = true -> src_built false c t.
Proof.
  destruct t as [ext sq [permit n s d p1 p2 flags logs] opts]. unfold src_builtb.
  cbn [t_ace t_type_ext t_option_line a_proto a_src a_dst a_sport a_dport a_flags a_logs]. intros H.
  repeat (apply andb_prop in H as [H ?]).
  match goal with Q : opt_sepb _ = true |- _ => apply opt_sepb_ok in Q end.
  match goal with Q : (n <=? 255) = true |- _ => apply N.leb_le in Q end.
  repeat match goal with Q : addr_srcb _ _ _ = true |- _ => apply addr_srcb_ok in Q end.
  repeat match goal with Q : port_srcb _ _ _ = true |- _ => apply port_srcb_ok in Q end.
  destruct (parse_option opts) as [[f l]| | | |] eqn:PO; try discriminate.
  match goal with Q : list_eqb String.eqb f flags && _ = true |- _ => apply andb_prop in Q as [Q1 Q2] end.
  apply (list_eqb_eq String.eqb (fun x y Q => proj1 (String.eqb_eq x y) Q)) in Q1, Q2. subst f l.
  subst ext.
  exists permit, n, sq, s, d, (port_cand p1), (port_cand p2), p1, p2, opts, flags, logs.
  split; [reflexivity|]. split; [assumption|]. split; [assumption|]. split; [assumption|].
  split; [assumption|]. split; [assumption|].
  split.
  { apply Forall_forall. intros x Hx. apply tokenb_token.
    match goal with Q : forallb tokenb opts = true |- _ => rewrite forallb_forall in Q; now apply Q end. }
  split.
  { apply Forall_forall. intros x Hx. unfold af.
    match goal with Q : forallb address_free opts = true |- _ => rewrite forallb_forall in Q; now apply Q end. }
  split; [exact PO|assumption].
Qed.

(** remarks: the text is its own blank-normalised form *)
Lemma split_ws_aux_tokens : forall s cur, all_chars nws cur = true -> Forall token (split_ws_aux s cur).
Proof.
  induction s as [|ch s IH]; intros cur HC; cbn [split_ws_aux].
  - destruct cur as [|c0 r] eqn:EC; cbn [str_nonempty]; [constructor|]. constructor; [|constructor].
    split; [exact HC|discriminate].
  - destruct (is_ws ch) eqn:W.
    + destruct cur as [|c0 r] eqn:EC; cbn [str_nonempty]; [now apply IH|].
      constructor; [split; [exact HC|discriminate]|now apply IH].
    + apply IH. rewrite all_chars_app, HC. cbn [all_chars andb]. unfold nws. now rewrite W.
Qed.

Definition remark_okb (text : string) : bool :=
  match split_ws text with [] => false | toks => String.eqb text (join " " toks) end.
Lemma remark_okb_ok text : remark_okb text = true -> remark_ok text.
Proof.
  unfold remark_okb, remark_ok. destruct (split_ws text) as [|t0 ts] eqn:E; [discriminate|].
  intros H. apply String.eqb_eq in H. exists (t0 :: ts). split; [discriminate|]. split; [|exact H].
  rewrite <- E. now apply split_ws_aux_tokens.
Qed.

Definition leaf_okb (c : cfg) (l : leaf) : bool :=
  match l with LAce _ _ t => src_builtb c t | LRem _ _ _ text => remark_okb text end.

Definition plat_okb (p : platform) : bool := match p with Ios | Nxos => true | Asa => false end.

Definition acl_builtb (a : acl) : bool :=
  plat_okb (plat (o_cfg a)) && negb (str_nonempty (o_gby a))
  && forallb (fun t => match t with TLeaf l => leaf_okb (o_cfg a) l | TGrp _ _ _ _ _ => false end) (o_tops a).

Theorem acl_builtb_ok a : acl_builtb a = true -> acl_built a.
Proof.
  unfold acl_builtb. intros H. apply andb_prop in H as [H F]. apply andb_prop in H as [P G].
  split; [destruct (plat (o_cfg a)); try discriminate; auto|].
  split; [apply negb_true_iff in G; destruct (o_gby a); [reflexivity|discriminate]|].
  assert (X : forall tops, forallb (fun t => match t with TLeaf l => leaf_okb (o_cfg a) l | TGrp _ _ _ _ _ => false end) tops = true ->
              exists ls, tops = map TLeaf ls /\ Forall (leaf_ok (o_cfg a)) ls).
  { induction tops as [|t tops IH]; intros HF.
    - exists []. split; [reflexivity|constructor].
    - cbn [forallb] in HF. apply andb_prop in HF as [H1 H2]. destruct (IH H2) as (ls & -> & FL).
      destruct t as [l|]; [|discriminate]. exists (l :: ls). split; [reflexivity|]. constructor; [|exact FL].
      unfold leaf_ok. destruct l as [id nt t|id nt sq text]; cbn [leaf_okb leaf_aitem item_src] in *.
      + now apply src_builtb_ok.
      + now apply remark_okb_ok. }
  exact (X _ F).
Qed.

(** * histories and lists: the checked form of the unconditional theorems *)
Definition op_okb (o : op) : bool :=
  match o with
  | OpPlatform Asa => false
  | OpPlatform _ | OpPortNr _ | OpProtocolNr _ | OpTypeExt | OpResequence _ _ | OpUngroup
  | OpCopy | OpImportUuid | OpReparse | OpUngroupPorts => true
  | _ => false
  end.
Lemma op_okb_ok o : op_okb o = true -> op_ok o.
Proof. destruct o; cbn; try discriminate; try (intros; exact I). destruct p; cbn; try discriminate; intros; exact I. Qed.

Theorem history_checked next a ops a' :
  acl_builtb a = true -> forallb op_okb ops = true -> steps_labelled next a ops = Ok a' ->
  forall k, HistoryProofs.acl_decide a' k = HistoryProofs.acl_decide a k.
Proof.
  intros HB HO H. apply acl_builtb_ok in HB.
  assert (FO : Forall op_ok ops).
  { apply Forall_forall. intros o Ho. apply op_okb_ok. rewrite forallb_forall in HO. now apply HO. }
  exact (proj2 (history_built_labelled ops next a a' HB FO H)).
Qed.

(** the flat item list of C02 *)
Definition item_srcb (c : cfg) (i : aitem) : bool :=
  match i with AIAce t => src_builtb c t | AIRemark _ text => remark_okb text end.
Lemma item_srcb_ok c i : item_srcb c i = true -> item_src false c i.
Proof. destruct i; cbn [item_srcb item_src]; [apply src_builtb_ok|apply remark_okb_ok]. Qed.

Theorem conversion_checked c pl' items :
  plat_okb (plat c) = true -> plat_okb pl' = true -> forallb (item_srcb c) items = true ->
  exists conv, acl_set_platform c (mkCfg pl' (is15 c) (port_nr c) (protocol_nr c) (max_ncwb c)) items = Ok conv
               /\ forall k, AclSem.decide DeleteShadowProofs.denb a_permit (map sem_item conv) k
                            = AclSem.decide DeleteShadowProofs.denb a_permit (map sem_item items) k.
Proof.
  intros P1 P2 HF.
  assert (H1 : plat c = Ios \/ plat c = Nxos) by (destruct (plat c); try discriminate; auto).
  assert (H2 : pl' = Ios \/ pl' = Nxos) by (destruct pl'; try discriminate; auto).
  apply (acl_conversion_split false c pl' H1 H2). apply Forall_forall. intros i Hi. apply item_srcb_ok.
  rewrite forallb_forall in HF. now apply HF.
Qed.

(** C06 in checked form: an entry accepted by the checker is a fixed point of its own text *)
Theorem fixpoint_checked c t : plat_okb (plat c) = true -> src_builtb c t = true ->
  parse_ace_text c (render_ace c t) = Ok t.
Proof.
  intros P H. apply src_built_fixpoint; [destruct (plat c); try discriminate; auto|now apply src_builtb_ok].
Qed.
