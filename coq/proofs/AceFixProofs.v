(** C06 at the level of a whole extended ACE: if every field is a fixed point of its own
    reader (what C06_address_partial, C06_port_partial, C06_protocol_partial state), then the
    rendered line of the ACE is split back into exactly these fields and the ACE is read back
    unchanged. *)
From V Require Import base.Prelude base.Strs gen.Tables model.Cfg model.Names model.Wildcard
  model.Addr model.Ports model.Ace model.Lex model.AddrText model.AceText
  proofs.TextProofs proofs.SplitterProofs.
Local Open Scope N_scope.

(** * tokens of a line made of items joined by blanks *)
Lemma split_ws_aux_app_sp a : forall cur b,
  split_ws_aux (a ++ String " " b) cur = split_ws_aux a cur ++ split_ws_aux b "".
Proof.
  induction a as [|c a IH]; intros cur b; cbn [append split_ws_aux].
  - change (is_ws " ") with true. destruct (str_nonempty cur); reflexivity.
  - destruct (is_ws c); [destruct (str_nonempty cur); cbn [app]; now rewrite IH|apply IH].
Qed.

Lemma split_ws_app_sp a b : split_ws (a ++ " " ++ b) = split_ws a ++ split_ws b.
Proof. unfold split_ws. change (a ++ " " ++ b)%string with (a ++ String " " b)%string. apply split_ws_aux_app_sp. Qed.

Lemma split_ws_join l : split_ws (join " " l) = flat_map split_ws l.
Proof.
  induction l as [|x t IH]; [reflexivity|]. destruct t as [|y t'].
  - cbn [join flat_map]. now rewrite app_nil_r.
  - change (join " " (x :: y :: t')) with (x ++ " " ++ join " " (y :: t'))%string.
    rewrite split_ws_app_sp, IH. reflexivity.
Qed.

Lemma flat_split_filter l : flat_map split_ws (filter str_nonempty l) = flat_map split_ws l.
Proof.
  induction l as [|x t IH]; [reflexivity|]. cbn [filter flat_map].
  destruct x as [|c r]; cbn [str_nonempty]; [exact IH|]. cbn [flat_map]. now rewrite IH.
Qed.

Lemma flat_split_tokens l : Forall token l -> flat_map split_ws l = l.
Proof.
  induction 1 as [|x t Hx _ IH]; [reflexivity|]. cbn [flat_map]. rewrite (split_ws_one x Hx), IH. reflexivity.
Qed.

(** * the whole ACE *)
Section AceFix.
  Variable c : cfg.
  Variable t : tace.
  Let a := t_ace t.
  Let pl := plat c.
  Let limit := Z.of_nat (max_ncwb c).
  Let pc := proto_ctx pl (is15 c) (a_proto a).
  Let sp := render_port (port_nr c) pc (a_sport a).
  Let dp := render_port (port_nr c) pc (a_dport a).
  Let has_port := match sp, dp with [], [] => false | _, _ => true end.
  Let proto := render_proto pl (protocol_nr c) has_port (a_proto a).

  (** the hypotheses: the ACE is extended, and each field is a fixed point of its reader *)
  Hypothesis Hext : t_type_ext t = true.
  Variables SRC DST : list string.
  Hypothesis Hsrc_toks : split_ws (render_addr pl (a_src a)) = SRC /\ addr_toks SRC (render_addr pl (a_src a)) /\ names_ok SRC.
  Hypothesis Hdst_toks : split_ws (render_addr pl (a_dst a)) = DST /\ addr_toks DST (render_addr pl (a_dst a)).
  Hypothesis Hsrc : parse_address_text pl limit (render_addr pl (a_src a)) = Ok (a_src a).
  Hypothesis Hdst : parse_address_text pl limit (render_addr pl (a_dst a)) = Ok (a_dst a).
  Hypothesis Hproto_tok : token proto.
  Hypothesis Hproto : parse_proto proto = Ok (a_proto a).
  Hypothesis Hip : String.eqb proto "ip" && has_port = false.
  Hypothesis Hsp : Forall token sp /\ Forall af sp /\ parse_port pl pc sp = Ok (a_sport a).
  Hypothesis Hdp : Forall token dp /\ Forall af dp /\ parse_port pl pc dp = Ok (a_dport a).
  Hypothesis Hopt : Forall token (t_option_line t) /\ Forall af (t_option_line t)
                    /\ parse_option (t_option_line t) = Ok (a_flags a, a_logs a)
                    /\ split_dstport_option (dp ++ t_option_line t) = (dp, t_option_line t).

  (** the rendered line starts with a well-formed head followed by at least the protocol token *)
  Lemma ace_head_tokens : exists H sq act rest, head_toks H sq act /\ rest <> [] /\ split_ws (render_ace c t) = H ++ rest.
  Proof.
    destruct Hsrc_toks as (S1 & S2 & S3). destruct Hdst_toks as (D1 & D2).
    destruct Hsp as (P1 & P2 & P3). destruct Hdp as (Q1 & Q2 & Q3). destruct Hopt as (O1 & O2 & O3 & O4).
    set (act := if a_permit a then "permit"%string else "deny"%string).
    assert (Tact : token act) by (unfold act; destruct (a_permit a); split; try reflexivity; discriminate).
    assert (Aact : is_action act) by (unfold act, is_action; destruct (a_permit a); auto).
    set (H := if N.eqb (t_seq t) 0 then [act] else [dec (t_seq t); act]).
    set (sq := if N.eqb (t_seq t) 0 then ""%string else dec (t_seq t)).
    assert (HH : head_toks H sq act).
    { unfold H, sq. destruct (N.eqb (t_seq t) 0); [now apply HT_plain|now apply HT_seq]. }
    assert (Tdec : token (dec (t_seq t))).
    { pose proof (undec_dec (t_seq t)) as U. assert (I : is_digits (dec (t_seq t)) = true) by (unfold is_digits; now rewrite U).
      destruct (is_digits_chars _ I) as [NE D]. split; [|exact NE].
      apply (all_chars_weaken is_digit); [|exact D]. intros ch Hc.
      assert (Hd : dd ch = true) by (unfold dd; now rewrite Hc). unfold nws. now rewrite (dd_not_ws ch Hd). }
    exists H, sq, act, (proto :: SRC ++ sp ++ DST ++ (dp ++ t_option_line t)).
    split; [exact HH|]. split; [discriminate|].
    unfold render_ace. fold a pl pc sp dp has_port. rewrite Hext. fold proto act.
    rewrite split_ws_join, flat_split_filter. rewrite !flat_map_app. cbn [flat_map]. rewrite !app_nil_r.
    rewrite S1, D1, (split_ws_one _ Tact), (split_ws_one _ Hproto_tok).
    rewrite (flat_split_tokens _ P1), (flat_split_tokens _ Q1), (flat_split_tokens _ O1).
    unfold H. destruct (N.eqb (t_seq t) 0); cbn [flat_map app].
    - reflexivity.
    - rewrite (split_ws_one _ Tdec). cbn [app]. reflexivity.
  Qed.

  Theorem ace_text_fixpoint : parse_ace_text c (render_ace c t) = Ok t.
  Proof.
    destruct Hsrc_toks as (S1 & S2 & S3). destruct Hdst_toks as (D1 & D2).
    destruct Hsp as (P1 & P2 & P3). destruct Hdp as (Q1 & Q2 & Q3). destruct Hopt as (O1 & O2 & O3 & O4).
    set (act := if a_permit a then "permit"%string else "deny"%string).
    assert (Tact : token act) by (unfold act; destruct (a_permit a); split; try reflexivity; discriminate).
    assert (Aact : is_action act) by (unfold act, is_action; destruct (a_permit a); auto).
    set (H := if N.eqb (t_seq t) 0 then [act] else [dec (t_seq t); act]).
    set (sq := if N.eqb (t_seq t) 0 then ""%string else dec (t_seq t)).
    assert (HH : head_toks H sq act).
    { unfold H, sq. destruct (N.eqb (t_seq t) 0); [now apply HT_plain|now apply HT_seq]. }
    assert (Tdec : token (dec (t_seq t))).
    { pose proof (undec_dec (t_seq t)) as U. assert (I : is_digits (dec (t_seq t)) = true) by (unfold is_digits; now rewrite U).
      destruct (is_digits_chars _ I) as [NE D]. split; [|exact NE].
      apply (all_chars_weaken is_digit); [|exact D]. intros ch Hc.
      assert (Hd : dd ch = true) by (unfold dd; now rewrite Hc). unfold nws. now rewrite (dd_not_ws ch Hd). }
    (* the tokens of the rendered line *)
    assert (E : split_ws (render_ace c t) = H ++ proto :: SRC ++ sp ++ DST ++ (dp ++ t_option_line t)).
    { unfold render_ace. fold a pl pc sp dp has_port. rewrite Hext. fold proto act.
      rewrite split_ws_join, flat_split_filter. rewrite !flat_map_app. cbn [flat_map]. rewrite !app_nil_r.
      rewrite S1, D1, (split_ws_one _ Tact), (split_ws_one _ Hproto_tok).
      rewrite (flat_split_tokens _ P1), (flat_split_tokens _ Q1), (flat_split_tokens _ O1).
      unfold H. destruct (N.eqb (t_seq t) 0); cbn [flat_map app].
      - reflexivity.
      - rewrite (split_ws_one _ Tdec). cbn [app]. reflexivity. }
    assert (FT : Forall af (dp ++ t_option_line t)) by (apply Forall_app; auto).
    rewrite (parse_ace_text_canon c _ H sq act proto SRC _ sp DST _ (dp ++ t_option_line t) E HH S2 S3 P2 D2 FT).
    rewrite O4. unfold assemble. cbn [fst snd s_proto s_sport s_src s_dst s_seq s_action].
    destruct Hproto_tok as [_ NEp]. rewrite (nonempty_true _ NEp). cbn [negb andb].
    fold has_port. fold pl limit. rewrite Hip, Hsrc, Hdst. cbn [bind]. rewrite Hproto. cbn [bind].
    fold pc. rewrite P3, Q3. cbn [bind]. rewrite O3. cbn [bind fst snd].
    assert (Esq : seq_of sq = t_seq t).
    { unfold sq, seq_of. destruct (N.eqb (t_seq t) 0) eqn:Z; [apply N.eqb_eq in Z; now rewrite Z|now rewrite undec_dec]. }
    assert (Eact : String.eqb act "permit" = a_permit a) by (unfold act; destruct (a_permit a); reflexivity).
    rewrite Esq, Eact. unfold a in *. destruct t as [ext sq0 a0 ol]. destruct a0. cbn in *. now subst ext.
  Qed.
End AceFix.

(** the hypotheses of [ace_text_fixpoint] as one predicate: every field of the ACE is a fixed
    point of its own reader, and its text consists of well-formed tokens *)
Definition fields_fixed (c : cfg) (t : tace) (SRC DST : list string) : Prop :=
  let a := t_ace t in
  let pl := plat c in
  let limit := Z.of_nat (max_ncwb c) in
  let pc := proto_ctx pl (is15 c) (a_proto a) in
  let sp := render_port (port_nr c) pc (a_sport a) in
  let dp := render_port (port_nr c) pc (a_dport a) in
  let has_port := match sp, dp with [], [] => false | _, _ => true end in
  let proto := render_proto pl (protocol_nr c) has_port (a_proto a) in
  (split_ws (render_addr pl (a_src a)) = SRC /\ addr_toks SRC (render_addr pl (a_src a)) /\ names_ok SRC)
  /\ (split_ws (render_addr pl (a_dst a)) = DST /\ addr_toks DST (render_addr pl (a_dst a)))
  /\ parse_address_text pl limit (render_addr pl (a_src a)) = Ok (a_src a)
  /\ parse_address_text pl limit (render_addr pl (a_dst a)) = Ok (a_dst a)
  /\ token proto /\ parse_proto proto = Ok (a_proto a) /\ String.eqb proto "ip" && has_port = false
  /\ (Forall token sp /\ Forall af sp /\ parse_port pl pc sp = Ok (a_sport a))
  /\ (Forall token dp /\ Forall af dp /\ parse_port pl pc dp = Ok (a_dport a))
  /\ (Forall token (t_option_line t) /\ Forall af (t_option_line t)
      /\ parse_option (t_option_line t) = Ok (a_flags a, a_logs a)
      /\ split_dstport_option (dp ++ t_option_line t) = (dp, t_option_line t)).

Theorem ace_fixpoint c t SRC DST :
  t_type_ext t = true -> fields_fixed c t SRC DST -> parse_ace_text c (render_ace c t) = Ok t.
Proof.
  intros Hext (H1 & H2 & H3 & H4 & H5 & H6 & H7 & H8 & H9 & H10).
  now apply (ace_text_fixpoint c t Hext SRC DST).
Qed.

Lemma ace_head c t SRC DST :
  t_type_ext t = true -> fields_fixed c t SRC DST ->
  exists H sq act rest, head_toks H sq act /\ rest <> [] /\ split_ws (render_ace c t) = H ++ rest.
Proof.
  intros Hext (H1 & H2 & H3 & H4 & H5 & H6 & H7 & H8 & H9 & H10).
  now apply (ace_head_tokens c t Hext SRC DST).
Qed.
