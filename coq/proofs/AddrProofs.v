(** Proofs about containment (model/Addr.v): C13, reused by C03/C11. *)
From V Require Import base.Prelude gen.Tables model.Cfg model.Wildcard model.Addr proofs.WildProofs.
Local Open Scope N_scope.

(** * strict networks and IPv4Network.subnet_of *)
Definition strict_net (n : net) : Prop :=
  (snd n <= 32)%nat /\ fst n < 2 ^ 32 /\
  forall i, (i < 32 - snd n)%nat -> tb (fst n) i = false.

Lemma low_bits_mod p h : (forall i, (i < h)%nat -> tb p i = false) -> p mod 2 ^ N.of_nat h = 0.
Proof.
  intros H. rewrite <- N.land_ones. apply N.bits_inj_0. intros n. rewrite N.land_spec.
  destruct (N.lt_ge_cases n (N.of_nat h)) as [L|G].
  - specialize (H (N.to_nat n) ltac:(lia)). unfold tb in H. rewrite N2Nat.id in H. now rewrite H.
  - rewrite N.ones_spec_high by lia. apply andb_false_r.
Qed.

Lemma shiftr_div p h : N.shiftr p (N.of_nat h) = p / 2 ^ N.of_nat h.
Proof. apply N.shiftr_div_pow2. Qed.

Lemma net_subnet_of_spec p l1 q l2 :
  strict_net (p, l1) -> strict_net (q, l2) ->
  (net_subnet_of (p, l1) (q, l2) = true <->
   ((l2 <= l1)%nat /\ N.shiftr p (N.of_nat (32 - l2)) = N.shiftr q (N.of_nat (32 - l2)))).
Proof.
  intros (L1 & P1 & S1) (L2 & P2 & S2). cbn [fst snd] in *.
  unfold net_subnet_of, net_first, net_last, W. cbn [fst snd].
  set (h1 := (32 - l1)%nat) in *. set (h2 := (32 - l2)%nat) in *.
  assert (Eh1 : (h1 + l1 = 32)%nat) by (unfold h1; lia).
  assert (Eh2 : (h2 + l2 = 32)%nat) by (unfold h2; lia). clearbody h1 h2.
  pose proof (low_bits_mod p h1 S1) as M1. pose proof (low_bits_mod q h2 S2) as M2.
  rewrite !shiftr_div.
  assert (Z1 : 2 ^ N.of_nat h1 <> 0) by (apply N.pow_nonzero; lia).
  assert (Z2 : 2 ^ N.of_nat h2 <> 0) by (apply N.pow_nonzero; lia).
  assert (G1 : 0 < 2 ^ N.of_nat h1) by lia. assert (G2 : 0 < 2 ^ N.of_nat h2) by lia.
  pose proof (N.div_mod q _ Z2) as DQ. rewrite M2, N.add_0_r in DQ.
  rewrite andb_true_iff, !N.leb_le. split.
  - intros [A B].
    assert (HH : 2 ^ N.of_nat h1 <= 2 ^ N.of_nat h2) by lia.
    assert ((h1 <= h2)%nat).
    { destruct (Nat.le_gt_cases h1 h2); auto. exfalso.
      assert (2 ^ N.of_nat h2 < 2 ^ N.of_nat h1) by (apply N.pow_lt_mono_r; lia). lia. }
    split; [lia|].
    symmetry. apply (N.div_unique p (2 ^ N.of_nat h2) (q / 2 ^ N.of_nat h2) (p - q)).
    + set (Qd := q / 2 ^ N.of_nat h2) in *. clearbody Qd. lia.
    + set (Qd := q / 2 ^ N.of_nat h2) in *. clearbody Qd. lia.
  - intros [A B]. assert ((h1 <= h2)%nat) by lia.
    pose proof (N.div_mod p _ Z2) as DP. rewrite B in DP.
    pose proof (N.mod_upper_bound p _ Z2) as UB.
    assert (E : 2 ^ N.of_nat h2 = 2 ^ N.of_nat h1 * 2 ^ N.of_nat (h2 - h1)).
    { rewrite <- N.pow_add_r. f_equal. lia. }
    assert (R : (p mod 2 ^ N.of_nat h2) mod 2 ^ N.of_nat h1 = 0).
    { rewrite E. rewrite N.mod_mul_r by (try exact Z1; apply N.pow_nonzero; lia).
      rewrite M1, N.add_0_l, N.mul_comm. apply N.mod_mul. exact Z1. }
    pose proof (N.div_mod (p mod 2 ^ N.of_nat h2) _ Z1) as DR. rewrite R, N.add_0_r in DR.
    set (r := p mod 2 ^ N.of_nat h2) in *. set (k := r / 2 ^ N.of_nat h1) in *.
    set (Qd := q / 2 ^ N.of_nat h2) in *.
    set (A2 := 2 ^ N.of_nat h2) in *. set (A1 := 2 ^ N.of_nat h1) in *.
    set (Mh := 2 ^ N.of_nat (h2 - h1)) in *.
    clearbody r k Qd A2 A1 Mh.
    assert (k < Mh).
    { apply (N.mul_lt_mono_pos_l A1); [exact G1|]. rewrite <- E, <- DR. exact UB. }
    split; nia.
Qed.

Lemma net_subnet_of_in x n m :
  strict_net n -> strict_net m -> net_subnet_of n m = true -> in_net x n -> in_net x m.
Proof.
  destruct n as [p l1], m as [q l2]. intros SN SM H IN.
  apply (net_subnet_of_spec p l1 q l2 SN SM) in H as [L E].
  unfold in_net, W in *. cbn [fst snd] in *.
  rewrite shiftr_eq_bits in *. intros i Hi. rewrite IN by lia. now apply E.
Qed.

(** * soundness of helpers.subnet_of on lists of networks *)
Lemma subnet_of_nets_true tops bottoms :
  subnet_of_nets tops bottoms = true ->
  tops <> [] /\ bottoms <> [] /\
  forall b, In b bottoms -> exists t, In t tops /\ net_subnet_of b t = true.
Proof.
  unfold subnet_of_nets. destruct tops as [|t0 tt]; [discriminate|].
  destruct bottoms as [|b0 bt]; [discriminate|]. intros H.
  split; [discriminate|]. split; [discriminate|].
  rewrite forallb_forall in H. intros b Hb. specialize (H b Hb).
  apply existsb_exists in H. exact H.
Qed.

Theorem subnet_of_nets_sound tops bottoms x :
  Forall strict_net tops -> Forall strict_net bottoms ->
  subnet_of_nets tops bottoms = true ->
  Exists (in_net x) bottoms -> Exists (in_net x) tops.
Proof.
  intros ST SB H EX. apply subnet_of_nets_true in H as (_ & _ & H).
  rewrite Exists_exists in *. destruct EX as (b & Hb & IN).
  destruct (H b Hb) as (t & Ht & S). exists t. split; auto.
  rewrite Forall_forall in ST, SB.
  exact (net_subnet_of_in x b t (SB b Hb) (ST t Ht) S IN).
Qed.

(** * networks of one wildcard are strict *)
Lemma bits_lt_pow2 x : (forall i, (32 <= i)%nat -> tb x i = false) -> x < 2 ^ 32.
Proof.
  intros H. destruct (N.lt_ge_cases x (2 ^ 32)) as [|G]; auto. exfalso.
  assert (x <> 0) by lia. pose proof (N.bit_log2 x H0) as B.
  assert (L : 32 <= N.log2 x) by (apply N.log2_le_pow2; lia).
  set (lg := N.log2 x) in *. clearbody lg.
  specialize (H (N.to_nat lg) ltac:(lia)). unfold tb in H. rewrite N2Nat.id in H. congruence.
Qed.

Lemma ipnets_all_strict addr mask : addr < 2 ^ 32 -> Forall strict_net (ipnets addr mask).
Proof.
  intros Ha. pose proof (ipnets_strict addr mask Ha) as S.
  pose proof (ipnets_same_len addr mask) as L.
  rewrite Forall_forall in *. intros n Hn. specialize (S n Hn). specialize (L n Hn).
  unfold strict_net. destruct (lowrun_spec mask) as (R & _). cbn zeta in R.
  assert (snd n <= 32)%nat by (rewrite L; unfold prefixlen, W; lia).
  split; auto. split.
  - apply bits_lt_pow2. intros i Hi. apply S. now right.
  - intros i Hi. apply S. left. unfold W. lia.
Qed.

Lemma ipnets_nonempty addr mask : ipnets addr mask <> [].
Proof.
  intro C. pose proof (proj1 (ipnets_count addr mask)) as L. rewrite C in L. cbn [length] in L.
  symmetry in L. revert L. apply Nat.pow_nonzero. discriminate.
Qed.

Lemma in_net_self n : in_net (fst n) n.
Proof. reflexivity. Qed.

Lemma lowrun_ge mask r :
  (r <= 32)%nat -> (forall i, (i < r)%nat -> tb mask i = true) -> (r <= prefixlen_idx mask)%nat.
Proof.
  intros Hr H. destruct (lowrun_spec mask) as (R1 & R2 & R3 & _). cbn zeta in *.
  destruct (Nat.le_gt_cases r (prefixlen_idx mask)); auto.
  rewrite H in R3 by lia. specialize (R3 ltac:(lia)). discriminate.
Qed.

(** * completeness: set inclusion of two wildcards implies the list test succeeds *)
Definition wild_subset (ba ma bb mb : N) : Prop :=
  forall x, x < 2 ^ 32 -> in_wild x ba ma -> in_wild x bb mb.

Theorem subnet_of_nets_complete ba ma bb mb :
  ba < 2 ^ 32 -> ma < 2 ^ 32 -> bb < 2 ^ 32 -> mb < 2 ^ 32 ->
  wild_subset ba ma bb mb ->
  subnet_of_nets (ipnets bb mb) (ipnets ba ma) = true.
Proof.
  intros Hba Hma Hbb Hmb SUB.
  unfold subnet_of_nets.
  destruct (ipnets bb mb) as [|t0 tt] eqn:ET; [exfalso; now apply (ipnets_nonempty bb mb)|].
  destruct (ipnets ba ma) as [|b0 bt] eqn:EB; [exfalso; now apply (ipnets_nonempty ba ma)|].
  rewrite <- ET, <- EB. clear ET EB t0 tt b0 bt.
  apply forallb_forall. intros B HB. apply existsb_exists.
  pose proof (ipnets_all_strict ba ma Hba) as SA. pose proof (ipnets_all_strict bb mb Hbb) as SB.
  rewrite Forall_forall in SA, SB.
  pose proof (SA B HB) as SBn. destruct B as [p la]. destruct SBn as (La & Pp & Sp). cbn [fst snd] in *.
  (* p itself is in the bottom set, hence in the top set, hence in some top network *)
  assert (INA : in_wild p ba ma).
  { apply (ipnets_exact ba ma p Hba Hma Pp). apply Exists_exists. exists (p, la). split; auto. reflexivity. }
  assert (INB : in_wild p bb mb) by (apply SUB; auto).
  apply (ipnets_exact bb mb p Hbb Hmb Pp) in INB. apply Exists_exists in INB as (T & HT & INT).
  exists T. split; auto. pose proof (SB T HT) as ST. destruct T as [q lb].
  apply (net_subnet_of_spec p la q lb); [now repeat split|exact ST|].
  assert (Ela : la = prefixlen ma).
  { pose proof (ipnets_same_len ba ma) as L. rewrite Forall_forall in L. exact (L _ HB). }
  assert (Elb : lb = prefixlen mb).
  { pose proof (ipnets_same_len bb mb) as L. rewrite Forall_forall in L. exact (L _ HT). }
  split.
  - (* every bit below the bottom's low run must be a wildcard bit of the top *)
    subst la lb. unfold prefixlen, W.
    destruct (lowrun_spec ma) as (Ra & _). cbn zeta in Ra.
    enough (prefixlen_idx ma <= prefixlen_idx mb)%nat by lia.
    apply lowrun_ge; auto. intros i Hi.
    destruct (tb mb i) eqn:T; auto. exfalso.
    set (x := N.setbit p (N.of_nat i)).
    assert (Xlt : x < 2 ^ 32).
    { apply bits_lt_pow2. intros j Hj. unfold x. rewrite tb_setbit.
      replace (Nat.eqb j i) with false by (symmetry; apply Nat.eqb_neq; lia).
      now apply tb_high. }
    assert (XA : in_wild x ba ma).
    { apply (ipnets_exact ba ma x Hba Hma Xlt). apply Exists_exists. exists (p, prefixlen ma).
      split; auto. unfold in_net. cbn [fst snd]. rewrite prefixlen_sub. apply shiftr_eq_bits.
      intros j Hj. unfold x. rewrite tb_setbit.
      now replace (Nat.eqb j i) with false by (symmetry; apply Nat.eqb_neq; lia). }
    pose proof (SUB x Xlt XA) as XB.
    assert (PB : in_wild p bb mb) by (apply SUB; auto).
    rewrite (in_wild_bits x bb mb Xlt Hbb) in XB. rewrite (in_wild_bits p bb mb Pp Hbb) in PB.
    assert (i < 32)%nat by lia.
    specialize (XB i H T). specialize (PB i H T).
    unfold x in XB. rewrite tb_setbit, Nat.eqb_refl in XB.
    rewrite Sp in PB by (unfold prefixlen, W; lia). congruence.
  - unfold in_net, W in INT. cbn [fst snd] in INT. exact INT.
Qed.

(** * single addresses *)
Definition denotes (a : addr) (base mask : N) : Prop :=
  exists ty w, a = ASingle ty w /\ consistent w base mask.

Lemma denotes_ipnets a base mask :
  mask < 2 ^ 32 -> denotes a base mask -> addr_ipnets a = Ok (ipnets base mask).
Proof.
  intros Hm (ty & w & -> & (H1 & H2 & H3 & H4 & H5 & _)). cbn [addr_ipnets].
  rewrite H3, create_ipnet_spec by auto. unfold wild_ipnets, ipnets. rewrite H1, H4, H5.
  destruct (ncwb mask); reflexivity.
Qed.

Theorem subnet_of_exact a b ba ma bb mb :
  ba < 2 ^ 32 -> ma < 2 ^ 32 -> bb < 2 ^ 32 -> mb < 2 ^ 32 ->
  denotes a ba ma -> denotes b bb mb ->
  exists r, addr_subnet_of a b = Ok r /\ (r = true <-> wild_subset ba ma bb mb).
Proof.
  intros Hba Hma Hbb Hmb DA DB. unfold addr_subnet_of.
  rewrite (denotes_ipnets b bb mb Hmb DB), (denotes_ipnets a ba ma Hma DA). cbn [bind].
  eexists. split; [reflexivity|]. split.
  - intros H x Hx IN.
    apply (ipnets_exact bb mb x Hbb Hmb Hx).
    apply (subnet_of_nets_sound (ipnets bb mb) (ipnets ba ma) x
             (ipnets_all_strict bb mb Hbb) (ipnets_all_strict ba ma Hba) H).
    now apply (ipnets_exact ba ma x Hba Hma Hx).
  - now apply subnet_of_nets_complete.
Qed.

(** * member in member *)
Theorem contains_exact self other bs ms bo mo :
  bs < 2 ^ 32 -> ms < 2 ^ 32 -> bo < 2 ^ 32 -> mo < 2 ^ 32 ->
  denotes self bs ms -> denotes other bo mo -> ncwb ms = [] -> ncwb mo = [] ->
  exists r, addr_contains self other = Ok r /\ (r = true <-> wild_subset bo mo bs ms).
Proof.
  intros Hbs Hms Hbo Hmo DS DO NS NO.
  destruct (subnet_of_exact other self bo mo bs ms Hbo Hmo Hbs Hms DO DS) as (r & E & Hr).
  unfold addr_subnet_of in E.
  rewrite (denotes_ipnets self bs ms Hms DS), (denotes_ipnets other bo mo Hmo DO) in E. cbn [bind] in E.
  destruct DS as (ty1 & w1 & -> & (_ & _ & I1 & _)). destruct DO as (ty2 & w2 & -> & (_ & _ & I2 & _)).
  unfold addr_contains. cbn [addr_ipnet]. rewrite I1, I2, !create_ipnet_spec by auto. rewrite NS, NO.
  eexists. split; [reflexivity|]. rewrite <- Hr. injection E as <-.
  unfold ipnets, ipnets_of. rewrite NS, NO. cbn [expand map subnet_of_nets forallb existsb].
  now rewrite orb_false_r, andb_true_r.
Qed.

(** * member in group *)
Theorem group_contains_exact items other bo mo (sets : list (N * N)) :
  bo < 2 ^ 32 -> mo < 2 ^ 32 -> denotes other bo mo -> ncwb mo = [] ->
  Forall2 (fun it s => fst s < 2 ^ 32 /\ snd s < 2 ^ 32 /\ denotes it (fst s) (snd s) /\ ncwb (snd s) = [])
          items sets ->
  exists r, group_contains items other = Ok r /\
            (r = true <-> Exists (fun s => wild_subset bo mo (fst s) (snd s)) sets).
Proof.
  intros Hbo Hmo DO NO F. induction F as [|it s its ss (Hb & Hm & D & NC) F IH]; cbn [group_contains].
  - exists false. split; auto. split; [discriminate|]. intros H. inversion H.
  - destruct (contains_exact it other (fst s) (snd s) bo mo Hb Hm Hbo Hmo D DO NC NO) as (r & E & Hr).
    rewrite E. cbn [bind]. destruct r.
    + exists true. split; auto. split; auto. intros _. constructor. now apply Hr.
    + destruct IH as (r' & E' & Hr'). exists r'. split; auto. rewrite Hr'. split.
      * intros H. now constructor 2.
      * intros H. inversion H; subst; auto. apply Hr in H1. discriminate.
Qed.

(** * soundness with groups on either side *)
Definition member_sets_ok (items : list (option wild)) (sets : list (N * N)) : Prop :=
  Forall2 (fun it s => exists w, it = Some w /\ fst s < 2 ^ 32 /\ snd s < 2 ^ 32 /\
                                 consistent w (fst s) (snd s)) items sets.

Lemma wild_ipnets_consistent w b m : consistent w b m -> wild_ipnets w = ipnets b m.
Proof. intros (H1 & _ & _ & H4 & H5 & _). unfold wild_ipnets, ipnets. now rewrite H1, H4, H5. Qed.

Lemma members_ipnets_spec items sets :
  member_sets_ok items sets ->
  exists l, members_ipnets items = Ok l /\ Forall strict_net l /\
            forall x, x < 2 ^ 32 ->
              (Exists (in_net x) l <-> Exists (fun s => in_wild x (fst s) (snd s)) sets).
Proof.
  induction 1 as [|it s its ss (w & -> & Hb & Hm & C) F IH]; cbn [members_ipnets].
  - exists []. split; auto. split; [constructor|]. intros x _. split; intros H; inversion H.
  - destruct IH as (l & E & SL & M). rewrite E. cbn [bind].
    exists (wild_ipnets w ++ l). split; auto. rewrite (wild_ipnets_consistent w _ _ C). split.
    + apply Forall_app. split; auto. now apply ipnets_all_strict.
    + intros x Hx. rewrite Exists_app, Exists_cons, M by auto.
      now rewrite (ipnets_exact (fst s) (snd s) x Hb Hm Hx).
Qed.

Definition addr_sets (a : addr) (sets : list (N * N)) : Prop :=
  match a with
  | ASingle _ w => exists b m, sets = [(b, m)] /\ b < 2 ^ 32 /\ m < 2 ^ 32 /\ consistent w b m
  | AGroup _ items => member_sets_ok items sets
  end.

Lemma addr_ipnets_spec a sets :
  addr_sets a sets ->
  exists l, addr_ipnets a = Ok l /\ Forall strict_net l /\
            forall x, x < 2 ^ 32 ->
              (Exists (in_net x) l <-> Exists (fun s => in_wild x (fst s) (snd s)) sets).
Proof.
  destruct a as [ty w|name items]; cbn [addr_sets].
  - intros (b & m & -> & Hb & Hm & C).
    assert (D : denotes (ASingle ty w) b m) by (exists ty, w; auto).
    exists (ipnets b m). split; [now apply denotes_ipnets|]. split; [now apply ipnets_all_strict|].
    intros x Hx. rewrite (ipnets_exact b m x Hb Hm Hx). split.
    + intros H. now constructor.
    + intros H. inversion H; subst; auto. inversion H1.
  - apply members_ipnets_spec.
Qed.

Theorem subnet_of_sound_groups a b sa sb :
  addr_sets a sa -> addr_sets b sb -> addr_subnet_of a b = Ok true ->
  forall x, x < 2 ^ 32 ->
    Exists (fun s => in_wild x (fst s) (snd s)) sa -> Exists (fun s => in_wild x (fst s) (snd s)) sb.
Proof.
  intros HA HB H x Hx EX.
  destruct (addr_ipnets_spec a sa HA) as (la & Ea & Sa & Ma).
  destruct (addr_ipnets_spec b sb HB) as (lb & Eb & Sb & Mb).
  unfold addr_subnet_of in H. rewrite Eb, Ea in H. cbn [bind] in H. injection H as H.
  apply Mb; auto. apply (subnet_of_nets_sound lb la x Sb Sa H). now apply Ma.
Qed.

(** * every accepted spelling denotes its address set, on every platform *)
Definition sp_single (sp : spelling) : Prop := match sp with SGroup _ _ => False | _ => True end.
Definition sp_bounded (sp : spelling) : Prop :=
  match sp with
  | SAny => True | SHost a => a < 2 ^ 32 | SPrefix a _ => a < 2 ^ 32
  | SWild a m => a < 2 ^ 32 /\ m < 2 ^ 32 | SGroup _ _ => True
  end.
Definition sp_base (sp : spelling) : N :=
  match sp with
  | SAny => 0 | SHost a => a | SPrefix a len => N.land a (netmask len) | SWild a _ => a
  | SGroup _ _ => 0
  end.
Definition sp_mask (sp : spelling) : N :=
  match sp with
  | SAny => ALL_ONES | SHost _ => 0 | SPrefix _ len => hostmask len | SWild _ m => m
  | SGroup _ _ => 0
  end.

Lemma new_wild_consistent limit b m w : new_wild limit b m = Ok w -> consistent w b m.
Proof.
  unfold new_wild. destruct (valid_limit limit); [|discriminate]. intros H.
  now apply set_line_consistent in H.
Qed.

Lemma hostmask_lt len : hostmask len < 2 ^ 32.
Proof.
  unfold hostmask, W. rewrite N.ones_equiv.
  assert (2 ^ N.of_nat (32 - len) <= 2 ^ 32) by (apply N.pow_le_mono_r; lia).
  assert (0 < 2 ^ N.of_nat (32 - len)) by (apply N.neq_0_lt_0, N.pow_nonzero; lia). lia.
Qed.

Lemma land_lt a b : a < 2 ^ 32 -> N.land a b < 2 ^ 32.
Proof.
  intros H. apply bits_lt_pow2. intros i Hi. unfold tb. rewrite N.land_spec.
  fold (tb a i). now rewrite (tb_high a i H Hi).
Qed.

Lemma sp_bounds sp : sp_bounded sp -> sp_base sp < 2 ^ 32 /\ sp_mask sp < 2 ^ 32.
Proof.
  destruct sp; cbn [sp_bounded sp_base sp_mask]; intros H.
  - split; [lia|]. rewrite ALL_ONES_val. change (N.ones 32) with 4294967295. lia.
  - split; [exact H|lia].
  - split; [now apply land_lt|apply hostmask_lt].
  - exact H.
  - split; lia.
Qed.

Lemma spelling_denotes pl limit sp a :
  sp_single sp -> addr_of_spelling pl limit sp = Ok a -> denotes a (sp_base sp) (sp_mask sp).
Proof.
  destruct sp as [|x|x len|x m|n its]; cbn [sp_single addr_of_spelling sp_base sp_mask]; intros S H;
    try contradiction.
  - destruct (new_wild limit 0 ALL_ONES) as [w| | | |] eqn:E; try discriminate. injection H as <-.
    exists TAny, w. split; auto. now apply new_wild_consistent in E.
  - destruct (new_wild limit x 0) as [w| | | |] eqn:E; try discriminate. injection H as <-.
    exists THost, w. split; auto. now apply new_wild_consistent in E.
  - destruct (Nat.ltb W len); [discriminate|].
    destruct (new_wild limit (N.land x (netmask len)) (hostmask len)) as [w| | | |] eqn:E; try discriminate.
    cbn [bind] in H. injection H as <-. eexists. exists w. split; [reflexivity|].
    now apply new_wild_consistent in E.
  - destruct (new_wild limit x m) as [w| | | |] eqn:E; try discriminate.
    cbn [bind] in H. injection H as <-. eexists. exists w. split; [reflexivity|].
    now apply new_wild_consistent in E.
Qed.

Theorem subnet_of_spellings pl limit spa spb a b :
  sp_single spa -> sp_single spb -> sp_bounded spa -> sp_bounded spb ->
  addr_of_spelling pl limit spa = Ok a -> addr_of_spelling pl limit spb = Ok b ->
  exists r, addr_subnet_of a b = Ok r /\
            (r = true <-> wild_subset (sp_base spa) (sp_mask spa) (sp_base spb) (sp_mask spb)).
Proof.
  intros S1 S2 B1 B2 H1 H2.
  destruct (sp_bounds spa B1) as [? ?]. destruct (sp_bounds spb B2) as [? ?].
  apply subnet_of_exact; auto; eapply spelling_denotes; eauto.
Qed.
