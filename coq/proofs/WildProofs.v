(** Proofs about model/Wildcard.v (C05, reused by C13/C03/C11). *)
From V Require Import base.Prelude gen.Tables model.Wildcard.
Local Open Scope N_scope.

(** * The generated constants are the ones the proofs are about *)
Lemma ALL_ONES_val : ALL_ONES = N.ones 32.
Proof. vm_compute. reflexivity. Qed.
Lemma PREFIX_LEN_val : PREFIX_LEN = 32.
Proof. vm_compute. reflexivity. Qed.
Lemma MAX_NCWB_val : MAX_NCWB = 30.
Proof. vm_compute. reflexivity. Qed.

(** * Bits *)
Lemma tb_high x i : x < 2 ^ 32 -> (32 <= i)%nat -> tb x i = false.
Proof.
  intros Hx Hi. unfold tb. destruct (N.eq_dec x 0) as [->|Hz]; [apply N.bits_0|].
  apply N.bits_above_log2. apply N.lt_le_trans with 32; [|lia].
  apply N.log2_lt_pow2; lia.
Qed.

Lemma tb_inj x y : (forall i, tb x i = tb y i) -> x = y.
Proof.
  intros H. apply N.bits_inj. intros n. specialize (H (N.to_nat n)). unfold tb in H.
  now rewrite N2Nat.id in H.
Qed.

Lemma tb_lnot32 m i : (i < 32)%nat -> tb (N.lxor ALL_ONES m) i = negb (tb m i).
Proof.
  intros Hi. unfold tb. rewrite N.lxor_spec, ALL_ONES_val, N.ones_spec_low by lia.
  now destruct (N.testbit m (N.of_nat i)).
Qed.

Lemma tb_lnot32_high m i : (32 <= i)%nat -> tb (N.lxor ALL_ONES m) i = tb m i.
Proof.
  intros Hi. unfold tb. rewrite N.lxor_spec, ALL_ONES_val, N.ones_spec_high by lia.
  now destruct (N.testbit m (N.of_nat i)).
Qed.

Lemma tb_create_prefix addr mask i :
  (i < 32)%nat -> tb (create_prefix addr mask) i = tb addr i && negb (tb mask i).
Proof.
  intros Hi. unfold create_prefix. unfold tb at 1. rewrite N.land_spec.
  fold (tb addr i). fold (tb (N.lxor ALL_ONES mask) i). now rewrite tb_lnot32.
Qed.

Lemma tb_create_prefix_high addr mask i :
  addr < 2 ^ 32 -> (32 <= i)%nat -> tb (create_prefix addr mask) i = false.
Proof.
  intros Ha Hi. unfold create_prefix. unfold tb. rewrite N.land_spec.
  fold (tb addr i). rewrite (tb_high addr i Ha Hi). reflexivity.
Qed.

Lemma tb_setbit p b i : tb (N.setbit p (N.of_nat b)) i = if Nat.eqb i b then true else tb p i.
Proof.
  unfold tb. destruct (Nat.eqb i b) eqn:E.
  - apply Nat.eqb_eq in E. subst. apply N.setbit_eq.
  - apply Nat.eqb_neq in E. apply N.setbit_neq. lia.
Qed.

Lemma tb_clearbit p b i : tb (N.clearbit p (N.of_nat b)) i = if Nat.eqb i b then false else tb p i.
Proof.
  unfold tb. destruct (Nat.eqb i b) eqn:E.
  - apply Nat.eqb_eq in E. subst. apply N.clearbit_eq.
  - apply Nat.eqb_neq in E. apply N.clearbit_neq. lia.
Qed.

Lemma shiftr_eq_bits a p r :
  N.shiftr a (N.of_nat r) = N.shiftr p (N.of_nat r) <-> (forall i, (r <= i)%nat -> tb a i = tb p i).
Proof.
  split.
  - intros H i Hi. unfold tb.
    replace (N.of_nat i) with (N.of_nat (i - r) + N.of_nat r) by lia.
    rewrite <- !N.shiftr_spec by lia. now rewrite H.
  - intros H. apply N.bits_inj. intros n. rewrite !N.shiftr_spec by lia.
    specialize (H (N.to_nat n + r)%nat). unfold tb in H.
    replace (N.of_nat (N.to_nat n + r)) with (n + N.of_nat r) in H by lia. apply H. lia.
Qed.

(** * _prefixlen_idx on [filter f (seq s n)] *)
Lemma pl_aux_zero s l : Forall (fun x => (s < x)%nat) l -> prefixlen_idx_aux s l = 0%nat.
Proof.
  destruct l as [|x t]; cbn; auto. intros H. inversion H; subst.
  destruct (Nat.eqb s x) eqn:E; auto. apply Nat.eqb_eq in E. lia.
Qed.

Lemma filter_seq_gt f n s : Forall (fun x => (s < x)%nat) (filter f (seq (S s) n)).
Proof.
  apply Forall_forall. intros x Hx. apply filter_In in Hx as [Hx _]. apply in_seq in Hx. lia.
Qed.

Lemma pl_aux_spec (f : nat -> bool) : forall n s,
  let r := prefixlen_idx_aux s (filter f (seq s n)) in
  (r <= n)%nat /\ (forall i, (s <= i < s + r)%nat -> f i = true) /\
  ((r < n)%nat -> f (s + r)%nat = false) /\
  skipn r (filter f (seq s n)) = filter f (seq (s + r) (n - r)).
Proof.
  induction n as [|n IH]; intros s; cbn [seq filter].
  - cbn. split; [lia|]. split; [intros; lia|]. split; [intros; lia|reflexivity].
  - destruct (f s) eqn:Fs.
    + cbn [prefixlen_idx_aux]. rewrite Nat.eqb_refl.
      destruct (IH (S s)) as (H1 & H2 & H3 & H4).
      set (r := prefixlen_idx_aux (S s) (filter f (seq (S s) n))) in *.
      cbn zeta. split; [|split; [|split]].
      * lia.
      * intros i Hi. destruct (Nat.eq_dec i s) as [->|Hne]; auto. apply H2. lia.
      * intros Hr. replace (s + S r)%nat with (S s + r)%nat by lia. apply H3. lia.
      * cbn [skipn]. rewrite H4. replace (s + S r)%nat with (S s + r)%nat by lia.
        now replace (S n - S r)%nat with (n - r)%nat by lia.
    + rewrite (pl_aux_zero s _ (filter_seq_gt f n s)). cbn zeta.
      split; [|split; [|split]].
      * lia.
      * intros; lia.
      * intros _. now rewrite Nat.add_0_r.
      * cbn [skipn]. rewrite Nat.add_0_r, Nat.sub_0_r. cbn [seq filter]. now rewrite Fs.
Qed.

Lemma lowrun_spec mask :
  let r := prefixlen_idx mask in
  (r <= 32)%nat /\ (forall i, (i < r)%nat -> tb mask i = true) /\
  ((r < 32)%nat -> tb mask r = false) /\
  ncwb mask = rev (filter (tb mask) (seq r (32 - r))).
Proof.
  unfold ncwb. unfold prefixlen_idx, wb_idxs, W. cbn zeta.
  generalize (pl_aux_spec (tb mask) 32 0). cbn zeta.
  generalize (prefixlen_idx_aux 0 (filter (tb mask) (seq 0 32))) as r.
  intros r (H1 & H2 & H3 & H4). change (0 + r)%nat with r in *.
  split; [exact H1|]. split; [|split].
  - intros i Hi. apply H2. lia.
  - exact H3.
  - f_equal. exact H4.
Qed.

(* keep kernel conversion from unfolding the bit-list computations (vm_compute is unaffected) *)
Global Strategy 100 [prefixlen_idx ncwb prefixlen wb_idxs create_prefix ipnets expand].

Lemma in_ncwb mask i :
  In i (ncwb mask) <-> ((prefixlen_idx mask < i < 32)%nat /\ tb mask i = true).
Proof.
  destruct (lowrun_spec mask) as (H1 & H2 & H3 & H4). cbn zeta in *. rewrite H4.
  rewrite <- in_rev, filter_In, in_seq. split.
  - intros [Hi Ht]. split; auto. destruct (Nat.eq_dec i (prefixlen_idx mask)) as [->|]; [|lia].
    rewrite H3 in Ht by lia. discriminate.
  - intros [Hi Ht]. split; auto. lia.
Qed.

Lemma ncwb_NoDup mask : NoDup (ncwb mask).
Proof.
  destruct (lowrun_spec mask) as (_ & _ & _ & H4). cbn zeta in H4. rewrite H4.
  apply NoDup_rev. apply NoDup_filter. apply seq_NoDup.
Qed.

Lemma ncwb_nil_iff mask :
  ncwb mask = [] <-> (forall i, (prefixlen_idx mask <= i < 32)%nat -> tb mask i = false).
Proof.
  split.
  - intros H i Hi. destruct (tb mask i) eqn:T; auto.
    destruct (lowrun_spec mask) as (_ & _ & H3 & _). cbn zeta in H3.
    destruct (Nat.eq_dec i (prefixlen_idx mask)) as [->|Hne].
    + rewrite H3 in T by lia. discriminate.
    + assert (In i (ncwb mask)) as C by (apply in_ncwb; split; auto; lia).
      rewrite H in C. destruct C.
  - intros H. destruct (ncwb mask) as [|x t] eqn:E; auto.
    assert (In x (ncwb mask)) as C by (rewrite E; now left).
    apply in_ncwb in C as [C1 C2]. rewrite H in C2 by lia. discriminate.
Qed.

(** * expand *)
Lemma expand_spec bits : forall q p,
  In p (expand bits q) <-> (forall i, ~ In i bits -> tb p i = tb q i).
Proof.
  induction bits as [|b t IH]; intros q p; cbn [expand].
  - cbn. split.
    + intros [->|[]]. auto.
    + intros H. left. symmetry. apply tb_inj. intros i. apply H. tauto.
  - rewrite in_app_iff, !IH. split.
    + intros [H|H] i Hi; (rewrite H by (intro C; apply Hi; now right));
        [rewrite tb_clearbit | rewrite tb_setbit];
        (destruct (Nat.eqb i b) eqn:E; auto; apply Nat.eqb_eq in E; subst;
         exfalso; apply Hi; now left).
    + intros H. destruct (tb p b) eqn:Pb; [right|left]; intros i Hi;
        [rewrite tb_setbit | rewrite tb_clearbit];
        (destruct (Nat.eqb i b) eqn:E; [apply Nat.eqb_eq in E; now subst|];
         apply Nat.eqb_neq in E; apply H; intros [C|C]; [congruence|auto]).
Qed.

Lemma expand_length bits : forall q, length (expand bits q) = (2 ^ length bits)%nat.
Proof.
  induction bits as [|b t IH]; intros q; cbn [expand length]; auto.
  rewrite app_length, !IH. cbn. lia.
Qed.

Lemma expand_choose bits : forall q a,
  exists p, In p (expand bits q) /\
            forall i, tb p i = if existsb (Nat.eqb i) bits then tb a i else tb q i.
Proof.
  induction bits as [|b t IH]; intros q a; cbn [expand existsb].
  - exists q. split; [now left|auto].
  - destruct (tb a b) eqn:Ab.
    + destruct (IH (N.setbit q (N.of_nat b)) a) as (p & Hin & Hp). exists p. split.
      * apply in_app_iff. now right.
      * intros i. rewrite Hp, tb_setbit. destruct (Nat.eqb i b) eqn:E; cbn; auto.
        apply Nat.eqb_eq in E. subst. now destruct (existsb _ t).
    + destruct (IH (N.clearbit q (N.of_nat b)) a) as (p & Hin & Hp). exists p. split.
      * apply in_app_iff. now left.
      * intros i. rewrite Hp, tb_clearbit. destruct (Nat.eqb i b) eqn:E; cbn; auto.
        apply Nat.eqb_eq in E. subst. now destruct (existsb _ t).
Qed.

Lemma existsb_eqb_In i l : existsb (Nat.eqb i) l = true <-> In i l.
Proof.
  rewrite existsb_exists. split.
  - intros [x [Hx E]]. apply Nat.eqb_eq in E. now subst.
  - intros H. exists i. split; auto. apply Nat.eqb_refl.
Qed.

Lemma FOP_app {A} (R : A -> A -> Prop) l1 l2 :
  ForallOrdPairs R l1 -> ForallOrdPairs R l2 ->
  (forall x y, In x l1 -> In y l2 -> R x y) -> ForallOrdPairs R (l1 ++ l2).
Proof.
  induction l1 as [|a t IH]; intros H1 H2 H3; cbn; auto.
  inversion H1; subst. constructor.
  - apply Forall_app. split; auto. apply Forall_forall. intros y Hy. apply H3; auto. now left.
  - apply IH; auto. intros x y Hx Hy. apply H3; auto. now right.
Qed.

Lemma FOP_map {A B} (f : A -> B) (R : B -> B -> Prop) l :
  ForallOrdPairs (fun x y => R (f x) (f y)) l -> ForallOrdPairs R (map f l).
Proof.
  induction 1; cbn; constructor; auto. apply Forall_map. auto.
Qed.

Lemma expand_differ r bits : forall q,
  NoDup bits -> Forall (fun b => (r <= b)%nat) bits ->
  ForallOrdPairs (fun p p' => exists i, (r <= i)%nat /\ tb p i <> tb p' i) (expand bits q).
Proof.
  induction bits as [|b t IH]; intros q ND GE; cbn [expand].
  - repeat constructor.
  - inversion ND; subst. inversion GE; subst. apply FOP_app; auto.
    intros x y Hx Hy. exists b. split; auto.
    pose proof (proj1 (expand_spec _ _ _) Hx) as Hx'. pose proof (proj1 (expand_spec _ _ _) Hy) as Hy'.
    rewrite (Hx' b), (Hy' b) by auto. rewrite tb_clearbit, tb_setbit, Nat.eqb_refl. discriminate.
Qed.

(** * membership of an address in a network *)
Definition in_net (a : N) (n : net) : Prop :=
  N.shiftr a (N.of_nat (W - snd n)) = N.shiftr (fst n) (N.of_nat (W - snd n)).

Definition in_wild (a addr mask : N) : Prop :=
  N.land a (N.lxor ALL_ONES mask) = N.land addr (N.lxor ALL_ONES mask).

Lemma in_wild_bits a addr mask :
  a < 2 ^ 32 -> addr < 2 ^ 32 ->
  (in_wild a addr mask <-> forall i, (i < 32)%nat -> tb mask i = false -> tb a i = tb addr i).
Proof.
  intros Ha Hb. unfold in_wild. split.
  - intros H i Hi Hm. assert (E : tb (N.land a (N.lxor ALL_ONES mask)) i
                                = tb (N.land addr (N.lxor ALL_ONES mask)) i) by now rewrite H.
    unfold tb in E. rewrite !N.land_spec in E.
    fold (tb a i) (tb addr i) (tb (N.lxor ALL_ONES mask) i) in E.
    rewrite tb_lnot32, Hm in E by auto. cbn in E. now rewrite !andb_true_r in E.
  - intros H. apply tb_inj. intros i. unfold tb. rewrite !N.land_spec.
    fold (tb a i) (tb addr i) (tb (N.lxor ALL_ONES mask) i).
    destruct (Nat.lt_ge_cases i 32) as [Hi|Hi].
    + rewrite tb_lnot32 by auto. destruct (tb mask i) eqn:Hm; cbn.
      * now rewrite !andb_false_r.
      * now rewrite !andb_true_r, H.
    + now rewrite (tb_high a i Ha Hi), (tb_high addr i Hb Hi).
Qed.

Lemma prefixlen_sub mask : (W - prefixlen mask = prefixlen_idx mask)%nat.
Proof.
  unfold prefixlen, W. destruct (lowrun_spec mask) as (H & _). cbn zeta in H. lia.
Qed.

Lemma in_ipnets n addr mask :
  In n (ipnets addr mask) <->
  exists p, n = (p, prefixlen mask) /\ In p (expand (ncwb mask) (create_prefix addr mask)).
Proof.
  unfold ipnets, ipnets_of. rewrite in_map_iff. split; intros (p & H1 & H2); exists p; auto.
Qed.

(** ** exactness: none missing, none extra *)
Theorem ipnets_exact addr mask a :
  addr < 2 ^ 32 -> mask < 2 ^ 32 -> a < 2 ^ 32 ->
  (Exists (in_net a) (ipnets addr mask) <-> in_wild a addr mask).
Proof.
  intros Hb Hm Ha. rewrite (in_wild_bits a addr mask Ha Hb). rewrite Exists_exists.
  destruct (lowrun_spec mask) as (R1 & R2 & R3 & _). cbn zeta in *.
  set (r := prefixlen_idx mask) in *.
  split.
  - intros (n & Hn & Hin). apply in_ipnets in Hn as (p & -> & Hp).
    unfold in_net in Hin. cbn [fst snd] in Hin. rewrite prefixlen_sub in Hin. fold r in Hin.
    rewrite shiftr_eq_bits in Hin. rewrite expand_spec in Hp.
    intros i Hi Hmi.
    assert (r <= i)%nat as Hri.
    { destruct (Nat.lt_ge_cases i r) as [C|C]; auto. rewrite R2 in Hmi by auto. discriminate. }
    rewrite Hin by auto. rewrite Hp.
    + rewrite tb_create_prefix by auto. rewrite Hmi. cbn. now rewrite andb_true_r.
    + intro C. apply in_ncwb in C as [_ C]. congruence.
  - intros H. destruct (expand_choose (ncwb mask) (create_prefix addr mask) a) as (p & Hin & Hp).
    exists (p, prefixlen mask). split.
    + apply in_ipnets. exists p. auto.
    + unfold in_net. cbn [fst snd]. rewrite prefixlen_sub. fold r. apply shiftr_eq_bits.
      intros i Hi. rewrite Hp. destruct (existsb (Nat.eqb i) (ncwb mask)) eqn:E; auto.
      destruct (Nat.lt_ge_cases i 32) as [Hi32|Hi32].
      * assert (tb mask i = false) as Hmi.
        { destruct (tb mask i) eqn:T; auto.
          destruct (Nat.eq_dec i r) as [->|Hne]; [rewrite R3 in T by lia; discriminate|].
          assert (In i (ncwb mask)) as C by (apply in_ncwb; fold r; split; auto; lia).
          apply existsb_eqb_In in C. congruence. }
        rewrite tb_create_prefix by auto. rewrite Hmi. cbn. rewrite andb_true_r. now apply H.
      * rewrite (tb_high a i Ha Hi32). symmetry. now apply tb_create_prefix_high.
Qed.

(** ** no overlap, count, equal length, no host bits *)
Definition disjoint_nets (n m : net) : Prop := forall a, ~ (in_net a n /\ in_net a m).

Theorem ipnets_disjoint addr mask : ForallOrdPairs disjoint_nets (ipnets addr mask).
Proof.
  unfold ipnets, ipnets_of. apply FOP_map.
  assert (H := expand_differ (prefixlen_idx mask) (ncwb mask) (create_prefix addr mask)
                 (ncwb_NoDup mask)).
  assert (GE : Forall (fun b => (prefixlen_idx mask <= b)%nat) (ncwb mask)).
  { apply Forall_forall. intros b Hb. apply in_ncwb in Hb. lia. }
  specialize (H GE). clear GE.
  eapply ForallOrdPairs_ind with (P := fun l =>
     ForallOrdPairs (fun x y => disjoint_nets (x, prefixlen mask) (y, prefixlen mask)) l);
    [constructor| |exact H].
  intros x l Hx _ IH. constructor; auto.
  eapply Forall_impl; [|exact Hx]. intros y (i & Hi & Hne) a [A1 A2].
  unfold in_net in A1, A2. cbn [fst snd] in *. rewrite prefixlen_sub in *.
  rewrite shiftr_eq_bits in A1, A2. apply Hne. now rewrite <- A1, <- A2.
Qed.

Definition popcount (mask : N) : nat := length (wb_idxs mask).

Theorem ipnets_count addr mask :
  length (ipnets addr mask) = (2 ^ length (ncwb mask))%nat /\
  length (ncwb mask) = (popcount mask - prefixlen_idx mask)%nat.
Proof.
  split.
  - unfold ipnets, ipnets_of. now rewrite map_length, expand_length.
  - unfold ncwb, popcount. now rewrite rev_length, skipn_length.
Qed.

Theorem ipnets_same_len addr mask : Forall (fun n => snd n = prefixlen mask) (ipnets addr mask).
Proof.
  apply Forall_forall. intros n Hn. apply in_ipnets in Hn as (p & -> & _). reflexivity.
Qed.

Theorem ipnets_strict addr mask :
  addr < 2 ^ 32 ->
  Forall (fun n => forall i, (i < W - snd n)%nat \/ (32 <= i)%nat -> tb (fst n) i = false)
         (ipnets addr mask).
Proof.
  intros Ha. apply Forall_forall. intros n Hn. apply in_ipnets in Hn as (p & -> & Hp).
  cbn [fst snd]. rewrite prefixlen_sub. rewrite expand_spec in Hp.
  destruct (lowrun_spec mask) as (R1 & R2 & _). cbn zeta in *.
  intros i [Hi|Hi].
  - rewrite Hp.
    + rewrite tb_create_prefix by lia. rewrite R2 by auto. apply andb_false_r.
    + intro C. apply in_ncwb in C. lia.
  - rewrite Hp.
    + now apply tb_create_prefix_high.
    + intro C. apply in_ncwb in C. lia.
Qed.

(** * is_mask and the single network *)
Definition bits_desc (g : nat -> bool) (n : nat) : list bool := map g (rev (seq 0 n)).

Lemma bits_desc_S g n : bits_desc g (S n) = g n :: bits_desc g n.
Proof. unfold bits_desc. rewrite seq_S, rev_app_distr. reflexivity. Qed.

Lemma all_false_desc g n :
  forallb negb (bits_desc g n) = true <-> (forall i, (i < n)%nat -> g i = false).
Proof.
  induction n as [|n IH]; [cbn; split; auto; intros; lia|].
  rewrite bits_desc_S. cbn [forallb]. rewrite andb_true_iff, IH, negb_true_iff. split.
  - intros [H1 H2] i Hi. destruct (Nat.eq_dec i n) as [->|]; auto. apply H2. lia.
  - intros H. split; [apply H; lia|]. intros i Hi. apply H. lia.
Qed.

Lemma is_mask_desc g : forall n,
  forallb negb (lstrip1 (bits_desc g n)) = true <->
  exists r, (r <= n)%nat /\ forall i, (i < n)%nat -> g i = negb (Nat.ltb i r).
Proof.
  induction n as [|n IH].
  - cbn. split; auto. intros _. exists 0%nat. split; [lia|]. intros; lia.
  - rewrite bits_desc_S. destruct (g n) eqn:Gn; cbn [lstrip1].
    + rewrite IH. split; intros (r & Hr & H).
      * exists r. split; [lia|]. intros i Hi. destruct (Nat.eq_dec i n) as [->|].
        -- rewrite Gn. symmetry. apply negb_true_iff. apply Nat.ltb_ge. lia.
        -- apply H. lia.
      * assert (r <= n)%nat.
        { specialize (H n (Nat.lt_succ_diag_r n)). rewrite Gn in H. symmetry in H.
          apply negb_true_iff in H. apply Nat.ltb_ge in H. lia. }
        exists r. split; [assumption|]. intros i Hi. apply H. lia.
    + cbn [forallb negb]. rewrite andb_true_l. rewrite all_false_desc. split.
      * intros H. exists (S n). split; [lia|]. intros i Hi. destruct (Nat.eq_dec i n) as [->|].
        -- rewrite Gn. symmetry. apply negb_false_iff. apply Nat.ltb_lt. lia.
        -- rewrite H by lia. symmetry. apply negb_false_iff. apply Nat.ltb_lt. lia.
      * intros (r & Hr & H) i Hi.
        assert (r = S n).
        { specialize (H n (Nat.lt_succ_diag_r n)). rewrite Gn in H. symmetry in H.
          apply negb_false_iff in H. apply Nat.ltb_lt in H. lia. }
        subst. rewrite H by lia. apply negb_false_iff. apply Nat.ltb_lt. lia.
Qed.

Lemma count_true_all_false g : forall m,
  (forall i, (i < m)%nat -> g i = false) -> count_true (bits_desc g m) = 0%nat.
Proof.
  induction m as [|m IHm]; intros Hg; auto. rewrite bits_desc_S. cbn [count_true].
  rewrite Hg by lia. rewrite IHm; auto.
Qed.

Lemma count_true_desc g r : forall n,
  (r <= n)%nat -> (forall i, (i < n)%nat -> g i = negb (Nat.ltb i r)) ->
  count_true (bits_desc g n) = (n - r)%nat.
Proof.
  induction n as [|n IH]; intros Hr H; [reflexivity|].
  rewrite bits_desc_S. cbn [count_true].
  destruct (Nat.eq_dec r (S n)) as [->|Hne].
  - rewrite H by lia. replace (Nat.ltb n (S n)) with true by (symmetry; apply Nat.ltb_lt; lia).
    cbn [negb]. rewrite count_true_all_false; [lia|].
    intros i Hi. rewrite H by lia. apply negb_false_iff. apply Nat.ltb_lt. lia.
  - rewrite H by lia. replace (Nat.ltb n r) with false by (symmetry; apply Nat.ltb_ge; lia).
    cbn [negb]. rewrite IH; [lia|lia|]. intros i Hi. apply H. lia.
Qed.

Lemma bits_msb_invert mask :
  bits_msb_first (invert_mask mask) = bits_desc (fun i => negb (tb mask i)) 32.
Proof.
  unfold bits_msb_first, bits_desc, invert_mask, W. apply map_ext_in. intros i Hi.
  apply in_rev in Hi. apply in_seq in Hi. apply tb_lnot32. lia.
Qed.

Lemma lowrun_unique mask r :
  (r <= 32)%nat -> (forall i, (i < 32)%nat -> tb mask i = Nat.ltb i r) -> prefixlen_idx mask = r.
Proof.
  intros Hr H. destruct (lowrun_spec mask) as (R1 & R2 & R3 & _). cbn zeta in *.
  destruct (Nat.lt_trichotomy (prefixlen_idx mask) r) as [C|[C|C]]; auto.
  - rewrite H in R3 by lia. specialize (R3 ltac:(lia)). apply Nat.ltb_ge in R3. lia.
  - specialize (R2 r C). rewrite H in R2 by lia. apply Nat.ltb_lt in R2. lia.
Qed.

Theorem create_ipnet_spec p mask :
  mask < 2 ^ 32 ->
  create_ipnet p mask = match ncwb mask with [] => Some (p, prefixlen mask) | _ => None end.
Proof.
  intros Hm. unfold create_ipnet.
  destruct (N.eqb mask ALL_ONES) eqn:E1.
  { apply N.eqb_eq in E1. subst. vm_compute. reflexivity. }
  destruct (N.eqb mask 0) eqn:E0.
  { apply N.eqb_eq in E0. subst. vm_compute. reflexivity. }
  rewrite bits_msb_invert. unfold is_mask. rewrite bits_msb_invert.
  destruct (forallb negb (lstrip1 (bits_desc (fun i => negb (tb mask i)) 32))) eqn:IM.
  - apply is_mask_desc in IM as (k & Hk & H).
    rewrite (count_true_desc _ k 32 Hk H).
    assert (Hw : forall i, (i < 32)%nat -> tb mask i = Nat.ltb i k).
    { intros i Hi. specialize (H i Hi). apply (f_equal negb) in H. now rewrite !negb_involutive in H. }
    assert (Hr := lowrun_unique mask k Hk Hw).
    assert (ncwb mask = []) as ->.
    { apply ncwb_nil_iff. intros i Hi. rewrite Hw by lia. apply Nat.ltb_ge. lia. }
    unfold prefixlen, W. now rewrite Hr.
  - destruct (ncwb mask) eqn:NC; auto. exfalso.
    assert (forallb negb (lstrip1 (bits_desc (fun i => negb (tb mask i)) 32)) = true); [|congruence].
    apply is_mask_desc. destruct (lowrun_spec mask) as (R1 & R2 & R3 & _). cbn zeta in *.
    exists (prefixlen_idx mask). split; auto. intros i Hi. f_equal.
    destruct (Nat.lt_ge_cases i (prefixlen_idx mask)) as [C|C].
    + rewrite R2 by auto. symmetry. now apply Nat.ltb_lt.
    + rewrite (proj1 (ncwb_nil_iff mask) NC) by lia. symmetry. now apply Nat.ltb_ge.
Qed.

Theorem ipnets_single addr mask n :
  mask < 2 ^ 32 ->
  (create_ipnet (create_prefix addr mask) mask = Some n <-> (ncwb mask = [] /\ ipnets addr mask = [n])).
Proof.
  intros Hm. rewrite create_ipnet_spec by auto. unfold ipnets, ipnets_of.
  destruct (ncwb mask) eqn:NC; cbn [expand map]; split.
  - intros [= <-]. auto.
  - intros [_ [= <-]]. reflexivity.
  - discriminate.
  - intros [C _]. discriminate.
Qed.

(** * limit *)
Theorem limit_spec limit addr mask :
  (set_line limit addr mask = Abort <-> (limit < length (ncwb mask))%nat) /\
  (forall w, set_line limit addr mask = Ok w ->
     (length (ncwb mask) <= limit)%nat /\ w_cache w = None /\
     snd (ask w QIpnets) = AIpnets (ipnets addr mask) /\
     snd (ask w QIpnet) = AIpnet (create_ipnet (create_prefix addr mask) mask) /\
     snd (ask w QLine) = ALine (create_prefix addr mask) mask).
Proof.
  unfold set_line. destruct (Nat.ltb limit (length (ncwb mask))) eqn:E.
  - apply Nat.ltb_lt in E. split; [tauto|discriminate].
  - apply Nat.ltb_ge in E. split.
    + split; [discriminate|lia].
    + intros w [= <-]. split; [exact E|].
      unfold ask, ipnets. cbn [w_prefix w_mask w_ipnet w_ncwb w_plen w_cache w_limit snd fst].
      split; [exact eq_refl|]. split; [exact eq_refl|]. split; exact eq_refl.
Qed.

Theorem limit_range limit addr mask :
  (limit < 0 \/ 30 < limit)%Z -> new_wild limit addr mask = VErr.
Proof.
  intros H. unfold new_wild, valid_limit. rewrite MAX_NCWB_val.
  change (Z.of_N 30) with 30%Z.
  destruct (Z.leb_spec 0 limit), (Z.leb_spec limit 30); cbn [andb]; auto; lia.
Qed.

(** * no stale results: the object refines a cache-free specification *)
Definition pure_answer (addr mask : N) (q : query) : answer :=
  match q with
  | QLine => ALine (create_prefix addr mask) mask
  | QIpnet => AIpnet (create_ipnet (create_prefix addr mask) mask)
  | QIpnets => AIpnets (ipnets addr mask)
  end.

Fixpoint spec_hist (limit : nat) (addr mask : N) (ops : list wop) : list wout :=
  match ops with
  | [] => []
  | OSet a m :: t =>
      if Nat.ltb limit (length (ncwb m)) then [RSet false] else RSet true :: spec_hist limit a m t
  | OAsk q :: t => RAns (pure_answer addr mask q) :: spec_hist limit addr mask t
  end.

Definition consistent (w : wild) (addr mask : N) : Prop :=
  w_prefix w = create_prefix addr mask /\ w_mask w = mask /\
  w_ipnet w = create_ipnet (create_prefix addr mask) mask /\
  w_ncwb w = ncwb mask /\ w_plen w = prefixlen mask /\
  (w_cache w = None \/ w_cache w = Some (ipnets addr mask)).

Lemma set_line_consistent limit addr mask w :
  set_line limit addr mask = Ok w -> consistent w addr mask /\ w_limit w = limit.
Proof.
  unfold set_line. destruct (Nat.ltb _ _); [discriminate|]. intros [= <-].
  unfold consistent. cbn [w_prefix w_mask w_ipnet w_ncwb w_plen w_cache w_limit]. tauto.
Qed.

Lemma ask_consistent w addr mask q :
  consistent w addr mask ->
  consistent (fst (ask w q)) addr mask /\ w_limit (fst (ask w q)) = w_limit w /\
  snd (ask w q) = pure_answer addr mask q.
Proof.
  intros Hc. pose proof Hc as (H1 & H2 & H3 & H4 & H5 & H6). destruct q; unfold ask.
  - cbn [fst snd pure_answer]. split; [exact Hc|]. split; [reflexivity|]. now rewrite H1, H2.
  - cbn [fst snd pure_answer]. split; [exact Hc|]. split; [reflexivity|]. now rewrite H3.
  - destruct (w_cache w) as [l|] eqn:C; cbn [fst snd pure_answer].
    + split; [exact Hc|]. split; [reflexivity|].
      destruct H6 as [H6|H6]; [discriminate H6|]. now inversion H6.
    + assert (E : ipnets_of (w_prefix w) (w_ncwb w) (w_plen w) = ipnets addr mask).
      { unfold ipnets. now rewrite H1, H4, H5. }
      rewrite E. split; [|split; reflexivity].
      unfold consistent. cbn [w_prefix w_mask w_ipnet w_ncwb w_plen w_cache w_limit].
      repeat (split; [assumption|]). now right.
Qed.

Theorem hist_refines ops : forall w addr mask,
  consistent w addr mask -> run_hist w ops = spec_hist (w_limit w) addr mask ops.
Proof.
  induction ops as [|op t IH]; intros w addr mask Hc; cbn [run_hist spec_hist]; auto.
  destruct op as [a m|q].
  - destruct (set_line (w_limit w) a m) as [w'| | | |k] eqn:E.
    + destruct (set_line_consistent _ _ _ _ E) as [Hc' Hl].
      unfold set_line in E. destruct (Nat.ltb _ _) eqn:L; [discriminate|].
      f_equal. rewrite <- Hl. now apply IH.
    + unfold set_line in E. destruct (Nat.ltb _ _); discriminate.
    + unfold set_line in E. destruct (Nat.ltb _ _); discriminate.
    + unfold set_line in E. destruct (Nat.ltb _ _) eqn:L; [reflexivity|discriminate].
    + unfold set_line in E. destruct (Nat.ltb _ _); discriminate.
  - destruct (ask_consistent w addr mask q Hc) as (Hc' & Hl & Ha).
    rewrite Ha. f_equal. rewrite <- Hl. now apply IH.
Qed.
