(** C16 (identifiers and notes) on the operation model: what every in-place transformation
    does to the (identifier, note) of the ACL and of its entries. *)
From V Require Import base.Prelude base.Strs gen.Tables model.Cfg model.Names model.Wildcard
  model.Addr model.Ports model.Ace model.Lex model.AddrText model.AceText model.AclText
  model.Shading model.SplitPorts model.Platform model.Ops.
From Coq Require Import Permutation.
Local Open Scope N_scope.

(** * generic: map_res / flat_map_res *)
Lemma map_res_Forall2 {A B} (f : A -> res B) : forall l r,
  map_res f l = Ok r -> Forall2 (fun x y => f x = Ok y) l r.
Proof.
  induction l as [|x t IH]; intros r H; cbn [map_res] in H.
  - injection H as <-. constructor.
  - destruct (f x) as [y| | | |] eqn:E; cbn in H; try discriminate.
    destruct (map_res f t) as [r'| | | |] eqn:E'; cbn in H; try discriminate.
    injection H as <-. constructor; auto.
Qed.

Lemma flat_map_res_spec {A B} (f : A -> res (list B)) : forall l r,
  flat_map_res f l = Ok r -> exists rs, Forall2 (fun x y => f x = Ok y) l rs /\ r = concat rs.
Proof.
  induction l as [|x t IH]; intros r H; cbn [flat_map_res] in H.
  - injection H as <-. exists []. split; [constructor|reflexivity].
  - destruct (f x) as [y| | | |] eqn:E; cbn in H; try discriminate.
    destruct (flat_map_res f t) as [r'| | | |] eqn:E'; cbn in H; try discriminate.
    injection H as <-. destruct (IH r' eq_refl) as (rs & F & ->).
    exists (y :: rs). split; [constructor; auto|reflexivity].
Qed.

(** * tags *)
Definition tags (tops : list top) : list (N * N) := map leaf_tag (flat tops).
Definition ltags (ls : list leaf) : list (N * N) := map leaf_tag ls.

Lemma flat_app a b : flat (a ++ b) = flat a ++ flat b.
Proof. unfold flat. apply flat_map_app. Qed.

Lemma flat_TLeaf ls : flat (map TLeaf ls) = ls.
Proof. induction ls as [|l t IH]; cbn; [reflexivity|]. now f_equal. Qed.

(** * rebuilding an entry from its text keeps who it is *)
Lemma rebuild_leaf_tag c c' l r : rebuild_leaf c c' l = Ok r -> leaf_tag r = leaf_tag l.
Proof.
  destruct l as [id n t|id n s x]; cbn [rebuild_leaf]; intros H.
  - destruct (parse_ace_text c' (render_ace c t)); cbn in H; try discriminate. now injection H as <-.
  - now injection H as <-.
Qed.

Lemma rebuild_leaf_head gby c c' l r : rebuild_leaf c c' l = Ok r -> is_head gby r = is_head gby l.
Proof.
  destruct l as [id n t|id n s x]; cbn [rebuild_leaf]; intros H.
  - destruct (parse_ace_text c' (render_ace c t)); cbn in H; try discriminate. now injection H as <-.
  - now injection H as <-.
Qed.

Lemma Forall2_tags (P : leaf -> leaf -> Prop) :
  (forall l r, P l r -> leaf_tag r = leaf_tag l) ->
  forall ls rs, Forall2 P ls rs -> ltags rs = ltags ls.
Proof.
  intros HP ls rs F. induction F as [|l r ls rs H F IH]; cbn; [reflexivity|].
  rewrite (HP _ _ H). now f_equal.
Qed.

Lemma rebuild_leaves_tags c c' ls rs :
  map_res (rebuild_leaf c c') ls = Ok rs -> ltags rs = ltags ls.
Proof.
  intros H. apply map_res_Forall2 in H.
  apply (Forall2_tags (fun x y => rebuild_leaf c c' x = Ok y)); auto.
  intros l r. apply rebuild_leaf_tag.
Qed.

Lemma rebuild_top_tags c c' t r :
  rebuild_top c c' t = Ok r -> ltags (top_leaves r) = ltags (top_leaves t).
Proof.
  destruct t as [l|id n name s ls]; cbn [rebuild_top]; intros H.
  - destruct (rebuild_leaf c c' l) as [l'| | | |] eqn:E; cbn in H; try discriminate.
    injection H as <-. cbn. now rewrite (rebuild_leaf_tag _ _ _ _ E).
  - destruct (map_res (rebuild_leaf c c') ls) as [ls'| | | |] eqn:E; cbn in H; try discriminate.
    injection H as <-. cbn [top_leaves]. now apply rebuild_leaves_tags in E.
Qed.

Lemma rebuild_tops_tags c c' : forall tops rs,
  map_res (rebuild_top c c') tops = Ok rs -> tags rs = tags tops.
Proof.
  intros tops rs H. apply map_res_Forall2 in H. unfold tags.
  induction H as [|t r tops rs Ht F IH]; [reflexivity|].
  cbn [flat flat_map]. rewrite !map_app. fold (flat tops) (flat rs). rewrite IH.
  f_equal. apply (rebuild_top_tags _ _ _ _ Ht).
Qed.

(** * re-grouping neither invents nor loses an entry (a repeated heading remark is merged) *)
Definition bflat (d : lbuckets) : list leaf := flat_map snd d.

Lemma bflat_app d1 d2 : bflat (d1 ++ d2) = bflat d1 ++ bflat d2.
Proof. apply flat_map_app. Qed.

Lemma bucket_append_In k x d y :
  In y (bflat (lbucket_append k x d)) -> y = x \/ In y (bflat d).
Proof.
  induction d as [|[k' v] t IH]; cbn [lbucket_append bflat flat_map snd]; [tauto|].
  destruct (String.eqb k k'); cbn [bflat flat_map snd]; rewrite !in_app_iff.
  - cbn [In]. intuition (subst; auto).
  - intros [H|H]; [tauto|]. destruct (IH H); tauto.
Qed.

Lemma bucket_append_keeps k x d y : In y (bflat d) -> In y (bflat (lbucket_append k x d)).
Proof.
  induction d as [|[k' v] t IH]; cbn [lbucket_append bflat flat_map snd]; [tauto|].
  destruct (String.eqb k k'); cbn [bflat flat_map snd]; rewrite !in_app_iff.
  - tauto.
  - intros [H|H]; [tauto|]. right. now apply IH.
Qed.

Lemma bucket_append_adds k x d : lhas_key k d = true -> In x (bflat (lbucket_append k x d)).
Proof.
  induction d as [|[k' v] t IH]; cbn [lhas_key lbucket_append]; [discriminate|].
  destruct (String.eqb k k') eqn:E; cbn [orb]; cbn [bflat flat_map snd]; rewrite in_app_iff.
  - intros _. left. apply in_or_app. right. now left.
  - intros H. right. now apply IH.
Qed.

Lemma bucket_append_key k x d k2 : lhas_key k2 (lbucket_append k x d) = lhas_key k2 d.
Proof.
  induction d as [|[k' v] t IH]; cbn [lbucket_append lhas_key]; [reflexivity|].
  destruct (String.eqb k k'); cbn [lhas_key]; [reflexivity|]. now rewrite IH.
Qed.

Lemma has_key_app k d1 d2 : lhas_key k (d1 ++ d2) = lhas_key k d1 || lhas_key k d2.
Proof.
  induction d1 as [|[k' v] t IH]; cbn [app lhas_key]; [reflexivity|]. rewrite IH. now rewrite orb_assoc.
Qed.

(** invariant of the grouping loop: the current group name is a key *)
Lemma group_fold gby : forall ls st,
  lhas_key (snd st) (fst st) = true ->
  let st' := fold_left (lgroup_step gby) ls st in
  lhas_key (snd st') (fst st') = true
  /\ (forall y, In y (bflat (fst st')) -> In y (bflat (fst st)) \/ In y ls)
  /\ (forall y, In y (bflat (fst st)) -> In y (bflat (fst st')))
  /\ (forall y, In y ls -> is_head gby y = false -> In y (bflat (fst st'))).
Proof.
  induction ls as [|l t IH]; intros st K; cbn [fold_left].
  - repeat split; auto. intros y [].
  - assert (K1 : lhas_key (snd (lgroup_step gby st l)) (fst (lgroup_step gby st l)) = true).
    { unfold lgroup_step. destruct (is_head gby l); cbn [fst snd].
      - destruct (lhas_key (head_text l) (fst st)) eqn:E; cbn [fst snd]; [exact E|].
        rewrite has_key_app. cbn [lhas_key]. rewrite String.eqb_refl. now rewrite orb_true_r.
      - now rewrite bucket_append_key. }
    destruct (IH _ K1) as (A & B & C & D). split; [exact A|]. split; [|split].
    + intros y Hy. destruct (B y Hy) as [H|H]; [|right; now right].
      unfold lgroup_step in H. destruct (is_head gby l); cbn [fst snd] in H.
      * destruct (lhas_key (head_text l) (fst st)); cbn [fst] in H; [now left|].
        rewrite bflat_app in H. apply in_app_or in H as [H|H]; [now left|].
        cbn in H. destruct H as [<-|[]]. right. now left.
      * apply bucket_append_In in H as [->|H]; [right; now left|now left].
    + intros y Hy. apply C. unfold lgroup_step. destruct (is_head gby l); cbn [fst snd].
      * destruct (lhas_key (head_text l) (fst st)); cbn [fst]; [exact Hy|].
        rewrite bflat_app. apply in_or_app. now left.
      * now apply bucket_append_keeps.
    + intros y [<-|Hy] NH.
      * apply C. unfold lgroup_step. rewrite NH. cbn [fst]. now apply bucket_append_adds.
      * now apply D.
Qed.

Lemma regroup_flat gby old ls : flat (regroup gby old ls) = bflat (lgroup_buckets gby ls).
Proof.
  unfold regroup, bflat. generalize (lgroup_buckets gby ls) as d.
  induction d as [|[k v] t IH]; cbn [flat_map]; [reflexivity|].
  rewrite flat_app, IH. f_equal. cbn [snd fst].
  destruct v as [|x v]; [reflexivity|].
  destruct (find_grp k old) as [[[id n] s]|]; cbn; now rewrite app_nil_r.
Qed.

Theorem regroup_sound gby old ls y : In y (flat (regroup gby old ls)) -> In y ls.
Proof.
  rewrite regroup_flat. unfold lgroup_buckets. intros H.
  destruct (group_fold gby ls ([("", [])], "") eq_refl) as (_ & B & _ & _).
  destruct (B y H) as [H'|H']; [cbn in H'; tauto|exact H'].
Qed.

Theorem regroup_keeps gby old ls y :
  In y ls -> is_head gby y = false -> In y (flat (regroup gby old ls)).
Proof.
  rewrite regroup_flat. unfold lgroup_buckets. intros H NH.
  destruct (group_fold gby ls ([("", [])], "") eq_refl) as (_ & _ & _ & D). now apply D.
Qed.

Lemma set_items_sound gby tops y : In y (flat (set_items gby tops)) -> In y (flat tops).
Proof. unfold set_items. destruct (str_nonempty gby); [apply regroup_sound|auto]. Qed.

Lemma set_items_keeps gby tops y :
  In y (flat tops) -> is_head gby y = false -> In y (flat (set_items gby tops)).
Proof. unfold set_items. destruct (str_nonempty gby); [apply regroup_keeps|auto]. Qed.

(** * the switches: port_nr / protocol_nr / type / import with identifiers *)
Definition same_acl_id (a a' : acl) : Prop := o_id a' = o_id a /\ o_note a' = o_note a.

Definition none_invented (a a' : acl) : Prop :=
  forall tg, In tg (tags (o_tops a')) -> In tg (tags (o_tops a)).

(** every ACE and every plain remark is still there, with its identifier and note *)
Definition entries_kept (gby : string) (a a' : acl) : Prop :=
  forall l, In l (flat (o_tops a)) -> is_head gby l = false -> In (leaf_tag l) (tags (o_tops a')).

Lemma in_tags_rebuilt c c' tops rs l :
  map_res (rebuild_top c c') tops = Ok rs -> In l (flat tops) ->
  exists r, In r (flat rs) /\ leaf_tag r = leaf_tag l /\ forall gby, is_head gby r = is_head gby l.
Proof.
  intros H. apply map_res_Forall2 in H. induction H as [|t r tops rs Ht F IH]; [intros []|].
  cbn [flat flat_map]. fold (flat tops) (flat rs). rewrite in_app_iff. intros [Hl|Hl].
  - destruct t as [l0|id n name s ls]; cbn [rebuild_top] in Ht.
    + destruct (rebuild_leaf c c' l0) as [l'| | | |] eqn:E; cbn in Ht; try discriminate. injection Ht as <-.
      cbn in Hl. destruct Hl as [<-|[]]. exists l'. split; [apply in_or_app; left; now left|].
      split; [now apply rebuild_leaf_tag in E|]. intros gby. now apply (rebuild_leaf_head gby) in E.
    + destruct (map_res (rebuild_leaf c c') ls) as [ls'| | | |] eqn:E; cbn in Ht; try discriminate. injection Ht as <-.
      cbn [top_leaves] in Hl. apply map_res_Forall2 in E. clear -E Hl. revert Hl.
      induction E as [|x y ls ls' Hxy F IH]; [intros []|]. intros [<-|Hl].
      * exists y. split; [apply in_or_app; left; now left|].
        split; [now apply rebuild_leaf_tag in Hxy|]. intros gby. now apply (rebuild_leaf_head gby) in Hxy.
      * destruct (IH Hl) as (r & Hr & T). exists r. split; auto.
        apply in_app_or in Hr as [Hr|Hr]; apply in_or_app; [left; now right|now right].
  - destruct (IH Hl) as (r0 & Hr & T). exists r0. split; auto. apply in_or_app. now right.
Qed.

Theorem reinit_ids c' a a' :
  reinit c' a = Ok a' ->
  same_acl_id a a' /\ none_invented a a' /\ entries_kept (o_gby a) a a'.
Proof.
  unfold reinit. destruct (map_res (rebuild_top (o_cfg a) c') (o_tops a)) as [tops| | | |] eqn:E; cbn; try discriminate.
  intros H. injection H as <-. cbn. split; [split; reflexivity|]. split.
  - intros tg Htg. unfold tags in Htg. apply in_map_iff in Htg as (r & <- & Hr).
    apply set_items_sound in Hr. rewrite <- (rebuild_tops_tags _ _ _ _ E). unfold tags. now apply in_map.
  - intros l Hl NH. destruct (in_tags_rebuilt _ _ _ _ l E Hl) as (r & Hr & T & Hh).
    rewrite <- T. unfold tags. apply in_map. apply set_items_keeps; auto. now rewrite Hh.
Qed.

(** * splitting: an entry is either the same object or replaced by new objects carrying its note *)
Theorem split_leaf_ids c l r :
  split_leaf c l = Ok r ->
  r = [l] \/ Forall (fun x => leaf_id x = 0 /\ leaf_note x = leaf_note l /\ forall gby, is_head gby x = false) r.
Proof.
  destruct l as [id n t|id n s x]; cbn [split_leaf]; intros H.
  - destruct (ungroup_ports (plat c) (is15 c) (t_ace t)) as [[l' b]| | | |]; cbn in H; try discriminate.
    destruct b; injection H as <-; [now left|]. right. apply Forall_forall. intros x Hx.
    apply in_map_iff in Hx as (a0 & <- & _). cbn. auto.
  - injection H as <-. now left.
Qed.

(** * resequence touches numbers only *)
Lemma set_leaf_seq_tag s l : leaf_tag (set_leaf_seq s l) = leaf_tag l.
Proof. destruct l; reflexivity. Qed.

Lemma reseq_leaves_tags : forall ls s step, ltags (snd (reseq_leaves s step ls)) = ltags ls.
Proof.
  induction ls as [|l t IH]; intros s step; [reflexivity|].
  destruct t as [|l2 t2]; [cbn; now rewrite set_leaf_seq_tag|].
  change (reseq_leaves s step (l :: l2 :: t2))
    with (let r := reseq_leaves (s + step) step (l2 :: t2) in (fst r, set_leaf_seq s l :: snd r)).
  cbn [snd ltags map]. rewrite set_leaf_seq_tag. f_equal. apply IH.
Qed.

Lemma reseq_tops_tags : forall tops s step r,
  reseq_tops s step tops = Ok r -> tags (snd r) = tags tops.
Proof.
  induction tops as [|t rest IH]; intros s step r H.
  - injection H as <-. reflexivity.
  - cbn [reseq_tops] in H.
    assert (P : forall p, (match t with
               | TLeaf l => Ok (s, TLeaf (set_leaf_seq s l))
               | TGrp id n name _ ls =>
                   match seq_args_ok s step with
                   | None => VErr
                   | Some step' =>
                       match ls with
                       | [] => Crash "RecursionError"
                       | _ => let r := reseq_leaves s step' ls in
                              if SEQUENCE_MAX <? fst r then VErr else Ok (fst r, TGrp id n name (fst r) (snd r))
                       end
                   end
               end) = Ok p -> ltags (top_leaves (snd p)) = ltags (top_leaves t)).
    { intros p Hp. destruct t as [l|id n name s0 ls].
      - injection Hp as <-. cbn. now rewrite set_leaf_seq_tag.
      - destruct (seq_args_ok s step) as [step'|]; [|discriminate].
        destruct ls as [|l0 ls0]; [discriminate|].
        set (rr := reseq_leaves s step' (l0 :: ls0)) in *. cbv zeta in Hp.
        destruct (SEQUENCE_MAX <? fst rr); [discriminate|]. injection Hp as <-.
        cbn [snd top_leaves]. apply reseq_leaves_tags. }
    match type of H with (do p <- ?e; _) = _ => destruct e as [p| | | |] eqn:Ep end; cbn in H; try discriminate.
    specialize (P p eq_refl).
    destruct rest as [|t2 rest2].
    + injection H as <-. cbn [snd]. unfold tags. cbn [flat flat_map]. rewrite !app_nil_r. exact P.
    + destruct (reseq_tops (fst p + step) step (t2 :: rest2)) as [q| | | |] eqn:Eq; cbn in H; try discriminate.
      injection H as <-. cbn [snd]. remember (t2 :: rest2) as R. unfold tags in *.
      change (flat (snd p :: snd q)) with (top_leaves (snd p) ++ flat (snd q)).
      change (flat (t :: R)) with (top_leaves t ++ flat R).
      rewrite !map_app, (IH _ _ _ Eq). f_equal. exact P.
Qed.

Theorem resequence_ids start step a a' :
  op_resequence start step a = Ok a' -> same_acl_id a a' /\ tags (o_tops a') = tags (o_tops a).
Proof.
  unfold op_resequence. destruct (seq_args_ok start step) as [step'|]; [|discriminate].
  destruct (reseq_tops start step' (o_tops a)) as [r| | | |] eqn:E; cbn; try discriminate.
  destruct (SEQUENCE_MAX <? fst r); [discriminate|]. intros H. injection H as <-.
  split; [split; reflexivity|]. cbn. now apply reseq_tops_tags in E.
Qed.

(** * sort / reverse: a permutation of the same objects *)
Lemma insert_top_perm x l : Permutation (insert_top x l) (x :: l).
Proof.
  induction l as [|y t IH]; cbn [insert_top]; [reflexivity|].
  destruct (top_seq x <=? top_seq y); [reflexivity|].
  rewrite IH. apply perm_swap.
Qed.

Lemma sort_tops_perm l : Permutation (sort_tops l) l.
Proof.
  induction l as [|x t IH]; cbn; [reflexivity|]. unfold sort_tops in *. cbn [fold_right].
  rewrite insert_top_perm. now constructor.
Qed.

Lemma tags_perm l l' : Permutation l l' -> Permutation (tags l) (tags l').
Proof.
  intros P. unfold tags. apply Permutation_map. unfold flat.
  induction P; cbn [flat_map].
  - reflexivity.
  - now apply Permutation_app_head.
  - rewrite !app_assoc. apply Permutation_app_tail. apply Permutation_app_comm.
  - etransitivity; eauto.
Qed.

Theorem sort_ids a a' :
  op_sort a = Ok a' -> same_acl_id a a' /\ Permutation (tags (o_tops a')) (tags (o_tops a)).
Proof.
  unfold op_sort. destruct (distinct (map top_seq (o_tops a))); [|discriminate].
  intros H. injection H as <-. split; [split; reflexivity|]. cbn. apply tags_perm, sort_tops_perm.
Qed.

Theorem reverse_ids a :
  same_acl_id a (op_reverse a) /\ Permutation (tags (o_tops (op_reverse a))) (tags (o_tops a)).
Proof. split; [split; reflexivity|]. cbn. apply tags_perm. symmetry. apply Permutation_rev. Qed.

(** * group / ungroup *)
Theorem group_ids gby a :
  same_acl_id a (op_group gby a) /\ none_invented a (op_group gby a) /\ entries_kept gby a (op_group gby a).
Proof.
  unfold op_group. destruct (str_nonempty gby).
  - split; [split; reflexivity|]. split.
    + intros tg H. cbn in H. unfold tags in *. apply in_map_iff in H as (r & <- & Hr).
      apply in_map. now apply regroup_sound in Hr.
    + intros l Hl NH. cbn. unfold tags. apply in_map. now apply regroup_keeps.
  - split; [split; reflexivity|]. split; [intros tg H; exact H|].
    intros l Hl _. unfold tags. now apply in_map.
Qed.

Theorem ungroup_ids a :
  same_acl_id a (op_ungroup a) /\ tags (o_tops (op_ungroup a)) = tags (o_tops a).
Proof. split; [split; reflexivity|]. cbn. unfold tags. now rewrite flat_TLeaf. Qed.

(** * ungroup_ports: entries that are not split are kept; the new ones carry a parent's note *)
Definition note_inherited (a a' : acl) : Prop :=
  forall id n, In (id, n) (tags (o_tops a')) -> In (id, n) (tags (o_tops a)) \/ (id = 0 /\ exists id0, In (id0, n) (tags (o_tops a))).

Lemma split_leaves_spec c : forall ls r,
  flat_map_res (split_leaf c) ls = Ok r ->
  (forall x, In x r -> In x ls \/ (leaf_id x = 0 /\ (forall gby, is_head gby x = false) /\ exists l, In l ls /\ leaf_note x = leaf_note l))
  /\ (forall l, In l ls -> split_leaf c l = Ok [l] -> In l r).
Proof.
  intros ls r H. apply flat_map_res_spec in H as (rs & F & ->). split.
  - intros x Hx. apply in_concat in Hx as (chunk & Hc & Hx).
    induction F as [|l ch ls rs Hl F IH]; [destruct Hc|].
    destruct Hc as [<-|Hc].
    + destruct (split_leaf_ids _ _ _ Hl) as [->|Fa].
      * destruct Hx as [<-|[]]. left. now left.
      * rewrite Forall_forall in Fa. destruct (Fa x Hx) as (I & Nn & Hh). right. split; auto. split; auto.
        exists l. split; [now left|auto].
    + destruct (IH Hc) as [H1|(I & Hh & l0 & H0 & Nn)]; [left; now right|].
      right. split; auto. split; auto. exists l0. split; [now right|auto].
  - intros l Hl Hs. induction F as [|l0 ch ls rs Hl0 F IH]; [destruct Hl|].
    cbn [concat]. apply in_or_app. destruct Hl as [->|Hl].
    + left. rewrite Hs in Hl0. injection Hl0 as <-. now left.
    + right. now apply IH.
Qed.

Lemma split_tops_spec c : forall tops r,
  flat_map_res (split_top c) tops = Ok r ->
  (forall x, In x (flat r) -> In x (flat tops) \/ (leaf_id x = 0 /\ (forall gby, is_head gby x = false) /\ exists l, In l (flat tops) /\ leaf_note x = leaf_note l))
  /\ (forall l, In l (flat tops) -> split_leaf c l = Ok [l] -> In l (flat r)).
Proof.
  induction tops as [|t rest IH]; intros r H; cbn [flat_map_res] in H.
  - injection H as <-. split; [intros x []|intros l []].
  - destruct (split_top c t) as [y| | | |] eqn:Et; cbn in H; try discriminate.
    destruct (flat_map_res (split_top c) rest) as [r'| | | |] eqn:Er; cbn in H; try discriminate.
    injection H as <-. destruct (IH r' eq_refl) as [A B].
    assert (T : (forall x, In x (flat y) -> In x (top_leaves t) \/ (leaf_id x = 0 /\ (forall gby, is_head gby x = false) /\ exists l, In l (top_leaves t) /\ leaf_note x = leaf_note l))
                /\ (forall l, In l (top_leaves t) -> split_leaf c l = Ok [l] -> In l (flat y))).
    { destruct t as [l0|id n name s ls]; cbn [split_top] in Et.
      - destruct (split_leaf c l0) as [r0| | | |] eqn:E0; cbn in Et; try discriminate. injection Et as <-.
        rewrite flat_TLeaf. cbn [top_leaves].
        assert (E1 : flat_map_res (split_leaf c) [l0] = Ok r0).
        { cbn [flat_map_res]. rewrite E0. cbn. now rewrite app_nil_r. }
        exact (split_leaves_spec c [l0] r0 E1).
      - destruct (flat_map_res (split_leaf c) ls) as [r0| | | |] eqn:E0; cbn in Et; try discriminate. injection Et as <-.
        cbn [flat flat_map top_leaves]. rewrite app_nil_r. exact (split_leaves_spec c ls r0 E0). }
    destruct T as [T1 T2]. rewrite flat_app. cbn [flat flat_map]. fold (flat rest). split.
    + intros x Hx. apply in_app_or in Hx as [Hx|Hx].
      * destruct (T1 x Hx) as [H1|(I & Hh & l0 & H0 & Nn)]; [left; apply in_or_app; now left|].
        right. split; auto. split; auto. exists l0. split; [apply in_or_app; now left|auto].
      * destruct (A x Hx) as [H1|(I & Hh & l0 & H0 & Nn)]; [left; apply in_or_app; now right|].
        right. split; auto. split; auto. exists l0. split; [apply in_or_app; now right|auto].
    + intros l Hl Hs. apply in_or_app. apply in_app_or in Hl as [Hl|Hl]; [left; now apply T2|right; now apply B].
Qed.

Theorem ungroup_ports_ids a a' :
  op_ungroup_ports a = Ok a' ->
  same_acl_id a a' /\ note_inherited a a'
  /\ (forall l, In l (flat (o_tops a)) -> split_leaf (o_cfg a) l = Ok [l] -> is_head (o_gby a) l = false ->
      In (leaf_tag l) (tags (o_tops a'))).
Proof.
  unfold op_ungroup_ports.
  destruct (flat_map_res (split_top (o_cfg a)) (o_tops a)) as [tops| | | |] eqn:E; cbn; try discriminate.
  intros H. injection H as <-. destruct (split_tops_spec _ _ _ E) as [A B].
  split; [split; reflexivity|]. split.
  - intros id n Hin. cbn in Hin. unfold tags in Hin. apply in_map_iff in Hin as (x & Hx & Hin).
    apply set_items_sound in Hin. destruct (A x Hin) as [H1|(I & _ & l0 & H0 & Nn)].
    + left. rewrite <- Hx. unfold tags. now apply in_map.
    + right. unfold leaf_tag in Hx. injection Hx as <- <-. split; auto.
      exists (leaf_id l0). rewrite Nn. unfold tags. change (leaf_id l0, leaf_note l0) with (leaf_tag l0). now apply in_map.
  - intros l Hl Hs NH. cbn. unfold tags. apply in_map. apply set_items_keeps; auto.
Qed.

(** * platform: (for nxos) the split, then a conversion that keeps every object *)
Lemma leaf_set_platform_tag c' l r : leaf_set_platform c' l = Ok r -> leaf_tag r = leaf_tag l.
Proof.
  destruct l as [id n t|id n s x]; cbn [leaf_set_platform]; intros H.
  - destruct (ace_set_platform c' t); cbn in H; try discriminate. now injection H as <-.
  - now injection H as <-.
Qed.

Lemma grp_leaf_platform_tag c c' b l r : grp_leaf_platform c c' b l = Ok r -> leaf_tag r = leaf_tag l.
Proof.
  unfold grp_leaf_platform. intros H.
  match type of H with (do l1 <- ?e; _) = _ => destruct e as [l1| | | |] eqn:E end; cbn in H; try discriminate.
  apply leaf_set_platform_tag in H. apply rebuild_leaf_tag in E. congruence.
Qed.

Lemma grp_leaves_platform_tags c c' : forall ls b rs,
  grp_leaves_platform c c' b ls = Ok rs -> ltags rs = ltags ls.
Proof.
  induction ls as [|l t IH]; intros b rs H; cbn [grp_leaves_platform] in H.
  - now injection H as <-.
  - destruct (grp_leaf_platform c c' b l) as [r| | | |] eqn:E; cbn in H; try discriminate.
    destruct (grp_leaves_platform c c' false t) as [rs'| | | |] eqn:E'; cbn in H; try discriminate.
    injection H as <-. cbn. rewrite (grp_leaf_platform_tag _ _ _ _ _ E). f_equal. now apply (IH false).
Qed.

Lemma top_set_platform_tags c c' t r :
  top_set_platform c c' t = Ok r -> ltags (top_leaves r) = ltags (top_leaves t).
Proof.
  destruct t as [l|id n name s ls]; cbn [top_set_platform]; intros H.
  - destruct (leaf_set_platform c' l) as [l'| | | |] eqn:E; cbn in H; try discriminate.
    injection H as <-. cbn. now rewrite (leaf_set_platform_tag _ _ _ E).
  - destruct (grp_leaves_platform c c' true ls) as [ls1| | | |] eqn:E1; cbn in H; try discriminate.
    destruct (map_res (rebuild_leaf c' c') ls1) as [ls2| | | |] eqn:E2; cbn in H; try discriminate.
    injection H as <-. cbn [top_leaves]. apply rebuild_leaves_tags in E2. apply grp_leaves_platform_tags in E1. congruence.
Qed.

Lemma tops_set_platform_tags c c' : forall tops rs,
  map_res (top_set_platform c c') tops = Ok rs -> tags rs = tags tops.
Proof.
  intros tops rs H. apply map_res_Forall2 in H. unfold tags.
  induction H as [|t r tops rs Ht F IH]; [reflexivity|].
  change (flat (r :: rs)) with (top_leaves r ++ flat rs).
  change (flat (t :: tops)) with (top_leaves t ++ flat tops).
  rewrite !map_app, IH. f_equal. apply (top_set_platform_tags _ _ _ _ Ht).
Qed.

Theorem platform_ids p a a' :
  op_platform p a = Ok a' ->
  same_acl_id a a' /\
  exists a1, (match p with Nxos => op_ungroup_ports a = Ok a1 | _ => a1 = a end)
             /\ tags (o_tops a') = tags (o_tops a1).
Proof.
  unfold op_platform. intros H.
  match type of H with (do a1 <- ?e; _) = _ => destruct e as [a1| | | |] eqn:E end; cbn in H; try discriminate.
  destruct (map_res (top_set_platform (o_cfg a) (with_plat (o_cfg a) p)) (o_tops a1)) as [tops| | | |] eqn:E2;
    cbn in H; try discriminate.
  injection H as <-. split; [split; reflexivity|]. exists a1. split.
  - destruct p; try (now injection E as <-). exact E.
  - cbn. now apply tops_set_platform_tags in E2.
Qed.

Corollary platform_note_inherited p a a' : op_platform p a = Ok a' -> note_inherited a a'.
Proof.
  intros H. destruct (platform_ids _ _ _ H) as (_ & a1 & H1 & T).
  intros id n Hin. rewrite T in Hin. destruct p.
  - subst a1. now left.
  - subst a1. now left.
  - destruct (ungroup_ports_ids _ _ H1) as (_ & NI & _). now apply NI.
Qed.

(** * all in-place transformations at once: the ACL keeps its identifier and note, and every
      (identifier, note) found afterwards was there before, or is a new object (identifier 0)
      carrying the note of an entry that was there before *)
Definition inplace (o : op) : bool :=
  match o with
  | OpPlatform _ | OpPortNr _ | OpProtocolNr _ | OpTypeExt | OpResequence _ _ | OpGroup _ | OpUngroup
  | OpSort | OpReverse | OpUngroupPorts => true
  | _ => false
  end.

Lemma none_invented_inherited a a' : none_invented a a' -> note_inherited a a'.
Proof. intros H id n Hin. left. now apply H. Qed.

Lemma perm_inherited a a' : Permutation (tags (o_tops a')) (tags (o_tops a)) -> note_inherited a a'.
Proof. intros P id n Hin. left. eapply Permutation_in; eauto. Qed.

Lemma eq_inherited a a' : tags (o_tops a') = tags (o_tops a) -> note_inherited a a'.
Proof. intros E id n Hin. left. now rewrite <- E. Qed.

Theorem inplace_ids o a a' :
  inplace o = true -> Ops.step a o = Ok a' -> same_acl_id a a' /\ note_inherited a a'.
Proof.
  destruct o; unfold Ops.step; cbn [inplace]; try discriminate; intros _ H.
  - split; [apply (platform_ids _ _ _ H)|now apply platform_note_inherited in H].
  - destruct (reinit_ids _ _ _ H) as (I & N & _). split; auto. now apply none_invented_inherited.
  - destruct (reinit_ids _ _ _ H) as (I & N & _). split; auto. now apply none_invented_inherited.
  - unfold op_type_ext in H.
    destruct (map_res (rebuild_top (o_cfg a) (o_cfg a)) (o_tops a)) as [tops| | | |] eqn:E; cbn in H; try discriminate.
    destruct (reinit_ids _ _ _ H) as ((I1 & I2) & N & _). cbn in I1, I2. split; [split; auto|].
    intros id n Hin. left. apply N in Hin. unfold with_tops in Hin. cbn [o_tops] in Hin. now rewrite (rebuild_tops_tags _ _ _ _ E) in Hin.
  - destruct (resequence_ids _ _ _ _ H) as (I & T). split; auto. now apply eq_inherited.
  - injection H as <-. destruct (group_ids gby a) as (I & N & _). split; auto. now apply none_invented_inherited.
  - injection H as <-. destruct (ungroup_ids a) as (I & T). split; auto. now apply eq_inherited.
  - destruct (sort_ids _ _ H) as (I & P). split; auto. now apply perm_inherited.
  - injection H as <-. destruct (reverse_ids a) as (I & P). split; auto. now apply perm_inherited.
  - destruct (ungroup_ports_ids _ _ H) as (I & N & _). split; auto.
Qed.

(** * copy(): new objects everywhere, the notes travel *)
Lemma fresh_tag l : leaf_tag (fresh l) = (0, leaf_note l).
Proof. destruct l; reflexivity. Qed.

Lemma fresh_tops_tags tops : tags (map fresh_top tops) = map (fun tg => (0, snd tg)) (tags tops).
Proof.
  unfold tags. induction tops as [|t rest IH]; [reflexivity|].
  change (flat (map fresh_top (t :: rest))) with (top_leaves (fresh_top t) ++ flat (map fresh_top rest)).
  change (flat (t :: rest)) with (top_leaves t ++ flat rest).
  rewrite !map_app, IH. f_equal.
  destruct t as [l|id n name s ls]; cbn [fresh_top top_leaves map].
  - now rewrite fresh_tag.
  - rewrite !map_map. apply map_ext. intros l. now rewrite fresh_tag.
Qed.

Theorem copy_ids a a' :
  op_copy a = Ok a' ->
  o_id a' = 0 /\ o_note a' = o_note a
  /\ Forall (fun tg => fst tg = 0) (tags (o_tops a'))
  /\ (forall n, In n (map snd (tags (o_tops a'))) -> In n (map snd (tags (o_tops a))))
  /\ (forall l, In l (flat (o_tops a)) -> is_head (o_gby a) l = false -> In (0, leaf_note l) (tags (o_tops a'))).
Proof.
  unfold op_copy. destruct (reinit (o_cfg a) a) as [r| | | |] eqn:E; cbn; try discriminate.
  intros H. injection H as <-. destruct (reinit_ids _ _ _ E) as ((I1 & I2) & N & K). cbn [o_id o_note o_tops].
  split; [reflexivity|]. split; [exact I2|]. rewrite fresh_tops_tags. split; [|split].
  - apply Forall_forall. intros tg Htg. apply in_map_iff in Htg as (x & <- & _). reflexivity.
  - intros n Hn. rewrite map_map in Hn. cbn in Hn. apply in_map_iff in Hn as (tg & <- & Htg).
    apply in_map. now apply N.
  - intros l Hl NH. specialize (K l Hl NH). apply in_map_iff. exists (leaf_tag l). split; [reflexivity|exact K].
Qed.
