(** C17 / C06: re-creating an Acl from its own text (Acl(acl.line, ...)) - for every Acl, grouped
    or not, whose entries are remarks and reader-built extended ACEs, the new object is flat,
    consists of fresh objects only and has exactly the same entries in the same order; hence the
    same lines and the same decision for every packet. *)
From V Require Import base.Prelude base.Strs gen.Tables model.Cfg model.Names model.Wildcard
  model.Addr model.Ports model.Ace model.Lex model.AddrText model.AceText model.AclText
  model.Shading model.SplitPorts model.Platform model.Ops spec.AceSem spec.AclSem
  proofs.DeleteShadowProofs proofs.HistoryProofs proofs.AclFixProofs.
Local Open Scope N_scope.

Lemma leaf_of_aitem_inv i : leaf_aitem (leaf_of_aitem i) = i.
Proof. destruct i; reflexivity. Qed.

Lemma flat_leaves ls : flat (map TLeaf ls) = ls.
Proof. induction ls as [|l t IH]; [reflexivity|]. unfold flat in *. cbn [map flat_map top_leaves app]. now rewrite IH. Qed.

Lemma leaf_item_aitem l l' : leaf_aitem l = leaf_aitem l' -> leaf_item l = leaf_item l'.
Proof. destruct l, l'; cbn; intros E; try discriminate; [now injection E as ->|reflexivity]. Qed.

Theorem reparse_built a :
  (plat (o_cfg a) = Ios \/ plat (o_cfg a) = Nxos) ->
  Forall (fun l => item_built (o_cfg a) (leaf_aitem l)) (flat (o_tops a)) ->
  exists a', op_reparse a = Ok a'
    /\ o_cfg a' = o_cfg a /\ o_name a' = o_name a /\ o_gby a' = ""%string
    /\ map leaf_aitem (flat (o_tops a')) = map leaf_aitem (flat (o_tops a))
    /\ Forall (fun l => leaf_id l = 0 /\ leaf_note l = 0) (flat (o_tops a'))
    /\ acl_lines a' = acl_lines a
    /\ forall k, acl_decide a' k = acl_decide a k.
Proof.
  intros Hpl HB. set (c := o_cfg a) in *. set (items := map leaf_aitem (flat (o_tops a))).
  assert (FB : Forall (item_built c) items).
  { unfold items. apply Forall_forall. intros i Hi. apply in_map_iff in Hi as (l & <- & Hl).
    rewrite Forall_forall in HB. now apply HB. }
  destruct (acl_body_built_fixpoint c Hpl items FB) as (_ & AB & IO).
  assert (EL : map (leaf_line c) (flat (o_tops a)) = map (render_item c) items).
  { unfold items. rewrite map_map. reflexivity. }
  unfold op_reparse. fold c. rewrite EL, AB, IO.
  eexists. split; [reflexivity|]. cbn [o_cfg o_name o_gby o_tops].
  assert (FL : flat (map (fun i => TLeaf (leaf_of_aitem i)) items) = map leaf_of_aitem items).
  { rewrite <- (map_map leaf_of_aitem TLeaf). apply flat_leaves. }
  assert (EA : map leaf_aitem (map leaf_of_aitem items) = items).
  { rewrite map_map. rewrite <- (map_id items) at 2. apply map_ext. exact leaf_of_aitem_inv. }
  split; [reflexivity|]. split; [reflexivity|]. split; [reflexivity|].
  rewrite FL. split; [exact EA|]. split.
  { apply Forall_forall. intros l Hl. apply in_map_iff in Hl as (i & <- & _). destruct i; split; reflexivity. }
  split.
  { unfold acl_lines. cbn [o_cfg o_name o_tops]. fold c. f_equal. rewrite FL.
    unfold leaf_line. rewrite <- (map_map leaf_aitem (render_item c)), EA.
    unfold items. now rewrite map_map. }
  intros k. unfold acl_decide, den_items. cbn [o_tops]. rewrite FL. f_equal.
  assert (G : forall ls ls', map leaf_aitem ls = map leaf_aitem ls' -> map leaf_item ls = map leaf_item ls').
  { induction ls as [|x xs IH]; intros [|y ys] E; cbn [map] in *; try discriminate; [reflexivity|].
    injection E as E1 E2. now rewrite (leaf_item_aitem x y E1), (IH ys E2). }
  apply G. exact EA.
Qed.
