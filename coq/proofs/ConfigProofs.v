(** Proofs about the config-level model (C07): binding attribution. *)
From V Require Import base.Prelude base.Strs gen.Tables model.Cfg model.Names model.Lex model.Config.

Lemma insert_str_In x l y : In y (insert_str x l) <-> y = x \/ In y l.
Proof.
  induction l as [|z t IH]; cbn; [intuition congruence|].
  destruct (str_leb x z); cbn; [intuition congruence|]. rewrite IH. intuition congruence.
Qed.

Lemma sort_str_In l y : In y (sort_str l) <-> In y l.
Proof.
  induction l as [|x t IH]; cbn; [tauto|].
  change (fold_right insert_str [] t) with (sort_str t). rewrite insert_str_In, IH. intuition congruence.
Qed.

Lemma dedup_In l y : In y (dedup l) <-> In y l.
Proof.
  induction l as [|x t IH]; cbn; [tauto|]. destruct (mem_str x t) eqn:M.
  - rewrite IH. split; [auto|]. intros [->|H]; auto. now apply mem_str_In.
  - cbn. rewrite IH. tauto.
Qed.

Lemma starts_with_prefix p q s : starts_with (p ++ q) s = true -> starts_with p s = true.
Proof.
  revert s. induction p as [|a p IH]; intros s H; [reflexivity|].
  destruct s as [|b s]; cbn in *; [discriminate|].
  apply andb_prop in H as [H1 H2]. rewrite H1. cbn. now apply IH.
Qed.

Lemma find_sub_prefix p q l r : find_sub (p ++ q) l = Some r -> contains_sub p l = true.
Proof.
  unfold contains_sub. revert r. induction l as [|c l IH]; intros r F.
  - cbn [find_sub] in *. destruct (starts_with (p ++ q) "") eqn:S; [|discriminate].
    apply starts_with_prefix in S. now rewrite S.
  - cbn [find_sub] in *. destruct (starts_with (p ++ q) (String c l)) eqn:S.
    + apply starts_with_prefix in S. now rewrite S.
    + destruct (starts_with p (String c l)); [reflexivity|]. eapply IH; eauto.
Qed.

(** the bindings found in a dictionary: exactly the (list, direction, interface) triples written
    as "ip access-group LIST DIR" in the body of a section *)
Lemma bindings_spec d : forall bs, bindings d = BOk bs ->
  forall n dir k, In (n, dir, k) bs <->
    exists body l, In (k, body) d /\ In l body /\ binding_of_line l = Some (n, dir) /\
                   existsb (contains_sub "ip access-group") body = true.
Proof.
  induction d as [|[k0 body0] t IH]; intros bs H n dir k; cbn [bindings] in H.
  - injection H as <-. split; [intros []|intros (b & l & [] & _)].
  - destruct (existsb (contains_sub "ip access-group") body0) eqn:HX.
    + destruct (negb (starts_with "interface " k0)); [discriminate|].
      destruct (negb (forallb _ _)); [discriminate|].
      destruct (bindings t) as [r|] eqn:ER; [|discriminate]. injection H as <-.
      rewrite in_app_iff, in_map_iff. rewrite (IH r eq_refl). split.
      * intros [((n', d') & E & Hin)|(b & l & Hb & Hl & Hbl & HE)].
        -- injection E as <- <- <-. apply in_flat_map in Hin as (l & Hl & Hm).
           destruct (binding_of_line l) as [[n2 d2]|] eqn:B; [|destruct Hm].
           destruct Hm as [[= <- <-]|[]]. exists body0, l. repeat split; auto. now left.
        -- exists b, l. repeat split; auto. now right.
      * intros (b & l & [[= <- <-]|Hb] & Hl & Hbl & HE).
        -- left. exists (n, dir). split; auto. apply in_flat_map. exists l. split; auto. rewrite Hbl. now left.
        -- right. exists b, l. auto.
    + rewrite (IH bs H). split; intros (b & l & Hb & Hl & Hbl & HE).
      * exists b, l. repeat split; auto. now right.
      * destruct Hb as [[= <- <-]|Hb]; [congruence|]. exists b, l. auto.
Qed.

(** an interface is listed as input (output) of a list exactly when one of its sections binds
    that list in that direction *)
Theorem ifaces_spec d bs name dir k :
  bindings d = BOk bs ->
  (In k (ifaces_of name dir bs) <->
   exists body l, In (k, body) d /\ In l body /\ binding_of_line l = Some (name, dir)).
Proof.
  intros H. unfold ifaces_of. rewrite dedup_In, sort_str_In, in_flat_map. split.
  - intros (((n, d0), k') & Hin & Hm). cbn [fst snd] in Hm.
    destruct (String.eqb n name && String.eqb d0 dir) eqn:E; [|destruct Hm].
    destruct Hm as [<-|[]]. apply andb_prop in E as [E1 E2].
    apply String.eqb_eq in E1, E2. subst.
    apply (bindings_spec d bs H) in Hin as (b & l & Hb & Hl & Hbl & _). exists b, l. auto.
  - intros (b & l & Hb & Hl & Hbl). exists (name, dir, k). split.
    + apply (bindings_spec d bs H). exists b, l. repeat split; auto.
      apply existsb_exists. exists l. split; auto. unfold binding_of_line in Hbl.
      destruct (find_sub "ip access-group " l) eqn:F; [|discriminate].
      change "ip access-group " with ("ip access-group" ++ " ")%string in F.
      now apply (find_sub_prefix "ip access-group" " " l s).
    + cbn [fst snd]. rewrite !String.eqb_refl. cbn [andb]. now left.
Qed.

(** * a configuration assembled from sections is read back as exactly these sections
    A section = a header line (not indented) followed by at least one indented line.  For
    pairwise distinct headers the section dictionary is the list of sections, in order. *)
Definition section_lines (s : string * list string) : list cline :=
  (false, fst s) :: map (fun b => (true, b)) (snd s).
Definition lines_of (secs : list (string * list string)) : list cline := flat_map section_lines secs.

Lemma dic_get_absent k (P : dic) : ~ In k (map fst P) -> dic_get k P = None.
Proof.
  induction P as [|[k' v] t IH]; cbn; [reflexivity|]. intros H.
  destruct (String.eqb k k') eqn:E; [apply String.eqb_eq in E; subst; tauto|]. apply IH. tauto.
Qed.

Lemma dic_get_last k v (P : dic) : ~ In k (map fst P) -> dic_get k (P ++ [(k, v)]) = Some v.
Proof.
  induction P as [|[k' v'] t IH]; cbn; intros H; [now rewrite String.eqb_refl|].
  destruct (String.eqb k k') eqn:E; [apply String.eqb_eq in E; subst; tauto|]. apply IH. tauto.
Qed.

Lemma dic_set_absent k v (P : dic) : ~ In k (map fst P) -> dic_set k v P = P ++ [(k, v)].
Proof.
  induction P as [|[k' v'] t IH]; cbn; [reflexivity|]. intros H.
  destruct (String.eqb k k') eqn:E; [apply String.eqb_eq in E; subst; tauto|]. rewrite IH; tauto.
Qed.

Lemma dic_set_last k v v0 (P : dic) : ~ In k (map fst P) -> dic_set k v (P ++ [(k, v0)]) = P ++ [(k, v)].
Proof.
  induction P as [|[k' v'] t IH]; cbn; intros H; [now rewrite String.eqb_refl|].
  destruct (String.eqb k k') eqn:E; [apply String.eqb_eq in E; subst; tauto|]. rewrite IH; tauto.
Qed.

(** the body lines of the current section, one by one *)
Lemma body_fold k : forall body (P : dic) done,
  ~ In k (map fst P) -> done <> [] ->
  fold_left dic_step (map (fun b => (true, b)) body) (P ++ [(k, done)], k) = (P ++ [(k, done ++ body)], k).
Proof.
  induction body as [|b body IH]; intros P done HP HD; cbn [map fold_left].
  - now rewrite app_nil_r.
  - unfold dic_step at 2. cbn [fst snd]. rewrite (dic_get_last k done P HP).
    destruct done as [|x xs]; [congruence|]. rewrite (dic_set_last _ _ _ _ HP).
    etransitivity; [apply (IH P ((x :: xs) ++ [b]) HP); destruct xs; discriminate|]. now rewrite <- app_assoc.
Qed.

Lemma sections_fold : forall secs (P : dic) key,
  NoDup (map fst P ++ map fst secs) ->
  Forall (fun s => snd s <> []) secs ->
  (* the previous key is settled: present with a non-empty body, or not an interface key *)
  (is_interface_key key = false \/ exists v, dic_get key P = Some v /\ v <> []) ->
  exists key', fold_left dic_step (lines_of secs) (P, key) = (P ++ secs, key').
Proof.
  induction secs as [|[k body] rest IH]; intros P key ND NE HK.
  - exists key. cbn. now rewrite app_nil_r.
  - unfold lines_of. cbn [flat_map]. rewrite fold_left_app.
    change (section_lines (k, body)) with ((false, k) :: map (fun b => (true, b)) body). cbn [fold_left].
    inversion NE as [|? ? Hb NE']; subst. cbn [snd] in Hb.
    assert (HkP : ~ In k (map fst P)).
    { intro C. apply NoDup_remove_2 in ND. apply ND. apply in_or_app. now left. }
    (* the header line *)
    assert (E1 : dic_step (P, key) (false, k) = (P, k)).
    { unfold dic_step. cbn [fst snd]. destruct HK as [HK|(v & Gv & Nv)].
      - now rewrite HK.
      - destruct (is_interface_key key); [|reflexivity]. rewrite Gv. destruct v; [congruence|reflexivity]. }
    rewrite E1.
    (* the first body line creates the entry, the others append *)
    destruct body as [|b0 body]; [congruence|]. cbn [map fold_left].
    assert (E2 : dic_step (P, k) (true, b0) = (P ++ [(k, [b0])], k)).
    { unfold dic_step. cbn [fst snd]. rewrite (dic_get_absent k P HkP). now rewrite (dic_set_absent _ _ _ HkP). }
    rewrite E2, (body_fold k body P [b0] HkP); [|discriminate]. cbn [app].
    destruct (IH (P ++ [(k, b0 :: body)]) k) as (key' & EF).
    + rewrite map_app. cbn [map fst]. rewrite <- app_assoc. cbn [app].
      cbn [map fst] in ND. exact ND.
    + exact NE'.
    + right. exists (b0 :: body). split; [now apply dic_get_last|discriminate].
    + exists key'. unfold lines_of in EF. etransitivity; [exact EF|]. now rewrite <- app_assoc.
Qed.

Theorem parse_dic_sections secs :
  NoDup (map fst secs) -> Forall (fun s => snd s <> []) secs ->
  parse_dic (lines_of secs) = secs.
Proof.
  intros ND NE. unfold parse_dic.
  destruct (sections_fold secs [] "" ND NE) as (key' & E).
  - left. reflexivity.
  - change ([] ++ secs) with secs in E. now apply (f_equal fst) in E.
Qed.

(** * unrelated sections do not change the result *)
(** a section that is neither an access list nor an address group and mentions no access-group *)
Definition noise (e : string * list string) : Prop :=
  acl_key (fst e) = None /\ addgr_key (fst e) = None /\ existsb (contains_sub "ip access-group") (snd e) = false.

Lemma bindings_noise d1 e d2 : noise e -> bindings (d1 ++ e :: d2) = bindings (d1 ++ d2).
Proof.
  intros (_ & _ & N). induction d1 as [|[k body] t IH]; cbn [app bindings].
  - destruct e as [k body]. cbn [snd] in N. now rewrite N.
  - destruct (existsb (contains_sub "ip access-group") body); [|exact IH].
    destruct (negb (starts_with "interface " k)); [reflexivity|].
    destruct (negb (forallb _ _)); [reflexivity|]. now rewrite IH.
Qed.

Theorem noise_irrelevant pl names d1 e d2 : noise e ->
  acl_sections pl names (d1 ++ e :: d2) = acl_sections pl names (d1 ++ d2)
  /\ addgr_sections (d1 ++ e :: d2) = addgr_sections (d1 ++ d2).
Proof.
  intros N. pose proof N as (A & G & _). split.
  - unfold acl_sections. rewrite (bindings_noise d1 e d2 N).
    rewrite !flat_map_app. cbn [flat_map]. rewrite A. reflexivity.
  - unfold addgr_sections. rewrite !flat_map_app. cbn [flat_map]. rewrite G. reflexivity.
Qed.
