(** Proofs about the config-level model (C07): binding attribution. *)
From V Require Import base.Prelude base.Strs gen.Tables model.Cfg model.Names model.Lex model.Config.

Lemma insert_str_In x l y : In y (insert_str x l) <-> y = x \/ In y l.
Proof.
  induction l as [|z t IH]; cbn; [intuition congruence|].
  destruct (str_leb x z); cbn; [intuition congruence|]. rewrite IH. intuition congruence.
Qed.

Lemma sort_str_In l y : In y (sort_str l) <-> In y l.
Proof.
  induction l as [|x t IH]; cbn; [tauto|].
  change (fold_right insert_str [] t) with (sort_str t). rewrite insert_str_In, IH. intuition congruence.
Qed.

Lemma dedup_In l y : In y (dedup l) <-> In y l.
Proof.
  induction l as [|x t IH]; cbn; [tauto|]. destruct (mem_str x t) eqn:M.
  - rewrite IH. split; [auto|]. intros [->|H]; auto. now apply mem_str_In.
  - cbn. rewrite IH. tauto.
Qed.

Lemma starts_with_prefix p q s : starts_with (p ++ q) s = true -> starts_with p s = true.
Proof.
  revert s. induction p as [|a p IH]; intros s H; [reflexivity|].
  destruct s as [|b s]; cbn in *; [discriminate|].
  apply andb_prop in H as [H1 H2]. rewrite H1. cbn. now apply IH.
Qed.

Lemma find_sub_prefix p q l r : find_sub (p ++ q) l = Some r -> contains_sub p l = true.
Proof.
  unfold contains_sub. revert r. induction l as [|c l IH]; intros r F.
  - cbn [find_sub] in *. destruct (starts_with (p ++ q) "") eqn:S; [|discriminate].
    apply starts_with_prefix in S. now rewrite S.
  - cbn [find_sub] in *. destruct (starts_with (p ++ q) (String c l)) eqn:S.
    + apply starts_with_prefix in S. now rewrite S.
    + destruct (starts_with p (String c l)); [reflexivity|]. eapply IH; eauto.
Qed.

(** the bindings found in a dictionary: exactly the (list, direction, interface) triples written
    as "ip access-group LIST DIR" in the body of a section *)
Lemma bindings_spec d : forall bs, bindings d = BOk bs ->
  forall n dir k, In (n, dir, k) bs <->
    exists body l, In (k, body) d /\ In l body /\ binding_of_line l = Some (n, dir) /\
                   existsb (contains_sub "ip access-group") body = true.
Proof.
  induction d as [|[k0 body0] t IH]; intros bs H n dir k; cbn [bindings] in H.
  - injection H as <-. split; [intros []|intros (b & l & [] & _)].
  - destruct (existsb (contains_sub "ip access-group") body0) eqn:HX.
    + destruct (negb (starts_with "interface " k0)); [discriminate|].
      destruct (negb (forallb _ _)); [discriminate|].
      destruct (bindings t) as [r|] eqn:ER; [|discriminate]. injection H as <-.
      rewrite in_app_iff, in_map_iff. rewrite (IH r eq_refl). split.
      * intros [((n', d') & E & Hin)|(b & l & Hb & Hl & Hbl & HE)].
        -- injection E as <- <- <-. apply in_flat_map in Hin as (l & Hl & Hm).
           destruct (binding_of_line l) as [[n2 d2]|] eqn:B; [|destruct Hm].
           destruct Hm as [[= <- <-]|[]]. exists body0, l. repeat split; auto. now left.
        -- exists b, l. repeat split; auto. now right.
      * intros (b & l & [[= <- <-]|Hb] & Hl & Hbl & HE).
        -- left. exists (n, dir). split; auto. apply in_flat_map. exists l. split; auto. rewrite Hbl. now left.
        -- right. exists b, l. auto.
    + rewrite (IH bs H). split; intros (b & l & Hb & Hl & Hbl & HE).
      * exists b, l. repeat split; auto. now right.
      * destruct Hb as [[= <- <-]|Hb]; [congruence|]. exists b, l. auto.
Qed.

(** an interface is listed as input (output) of a list exactly when one of its sections binds
    that list in that direction *)
Theorem ifaces_spec d bs name dir k :
  bindings d = BOk bs ->
  (In k (ifaces_of name dir bs) <->
   exists body l, In (k, body) d /\ In l body /\ binding_of_line l = Some (name, dir)).
Proof.
  intros H. unfold ifaces_of. rewrite dedup_In, sort_str_In, in_flat_map. split.
  - intros (((n, d0), k') & Hin & Hm). cbn [fst snd] in Hm.
    destruct (String.eqb n name && String.eqb d0 dir) eqn:E; [|destruct Hm].
    destruct Hm as [<-|[]]. apply andb_prop in E as [E1 E2].
    apply String.eqb_eq in E1, E2. subst.
    apply (bindings_spec d bs H) in Hin as (b & l & Hb & Hl & Hbl & _). exists b, l. auto.
  - intros (b & l & Hb & Hl & Hbl). exists (name, dir, k). split.
    + apply (bindings_spec d bs H). exists b, l. repeat split; auto.
      apply existsb_exists. exists l. split; auto. unfold binding_of_line in Hbl.
      destruct (find_sub "ip access-group " l) eqn:F; [|discriminate].
      change "ip access-group " with ("ip access-group" ++ " ")%string in F.
      now apply (find_sub_prefix "ip access-group" " " l s).
    + cbn [fst snd]. rewrite !String.eqb_refl. cbn [andb]. now left.
Qed.
