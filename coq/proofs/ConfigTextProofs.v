(** Proofs about the text level of the config model (C07): from the configuration TEXT to the
    line model.  A configuration text is a sequence of raw lines joined by newlines: header lines
    (not indented, any trailing blanks), body lines (any non-empty indentation, any trailing
    blanks) and noise lines (blank lines, comment lines starting with "!").  [config_lines]
    reads such a text as exactly the header / body lines, whatever the indentation widths, the
    trailing blanks and the noise lines are; with [parse_dic_sections] the text of a list of
    sections is read back as exactly these sections. *)
From V Require Import base.Prelude base.Strs gen.Tables model.Cfg model.Names model.Lex model.Config
  proofs.ConfigProofs.
Local Open Scope string_scope.

Fixpoint all_ws (s : string) : bool :=
  match s with EmptyString => true | String c s' => is_ws c && all_ws s' end.
Fixpoint no_nl (s : string) : bool :=     (* no line-break character *)
  match s with EmptyString => true | String c s' => negb (is_linebreak c) && no_nl s' end.
(** neither starts nor ends with white space, and is not empty *)
Definition tight (s : string) : bool :=
  str_nonempty s && negb (first_is_ws s) && negb (first_is_ws (rev_str s "")).
(** the filter of parse_config *)
Definition keep (s : string) : bool := str_nonempty s && negb (starts_with "!" s).

Inductive raw :=
| RHdr (k t : string)              (* header text, trailing blanks *)
| RBody (i b t : string)           (* indentation, text, trailing blanks *)
| RNoise (n : string).             (* a blank line or a comment line *)

Definition raw_text (r : raw) : string :=
  match r with RHdr k t => k ++ t | RBody i b t => i ++ b ++ t | RNoise n => n end.

Definition raw_ok (r : raw) : bool :=
  match r with
  | RHdr k t => tight k && negb (starts_with "!" k) && no_nl k && all_ws t && no_nl t
  | RBody i b t => str_nonempty i && all_ws i && no_nl i && tight b && no_nl b && all_ws t && no_nl t
  | RNoise n => no_nl n && negb (keep (rstrip_ws n))
  end.

Definition erase (r : raw) : list cline :=
  match r with RHdr k _ => [(false, k)] | RBody _ b _ => [(true, b)] | RNoise _ => [] end.

(** the text: every raw line with its own terminator (any line-break character; "\r\n" is a line ended by
    "\r" followed by an empty noise line ended by "\n"), then a last line without terminator *)
Definition config_text (rl : list (raw * ascii)) (last : raw) : string :=
  fold_right (fun rc acc => raw_text (fst rc) ++ String (snd rc) acc) (raw_text last) rl.
Definition all_raws (rl : list (raw * ascii)) (last : raw) : list raw := (map fst rl ++ [last])%list.

(** * strings *)
Lemma sapp_assoc (a b c : string) : (a ++ b) ++ c = a ++ (b ++ c).
Proof. induction a as [|x a IH]; cbn; [reflexivity|]. now rewrite IH. Qed.
Lemma sapp_nil_r (a : string) : a ++ "" = a.
Proof. induction a as [|x a IH]; cbn; [reflexivity|]. now rewrite IH. Qed.

Lemma rev_str_acc s : forall acc, rev_str s acc = rev_str s "" ++ acc.
Proof.
  induction s as [|c s IH]; intros acc; cbn [rev_str]; [reflexivity|].
  rewrite (IH (String c acc)), (IH (String c "")), sapp_assoc. reflexivity.
Qed.
Lemma rev_str_app a : forall b, rev_str (a ++ b) "" = rev_str b "" ++ rev_str a "".
Proof.
  induction a as [|c a IH]; intros b; cbn [append rev_str].
  - now rewrite sapp_nil_r.
  - rewrite rev_str_acc, IH, (rev_str_acc a (String c "")), sapp_assoc. reflexivity.
Qed.
Lemma rev_str_invol s : rev_str (rev_str s "") "" = s.
Proof.
  induction s as [|c s IH]; cbn [rev_str]; [reflexivity|].
  rewrite (rev_str_acc s (String c "")), rev_str_app, IH. reflexivity.
Qed.

Lemma all_ws_app a b : all_ws (a ++ b) = all_ws a && all_ws b.
Proof. induction a as [|c a IH]; cbn; [reflexivity|]. now rewrite IH, andb_assoc. Qed.
Lemma all_ws_rev s : all_ws (rev_str s "") = all_ws s.
Proof.
  induction s as [|c s IH]; cbn [rev_str all_ws]; [reflexivity|].
  rewrite rev_str_acc, all_ws_app, IH. cbn. rewrite andb_true_r. apply andb_comm.
Qed.

Lemma lstrip_all_ws w s : all_ws w = true -> lstrip_ws (w ++ s) = lstrip_ws s.
Proof.
  induction w as [|c w IH]; cbn; [reflexivity|]. intros H. apply andb_true_iff in H as [H1 H2].
  rewrite H1. now apply IH.
Qed.
Lemma lstrip_tight s : first_is_ws s = false -> lstrip_ws s = s.
Proof. destruct s as [|c s]; cbn; [reflexivity|]. now intros ->. Qed.

Lemma first_is_ws_app a b : str_nonempty a = true -> first_is_ws (a ++ b) = first_is_ws a.
Proof. destruct a; cbn; [discriminate|reflexivity]. Qed.
Lemma nonempty_rev s : str_nonempty (rev_str s "") = str_nonempty s.
Proof.
  destruct s as [|c s]; cbn [rev_str]; [reflexivity|]. rewrite rev_str_acc.
  destruct (rev_str s ""); reflexivity.
Qed.

(** what rstrip does to "text ++ blanks" when the text does not end with a blank *)
Lemma rstrip_app s t :
  first_is_ws (rev_str s "") = false -> all_ws t = true -> rstrip_ws (s ++ t) = s.
Proof.
  intros Hs Ht. unfold rstrip_ws. rewrite rev_str_app, lstrip_all_ws by now rewrite all_ws_rev.
  rewrite lstrip_tight by exact Hs. apply rev_str_invol.
Qed.

Lemma tight_parts s : tight s = true ->
  str_nonempty s = true /\ first_is_ws s = false /\ first_is_ws (rev_str s "") = false.
Proof.
  unfold tight. intros H. apply andb_true_iff in H as [H H3]. apply andb_true_iff in H as [H1 H2].
  repeat split; auto; now apply negb_true_iff.
Qed.

Lemma strip_tight s : tight s = true -> strip_ws s = s.
Proof.
  intros H. apply tight_parts in H as (_ & H2 & H3). unfold strip_ws.
  rewrite <- (sapp_nil_r s) at 1. rewrite rstrip_app by auto. now apply lstrip_tight.
Qed.

(** the end of "indentation ++ text" is the end of the text *)
Lemma last_app i b : str_nonempty b = true ->
  first_is_ws (rev_str (i ++ b) "") = first_is_ws (rev_str b "").
Proof. intros H. rewrite rev_str_app. apply first_is_ws_app. now rewrite nonempty_rev. Qed.

Lemma rstrip_body i b t : tight b = true -> all_ws t = true -> rstrip_ws (i ++ b ++ t) = i ++ b.
Proof.
  intros Hb Ht. apply tight_parts in Hb as (H1 & _ & H3). rewrite <- sapp_assoc.
  apply rstrip_app; [|exact Ht]. now rewrite last_app.
Qed.

Lemma strip_body i b : all_ws i = true -> tight b = true -> strip_ws (i ++ b) = b.
Proof.
  intros Hi Hb. unfold strip_ws. rewrite <- (sapp_nil_r b) at 1.
  rewrite rstrip_body by auto. rewrite lstrip_all_ws by exact Hi.
  apply tight_parts in Hb as (_ & H2 & _). now apply lstrip_tight.
Qed.

Lemma bang_not_ws c : is_ws c = true -> Ascii.eqb "!" c = false.
Proof.
  intros H. destruct (Ascii.eqb "!" c) eqn:E; [|reflexivity].
  apply Ascii.eqb_eq in E. subst c. vm_compute in H. discriminate.
Qed.

(** * splitlines of the text *)
Lemma sl_app a : forall s cur, no_nl a = true ->
  splitlines_aux (a ++ s) cur = splitlines_aux s (cur ++ a).
Proof.
  induction a as [|c a IH]; intros s cur H; cbn [append].
  - now rewrite sapp_nil_r.
  - cbn [no_nl] in H. apply andb_true_iff in H as [H1 H2]. apply negb_true_iff in H1.
    cbn [splitlines_aux]. rewrite H1, IH by exact H2. rewrite sapp_assoc. reflexivity.
Qed.

Definition hd_app (cur : string) (l : list string) : list string :=
  match l with a :: t => (cur ++ a) :: t | [] => [] end.

Lemma split_text rl last : forall cur,
  forallb (fun rc => no_nl (raw_text (fst rc)) && is_linebreak (snd rc)) rl = true ->
  no_nl (raw_text last) = true ->
  splitlines_aux (config_text rl last) cur = hd_app cur (map raw_text (all_raws rl last)).
Proof.
  unfold all_raws. induction rl as [|[r c] rl IH]; intros cur H HL; cbn [config_text fold_right map app fst snd hd_app].
  - rewrite <- (sapp_nil_r (raw_text last)) at 1. rewrite sl_app by exact HL. reflexivity.
  - cbn [forallb fst snd] in H. apply andb_true_iff in H as [H1 H2]. apply andb_true_iff in H1 as [Hr Hc].
    rewrite sl_app by exact Hr. cbn [splitlines_aux]. rewrite Hc. f_equal.
    fold (config_text rl last). rewrite IH by auto.
    destruct (map raw_text (map fst rl ++ [last])%list) as [|x t] eqn:E; [|reflexivity].
    destruct rl; discriminate.
Qed.

Lemma no_nl_app a b : no_nl (a ++ b) = no_nl a && no_nl b.
Proof. induction a as [|c a IH]; cbn; [reflexivity|]. now rewrite IH, andb_assoc. Qed.

(** * raw lines *)
Definition kept (r : raw) : list string :=
  match r with RHdr k _ => [k] | RBody i b _ => [i ++ b] | RNoise _ => [] end.

Ltac split_ands H :=
  repeat match type of H with
         | (_ && _) = true => let H' := fresh H in apply andb_true_iff in H as [H H']
         end.

Lemma raw_no_nl r : raw_ok r = true -> no_nl (raw_text r) = true.
Proof.
  destruct r as [k t|i b t|n]; cbn [raw_ok raw_text]; intros H.
  - apply andb_true_iff in H as [H H5]. apply andb_true_iff in H as [H H4].
    apply andb_true_iff in H as [H H3]. rewrite no_nl_app, H3, H5. reflexivity.
  - apply andb_true_iff in H as [H H7]. apply andb_true_iff in H as [H H6].
    apply andb_true_iff in H as [H H5]. apply andb_true_iff in H as [H H4].
    apply andb_true_iff in H as [H H3]. rewrite !no_nl_app, H3, H5, H7. reflexivity.
  - now apply andb_true_iff in H as [H _].
Qed.

Lemma raw_filter r : raw_ok r = true ->
  filter keep [rstrip_ws (raw_text r)] = kept r.
Proof.
  destruct r as [k t|i b t|n]; cbn [raw_ok raw_text kept]; intros H.
  - apply andb_true_iff in H as [H H5]. apply andb_true_iff in H as [H H4].
    apply andb_true_iff in H as [H H3]. apply andb_true_iff in H as [H1 H2].
    destruct (tight_parts k H1) as (N & F & L). rewrite rstrip_app by auto.
    cbn [filter]. unfold keep. now rewrite N, H2.
  - apply andb_true_iff in H as [H H7]. apply andb_true_iff in H as [H H6].
    apply andb_true_iff in H as [H H5]. apply andb_true_iff in H as [H H4].
    apply andb_true_iff in H as [H H3]. apply andb_true_iff in H as [H1 H2].
    rewrite rstrip_body by auto. cbn [filter]. unfold keep.
    destruct i as [|c i]; [discriminate|]. cbn [append str_nonempty starts_with all_ws] in *.
    apply andb_true_iff in H2 as [H2 _]. rewrite (bang_not_ws c H2). reflexivity.
  - apply andb_true_iff in H as [_ H]. apply negb_true_iff in H. cbn [filter]. now rewrite H.
Qed.

Lemma raw_cline r : raw_ok r = true ->
  map (fun s => (first_is_ws s, strip_ws s)) (kept r) = erase r.
Proof.
  destruct r as [k t|i b t|n]; cbn [raw_ok kept erase map]; intros H.
  - apply andb_true_iff in H as [H H5]. apply andb_true_iff in H as [H H4].
    apply andb_true_iff in H as [H H3]. apply andb_true_iff in H as [H1 H2].
    rewrite strip_tight by exact H1. destruct (tight_parts k H1) as (_ & F & _). now rewrite F.
  - apply andb_true_iff in H as [H H7]. apply andb_true_iff in H as [H H6].
    apply andb_true_iff in H as [H H5]. apply andb_true_iff in H as [H H4].
    apply andb_true_iff in H as [H H3]. apply andb_true_iff in H as [H1 H2].
    rewrite strip_body by auto. rewrite first_is_ws_app by exact H1.
    destruct i as [|c i]; [discriminate|]. cbn [all_ws first_is_ws] in *.
    apply andb_true_iff in H2 as [H2 _]. now rewrite H2.
  - reflexivity.
Qed.

Lemma filter_flat rl : forallb raw_ok rl = true ->
  filter keep (map rstrip_ws (map raw_text rl)) = flat_map kept rl.
Proof.
  induction rl as [|r rl IH]; cbn [forallb map flat_map]; [reflexivity|]. intros H.
  apply andb_true_iff in H as [Hr Hl].
  change (rstrip_ws (raw_text r) :: map rstrip_ws (map raw_text rl))
    with ([rstrip_ws (raw_text r)] ++ map rstrip_ws (map raw_text rl))%list.
  rewrite filter_app, raw_filter, IH by auto. reflexivity.
Qed.

Lemma cline_flat rl : forallb raw_ok rl = true ->
  map (fun s => (first_is_ws s, strip_ws s)) (flat_map kept rl) = flat_map erase rl.
Proof.
  induction rl as [|r rl IH]; cbn [forallb flat_map]; [reflexivity|]. intros H.
  apply andb_true_iff in H as [Hr Hl]. rewrite map_app, raw_cline, IH by auto. reflexivity.
Qed.

(** the first line that is kept is a header *)
Definition header_first (ls : list cline) : Prop :=
  match ls with [] => True | l :: _ => fst l = false end.

Theorem config_lines_raw rl last :
  forallb raw_ok (all_raws rl last) = true -> forallb is_linebreak (map snd rl) = true ->
  header_first (flat_map erase (all_raws rl last)) ->
  config_lines (config_text rl last) = flat_map erase (all_raws rl last).
Proof.
  intros OK LB HF. unfold config_lines.
  assert (S : splitlines (config_text rl last) = map raw_text (all_raws rl last)).
  { unfold splitlines. rewrite split_text.
    - unfold all_raws. destruct (map fst rl ++ [last])%list eqn:E; [destruct rl; discriminate|reflexivity].
    - rewrite forallb_forall. intros [r c] Hin. cbn [fst snd]. apply andb_true_iff. split.
      + apply raw_no_nl. rewrite forallb_forall in OK. apply OK. unfold all_raws. apply in_or_app. left.
        apply in_map_iff. now exists (r, c).
      + rewrite forallb_forall in LB. apply LB. apply in_map_iff. now exists (r, c).
    - apply raw_no_nl. rewrite forallb_forall in OK. apply OK. unfold all_raws. apply in_or_app. right. now left. }
  rewrite S, filter_flat by exact OK. pose proof (cline_flat _ OK) as C.
  destruct (flat_map kept (all_raws rl last)) as [|l0 rest]; [exact C|]. cbn [map] in C. rewrite <- C in HF |- *.
  cbn [header_first fst] in HF. rewrite HF. reflexivity.
Qed.

(** * the text of a list of sections is read back as these sections *)
Lemma lines_of_header_first secs : header_first (lines_of secs).
Proof. destruct secs as [|[k b] t]; cbn; auto. Qed.

Theorem config_text_sections secs rl last :
  NoDup (map fst secs) -> Forall (fun s => snd s <> []) secs ->
  forallb raw_ok (all_raws rl last) = true -> forallb is_linebreak (map snd rl) = true ->
  flat_map erase (all_raws rl last) = lines_of secs ->
  parse_dic (config_lines (config_text rl last)) = secs.
Proof.
  intros ND NE OK LB E. rewrite config_lines_raw; auto.
  - rewrite E. now apply parse_dic_sections.
  - rewrite E. apply lines_of_header_first.
Qed.

(** noise lines (blank lines, comments) anywhere in the text, with any terminator, change nothing *)
Theorem config_text_noise r1 n c r2 last :
  forallb raw_ok (all_raws (r1 ++ (RNoise n, c) :: r2) last) = true ->
  forallb is_linebreak (map snd (r1 ++ (RNoise n, c) :: r2)) = true ->
  header_first (flat_map erase (all_raws (r1 ++ r2) last)) ->
  config_lines (config_text (r1 ++ (RNoise n, c) :: r2) last) = config_lines (config_text (r1 ++ r2) last).
Proof.
  intros OK LB HF. unfold all_raws in *.
  rewrite !map_app in *. cbn [map fst snd] in *.
  assert (OK' : forallb raw_ok ((map fst r1 ++ map fst r2) ++ [last]) = true).
  { rewrite !forallb_app in OK |- *. cbn [forallb] in OK |- *.
    apply andb_true_iff in OK as [O1 O3]. apply andb_true_iff in O1 as [O1 O2].
    apply andb_true_iff in O2 as [_ O2]. now rewrite O1, O2, O3. }
  assert (LB' : forallb is_linebreak (map snd r1 ++ map snd r2) = true).
  { rewrite !forallb_app in LB |- *. cbn [forallb] in LB.
    apply andb_true_iff in LB as [L1 L2]. apply andb_true_iff in L2 as [_ L2]. now rewrite L1, L2. }
  assert (EE : flat_map erase ((map fst r1 ++ RNoise n :: map fst r2) ++ [last])
               = flat_map erase ((map fst r1 ++ map fst r2) ++ [last])).
  { rewrite !flat_map_app. reflexivity. }
  rewrite !config_lines_raw; unfold all_raws; rewrite ?map_app; cbn [map fst snd]; auto.
  now rewrite EE.
Qed.

(** the canonical layout of sections with one indentation string per body line, and the
    indentation width is irrelevant *)
Definition layout (ind : string) (secs : list (string * list string)) : list raw :=
  flat_map (fun s => RHdr (fst s) "" :: map (fun b => RBody ind b "") (snd s)) secs.

Lemma erase_layout ind secs : flat_map erase (layout ind secs) = lines_of secs.
Proof.
  unfold layout, lines_of. induction secs as [|[k body] t IH]; cbn [flat_map]; [reflexivity|].
  rewrite flat_map_app, IH. f_equal. unfold section_lines. cbn [flat_map erase fst snd app]. f_equal.
  induction body as [|b body IHb]; cbn; [reflexivity|]. now rewrite IHb.
Qed.

Definition sec_ok (s : string * list string) : bool :=
  tight (fst s) && negb (starts_with "!" (fst s)) && no_nl (fst s)
  && forallb (fun b => tight b && no_nl b) (snd s).

Lemma layout_ok ind secs :
  str_nonempty ind = true -> all_ws ind = true -> no_nl ind = true ->
  forallb sec_ok secs = true -> forallb raw_ok (layout ind secs) = true.
Proof.
  intros I1 I2 I3. unfold layout. induction secs as [|[k body] t IH]; cbn [forallb flat_map]; [reflexivity|].
  intros H. apply andb_true_iff in H as [Hs Ht]. rewrite forallb_app, IH by exact Ht.
  rewrite andb_true_r. unfold sec_ok in Hs. cbn [fst snd] in Hs.
  apply andb_true_iff in Hs as [Hs Hb]. cbn [forallb raw_ok all_ws no_nl fst snd]. rewrite Hs. cbn [andb].
  rewrite forallb_forall in Hb |- *. intros r Hr. apply in_map_iff in Hr as (b & <- & Hin).
  specialize (Hb b Hin). apply andb_true_iff in Hb as [B1 B2].
  cbn [raw_ok all_ws no_nl]. now rewrite I1, I2, I3, B1, B2.
Qed.

Theorem config_text_layout ind c secs :
  str_nonempty ind = true -> all_ws ind = true -> no_nl ind = true -> is_linebreak c = true ->
  forallb sec_ok secs = true ->
  NoDup (map fst secs) -> Forall (fun s => snd s <> []) secs ->
  parse_dic (config_lines (config_text (map (fun r => (r, c)) (layout ind secs)) (RNoise ""))) = secs.
Proof.
  intros I1 I2 I3 C OK ND NE.
  assert (F : map fst (map (fun r : raw => (r, c)) (layout ind secs)) = layout ind secs).
  { rewrite map_map. cbn [fst]. apply map_id. }
  apply config_text_sections; auto; unfold all_raws; rewrite ?F.
  - rewrite forallb_app, layout_ok by auto. reflexivity.
  - rewrite map_map. cbn [snd]. rewrite forallb_forall. intros x Hx. apply in_map_iff in Hx as (? & <- & _). exact C.
  - rewrite flat_map_app, erase_layout. cbn. apply app_nil_r.
Qed.
