(** Proofs about ungroup_ports (C19). *)
From V Require Import base.Prelude base.Strs gen.Tables model.Cfg model.Names model.Wildcard
  model.Addr model.Ports model.Ace model.SplitPorts spec.AceSem
  proofs.PortsProofs proofs.ShadowProofs.
Local Open Scope N_scope.

Lemma map_res_ok {A B} (f : A -> res B) (g : A -> B) l :
  (forall x, In x l -> f x = Ok (g x)) -> map_res f l = Ok (map g l).
Proof.
  induction l as [|x t IH]; intros H; cbn [map_res map]; [reflexivity|].
  rewrite (H x (or_introl eq_refl)). cbn [bind]. rewrite IH by (intros; apply H; now right). reflexivity.
Qed.

Definition eq_port (x : N) : port := mkPort (Some Eq) [x] [x] (ports_to_string [x]).

Lemma single_eq pl c p x : p_op p = Some Eq -> single_port pl c p x = Ok (eq_port x).
Proof.
  intros Ho. unfold single_port, set_items. rewrite Ho. unfold op_token. rewrite Ho. cbn [app map pop_name].
  change (parse_port pl c ["eq"; dec x]) with (parse_nums pl c Eq [x]).
  rewrite parse_nums_eq by discriminate. cbn [length valid_count].
  replace (negb (ctx_platform_single pl) || Nat.eqb 1 1) with true by (now destruct (ctx_platform_single pl)).
  rewrite (sortN_id [x]) by (repeat constructor). reflexivity.
Qed.

(** one side with an [eq] expression: the single-port expressions cover exactly its ports *)
Lemma side_eq pl c p :
  p_op p = Some Eq -> p_ports p = p_items p ->
  side_ports pl c p = Ok (map eq_port (p_items p)) /\
  forall proto x, port_match p proto x <->
                  exists q, In q (map eq_port (p_items p)) /\ port_match q proto x.
Proof.
  intros Ho Hp. split.
  - unfold side_ports, splittable. rewrite Ho. apply map_res_ok. intros x _. now apply single_eq.
  - intros proto x. unfold port_match. rewrite Ho, Hp. split.
    + intros [P I]. exists (eq_port x). split; [now apply in_map|]. cbn. split; auto.
    + intros (q & Hq & M). apply in_map_iff in Hq as (y & <- & Hy). cbn in M.
      destruct M as [P [<-|[]]]. auto.
Qed.

Lemma side_other pl c p :
  splittable p = false ->
  side_ports pl c p = Ok [p] /\
  forall proto x, port_match p proto x <-> exists q, In q [p] /\ port_match q proto x.
Proof.
  intros H. unfold side_ports. rewrite H. split; auto. intros proto x. split.
  - intros M. exists p. split; [now left|auto].
  - intros (q & [<-|[]] & M). auto.
Qed.

(** ports that are [eq] expressions (operands = port list) or need no splitting *)
Definition eq_or_unsplit (p : port) : Prop :=
  (p_op p = Some Eq /\ p_ports p = p_items p) \/ splittable p = false.

Lemma side_spec pl c p : eq_or_unsplit p ->
  exists ps, side_ports pl c p = Ok ps /\
    (forall proto x, port_match p proto x <-> exists q, In q ps /\ port_match q proto x) /\
    (forall q, In q ps -> (q = p \/ (p_op q = Some Eq /\ length (p_items q) = 1%nat))).
Proof.
  intros [[Ho Hp]|Hs].
  - destruct (side_eq pl c p Ho Hp) as [E M]. eexists. split; [exact E|]. split; auto.
    intros q Hq. apply in_map_iff in Hq as (y & <- & _). right. auto.
  - destruct (side_other pl c p Hs) as [E M]. eexists. split; [exact E|]. split; auto.
    intros q [<-|[]]. now left.
Qed.

Theorem split_den pl v15 a :
  eq_or_unsplit (a_sport a) -> eq_or_unsplit (a_dport a) ->
  exists l, split_ace pl v15 a = Ok l /\
    (forall srcs dsts k, den a srcs dsts k <-> exists a', In a' l /\ den a' srcs dsts k) /\
    (forall a', In a' l ->
        a_permit a' = a_permit a /\ a_proto a' = a_proto a /\ a_src a' = a_src a /\
        a_dst a' = a_dst a /\ a_flags a' = a_flags a /\ a_logs a' = a_logs a /\
        (a_sport a' = a_sport a \/ (p_op (a_sport a') = Some Eq /\ length (p_items (a_sport a')) = 1%nat)) /\
        (a_dport a' = a_dport a \/ (p_op (a_dport a') = Some Eq /\ length (p_items (a_dport a')) = 1%nat))).
Proof.
  intros Hs Hd. unfold split_ace.
  destruct (side_spec pl (proto_ctx pl v15 (a_proto a)) _ Hs) as (ss & Es & Ms & Ss).
  destruct (side_spec pl (proto_ctx pl v15 (a_proto a)) _ Hd) as (dd & Ed & Md & Sd).
  rewrite Es, Ed. cbn [bind]. eexists. split; [reflexivity|]. split.
  - intros srcs dsts k. unfold den. split.
    + intros (D1 & D2 & D3 & D4 & D5 & D6).
      apply Ms in D4 as (s & Hs' & Ms'). apply Md in D5 as (d & Hd' & Md').
      exists (with_ports a s d). split.
      * apply in_flat_map. exists s. split; auto. now apply in_map.
      * cbn. tauto.
    + intros (a' & Ha' & (D1 & D2 & D3 & D4 & D5 & D6)).
      apply in_flat_map in Ha' as (s & Hs' & Ha'). apply in_map_iff in Ha' as (d & <- & Hd').
      cbn in *. repeat split; auto.
      * apply Ms. exists s. auto.
      * apply Md. exists d. auto.
  - intros a' Ha'. apply in_flat_map in Ha' as (s & Hs' & Ha'). apply in_map_iff in Ha' as (d & <- & Hd').
    cbn. repeat split; auto.
Qed.
