(** Decision preservation from a checkable removal certificate (C04, reused by C02/C19). *)
From V Require Import base.Prelude base.Strs model.Shading spec.AclSem.

Section Certificate.
  Variables (A K : Type).
  Variable matches : A -> K -> bool.
  Variable action : A -> bool.
  Variable sh : A -> A -> bool.
  Variable good : A -> Prop.          (* well-formedness of a payload *)
  Variable kok : K -> Prop.           (* well-formedness of a packet *)
  Hypothesis sh_sound : forall b t, good b -> good t -> sh b t = true ->
      action b = action t /\ forall k, kok k -> matches b k = true -> matches t k = true.

  Definition all_good (items : list (item A)) : Prop :=
    forall l a, In (IAce l a) items -> good a.

  (** the result of a removal is described by one keep-flag per original item *)
  Fixpoint select (orig : list (item A)) (keep : list bool) : list (item A) :=
    match orig, keep with
    | o :: orig', true :: keep' => o :: select orig' keep'
    | _ :: orig', false :: keep' => select orig' keep'
    | _, _ => []
    end.

  (** only ACEs are dropped, and each dropped ACE is in the shadow of an ACE that stands above
      it in [orig] ([seen] = the ACEs of [orig] already passed) *)
  Fixpoint removal_okb (seen : list A) (orig : list (item A)) (keep : list bool) : bool :=
    match orig, keep with
    | [], [] => true
    | o :: orig', kp :: keep' =>
        let seen' := match o with IAce _ a => seen ++ [a] | IRemark _ => seen end in
        (if kp then true
         else match o with
              | IAce _ a => existsb (fun t => sh a t) seen
              | IRemark _ => false
              end)
        && removal_okb seen' orig' keep'
    | _, _ => false
    end.

  Theorem removal_decision : forall orig seen keep,
    removal_okb seen orig keep = true -> all_good orig -> Forall good seen ->
    forall k, kok k -> (forall t, In t seen -> matches t k = false) ->
    decide matches action (select orig keep) k = decide matches action orig k.
  Proof.
    induction orig as [|o orig IH]; intros seen keep H G GS k Kk NS.
    - destruct keep; reflexivity.
    - assert (G' : all_good orig) by (intros l a Hin; apply (G l a); now right).
      destruct keep as [|kp keep']; [discriminate|]. cbn [removal_okb] in H.
      apply andb_prop in H as [C H]. destruct kp; cbn [select].
      + destruct o as [l a|l]; cbn [decide].
        * destruct (matches a k) eqn:M; auto. apply (IH _ _ H); auto.
          -- apply Forall_app. split; auto. constructor; [|constructor]. apply (G l a). now left.
          -- intros t Ht. apply in_app_or in Ht as [Ht|[<-|[]]]; auto.
        * apply (IH _ _ H); auto.
      + destruct o as [l a|l]; [|discriminate].
        assert (Ga : good a) by (apply (G l a); now left).
        apply existsb_exists in C as (t & Ht & S).
        assert (Gt : good t) by (rewrite Forall_forall in GS; auto).
        destruct (sh_sound _ _ Ga Gt S) as [_ Cov].
        assert (M : matches a k = false).
        { destruct (matches a k) eqn:M; auto. pose proof (Cov k Kk M) as C2. specialize (NS t Ht). congruence. }
        cbn [decide]. rewrite M. apply (IH _ _ H); auto.
        -- apply Forall_app. split; auto.
        -- intros t' Ht'. apply in_app_or in Ht' as [Ht'|[<-|[]]]; auto.
  Qed.

  (** what the certificate says about the text: remarks are all kept *)
  Theorem removal_keeps_remarks : forall orig seen keep,
    removal_okb seen orig keep = true ->
    forall l, In (IRemark l) orig -> In (IRemark l) (select orig keep).
  Proof.
    induction orig as [|o orig IH]; intros seen keep H l Hin; [destruct Hin|].
    destruct keep as [|kp keep']; [discriminate|]. cbn [removal_okb] in H.
    apply andb_prop in H as [C H]. destruct Hin as [->|Hin].
    - destruct kp; [now left|discriminate].
    - destruct kp; cbn [select]; [right|]; eapply IH; eauto.
  Qed.
End Certificate.

(** * replacing an entry by adjacent entries with the same action and the same union *)
Section Expand.
  Variables (A K : Type).
  Variable matches : A -> K -> bool.
  Variable action : A -> bool.
  Variable f : A -> list A.                    (* the entries that replace an ACE, in place *)

  Definition expand_item (i : item A) : list (item A) :=
    match i with
    | IAce l a => map (fun a' => IAce l a') (f a)
    | IRemark l => [IRemark l]
    end.

  Theorem expand_decision (items : list (item A)) k :
    (forall l a, In (IAce l a) items ->
        (forall a', In a' (f a) -> action a' = action a) /\
        matches a k = existsb (fun a' => matches a' k) (f a)) ->
    decide matches action (flat_map expand_item items) k = decide matches action items k.
  Proof.
    induction items as [|i t IH]; intros H; [reflexivity|].
    assert (Ht : forall l a, In (IAce l a) t ->
        (forall a', In a' (f a) -> action a' = action a) /\
        matches a k = existsb (fun a' => matches a' k) (f a)) by (intros; apply (H l a); now right).
    cbn [flat_map]. destruct i as [l a|l]; cbn [expand_item].
    - destruct (H l a (or_introl eq_refl)) as [Act M]. cbn [decide]. rewrite M.
      clear M H. induction (f a) as [|a' fa IHf]; cbn [map app existsb decide]; [now apply IH|].
      destruct (matches a' k) eqn:E; cbn [orb].
      + f_equal. apply Act. now left.
      + apply IHf. intros x Hx. apply Act. now right.
    - cbn [app decide]. now apply IH.
  Qed.
End Expand.
