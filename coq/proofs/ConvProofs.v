(** C02 at the level of one ACE: converting a reader-built extended ACE (single addresses or
    address-group references, with or without attached members) to the other platform returns an
    ACE with the same action that matches exactly the same packets. *)
From V Require Import base.Prelude base.Strs gen.Tables model.Cfg model.Names model.Wildcard
  model.Addr model.Ports model.Ace model.Lex model.AddrText model.AceText model.AclText model.SplitPorts model.Platform
  spec.AceSem spec.AclSem proofs.WildProofs proofs.AddrProofs proofs.NamesProofs proofs.PortsProofs
  proofs.TextProofs proofs.SplitterProofs proofs.AceFixProofs proofs.AddrObjProofs proofs.ParsedAceProofs proofs.GroupAceProofs
  proofs.DeleteShadowProofs proofs.PlatformProofs.
Local Open Scope N_scope.

(** * re-parsing a rendered ACE whose addresses are read back as possibly other objects *)
Section AceReparse.
  Variable c : cfg.
  Variable t : tace.
  Let a := t_ace t.
  Let pl := plat c.
  Let limit := Z.of_nat (max_ncwb c).
  Let pc := proto_ctx pl (is15 c) (a_proto a).
  Let sp := render_port (port_nr c) pc (a_sport a).
  Let dp := render_port (port_nr c) pc (a_dport a).
  Let has_port := match sp, dp with [], [] => false | _, _ => true end.
  Let proto := render_proto pl (protocol_nr c) has_port (a_proto a).

  (** the hypotheses: the ACE is extended, and each field is a fixed point of its reader *)
  Hypothesis Hext : t_type_ext t = true.
  Variables SRC DST : list string.
  Variables s2 d2 : addr.
  Hypothesis Hsrc_toks : split_ws (render_addr pl (a_src a)) = SRC /\ addr_toks SRC (render_addr pl (a_src a)) /\ names_ok SRC.
  Hypothesis Hdst_toks : split_ws (render_addr pl (a_dst a)) = DST /\ addr_toks DST (render_addr pl (a_dst a)).
  Hypothesis Hsrc : parse_address_text pl limit (render_addr pl (a_src a)) = Ok s2.
  Hypothesis Hdst : parse_address_text pl limit (render_addr pl (a_dst a)) = Ok d2.
  Hypothesis Hproto_tok : token proto.
  Hypothesis Hproto : parse_proto proto = Ok (a_proto a).
  Hypothesis Hip : String.eqb proto "ip" && has_port = false.
  Hypothesis Hsp : Forall token sp /\ Forall af sp /\ parse_port pl pc sp = Ok (a_sport a).
  Hypothesis Hdp : Forall token dp /\ Forall af dp /\ parse_port pl pc dp = Ok (a_dport a).
  Hypothesis Hopt : Forall token (t_option_line t) /\ Forall af (t_option_line t)
                    /\ parse_option (t_option_line t) = Ok (a_flags a, a_logs a)
                    /\ split_dstport_option (dp ++ t_option_line t) = (dp, t_option_line t).

  Theorem ace_text_reparse : parse_ace_text c (render_ace c t) =
    Ok (mkTace true (t_seq t) (mkAce (a_permit a) (a_proto a) s2 d2 (a_sport a) (a_dport a) (a_flags a) (a_logs a)) (t_option_line t)).
  Proof.
    destruct Hsrc_toks as (S1 & S2 & S3). destruct Hdst_toks as (D1 & D2).
    destruct Hsp as (P1 & P2 & P3). destruct Hdp as (Q1 & Q2 & Q3). destruct Hopt as (O1 & O2 & O3 & O4).
    set (act := if a_permit a then "permit"%string else "deny"%string).
    assert (Tact : token act) by (unfold act; destruct (a_permit a); split; try reflexivity; discriminate).
    assert (Aact : is_action act) by (unfold act, is_action; destruct (a_permit a); auto).
    set (H := if N.eqb (t_seq t) 0 then [act] else [dec (t_seq t); act]).
    set (sq := if N.eqb (t_seq t) 0 then ""%string else dec (t_seq t)).
    assert (HH : head_toks H sq act).
    { unfold H, sq. destruct (N.eqb (t_seq t) 0); [now apply HT_plain|now apply HT_seq]. }
    assert (Tdec : token (dec (t_seq t))).
    { pose proof (undec_dec (t_seq t)) as U. assert (I : is_digits (dec (t_seq t)) = true) by (unfold is_digits; now rewrite U).
      destruct (is_digits_chars _ I) as [NE D]. split; [|exact NE].
      apply (all_chars_weaken is_digit); [|exact D]. intros ch Hc.
      assert (Hd : dd ch = true) by (unfold dd; now rewrite Hc). unfold nws. now rewrite (dd_not_ws ch Hd). }
    (* the tokens of the rendered line *)
    assert (E : split_ws (render_ace c t) = H ++ proto :: SRC ++ sp ++ DST ++ (dp ++ t_option_line t)).
    { unfold render_ace. fold a pl pc sp dp has_port. rewrite Hext. fold proto act.
      rewrite split_ws_join, flat_split_filter. rewrite !flat_map_app. cbn [flat_map]. rewrite !app_nil_r.
      rewrite S1, D1, (split_ws_one _ Tact), (split_ws_one _ Hproto_tok).
      rewrite (flat_split_tokens _ P1), (flat_split_tokens _ Q1), (flat_split_tokens _ O1).
      unfold H. destruct (N.eqb (t_seq t) 0); cbn [flat_map app].
      - reflexivity.
      - rewrite (split_ws_one _ Tdec). cbn [app]. reflexivity. }
    assert (FT : Forall af (dp ++ t_option_line t)) by (apply Forall_app; auto).
    rewrite (parse_ace_text_canon c _ H sq act proto SRC _ sp DST _ (dp ++ t_option_line t) E HH S2 S3 P2 D2 FT).
    rewrite O4. unfold assemble. cbn [fst snd s_proto s_sport s_src s_dst s_seq s_action].
    destruct Hproto_tok as [_ NEp]. rewrite (nonempty_true _ NEp). cbn [negb andb].
    fold has_port. fold pl limit. rewrite Hip, Hsrc, Hdst. cbn [bind]. rewrite Hproto. cbn [bind].
    fold pc. rewrite P3, Q3. cbn [bind]. rewrite O3. cbn [bind fst snd].
    assert (Esq : seq_of sq = t_seq t).
    { unfold sq, seq_of. destruct (N.eqb (t_seq t) 0) eqn:Z; [apply N.eqb_eq in Z; now rewrite Z|now rewrite undec_dec]. }
    assert (Eact : String.eqb act "permit" = a_permit a) by (unfold act; destruct (a_permit a); reflexivity).
    rewrite Esq, Eact. reflexivity.
  Qed.
End AceReparse.
(** * an address re-typed for the target platform *)
Lemma retype_std pl' ty w : (pl' = Ios \/ pl' = Nxos) ->
  retype pl' (ASingle ty w) = ASingle (std_type pl' w) w
  \/ (pl' = Nxos /\ exists p, w_ipnet w = Some (p, 32%nat) /\ retype pl' (ASingle ty w) = ASingle TPrefix w).
Proof.
  intros [-> | ->]; cbn [retype]; unfold std_type, is_host_net, is_any_net.
  - left. destruct (w_ipnet w) as [[p len]|]; [|reflexivity].
    destruct (Nat.eqb len 32); [reflexivity|]. destruct (N.eqb p 0 && Nat.eqb len 0); reflexivity.
  - destruct (w_ipnet w) as [[p len]|] eqn:IP; [|left; reflexivity].
    destruct (Nat.eqb len 32) eqn:E32.
    + apply Nat.eqb_eq in E32. subst len.
      destruct (N.eqb p 0 && Nat.eqb 32 0) eqn:EA; [apply andb_prop in EA as [_ C]; discriminate|].
      right. split; [reflexivity|]. exists p. auto.
    + left. destruct (N.eqb p 0 && Nat.eqb len 0); reflexivity.
Qed.

Theorem retype_reparse pl' limit a m w ty :
  (pl' = Ios \/ pl' = Nxos) -> a < 2 ^ 32 -> m < 2 ^ 32 -> new_wild limit a m = Ok w ->
  parse_address_text pl' limit (render_addr pl' (retype pl' (ASingle ty w))) = Ok (ASingle (std_type pl' w) w)
  /\ exists A, split_ws (render_addr pl' (retype pl' (ASingle ty w))) = A
               /\ addr_toks A (render_addr pl' (retype pl' (ASingle ty w))) /\ names_ok A.
Proof.
  intros Hpl Ha Hm HW. destruct (retype_std pl' ty w Hpl) as [E|(-> & p & IP & E)]; rewrite E.
  - split; [now apply (addr_obj_fixpoint pl' limit a m w)|now apply (render_addr_canon pl' limit a m w)].
  - (* NX-OS host: written "P/32", read back as a host *)
    pose proof (new_wild_fields _ _ _ _ HW) as EW.
    assert (Hp : p < 2 ^ 32 /\ p = create_prefix a m /\ m = 0).
    { assert (IP2 : w_ipnet w = match ncwb m with [] => Some (create_prefix a m, prefixlen m) | _ => None end).
      { rewrite EW. cbn [w_ipnet]. now apply create_ipnet_spec. }
      rewrite IP in IP2. destruct (ncwb m) eqn:NC; [|discriminate]. injection IP2 as -> E32.
      split; [now apply create_prefix_lt|]. split; [reflexivity|].
      rewrite <- (contiguous_is_hostmask m Hm NC), <- E32. reflexivity. }
    destruct Hp as (Hp & -> & ->).
    cbn [render_addr]. rewrite IP. unfold net_prefix_text. cbn [fst snd]. split.
    + unfold parse_address_text. rewrite (prefix_text_fixpoint Nxos _ 32 Hp (le_n 32)). cbn [bind addr_of_spelling].
      change (Nat.ltb W 32) with false. cbn iota. rewrite netmask_is_create_prefix.
      change (hostmask 32) with 0. rewrite !new_wild_norm, HW. cbn [bind Nat.eqb].
      unfold std_type. rewrite IP. reflexivity.
    + exists [(render_ip (create_prefix a 0) ++ "/" ++ dec (N.of_nat 32))%string]. split.
      * apply split_ws_one. split.
        -- rewrite !all_chars_app. destruct (render_ip_token (create_prefix a 0)) as [R _]. rewrite R. cbn [all_chars andb].
           change (nws "/") with true. cbn [andb]. apply (dec_token (N.of_nat 32)).
        -- pose proof (render_first_digit_app (create_prefix a 0) ("/" ++ dec (N.of_nat 32))) as F.
           destruct (render_ip (create_prefix a 0) ++ "/" ++ dec (N.of_nat 32))%string; [discriminate|congruence].
      * split; [apply AT_prefix|]. apply no_group_names. intros kw name E0. discriminate.
Qed.

Lemma port_fixed' pl v15 nr n toks p :
  parse_port pl (proto_ctx pl v15 n) toks = Ok p -> (proto_ctx pl v15 n = None -> p = empty_port) ->
  parse_port pl (proto_ctx pl v15 n) (render_port nr (proto_ctx pl v15 n) p) = Ok p.
Proof.
  intros HP HE. destruct (proto_ctx pl v15 n) as [[[pr pl0] w15]|] eqn:EC.
  - assert (pl0 = pl /\ w15 = v15) as [-> ->].
    { unfold proto_ctx in EC. destruct (String.eqb _ "tcp"); [now injection EC|].
      destruct (String.eqb _ "udp"); [now injection EC|discriminate]. }
    now apply (reader_port_fixpoint pl pr v15 nr toks p).
  - rewrite (HE eq_refl). reflexivity.
Qed.

(** * the addresses of an entry: reader-built singles or address-group references *)
(** [mem]: may the reference carry attached members?  (They are not part of the line: an object
    rebuilt from its text has none - C02 keeps them through the platform setter, C17's text
    operations are stated without them.) *)
Definition addr_src (mem : bool) (pl : platform) (limit : Z) (a : addr) : Prop :=
  (exists sp, sp_bounds sp /\ ~ is_n1 pl sp /\ addr_of_spelling pl limit sp = Ok a)
  \/ (exists name items, a = AGroup name items /\ check_name name = true /\ after_group_kw name = false
                         /\ (mem = false -> items = [])).

(** the converted address: singles re-typed for the target, group references kept with their members *)
Definition conv_addr (pl' : platform) (a : addr) : addr :=
  match a with ASingle _ w => ASingle (std_type pl' w) w | AGroup n items => AGroup n items end.
(** what the target's reader builds from the rendered address (no members on the line) *)
Definition reparsed (pl' : platform) (a : addr) : addr :=
  match a with ASingle _ w => ASingle (std_type pl' w) w | AGroup n _ => AGroup n [] end.

Lemma wild_spelling pl' limit a m w : (pl' = Ios \/ pl' = Nxos) -> a < 2 ^ 32 -> m < 2 ^ 32 -> new_wild limit a m = Ok w ->
  sp_bounds (SWild a m) /\ ~ is_n1 pl' (SWild a m)
  /\ addr_of_spelling pl' limit (SWild a m) = Ok (ASingle (std_type pl' w) w).
Proof.
  intros Hpl' Ha Hm NW.
  assert (B : sp_bounds (SWild a m)) by (split; assumption).
  assert (NN : ~ is_n1 pl' (SWild a m)) by (intros [_ [x Hx]]; discriminate).
  split; [exact B|]. split; [exact NN|].
  assert (E : exists ty, addr_of_spelling pl' limit (SWild a m) = Ok (ASingle ty w)).
  { unfold addr_of_spelling. rewrite NW. cbn [bind]. eexists. reflexivity. }
  destruct E as [ty E]. destruct (reader_std pl' limit (SWild a m) ty w Hpl' B NN E) as (-> & _). exact E.
Qed.

Lemma addr_conv mem pl pl' limit a : (pl = Ios \/ pl = Nxos) -> (pl' = Ios \/ pl' = Nxos) -> addr_src mem pl limit a ->
  parse_address_text pl' limit (render_addr pl' (retype pl' a)) = Ok (reparsed pl' a)
  /\ (exists A, split_ws (render_addr pl' (retype pl' a)) = A /\ addr_toks A (render_addr pl' (retype pl' a)) /\ names_ok A)
  /\ addr_src mem pl' limit (conv_addr pl' a)
  /\ sets_of (conv_addr pl' a) = sets_of a.
Proof.
  intros Hpl Hpl' [(sp & B & NN & A)|(name & items & -> & HN & HK & HM)].
  - destruct (reader_single pl limit sp a B A) as (ty & w & ->).
    destruct (reader_std pl limit sp ty w Hpl B NN A) as (_ & a1 & m1 & Ha1 & Hm1 & NW1).
    destruct (retype_reparse pl' limit a1 m1 w ty Hpl' Ha1 Hm1 NW1) as (R & C).
    split; [exact R|]. split; [exact C|]. split; [|reflexivity].
    left. exists (SWild a1 m1). now apply wild_spelling.
  - cbn [retype conv_addr reparsed].
    change (render_addr pl' (AGroup name items)) with (render_addr pl' (AGroup name [])).
    split; [now apply group_text_fixpoint|]. split; [now apply group_text_canon|]. split; [|reflexivity].
    right. exists name, items. auto.
Qed.

(** * THE THEOREM: converting one reader-built ACE *)
Section Conv.
  Variable mem : bool.
  Variable c : cfg.
  Variable pl' : platform.
  Let pl := plat c.
  Let c' := mkCfg pl' (is15 c) (port_nr c) (protocol_nr c) (max_ncwb c).
  Let limit := Z.of_nat (max_ncwb c).
  Hypothesis Hpl : pl = Ios \/ pl = Nxos.
  Hypothesis Hpl' : pl' = Ios \/ pl' = Nxos.

  Variables (permit : bool) (n sq : N) (s d : addr) (toks1 toks2 : list string)
            (p1 p2 : port) (opts flags logs : list string).
  Let pc' := proto_ctx pl' (is15 c) n.
  Let t := mkTace true sq (mkAce permit n s d p1 p2 flags logs) opts.

  Hypothesis Hn : n <= 255.
  (** the addresses: built by the reader of the source platform from native spellings, or
      address-group references *)
  Hypothesis Hs : addr_src mem pl limit s.
  Hypothesis Hd : addr_src mem pl limit d.
  (** the port expressions are valid on the target platform as well (single-port eq / neq on
      NX-OS: Acl.platform ungroups first, C19) *)
  Hypothesis Hp1 : parse_port pl' pc' toks1 = Ok p1 /\ (pc' = None -> p1 = empty_port).
  Hypothesis Hp2 : parse_port pl' pc' toks2 = Ok p2 /\ (pc' = None -> p2 = empty_port).
  Hypothesis Ho : Forall token opts /\ Forall af opts /\ parse_option opts = Ok (flags, logs)
                  /\ split_dstport_option (render_port (port_nr c) pc' p2 ++ opts) = (render_port (port_nr c) pc' p2, opts).

  (** the converted entry, explicitly: same fields, the addresses converted *)
  Theorem ace_conversion_shape :
    ace_set_platform c' t = Ok (mkTace true sq (mkAce permit n (conv_addr pl' s) (conv_addr pl' d) p1 p2 flags logs) opts)
    /\ addr_src mem pl' limit (conv_addr pl' s) /\ addr_src mem pl' limit (conv_addr pl' d)
    /\ sets_of (conv_addr pl' s) = sets_of s /\ sets_of (conv_addr pl' d) = sets_of d.
  Proof.
    destruct Hp1 as (P1 & E1). destruct Hp2 as (P2 & E2). destruct Ho as (O1 & O2 & O3 & O4).
    destruct (addr_conv mem pl pl' limit s Hpl Hpl' Hs) as (RS & (SRC & S1 & S2 & S3) & AS & ES).
    destruct (addr_conv mem pl pl' limit d Hpl Hpl' Hd) as (RD & (DST & D1 & D2 & _) & AD & ED).
    split; [|auto].
    set (t' := mkTace true sq (mkAce permit n (retype pl' s) (retype pl' d) p1 p2 flags logs) opts).
    assert (R : parse_ace_text c' (render_ace c' t') =
                Ok (mkTace true sq (mkAce permit n (reparsed pl' s) (reparsed pl' d) p1 p2 flags logs) opts)).
    { apply (ace_text_reparse c' t' eq_refl SRC DST (reparsed pl' s) (reparsed pl' d));
        cbn [t_ace t' a_src a_dst a_proto a_sport a_dport a_flags a_logs t_option_line plat c' is15 port_nr protocol_nr max_ncwb];
        fold limit pc'.
      - auto.
      - auto.
      - exact RS.
      - exact RD.
      - now apply proto_token.
      - now apply proto_roundtrip.
      - assert (NE : forall p, render_port (port_nr c) pc' p <> [] -> pc' <> None).
        { intros p HNE C. apply HNE. unfold render_port. rewrite C. destruct (p_op p); [destruct (p_items p)|]; reflexivity. }
        destruct (render_port (port_nr c) pc' p1) as [|x1 r1] eqn:R1.
        + destruct (render_port (port_nr c) pc' p2) as [|x2 r2] eqn:R2; [now rewrite andb_false_r|].
          apply andb_false_iff. left. apply (proto_ports_not_ip pl' (is15 c)). apply (NE p2). rewrite R2. discriminate.
        + apply andb_false_iff. left. apply (proto_ports_not_ip pl' (is15 c)). apply (NE p1). rewrite R1. discriminate.
      - destruct (render_port_toks (port_nr c) pc' p1). split; auto. split; auto.
        apply (port_fixed' pl' (is15 c) (port_nr c) n toks1 p1); auto.
      - destruct (render_port_toks (port_nr c) pc' p2). split; auto. split; auto.
        apply (port_fixed' pl' (is15 c) (port_nr c) n toks2 p2); auto.
      - auto. }
    unfold ace_set_platform. cbn [t_ace t a_permit a_proto a_src a_dst a_sport a_dport a_flags a_logs t_type_ext t_seq t_option_line plat c'].
    fold t'. rewrite R. cbn [bind t_ace a_src a_dst a_permit a_proto a_sport a_dport a_flags a_logs t_type_ext t_seq t_option_line].
    destruct s, d; reflexivity.
  Qed.

  Theorem ace_conversion :
    exists r, ace_set_platform c' t = Ok r
              /\ a_permit (t_ace r) = permit
              /\ forall k, denb (t_ace r) k = denb (t_ace t) k.
  Proof.
    destruct ace_conversion_shape as (E & _ & _ & ES & ED).
    eexists. split; [exact E|]. split; [reflexivity|].
    intros k. unfold denb. cbn [t_ace t a_src a_dst a_proto a_sport a_dport a_flags]. now rewrite ES, ED.
  Qed.
End Conv.

(** * the whole (flat) list: Acl.platform on reader-built entries *)
Definition reader_built (mem : bool) (c : cfg) (pl' : platform) (t : tace) : Prop :=
  exists permit n sq s d toks1 toks2 p1 p2 opts flags logs,
    t = mkTace true sq (mkAce permit n s d p1 p2 flags logs) opts
    /\ n <= 255
    /\ addr_src mem (plat c) (Z.of_nat (max_ncwb c)) s
    /\ addr_src mem (plat c) (Z.of_nat (max_ncwb c)) d
    /\ (parse_port pl' (proto_ctx pl' (is15 c) n) toks1 = Ok p1 /\ (proto_ctx pl' (is15 c) n = None -> p1 = empty_port))
    /\ (parse_port pl' (proto_ctx pl' (is15 c) n) toks2 = Ok p2 /\ (proto_ctx pl' (is15 c) n = None -> p2 = empty_port))
    /\ (Forall token opts /\ Forall af opts /\ parse_option opts = Ok (flags, logs)
        /\ split_dstport_option (render_port (port_nr c) (proto_ctx pl' (is15 c) n) p2 ++ opts)
           = (render_port (port_nr c) (proto_ctx pl' (is15 c) n) p2, opts)).

Definition item_built (mem : bool) (c : cfg) (pl' : platform) (i : aitem) : Prop :=
  match i with AIRemark _ _ => True | AIAce t => reader_built mem c pl' t end.

(** an entry that the port-ungrouping step leaves as it is *)
Definition item_unsplit (c : cfg) (i : aitem) : Prop :=
  match i with
  | AIRemark _ _ => True
  | AIAce t => exists b, ungroup_ports (plat c) (is15 c) (t_ace t) = Ok ([t_ace t], b)
  end.

Definition sem_item (i : aitem) : Shading.item ace :=
  match i with AIAce t => Shading.IAce "" (t_ace t) | AIRemark _ _ => Shading.IRemark "" end.

Lemma reader_built_converts mem c pl' t :
  (plat c = Ios \/ plat c = Nxos) -> (pl' = Ios \/ pl' = Nxos) -> reader_built mem c pl' t ->
  exists r, ace_set_platform (mkCfg pl' (is15 c) (port_nr c) (protocol_nr c) (max_ncwb c)) t = Ok r
            /\ a_permit (t_ace r) = a_permit (t_ace t)
            /\ forall k, denb (t_ace r) k = denb (t_ace t) k.
Proof.
  intros Hpl Hpl' (permit & n & sq & s & d & toks1 & toks2 & p1 & p2 & opts & flags & logs
                   & -> & Hn & Hs & Hd & Hp1 & Hp2 & Ho).
  exact (ace_conversion mem c pl' Hpl Hpl' permit n sq s d toks1 toks2 p1 p2 opts flags logs Hn Hs Hd Hp1 Hp2 Ho).
Qed.

Lemma unsplit_all c : forall items, Forall (item_unsplit c) items -> flat_map_res (split_titem c) items = Ok items.
Proof.
  induction 1 as [|i items Hi _ IH]; [reflexivity|]. cbn [flat_map_res]. rewrite IH.
  destruct i as [t|sq tx]; cbn [split_titem bind app]; [|reflexivity].
  destruct Hi as [b Hb]. rewrite Hb. cbn [bind fst map app]. destruct t; reflexivity.
Qed.

Lemma items_convert mem c pl' :
  (plat c = Ios \/ plat c = Nxos) -> (pl' = Ios \/ pl' = Nxos) ->
  forall items, Forall (item_built mem c pl') items ->
  exists conv, map_res (item_set_platform (mkCfg pl' (is15 c) (port_nr c) (protocol_nr c) (max_ncwb c))) items = Ok conv
               /\ forall k, AclSem.decide denb a_permit (map sem_item conv) k = AclSem.decide denb a_permit (map sem_item items) k.
Proof.
  intros Hpl Hpl'. induction 1 as [|i items Hi _ (conv & E & D)].
  - exists []. split; reflexivity.
  - destruct i as [t|sq tx].
    + destruct (reader_built_converts mem c pl' t Hpl Hpl' Hi) as (r & Hr & Pr & Dr).
      exists (AIAce r :: conv). cbn [SplitPorts.map_res item_set_platform]. rewrite Hr. cbn [bind]. rewrite E. cbn [bind].
      split; [reflexivity|]. intros k. cbn [map sem_item AclSem.decide]. now rewrite Dr, Pr, D.
    + exists (AIRemark sq tx :: conv). cbn [SplitPorts.map_res item_set_platform bind]. rewrite E. cbn [bind].
      split; [reflexivity|]. intros k. cbn [map sem_item AclSem.decide]. apply D.
Qed.

Theorem acl_conversion mem c pl' :
  (plat c = Ios \/ plat c = Nxos) -> (pl' = Ios \/ pl' = Nxos) ->
  forall items, Forall (item_built mem c pl') items -> (pl' = Nxos -> Forall (item_unsplit c) items) ->
  exists conv, acl_set_platform c (mkCfg pl' (is15 c) (port_nr c) (protocol_nr c) (max_ncwb c)) items = Ok conv
               /\ length conv = length items
               /\ forall k, AclSem.decide denb a_permit (map sem_item conv) k = AclSem.decide denb a_permit (map sem_item items) k.
Proof.
  intros Hpl Hpl' items HB HU.
  destruct (items_convert mem c pl' Hpl Hpl' items HB) as (conv & E & D).
  exists conv. unfold acl_set_platform. cbn [plat].
  assert (L : forall its cv, map_res (item_set_platform (mkCfg pl' (is15 c) (port_nr c) (protocol_nr c) (max_ncwb c))) its = Ok cv -> length cv = length its).
  { induction its as [|x its IH]; intros cv Hc; cbn [SplitPorts.map_res] in Hc.
    - injection Hc as <-. reflexivity.
    - destruct (item_set_platform _ x); cbn [bind] in Hc; try discriminate.
      destruct (map_res _ its) eqn:M; cbn [bind] in Hc; try discriminate. injection Hc as <-. cbn [length]. now rewrite (IH _ eq_refl). }
  destruct Hpl' as [-> | ->].
  - cbn [bind]. rewrite E. split; [reflexivity|]. split; [now apply L|exact D].
  - rewrite (unsplit_all c items (HU eq_refl)). cbn [bind]. rewrite E. split; [reflexivity|]. split; [now apply L|exact D].
Qed.
