(** C17: operation histories against the reference semantics (first-match decision of the rule
    list).  Meaning-preserving operations are validated step by step by a certificate that Coq
    evaluates ([step_cert]); [neutral_history] lifts it to histories of any length. *)
From V Require Import base.Prelude base.Strs gen.Tables model.Cfg model.Names model.Wildcard
  model.Addr model.Ports model.Ace model.Lex model.AddrText model.AceText model.AclText
  model.Shading model.SplitPorts model.Platform model.Ops spec.AceSem spec.AclSem
  proofs.DeleteShadowProofs proofs.SplitProofs proofs.PlatformProofs proofs.OpsProofs.
From Coq Require Import Permutation Sorting.Sorted.
Local Open Scope N_scope.

(** * the rule list an Acl denotes *)
Definition leaf_item (l : leaf) : item ace :=
  match l with LAce _ _ t => IAce "" (t_ace t) | LRem _ _ _ _ => IRemark "" end.
Definition den_items (a : acl) : list (item ace) := map leaf_item (flat (o_tops a)).
Definition acl_decide (a : acl) (k : pkt) : option bool := decide denb a_permit (den_items a) k.

(** * operations that only touch numbers or the grouping structure *)
Lemma set_leaf_seq_item s l : leaf_item (set_leaf_seq s l) = leaf_item l.
Proof. destruct l; reflexivity. Qed.

Lemma reseq_leaves_items : forall ls s step, map leaf_item (snd (reseq_leaves s step ls)) = map leaf_item ls.
Proof.
  induction ls as [|l t IH]; intros s step; [reflexivity|].
  destruct t as [|l2 t2]; [cbn; now rewrite set_leaf_seq_item|].
  change (reseq_leaves s step (l :: l2 :: t2))
    with (let r := reseq_leaves (s + step) step (l2 :: t2) in (fst r, set_leaf_seq s l :: snd r)).
  cbn [snd map]. rewrite set_leaf_seq_item. f_equal. apply IH.
Qed.

Lemma reseq_tops_items : forall tops s step r,
  reseq_tops s step tops = Ok r -> map leaf_item (flat (snd r)) = map leaf_item (flat tops).
Proof.
  induction tops as [|t rest IH]; intros s step r H.
  - injection H as <-. reflexivity.
  - cbn [reseq_tops] in H.
    match type of H with (do p <- ?e; _) = _ => destruct e as [p| | | |] eqn:Ep end; cbn in H; try discriminate.
    assert (P : map leaf_item (top_leaves (snd p)) = map leaf_item (top_leaves t)).
    { destruct t as [l|id n name s0 ls].
      - injection Ep as <-. cbn. now rewrite set_leaf_seq_item.
      - destruct (seq_args_ok s step) as [step'|]; [|discriminate].
        destruct ls as [|l0 ls0]; [discriminate|].
        set (rr := reseq_leaves s step' (l0 :: ls0)) in *. cbv zeta in Ep.
        destruct (SEQUENCE_MAX <? fst rr); [discriminate|]. injection Ep as <-.
        cbn [snd top_leaves]. apply reseq_leaves_items. }
    destruct rest as [|t2 rest2].
    + injection H as <-. cbn [snd]. cbn [flat flat_map]. rewrite !app_nil_r. exact P.
    + destruct (reseq_tops (fst p + step) step (t2 :: rest2)) as [q| | | |] eqn:Eq; cbn in H; try discriminate.
      injection H as <-. cbn [snd]. remember (t2 :: rest2) as R.
      change (flat (snd p :: snd q)) with (top_leaves (snd p) ++ flat (snd q)).
      change (flat (t :: R)) with (top_leaves t ++ flat R).
      rewrite !map_app, (IH _ _ _ Eq). f_equal. exact P.
Qed.

(** resequence changes numbers only: the rule list, hence every decision, is the same *)
Theorem resequence_items start step a a' :
  op_resequence start step a = Ok a' -> den_items a' = den_items a.
Proof.
  unfold op_resequence. destruct (seq_args_ok start step) as [step'|]; [|discriminate].
  destruct (reseq_tops start step' (o_tops a)) as [r| | | |] eqn:E; cbn; try discriminate.
  destruct (SEQUENCE_MAX <? fst r); [discriminate|]. intros H. injection H as <-.
  unfold den_items. cbn. now apply reseq_tops_items in E.
Qed.

Theorem ungroup_items a : den_items (op_ungroup a) = den_items a.
Proof. unfold den_items. cbn. now rewrite flat_TLeaf. Qed.

(** reverse: the blocks in the opposite order, each block as it was *)
Theorem reverse_items a :
  den_items (op_reverse a) = concat (rev (map (fun t => map leaf_item (top_leaves t)) (o_tops a))).
Proof.
  unfold den_items. cbn. generalize (o_tops a) as l. intros l. unfold flat.
  rewrite <- map_rev. rewrite flat_map_concat_map, concat_map, map_map. reflexivity.
Qed.

(** sort: the same blocks, ordered by their numbers *)
Lemma insert_top_sorted x l :
  Sorted (fun a b => top_seq a <= top_seq b) l -> Sorted (fun a b => top_seq a <= top_seq b) (insert_top x l).
Proof.
  induction l as [|y t IH]; intros S; cbn [insert_top]; [repeat constructor|].
  destruct (top_seq x <=? top_seq y) eqn:E.
  - constructor; auto. constructor. now apply N.leb_le.
  - apply N.leb_gt in E. inversion S as [|? ? S' H']; subst. constructor; [now apply IH|].
    destruct t as [|z t']; cbn [insert_top].
    + constructor. lia.
    + destruct (top_seq x <=? top_seq z); constructor; [lia|]. now inversion H'.
Qed.

Theorem sort_spec a a' :
  op_sort a = Ok a' ->
  Permutation (o_tops a') (o_tops a) /\ Sorted (fun x y => top_seq x <= top_seq y) (o_tops a').
Proof.
  unfold op_sort. destruct (distinct (map top_seq (o_tops a))); [|discriminate].
  intros H. injection H as <-. cbn. split; [apply sort_tops_perm|].
  induction (o_tops a) as [|x t IH]; [constructor|]. unfold sort_tops in *. cbn [fold_right].
  now apply insert_top_sorted.
Qed.

Theorem pop_items i a a' :
  op_pop i a = Ok a' -> o_tops a' = firstn i (o_tops a) ++ skipn (S i) (o_tops a).
Proof. unfold op_pop. destruct (Nat.ltb i _); [|discriminate]. intros H. now injection H as <-. Qed.

Theorem insert_items i line a a' :
  op_insert i line a = Ok a' ->
  exists t, parse_ace_text (o_cfg a) line = Ok t
            /\ o_tops a' = firstn i (o_tops a) ++ [TLeaf (LAce 0 0 t)] ++ skipn i (o_tops a).
Proof.
  unfold op_insert. destruct (parse_ace_text (o_cfg a) line) as [t| | | |]; cbn; try discriminate.
  intros H. injection H as <-. now exists t.
Qed.

(** grouping depends on the rule list only: the buckets of the erased entries are the erased buckets *)
Definition erase (l : leaf) : leaf :=
  match l with LAce _ _ t => LAce 0 0 t | LRem _ _ s x => LRem 0 0 s x end.

Lemma erase_head gby l : is_head gby (erase l) = is_head gby l.
Proof. destruct l; reflexivity. Qed.
Lemma erase_text l : head_text (erase l) = head_text l.
Proof. destruct l; reflexivity. Qed.

Definition erase_buckets (d : lbuckets) : lbuckets := map (fun kv => (fst kv, map erase (snd kv))) d.

Lemma erase_has_key k d : lhas_key k (erase_buckets d) = lhas_key k d.
Proof.
  unfold erase_buckets. induction d as [|[k' v] t IH]; cbn [map lhas_key fst snd]; [reflexivity|]. now rewrite IH.
Qed.

Lemma erase_bucket_append k x d :
  erase_buckets (lbucket_append k x d) = lbucket_append k (erase x) (erase_buckets d).
Proof.
  induction d as [|[k' v] t IH]; cbn [lbucket_append erase_buckets map fst snd]; [reflexivity|].
  destruct (String.eqb k k'); cbn [erase_buckets map fst snd].
  - now rewrite map_app.
  - f_equal. apply IH.
Qed.

Lemma erase_group_step gby st l :
  (erase_buckets (fst (lgroup_step gby st l)), snd (lgroup_step gby st l))
  = lgroup_step gby (erase_buckets (fst st), snd st) (erase l).
Proof.
  unfold lgroup_step. rewrite erase_head, erase_text. cbn [fst snd]. rewrite erase_has_key.
  destruct (is_head gby l).
  - destruct (lhas_key (head_text l) (fst st)); cbn [fst snd]; [reflexivity|].
    unfold erase_buckets. now rewrite map_app.
  - cbn [fst snd]. now rewrite erase_bucket_append.
Qed.

Theorem group_erase gby : forall ls,
  erase_buckets (lgroup_buckets gby ls) = lgroup_buckets gby (map erase ls).
Proof.
  unfold lgroup_buckets. intros ls.
  assert (G : forall ls st,
            (erase_buckets (fst (fold_left (lgroup_step gby) ls st)), snd (fold_left (lgroup_step gby) ls st))
            = fold_left (lgroup_step gby) (map erase ls) (erase_buckets (fst st), snd st)).
  { induction ls0 as [|l t IH]; intros st; cbn [fold_left map]; [reflexivity|].
    rewrite IH. now rewrite erase_group_step. }
  specialize (G ls ([("", [])], "")). cbn [fst snd erase_buckets map] in G.
  now apply (f_equal fst) in G.
Qed.

(** * certificates for the meaning-preserving operations *)
(** which operations must leave every decision unchanged on a flat (ungrouped) ACL *)
Definition neutral (o : op) : bool :=
  match o with
  | OpPlatform _ | OpPortNr _ | OpProtocolNr _ | OpTypeExt | OpResequence _ _ | OpUngroup
  | OpCopy | OpImportUuid | OpReparse | OpUngroupPorts => true
  | _ => false
  end.

Definition does_split (o : op) : bool :=
  match o with OpPlatform Nxos | OpUngroupPorts => true | _ => false end.

(** the certificate of one step: checked only where the reference says "same decisions" *)
Definition step_cert (a : acl) (o : op) (a' : acl) : bool :=
  if neutral o && negb (str_nonempty (o_gby a)) && negb (str_nonempty (o_gby a'))
  then splittable_okb (plat (o_cfg a)) (is15 (o_cfg a)) (den_items a)
       && conv_okb (plat (o_cfg a)) (is15 (o_cfg a)) (does_split o) (den_items a) (den_items a')
  else true.

Theorem step_cert_sound a o a' :
  neutral o = true -> o_gby a = "" -> o_gby a' = "" -> step_cert a o a' = true ->
  forall k, acl_decide a' k = acl_decide a k.
Proof.
  intros N G G' H k. unfold step_cert in H. rewrite N, G, G' in H. cbn in H.
  apply andb_prop in H as [S C]. unfold acl_decide.
  apply (conversion_decision_gen _ _ _ _ _ (splittable_okb_ok _ _ _ S) C).
Qed.

(** * histories of any length *)
Fixpoint neutral_run (a : acl) (ops : list op) : option acl :=
  match ops with
  | [] => Some a
  | o :: rest =>
      if neutral o && negb (str_nonempty (o_gby a)) then
        match Ops.step a o with
        | Ok a' => if negb (str_nonempty (o_gby a')) && step_cert a o a' then neutral_run a' rest else None
        | _ => None
        end
      else None
  end.

Lemma str_nonempty_false s : str_nonempty s = false -> s = "".
Proof. destruct s; [reflexivity|discriminate]. Qed.

Theorem neutral_history : forall ops a a',
  neutral_run a ops = Some a' -> forall k, acl_decide a' k = acl_decide a k.
Proof.
  induction ops as [|o rest IH]; intros a a' H k; cbn [neutral_run] in H.
  - now injection H as <-.
  - destruct (neutral o) eqn:N; [|discriminate]. cbn [andb] in H.
    destruct (str_nonempty (o_gby a)) eqn:G; [discriminate|]. cbn [negb] in H.
    destruct (Ops.step a o) as [a1| | | |] eqn:S; try discriminate.
    destruct (str_nonempty (o_gby a1)) eqn:G1; [discriminate|]. cbn [negb andb] in H.
    destruct (step_cert a o a1) eqn:C; [|discriminate].
    rewrite (IH _ _ H k).
    apply (step_cert_sound a o a1 N (str_nonempty_false _ G) (str_nonempty_false _ G1) C).
Qed.
