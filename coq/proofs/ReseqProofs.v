(** Proofs about resequence (C10). *)
From V Require Import base.Prelude gen.Tables model.Reseq.
Local Open Scope Z_scope.

Lemma SEQ_MAX_val : SEQ_MAX = 4294967295.
Proof. vm_compute. reflexivity. Qed.

(** * nested induction on item trees *)
Section ritem_ind2.
  Variable P : ritem -> Prop.
  Hypothesis HL : forall s id, P (RLeaf s id).
  Hypothesis HG : forall s id sub, Forall P sub -> P (RGroup s id sub).
  Fixpoint ritem_ind2 (it : ritem) : P it :=
    match it with
    | RLeaf s id => HL s id
    | RGroup s id sub =>
        HG s id sub ((fix f (l : list ritem) : Forall P l :=
                        match l with
                        | [] => Forall_nil _
                        | x :: t => Forall_cons _ (ritem_ind2 x) (f t)
                        end) sub)
    end.
End ritem_ind2.

(** every group is non-empty (the property's quantifier) *)
Fixpoint ne_groups (it : ritem) : Prop :=
  match it with
  | RLeaf _ _ => True
  | RGroup _ _ sub =>
      sub <> [] /\ (fix all (l : list ritem) : Prop :=
                      match l with [] => True | x :: t => ne_groups x /\ all t end) sub
  end.
Fixpoint all_ne (l : list ritem) : Prop :=
  match l with [] => True | x :: t => ne_groups x /\ all_ne t end.
Lemma ne_groups_group s id sub : ne_groups (RGroup s id sub) <-> (sub <> [] /\ all_ne sub).
Proof. cbn. assert (E : forall l, (fix all (l : list ritem) : Prop :=
          match l with [] => True | x :: t => ne_groups x /\ all t end) l = all_ne l).
  { induction l; cbn; congruence. } now rewrite E. Qed.

(** the expected numbering *)
Fixpoint number_from (s d : Z) (ids : list N) : list (Z * N) :=
  match ids with [] => [] | i :: t => (s, i) :: number_from (s + d) d t end.

Lemma number_from_app s d a b :
  number_from s d (a ++ b) = number_from s d a ++ number_from (s + d * Z.of_nat (length a)) d b.
Proof.
  revert s. induction a as [|x a IH]; intros s; cbn [app number_from length].
  - f_equal. lia.
  - rewrite IH. f_equal. f_equal. f_equal. lia.
Qed.

Definition ids_of (l : list (Z * N)) : list N := map snd l.
Definition nl (it : ritem) : Z := Z.of_nat (length (leaves it)).
Definition nll (l : list ritem) : Z := Z.of_nat (length (leaves_l l)).

(** start/step mode in which the loop runs *)
Definition mode (s d : Z) : Prop := (0 < s /\ 1 <= d) \/ (s = 0 /\ d = 0).

Lemma wrap_mode s d : mode s d -> s <= SEQ_MAX -> wrap_args s d = Some d.
Proof.
  unfold wrap_args, mode. intros [[H1 H2]|[-> ->]] Hm.
  - replace (0 <=? s) with true by (symmetry; apply Z.leb_le; lia).
    replace (s <=? SEQ_MAX) with true by (symmetry; apply Z.leb_le; lia).
    replace (s =? 0) with false by (symmetry; apply Z.eqb_neq; lia).
    replace (d <? 1) with false by (symmetry; apply Z.ltb_ge; lia). reflexivity.
  - rewrite SEQ_MAX_val. reflexivity.
Qed.

Lemma wrap_some s d d' : wrap_args s d = Some d' -> 0 <= s <= SEQ_MAX.
Proof.
  unfold wrap_args. destruct (0 <=? s) eqn:A, (s <=? SEQ_MAX) eqn:B; cbn [andb negb]; try discriminate.
  intros _. apply Z.leb_le in A. apply Z.leb_le in B. lia.
Qed.

(** the anonymous inner loop of reseq_item is reseq_list *)
Lemma inner_is_list step' l : forall s,
  (fix go (s : Z) (l : list ritem) {struct l} : res (Z * list ritem) :=
     match l with
     | [] => Ok (s, [])
     | x :: t =>
         do p <- reseq_item s step' x;
         match t with
         | [] => Ok (fst p, [snd p])
         | _ => do q <- go (fst p + step') t; Ok (fst q, snd p :: snd q)
         end
     end) s l = reseq_list s step' l.
Proof.
  induction l as [|x t IH]; intros s; [reflexivity|]. cbn [reseq_list].
  destruct (reseq_item s step' x) as [p| | | |]; cbn [bind]; auto.
  destruct t; [reflexivity|]. now rewrite IH.
Qed.

Lemma reseq_group s d sq id sub :
  reseq_item s d (RGroup sq id sub) =
  match wrap_args s d with
  | None => VErr
  | Some step' =>
      match sub with
      | [] => Crash "RecursionError"
      | _ => do r <- reseq_list s step' sub;
             if SEQ_MAX <? fst r then VErr else Ok (fst r, RGroup (fst r) id (snd r))
      end
  end.
Proof.
  cbn [reseq_item]. destruct (wrap_args s d); auto. now rewrite inner_is_list.
Qed.

Definition item_spec (it : ritem) : Prop :=
  forall s d last it', mode s d -> ne_groups it -> reseq_item s d it = Ok (last, it') ->
    1 <= nl it /\ leaves it' = number_from s d (ids_of (leaves it)) /\
    last = s + d * (nl it - 1) /\ shape it' = shape it.

Lemma list_spec l : Forall item_spec l ->
  forall s d last l', mode s d -> all_ne l -> l <> [] -> reseq_list s d l = Ok (last, l') ->
    1 <= nll l /\ leaves_l l' = number_from s d (ids_of (leaves_l l)) /\
    last = s + d * (nll l - 1) /\ map shape l' = map shape l.
Proof.
  induction 1 as [|x t Hx Ht IH]; intros s d last l' M NE NN H; [congruence|].
  cbn [reseq_list] in H. destruct NE as [NEx NEt].
  destruct (reseq_item s d x) as [[lx x']| | | |] eqn:EX; cbn [bind] in H; try discriminate.
  destruct (Hx s d lx x' M NEx EX) as (N1 & L1 & La1 & S1). cbn [fst snd] in H.
  unfold nll, leaves_l, ids_of in *. cbn [flat_map]. rewrite app_length, Nat2Z.inj_add, map_app.
  fold (nl x) in *.
  destruct t as [|y t'].
  - injection H as <- <-. cbn [flat_map map app length]. rewrite !app_nil_r. cbn.
    repeat split; auto; try lia. now rewrite S1.
  - assert (M' : mode (lx + d) d).
    { unfold mode in *. destruct M as [[A B]|[-> ->]]; [left|right]; nia. }
    destruct (reseq_list (lx + d) d (y :: t')) as [[lq q]| | | |] eqn:EQ; cbn [bind] in H; try discriminate.
    injection H as <- <-.
    destruct (IH (lx + d) d lq q M' NEt ltac:(discriminate) EQ) as (N2 & L2 & La2 & S2).
    cbn [flat_map map]. rewrite L1, L2. rewrite number_from_app, map_length.
    fold (nl x). repeat split.
    + lia.
    + f_equal. f_equal. rewrite La1. ring.
    + rewrite La2, La1. cbn [flat_map]. ring.
    + now rewrite S1, S2.
Qed.

Lemma all_items_spec : forall it, item_spec it.
Proof.
  apply ritem_ind2.
  - intros sq id s d last it' M _ H. cbn in H. injection H as <- <-. unfold nl. cbn.
    repeat split; auto; lia.
  - intros sq id sub F s d last it' M NE H. rewrite reseq_group in H.
    apply ne_groups_group in NE as [NE AN].
    destruct (wrap_args s d) as [d'|] eqn:W; [|discriminate].
    pose proof (wrap_some _ _ _ W) as B. rewrite (wrap_mode s d M) in W by lia. injection W as <-.
    destruct sub as [|x0 t0]; [congruence|].
    destruct (reseq_list s d (x0 :: t0)) as [[lr r]| | | |] eqn:E; cbn [bind] in H; try discriminate.
    cbn [fst snd] in H. destruct (SEQ_MAX <? lr); [discriminate|]. injection H as <- <-.
    destruct (list_spec _ F s d lr r M AN NE E) as (N1 & L1 & La & S1).
    unfold nl. cbn [leaves shape]. fold (leaves_l (x0 :: t0)). fold (leaves_l r).
    repeat split; auto. now rewrite S1.
Qed.

(** * the public operation *)
Theorem resequence_numbers start step items last items' :
  resequence start step items = Ok (last, items') -> 0 < start -> all_ne items -> items <> [] ->
  1 <= step /\
  leaves_l items' = number_from start step (ids_of (leaves_l items)) /\
  last = start + step * (nll items - 1) /\ map shape items' = map shape items.
Proof.
  unfold resequence. intros H Hs NE NN.
  destruct (wrap_args start step) as [d'|] eqn:W; [|discriminate].
  assert (1 <= step /\ d' = step) as [Hd ->].
  { unfold wrap_args in W. destruct (negb _); [discriminate|].
    replace (start =? 0) with false in W by (symmetry; apply Z.eqb_neq; lia). cbn [negb andb] in W.
    destruct (step <? 1) eqn:L; [discriminate|]. apply Z.ltb_ge in L. injection W as <-. auto. }
  destruct (reseq_list start step items) as [[lr r]| | | |] eqn:E; cbn [bind] in H; try discriminate.
  cbn [fst] in H. destruct (SEQ_MAX <? lr); [discriminate|]. injection H as <- <-.
  split; auto.
  assert (AF : Forall item_spec items) by (apply Forall_forall; intros x _; apply all_items_spec).
  destruct (list_spec items AF start step lr r (or_introl (conj Hs Hd)) NE NN E) as (_ & L & La & S).
  auto.
Qed.

(** start 0 removes all numbers (whatever the step) *)
Theorem resequence_zero step items last items' :
  resequence 0 step items = Ok (last, items') -> all_ne items -> items <> [] ->
  last = 0 /\ Forall (fun e => fst e = 0) (leaves_l items') /\ map shape items' = map shape items.
Proof.
  unfold resequence. intros H NE NN. rewrite SEQ_MAX_val in *.
  assert (W : wrap_args 0 step = Some 0) by (unfold wrap_args; rewrite SEQ_MAX_val; reflexivity).
  rewrite W in H.
  destruct (reseq_list 0 0 items) as [[lr r]| | | |] eqn:E; cbn [bind] in H; try discriminate.
  cbn [fst] in H. destruct (4294967295 <? lr); [discriminate|]. injection H as <- <-.
  assert (AF : Forall item_spec items) by (apply Forall_forall; intros x _; apply all_items_spec).
  destruct (list_spec items AF 0 0 lr r (or_intror (conj eq_refl eq_refl)) NE NN E) as (_ & L & La & S).
  split; [lia|]. split; auto. rewrite L. clear. generalize (ids_of (leaves_l items)).
  induction l as [|i t IH]; cbn [number_from]; constructor; auto.
Qed.

(** errors *)
Theorem resequence_errors start step items :
  (start < 0 \/ SEQ_MAX < start \/ (0 < start /\ step < 1)) -> resequence start step items = VErr.
Proof.
  unfold resequence, wrap_args. intros H.
  destruct (0 <=? start) eqn:A, (start <=? SEQ_MAX) eqn:B; cbn [andb negb]; auto.
  apply Z.leb_le in A. apply Z.leb_le in B.
  destruct H as [H|[H|[H1 H2]]]; try lia.
  replace (start =? 0) with false by (symmetry; apply Z.eqb_neq; lia).
  replace (step <? 1) with true by (symmetry; apply Z.ltb_lt; lia). reflexivity.
Qed.

Lemma number_from_bound d ids : 0 <= d -> forall s e,
  In e (number_from s d ids) -> s <= fst e <= s + d * (Z.of_nat (length ids) - 1).
Proof.
  intros Hd. induction ids as [|i t IH]; intros s e H; [destruct H|].
  cbn [number_from] in H. destruct H as [<-|H].
  - cbn [fst length]. nia.
  - specialize (IH _ _ H). cbn [length]. nia.
Qed.

(** a normally returning call never leaves a number above 4294967295 *)
Theorem resequence_bound start step items last items' :
  resequence start step items = Ok (last, items') -> all_ne items -> items <> [] ->
  last <= SEQ_MAX /\ Forall (fun e => fst e <= SEQ_MAX) (leaves_l items').
Proof.
  intros H NE NN. pose proof H as H0. unfold resequence in H.
  destruct (wrap_args start step) as [d'|] eqn:W; [|discriminate].
  destruct (reseq_list start d' items) as [[lr r]| | | |] eqn:E; cbn [bind] in H; try discriminate.
  cbn [fst] in H. destruct (SEQ_MAX <? lr) eqn:L; [discriminate|]. injection H as <- <-.
  apply Z.ltb_ge in L. split; auto.
  pose proof (wrap_some _ _ _ W) as B.
  destruct (Z.eq_dec start 0) as [->|NZ].
  - destruct (resequence_zero _ _ _ _ H0 NE NN) as (_ & F & _).
    eapply Forall_impl; [|exact F]. intros e He. rewrite He, SEQ_MAX_val. lia.
  - destruct (resequence_numbers _ _ _ _ _ H0 ltac:(lia) NE NN) as (Hd & Lv & La & _).
    rewrite Lv. apply Forall_forall. intros e He.
    apply (number_from_bound step _ ltac:(lia)) in He.
    unfold nll, ids_of in *. rewrite map_length in He. lia.
Qed.

