(** C04, algorithm level: the result of [delete_shadow] always passes the removal certificate,
    for item lists whose ACE lines are pairwise distinct and distinct from the remark lines
    ("same text => same entry", DESIGN section 5; remark lines begin with the word remark). *)
From V Require Import base.Prelude base.Strs model.Shading spec.AclSem proofs.AclProofs.

Section Algo.
  Variable A : Type.
  Variable sh : A -> A -> bool.

  Notation item := (item A).

  (** * what the report contains *)
  Definition values (d : dict) : list string := flat_map snd d.

  Lemma values_dict_append k v d x : In x (values (dict_append k v d)) -> x = v \/ In x (values d).
  Proof.
    induction d as [|[k' vs] t IH]; cbn [dict_append values flat_map snd].
    - intros [<-|[]]. now left.
    - destruct (String.eqb k k'); cbn [values flat_map snd]; rewrite !in_app_iff.
      + cbn [In]. intuition (subst; auto).
      + intros [H|H]; [tauto|]. destruct (IH H); tauto.
  Qed.

  (** [v] is the line of an ACE of [aces] that is in the shadow of an ACE standing before it *)
  Definition shaded (aces : list (string * A)) (v : string) : Prop :=
    exists l1 top l2 bot l3, aces = l1 ++ top :: l2 ++ bot :: l3 /\ fst bot = v /\ sh (snd bot) (snd top) = true.

  Lemma inner_values top : forall bots d shadow x,
    In x (values (fst (shading_inner A sh top bots d shadow))) ->
    In x (values d) \/ exists l2 bot l3, bots = l2 ++ bot :: l3 /\ fst bot = x /\ sh (snd bot) (snd top) = true.
  Proof.
    induction bots as [|bt rest IH]; intros d shadow x H; cbn [shading_inner] in H.
    - now left.
    - destruct (sh (snd bt) (snd top)) eqn:E.
      + apply IH in H as [H|(l2 & bot & l3 & -> & Hx & Hs)].
        * destruct (mem_str (fst bt) shadow); [now left|].
          apply values_dict_append in H as [->|H]; [|now left].
          right. exists [], bt, rest. auto.
        * right. exists (bt :: l2), bot, l3. auto.
      + apply IH in H as [H|(l2 & bot & l3 & -> & Hx & Hs)]; [now left|].
        right. exists (bt :: l2), bot, l3. auto.
  Qed.

  Lemma outer_values : forall aces pre d shadow x,
    In x (values (shading_outer A sh aces d shadow)) ->
    In x (values d) \/ shaded (pre ++ aces) x.
  Proof.
    induction aces as [|top rest IH]; intros pre d shadow x H; cbn [shading_outer] in H.
    - now left.
    - replace (pre ++ top :: rest) with ((pre ++ [top]) ++ rest) by (now rewrite <- app_assoc).
      apply IH with (pre := pre ++ [top]) in H as [H|H]; [|now right].
      apply inner_values in H as [H|(l2 & bot & l3 & -> & Hx & Hs)]; [now left|].
      right. exists pre, top, l2, bot, l3. rewrite <- app_assoc. auto.
  Qed.

  Lemma shading_values items x :
    In x (values (shading sh items)) -> shaded (aces_of items) x.
  Proof.
    unfold shading. intros H. apply (outer_values _ [] [] []) in H as [[]|H]. exact H.
  Qed.

  (** * what the removal loop does to the item list *)
  (** [dropped P l l']: [l'] is [l] without some elements, each of which satisfies [P] *)
  Inductive dropped (P : item -> Prop) : list item -> list item -> Prop :=
  | d_nil : dropped P [] []
  | d_keep x l l' : dropped P l l' -> dropped P (x :: l) (x :: l')
  | d_drop x l l' : P x -> dropped P l l' -> dropped P (x :: l) l'.

  Lemma dropped_refl (P : item -> Prop) l : dropped P l l.
  Proof. induction l; constructor; auto. Qed.

  Lemma dropped_trans (P : item -> Prop) l1 l2 l3 : dropped P l1 l2 -> dropped P l2 l3 -> dropped P l1 l3.
  Proof.
    intros H. revert l3. induction H as [|x l l' H IH|x l l' Px H IH]; intros l3 H3.
    - exact H3.
    - inversion H3; subst; [constructor 2|constructor 3]; auto.
    - constructor 3; auto.
  Qed.

  Lemma dropped_app (P : item -> Prop) a a' b b' : dropped P a a' -> dropped P b b' -> dropped P (a ++ b) (a' ++ b').
  Proof. intros H. induction H; cbn; intros Hb; [exact Hb|constructor 2|constructor 3]; auto. Qed.

  Lemma dropped_filter (P : item -> Prop) (f : item -> bool) l :
    (forall x, f x = false -> P x) -> dropped P l (filter f l).
  Proof.
    intros H. induction l as [|x t IH]; cbn [filter]; [constructor|].
    destruct (f x) eqn:E; [constructor 2|constructor 3]; auto.
  Qed.

  Definition line_in (S0 : list string) (o : item) : Prop := In (item_line o) S0.

  Lemma filter_subset (f : string -> bool) l x : In x (filter f l) -> In x l.
  Proof. intros H. apply filter_In in H. tauto. Qed.

  Lemma delete_step_dropped S0 lines st top st' :
    (forall x, In x (snd st) -> In x S0) ->
    delete_step A lines st top = Ok st' ->
    dropped (line_in S0) (fst st) (fst st') /\ (forall x, In x (snd st') -> In x S0).
  Proof.
    intros Sub H. unfold delete_step in H. destruct (index_of top lines) as [i|]; [|discriminate].
    injection H as <-. cbn [fst snd]. split.
    - rewrite <- (firstn_skipn (S i) (fst st)) at 1. apply dropped_app; [apply dropped_refl|].
      apply dropped_filter. intros x Hx. apply negb_false_iff in Hx. apply mem_str_In in Hx.
      unfold line_in. auto.
    - intros x Hx. apply filter_subset in Hx. auto.
  Qed.

  Lemma delete_loop_dropped S0 lines : forall tops st st',
    (forall x, In x (snd st) -> In x S0) ->
    delete_loop A lines st tops = Ok st' ->
    dropped (line_in S0) (fst st) (fst st').
  Proof.
    induction tops as [|t rest IH]; intros st st' Sub H; cbn [delete_loop] in H.
    - injection H as <-. apply dropped_refl.
    - destruct (delete_step A lines st t) as [st1| | | |] eqn:E; cbn in H; try discriminate.
      destruct (delete_step_dropped S0 lines st t st1 Sub E) as [D Sub1].
      eapply dropped_trans; [exact D|]. now apply IH.
  Qed.

  (** * from "dropped" to the certificate *)
  Definition ace_lines_unique (items : list item) : Prop := NoDup (map fst (aces_of items)).
  Definition remark_lines_apart (items : list item) : Prop :=
    forall l, In (IRemark l) items -> ~ In l (map fst (aces_of items)).

  Lemma aces_of_app (a b : list item) : aces_of (a ++ b) = aces_of a ++ aces_of b.
  Proof. unfold aces_of. apply flat_map_app. Qed.

  (** with unique lines, an ACE whose line is shaded is shaded by an ACE of its own prefix *)
  Lemma shaded_prefix pre l a suf :
    NoDup (map fst (aces_of (pre ++ IAce l a :: suf))) ->
    shaded (aces_of (pre ++ IAce l a :: suf)) l ->
    existsb (fun t => sh a t) (map snd (aces_of pre)) = true.
  Proof.
    intros ND (l1 & top & l2 & bot & l3 & E & Hl & Hs).
    rewrite aces_of_app in E, ND. cbn [aces_of flat_map] in E, ND. fold (aces_of suf) in E, ND.
    (* the occurrence of line l is unique: bot is (l, a) and sits at the end of aces_of pre *)
    assert (Hsplit : aces_of pre = l1 ++ top :: l2 /\ bot = (l, a)).
    { set (X := aces_of pre) in *. set (Y := aces_of suf) in *.
      assert (E2 : X ++ (l, a) :: Y = (l1 ++ top :: l2) ++ bot :: l3) by (rewrite <- app_assoc; exact E).
      clear E. revert E2 ND. generalize (l1 ++ top :: l2) as Z. intros Z. revert Z.
      induction X as [|x X IH]; intros Z E2 ND.
      - destruct Z as [|z Z].
        + cbn in E2. injection E2 as E2a _. auto.
        + cbn in E2. injection E2 as E2a E2b. exfalso.
          cbn [app map] in ND. apply NoDup_cons_iff in ND as [Hn _]. apply Hn. cbn [fst].
          rewrite E2b, map_app. apply in_or_app. right. cbn [map]. left. exact Hl.
      - destruct Z as [|z Z].
        + cbn in E2. injection E2 as E2a E2b. exfalso.
          cbn [app map] in ND. apply NoDup_cons_iff in ND as [Hn _]. apply Hn.
          rewrite E2a, Hl, map_app. apply in_or_app. right. cbn [map fst]. now left.
        + cbn in E2. injection E2 as E2a E2b. cbn [app map] in ND. apply NoDup_cons_iff in ND as [_ ND'].
          destruct (IH Z E2b ND') as [-> ->]. rewrite E2a. auto. }
    destruct Hsplit as [-> ->]. cbn [snd] in Hs.
    apply existsb_exists. exists (snd top). split; [|exact Hs].
    rewrite map_app. apply in_or_app. right. now left.
  Qed.

  Theorem dropped_certificate S0 : forall suf pre rest,
    (forall v, In v S0 -> shaded (aces_of (pre ++ suf)) v) ->
    ace_lines_unique (pre ++ suf) -> remark_lines_apart (pre ++ suf) ->
    dropped (line_in S0) suf rest ->
    exists keep, rest = select A suf keep /\ removal_okb A sh (map snd (aces_of pre)) suf keep = true.
  Proof.
    induction suf as [|o suf IH]; intros pre rest HS U R D.
    - inversion D; subst. exists []. split; reflexivity.
    - assert (E : pre ++ o :: suf = (pre ++ [o]) ++ suf) by (now rewrite <- app_assoc).
      assert (seen' : map snd (aces_of (pre ++ [o])) =
                      match o with IAce _ a => map snd (aces_of pre) ++ [a] | IRemark _ => map snd (aces_of pre) end).
      { rewrite aces_of_app, map_app. destruct o; cbn; [reflexivity|now rewrite app_nil_r]. }
      inversion D as [|x l l' D'|x l l' Px D']; subst.
      + destruct (IH (pre ++ [o]) l') as (keep & -> & OK); auto; try (rewrite <- E; auto).
        exists (true :: keep). split; [reflexivity|]. cbn [removal_okb]. rewrite <- seen'. exact OK.
      + destruct (IH (pre ++ [o]) rest) as (keep & -> & OK); auto; try (rewrite <- E; auto).
        exists (false :: keep). split; [reflexivity|]. cbn [removal_okb]. rewrite <- seen'. rewrite OK, andb_true_r.
        unfold line_in in Px. destruct o as [l a|l]; cbn [item_line] in Px.
        * apply (shaded_prefix pre l a suf U). apply HS. exact Px.
        * exfalso. apply (R l); [apply in_or_app; right; now left|].
          destruct (HS _ Px) as (l1 & top & l2 & bot & l3 & Ea & Hl & _). rewrite Ea, <- Hl.
          rewrite !map_app. apply in_or_app. right. cbn. right. rewrite map_app. apply in_or_app. right. now left.
  Qed.

  (** * the algorithm-level theorem *)
  Theorem delete_shadow_certified items d rest :
    ace_lines_unique items -> remark_lines_apart items ->
    delete_shadow sh items = Ok (d, rest) ->
    exists keep, rest = select A items keep /\ removal_okb A sh [] items keep = true.
  Proof.
    intros U R H. unfold delete_shadow in H.
    destruct (shading sh items) as [|e t] eqn:E.
    - injection H as <- <-. destruct (dropped_certificate [] items [] items) as (keep & K1 & K2); auto.
      + intros v [].
      + apply dropped_refl.
      + exists keep. auto.
    - destruct (delete_loop A (map (@item_line A) items) (items, shadow_list (e :: t)) (rev (map fst (e :: t))))
        as [st| | | |] eqn:L; cbn in H; try discriminate.
      injection H as <- <-.
      assert (D : dropped (line_in (values (shading sh items))) items (fst st)).
      { rewrite E. apply (delete_loop_dropped _ _ _ _ _ (fun x Hx => Hx) L). }
      destruct (dropped_certificate (values (shading sh items)) items [] (fst st)) as (keep & K1 & K2); auto.
      + intros v Hv. now apply shading_values.
      + exists keep. auto.
  Qed.
End Algo.
