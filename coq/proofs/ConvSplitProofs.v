(** C02 with port splitting: Acl.platform on flat lists of reader-built entries whose port
    expressions are 'eq' lists (split towards NX-OS), single operands, ranges or lt/gt.
    No certificate: the conversion succeeds and keeps the decision of every packet. *)
From V Require Import base.Prelude base.Strs gen.Tables model.Cfg model.Names model.Wildcard
  model.Addr model.Ports model.Ace model.Lex model.AddrText model.AceText model.AclText model.SplitPorts model.Platform
  spec.AceSem spec.AclSem proofs.WildProofs proofs.AddrProofs proofs.NamesProofs proofs.PortsProofs
  proofs.TextProofs proofs.SplitterProofs proofs.AceFixProofs proofs.AddrObjProofs proofs.ParsedAceProofs
  proofs.DeleteShadowProofs proofs.ShadowProofs proofs.AclProofs proofs.SplitProofs proofs.PlatformProofs proofs.ConvProofs.
Local Open Scope N_scope.

(** * the option text can be told from any rendered destination port *)
Lemma span_str_app f xs ys : forallb f xs = true -> match ys with [] => True | y :: _ => f y = false end ->
  span_str f (xs ++ ys) = (xs, ys).
Proof.
  induction xs as [|x t IH]; intros HF HY; cbn [app].
  - destruct ys as [|y r]; [reflexivity|]. cbn [span_str]. now rewrite HY.
  - cbn [forallb] in HF. apply andb_prop in HF as [H1 H2]. cbn [span_str]. rewrite H1, (IH H2 HY). reflexivity.
Qed.

Definition opt_sep (opts : list string) : Prop :=
  match opts with
  | [] => True
  | o0 :: _ => (is_digits o0 || is_known_name o0) = false /\ mem_str o0 OPERATORS = false
  end.

Lemma table_names_known pr pl v15 : forallb (fun e => is_known_name (fst e)) (names_table pr pl v15) = true.
Proof. destruct pr, pl, v15; vm_compute; reflexivity. Qed.

Lemma dec_is_digits n : is_digits (dec n) = true.
Proof. unfold is_digits. now rewrite undec_dec. Qed.

Lemma port_item_known nr pr pl v15 n :
  let s := render_port_item nr (names_table pr pl v15) n in (is_digits s || is_known_name s) = true.
Proof.
  cbn zeta. unfold render_port_item. destruct nr; [now rewrite dec_is_digits|].
  destruct (assoc_N n (swap (names_table pr pl v15))) as [nm|] eqn:E; [|now rewrite dec_is_digits].
  destruct (str_nonempty nm); [|now rewrite dec_is_digits].
  apply assoc_N_In, swap_In in E. pose proof (table_names_known pr pl v15) as T. rewrite forallb_forall in T.
  specialize (T _ E). cbn [fst] in T. rewrite T. apply orb_true_r.
Qed.

Lemma opt_sep_nil opts : opt_sep opts -> split_dstport_option opts = ([], opts).
Proof. destruct opts as [|o0 r]; [reflexivity|]. intros [_ H]. cbn [split_dstport_option]. now rewrite H. Qed.

Lemma opt_sep_split nr pc p opts : opt_sep opts ->
  split_dstport_option (render_port nr pc p ++ opts) = (render_port nr pc p, opts).
Proof.
  intros HS. unfold render_port. destruct (p_op p) as [op|]; [|now apply opt_sep_nil].
  destruct (p_items p) as [|x xs]; [now apply opt_sep_nil|].
  destruct pc as [[[pr pl] v15]|]; [|now apply opt_sep_nil].
  set (its := map (render_port_item nr (names_table pr pl v15)) (x :: xs)).
  cbn [app split_dstport_option].
  assert (M : mem_str (pop_name op) OPERATORS = true) by (destruct op; vm_compute; reflexivity).
  rewrite M. rewrite (span_str_app _ its opts).
  - reflexivity.
  - apply forallb_forall. intros s Hs. unfold its in Hs. apply in_map_iff in Hs as (n & <- & _). apply port_item_known.
  - destruct opts as [|o0 r]; [exact I|]. exact (proj1 HS).
Qed.

(** * the protocol context is tcp/udp on both platforms or on neither *)
Definition ctx_none (c : pctx) : bool := match c with None => true | Some _ => false end.
Lemma proto_ctx_plat_ok v15 :
  forallb (fun n => Bool.eqb (ctx_none (proto_ctx Ios v15 n)) (ctx_none (proto_ctx Nxos v15 n))) (seqN 0 256) = true.
Proof. destruct v15; vm_compute; reflexivity. Qed.

Lemma proto_ctx_plat pl pl' v15 n : n <= 255 -> (pl = Ios \/ pl = Nxos) -> (pl' = Ios \/ pl' = Nxos) ->
  proto_ctx pl' v15 n = None -> proto_ctx pl v15 n = None.
Proof.
  intros Hn Hpl Hpl' H. pose proof (proto_ctx_plat_ok v15) as F. rewrite forallb_forall in F.
  specialize (F n (seqN_In_256 n Hn)). apply Bool.eqb_prop in F.
  destruct Hpl as [-> | ->], Hpl' as [-> | ->]; try exact H.
  - rewrite H in F. destruct (proto_ctx Ios v15 n); cbn [ctx_none] in F; [discriminate F|reflexivity].
  - rewrite H in F. destruct (proto_ctx Nxos v15 n); cbn [ctx_none] in F; [discriminate F|reflexivity].
Qed.

(** * a reader-built port on the other platform *)
Definition target_ok (pl' : platform) (p : port) : Prop :=
  ctx_platform_single pl' = false \/ splittable p = false \/ length (p_items p) = 1%nat.

Lemma parse_nums_fields pl c op xs p : xs <> [] -> parse_nums pl c op xs = Ok p ->
  p_op p = Some op /\ p_items p = sortN xs /\ (op = Eq -> p_ports p = p_items p)
  /\ (do ps <- items_to_ports op (sortN xs); Ok (mkPort (Some op) (sortN xs) ps (ports_to_string ps))) = Ok p.
Proof.
  intros NE H. rewrite (parse_nums_eq pl c op xs NE) in H.
  destruct (valid_count (ctx_platform_single pl) op (length xs)); [|discriminate].
  destruct (items_to_ports op (sortN xs)) as [ps| | | |] eqn:EP; cbn [bind] in H; try discriminate.
  injection H as <-. cbn [p_op p_items p_ports]. split; [reflexivity|]. split; [reflexivity|]. split; [|reflexivity].
  intros ->. cbn [items_to_ports] in EP. congruence.
Qed.

Lemma parse_nums_nil pl c op : parse_nums pl c op [] = VErr.
Proof. unfold parse_nums, parse_port. cbn [map]. now rewrite pop_of_name. Qed.

Lemma port_transfer pl pl' c c' toks p :
  parse_port pl c toks = Ok p -> target_ok pl' p -> exists toks', parse_port pl' c' toks' = Ok p.
Proof.
  intros H T. destruct toks as [|o items].
  - cbn [parse_port] in H. injection H as <-. exists []. reflexivity.
  - destruct (parse_port_is_nums pl c o items p H) as (op & xs & HN).
    destruct xs as [|x0 xs']; [rewrite parse_nums_nil in HN; discriminate|].
    assert (NE : x0 :: xs' <> []) by discriminate.
    destruct (parse_nums_fields pl c op _ p NE HN) as (Eo & Ei & _ & EX).
    pose proof HN as HV. rewrite (parse_nums_eq pl c op _ NE) in HV.
    destruct (valid_count (ctx_platform_single pl) op (length (x0 :: xs'))) eqn:V; [|discriminate].
    exists (pop_name op :: map dec (x0 :: xs')). change (parse_nums pl' c' op (x0 :: xs') = Ok p).
    rewrite (parse_nums_eq pl' c' op _ NE).
    assert (V' : valid_count (ctx_platform_single pl') op (length (x0 :: xs')) = true).
    { destruct op; try exact V.
      - destruct T as [T|[T|T]].
        + cbn [valid_count]. now rewrite T.
        + unfold splittable in T. rewrite Eo in T. discriminate.
        + rewrite Ei, sortN_length in T. cbn [valid_count]. rewrite T. apply orb_true_r.
      - destruct T as [T|[T|T]].
        + cbn [valid_count]. now rewrite T.
        + unfold splittable in T. rewrite Eo in T. discriminate.
        + rewrite Ei, sortN_length in T. cbn [valid_count]. rewrite T. apply orb_true_r. }
    rewrite V'. exact EX.
Qed.

Lemma eq_port_parse pl c x : parse_port pl c ["eq"%string; dec x] = Ok (eq_port x).
Proof. exact (single_eq pl c (eq_port x) x eq_refl). Qed.

(** the class of port expressions: anything but 'neq' with several operands (finding N5 of C19) *)
Definition port_cls (p : port) : Prop := p_op p <> Some Neq \/ length (p_items p) = 1%nat.

(** the pieces of one side *)
Definition side_list (p : port) : list port :=
  match p_op p with Some Eq => map eq_port (p_items p) | _ => [p] end.

Lemma reader_side pl c toks p : parse_port pl c toks = Ok p -> port_cls p ->
  side_ports pl c p = Ok (side_list p)
  /\ forall proto x, port_match p proto x <-> exists q, In q (side_list p) /\ port_match q proto x.
Proof.
  intros H CL.
  assert (SELF : forall l : list port, l = [p] ->
            forall proto x, port_match p proto x <-> exists q, In q l /\ port_match q proto x).
  { intros l -> proto x. split; [intros M; exists p; split; [now left|exact M]|intros (q & [<-|[]] & M); exact M]. }
  destruct toks as [|o items].
  - cbn [parse_port] in H. injection H as <-. split; [reflexivity|]. now apply SELF.
  - destruct (parse_port_is_nums pl c o items p H) as (op & xs & HN).
    destruct xs as [|x0 xs']; [rewrite parse_nums_nil in HN; discriminate|].
    assert (NE : x0 :: xs' <> []) by discriminate.
    destruct (parse_nums_fields pl c op _ p NE HN) as (Eo & Ei & EP & EX).
    unfold side_list. rewrite Eo. destruct op.
    + (* eq *) destruct (side_eq pl c p Eo (EP eq_refl)) as [E M]. split; [exact E|exact M].
    + split; [unfold side_ports, splittable; now rewrite Eo|now apply SELF].
    + split; [unfold side_ports, splittable; now rewrite Eo|now apply SELF].
    + (* neq: one operand *)
      destruct CL as [CL|CL]; [congruence|]. split; [|now apply SELF].
      rewrite Ei in CL. destruct (sortN (x0 :: xs')) as [|y [|y2 ys]] eqn:ES; try discriminate.
      unfold side_ports, splittable. rewrite Eo, Ei. cbn [SplitPorts.map_res].
      assert (SP : single_port pl c p y = Ok p).
      { unfold single_port, set_items, op_token. rewrite Eo. cbn [app map pop_name].
        change (parse_port pl c ["neq"%string; dec y]) with (parse_nums pl c Neq [y]).
        rewrite parse_nums_eq by discriminate. cbn [length valid_count].
        replace (negb (ctx_platform_single pl) || Nat.eqb 1 1) with true by (now destruct (ctx_platform_single pl)).
        rewrite (sortN_id [y]) by (repeat constructor). exact EX. }
      rewrite SP. reflexivity.
    + split; [unfold side_ports, splittable; now rewrite Eo|now apply SELF].
Qed.

Lemma side_list_spec pl c toks p : parse_port pl c toks = Ok p -> port_cls p -> side_ports pl c p = Ok (side_list p).
Proof. intros H CL. exact (proj1 (reader_side pl c toks p H CL)). Qed.

Lemma side_list_built pl pl' c c' toks p q :
  parse_port pl c toks = Ok p -> port_cls p -> In q (side_list p) ->
  (exists toks', parse_port pl' c' toks' = Ok q) /\ (q = p \/ p_op p = Some Eq \/ p_op p = Some Neq)
  /\ port_cls q.
Proof.
  intros H CL Hq. unfold side_list in Hq.
  assert (SELF : In q [p] -> (splittable p = false \/ length (p_items p) = 1%nat) ->
            (exists toks', parse_port pl' c' toks' = Ok q) /\ (q = p \/ p_op p = Some Eq \/ p_op p = Some Neq) /\ port_cls q).
  { intros [<-|[]] TK. split; [|split; [now left|exact CL]].
    apply (port_transfer pl pl' c c' toks p H). right. exact TK. }
  destruct (p_op p) as [[]|] eqn:Eo.
  - apply in_map_iff in Hq as (x & <- & _). split; [exists ["eq"%string; dec x]; apply eq_port_parse|].
    split; [right; now left|left; discriminate].
  - apply SELF; [exact Hq|left; unfold splittable; now rewrite Eo].
  - apply SELF; [exact Hq|left; unfold splittable; now rewrite Eo].
  - apply SELF; [exact Hq|]. destruct CL as [CL|CL]; [congruence|now right].
  - apply SELF; [exact Hq|left; unfold splittable; now rewrite Eo].
  - apply SELF; [exact Hq|left; unfold splittable; now rewrite Eo].
Qed.

(** * list facts about the cross product *)
Lemma flat_map_nil {A B} (l : list A) : flat_map (fun _ : A => @nil B) l = [].
Proof. induction l as [|x t IH]; [reflexivity|]. cbn [flat_map app]. exact IH. Qed.

Lemma cross_single {A B C} (f : A -> B -> C) ss dd :
  (exists s d, ss = [s] /\ dd = [d])
  \/ match flat_map (fun s => map (f s) dd) ss with [_] => False | _ => True end.
Proof.
  destruct ss as [|s1 [|s2 ss]].
  - right. exact I.
  - destruct dd as [|d1 [|d2 dd]].
    + right. exact I.
    + left. eauto.
    + right. exact I.
  - destruct dd as [|d1 [|d2 dd]].
    + right. cbn [flat_map map app]. rewrite flat_map_nil. exact I.
    + right. exact I.
    + right. exact I.
Qed.

Lemma side_single pl c toks p s : parse_port pl c toks = Ok p -> side_list p = [s] -> s = p.
Proof.
  intros H E. unfold side_list in E. destruct (p_op p) as [[]|] eqn:Eo0; try (now injection E as <-).
  destruct toks as [|o items]; [cbn [parse_port] in H; injection H as <-; discriminate|].
  destruct (parse_port_is_nums pl c o items p H) as (op & xs & HN).
  destruct xs as [|x0 xs']; [rewrite parse_nums_nil in HN; discriminate|].
  assert (NE : x0 :: xs' <> []) by discriminate.
  destruct (parse_nums_fields pl c op _ p NE HN) as (Eo & Ei & EP & EX).
  assert (op = Eq) as -> by congruence.
  rewrite Ei in E. destruct (sortN (x0 :: xs')) as [|y [|y2 ys]] eqn:ES; cbn [map] in E; try discriminate.
  injection E as <-. cbn [items_to_ports bind] in EX. now injection EX as <-.
Qed.

Lemma ungroup_fst pl v15 a L : split_ace pl v15 a = Ok L -> (forall x, L = [x] -> x = a) ->
  exists b, ungroup_ports pl v15 a = Ok (L, b).
Proof.
  intros H HX. unfold ungroup_ports. rewrite H. cbn [bind]. destruct L as [|x [|y l]]; eexists; try reflexivity.
  now rewrite (HX x eq_refl).
Qed.

Lemma decide_block L a T T' k :
  (forall a', In a' L -> a_permit a' = a_permit a) -> denb a k = existsb (fun a' => denb a' k) L ->
  decide denb a_permit T k = decide denb a_permit T' k ->
  decide denb a_permit (map (Shading.IAce ""%string) L ++ T) k = decide denb a_permit (Shading.IAce ""%string a :: T') k.
Proof.
  intros HP HE HT. cbn [decide]. rewrite HE. clear HE. induction L as [|x L IH]; cbn [map app existsb decide].
  - exact HT.
  - destruct (denb x k); cbn [orb].
    + now rewrite (HP x (or_introl eq_refl)).
    + apply IH. intros a' Ha'. apply HP. now right.
Qed.

(** * one entry, built by the readers of the SOURCE platform *)
Definition src_built (mem : bool) (c : cfg) (t : tace) : Prop :=
  exists permit n sq s d toks1 toks2 p1 p2 opts flags logs,
    t = mkTace true sq (mkAce permit n s d p1 p2 flags logs) opts
    /\ n <= 255
    /\ addr_src mem (plat c) (Z.of_nat (max_ncwb c)) s
    /\ addr_src mem (plat c) (Z.of_nat (max_ncwb c)) d
    /\ (parse_port (plat c) (proto_ctx (plat c) (is15 c) n) toks1 = Ok p1
        /\ (proto_ctx (plat c) (is15 c) n = None -> p1 = empty_port) /\ port_cls p1)
    /\ (parse_port (plat c) (proto_ctx (plat c) (is15 c) n) toks2 = Ok p2
        /\ (proto_ctx (plat c) (is15 c) n = None -> p2 = empty_port) /\ port_cls p2)
    /\ (Forall token opts /\ Forall af opts /\ parse_option opts = Ok (flags, logs) /\ opt_sep opts).

(** a remark whose text is a blank-joined list of tokens (what every reader produces) *)
Definition remark_ok (text : string) : Prop := exists toks, toks <> [] /\ Forall token toks /\ text = join " " toks.

Definition item_src (mem : bool) (c : cfg) (i : aitem) : Prop :=
  match i with AIRemark _ text => remark_ok text | AIAce t => src_built mem c t end.

Section OneEntry.
  Variable mem : bool.
  Variable c : cfg.
  Variable pl' : platform.
  Let pl := plat c.
  Hypothesis Hpl : pl = Ios \/ pl = Nxos.
  Hypothesis Hpl' : pl' = Ios \/ pl' = Nxos.
  Variables (permit : bool) (n sq : N) (s d : addr) (toks1 toks2 : list string)
            (p1 p2 : port) (opts flags logs : list string).
  Let pc := proto_ctx pl (is15 c) n.
  Let pc' := proto_ctx pl' (is15 c) n.
  Hypothesis Hn : n <= 255.
  Hypothesis Hs : addr_src mem pl (Z.of_nat (max_ncwb c)) s.
  Hypothesis Hd : addr_src mem pl (Z.of_nat (max_ncwb c)) d.
  Hypothesis Hp1 : parse_port pl pc toks1 = Ok p1 /\ (pc = None -> p1 = empty_port) /\ port_cls p1.
  Hypothesis Hp2 : parse_port pl pc toks2 = Ok p2 /\ (pc = None -> p2 = empty_port) /\ port_cls p2.
  Hypothesis Ho : Forall token opts /\ Forall af opts /\ parse_option opts = Ok (flags, logs) /\ opt_sep opts.

  Lemma none_back : pc' = None -> pc = None.
  Proof. apply proto_ctx_plat; assumption. Qed.

  (** any pair of pieces is an entry built for the target platform *)
  Lemma piece_built q1 q2 :
    (exists t1, parse_port pl' pc' t1 = Ok q1) -> (q1 = p1 \/ p_op p1 = Some Eq \/ p_op p1 = Some Neq) ->
    (exists t2, parse_port pl' pc' t2 = Ok q2) -> (q2 = p2 \/ p_op p2 = Some Eq \/ p_op p2 = Some Neq) ->
    reader_built mem c pl' (mkTace true sq (mkAce permit n s d q1 q2 flags logs) opts).
  Proof.
    intros (t1 & T1) R1 (t2 & T2) R2.
    destruct Hp1 as (P1 & E1 & N1). destruct Hp2 as (P2 & E2 & N2). destruct Ho as (O1 & O2 & O3 & O4).
    assert (Q1 : pc' = None -> q1 = empty_port).
    { intros Z. pose proof (E1 (none_back Z)) as EE. destruct R1 as [-> | [R|R]]; [exact EE| |]; rewrite EE in R; discriminate. }
    assert (Q2 : pc' = None -> q2 = empty_port).
    { intros Z. pose proof (E2 (none_back Z)) as EE. destruct R2 as [-> | [R|R]]; [exact EE| |]; rewrite EE in R; discriminate. }
    exists permit, n, sq, s, d, t1, t2, q1, q2, opts, flags, logs.
    split; [reflexivity|]. split; [exact Hn|]. split; [exact Hs|]. split; [exact Hd|].
    split; [split; [exact T1|exact Q1]|]. split; [split; [exact T2|exact Q2]|].
    split; [exact O1|]. split; [exact O2|]. split; [exact O3|]. now apply opt_sep_split.
  Qed.

  Let a := mkAce permit n s d p1 p2 flags logs.
  Let t := mkTace true sq a opts.
  Let L := flat_map (fun q1 => map (fun q2 => with_ports a q1 q2) (side_list p2)) (side_list p1).

  Lemma split_ace_L : split_ace pl (is15 c) a = Ok L.
  Proof.
    destruct Hp1 as (P1 & _ & N1). destruct Hp2 as (P2 & _ & N2).
    unfold split_ace. cbn [a a_proto a_sport a_dport]. fold pc.
    rewrite (side_list_spec pl pc toks1 p1 P1 N1), (side_list_spec pl pc toks2 p2 P2 N2). reflexivity.
  Qed.

  Lemma L_single x : L = [x] -> x = a.
  Proof.
    destruct Hp1 as (P1 & _ & N1). destruct Hp2 as (P2 & _ & N2).
    intros E. destruct (cross_single (with_ports a) (side_list p1) (side_list p2)) as [(q1 & q2 & E1 & E2)|NS].
    - unfold L in E. rewrite E1, E2 in E. cbn [flat_map map app] in E. injection E as <-.
      rewrite (side_single pl pc toks1 p1 q1 P1 E1), (side_single pl pc toks2 p2 q2 P2 E2). reflexivity.
    - change (match L with [_] => False | _ => True end) in NS. rewrite E in NS. contradiction.
  Qed.

  Lemma L_built x : In x L -> reader_built mem c pl' (mkTace true sq x opts).
  Proof.
    destruct Hp1 as (P1 & _ & N1). destruct Hp2 as (P2 & _ & N2).
    intros Hx. unfold L in Hx. apply in_flat_map in Hx as (q1 & Hq1 & Hx). apply in_map_iff in Hx as (q2 & <- & Hq2).
    destruct (side_list_built pl pl' pc pc' toks1 p1 q1 P1 N1 Hq1) as (T1 & R1 & C1).
    destruct (side_list_built pl pl' pc pc' toks2 p2 q2 P2 N2 Hq2) as (T2 & R2 & C2).
    unfold with_ports. cbn [a a_permit a_proto a_src a_dst a_flags a_logs]. now apply piece_built.
  Qed.

  Lemma L_decide k T T' :
    decide denb a_permit T k = decide denb a_permit T' k ->
    decide denb a_permit (map (Shading.IAce ""%string) L ++ T) k = decide denb a_permit (Shading.IAce ""%string a :: T') k.
  Proof.
    destruct Hp1 as (P1 & _ & N1). destruct Hp2 as (P2 & _ & N2).
    destruct (reader_side pl pc toks1 p1 P1 N1) as (_ & M1).
    destruct (reader_side pl pc toks2 p2 P2 N2) as (_ & M2).
    assert (Fld : forall a', In a' L -> a_permit a' = a_permit a /\ a_src a' = a_src a /\ a_dst a' = a_dst a).
    { intros a' Ha'. unfold L in Ha'. apply in_flat_map in Ha' as (q1 & _ & Ha'). apply in_map_iff in Ha' as (q2 & <- & _).
      repeat split. }
    assert (Den : forall srcs dsts, den a srcs dsts k <-> exists a', In a' L /\ den a' srcs dsts k).
    { intros srcs dsts. unfold den. split.
      - intros (D1 & D2 & D3 & D4 & D5 & D6).
        apply M1 in D4 as (q1 & Hq1 & Mq1). apply M2 in D5 as (q2 & Hq2 & Mq2).
        exists (with_ports a q1 q2). split.
        + unfold L. apply in_flat_map. exists q1. split; [exact Hq1|]. now apply in_map.
        + cbn. tauto.
      - intros (a' & Ha' & (D1 & D2 & D3 & D4 & D5 & D6)).
        unfold L in Ha'. apply in_flat_map in Ha' as (q1 & Hq1 & Ha'). apply in_map_iff in Ha' as (q2 & <- & Hq2).
        cbn in *. repeat split; auto.
        + apply M1. exists q1. auto.
        + apply M2. exists q2. auto. }
    apply decide_block.
    - intros a' Ha'. now destruct (Fld a' Ha').
    - apply Bool.eq_iff_eq_true. rewrite existsb_exists. split.
      + intros HD. apply denb_spec in HD. apply Den in HD as (a' & Ha' & HD'). exists a'. split; [exact Ha'|].
        apply denb_spec. destruct (Fld a' Ha') as (_ & -> & ->). exact HD'.
      + intros (a' & Ha' & HD'). apply denb_spec in HD'. destruct (Fld a' Ha') as (_ & E3 & E4).
        rewrite E3, E4 in HD'. apply denb_spec. apply Den. eauto.
  Qed.

  Lemma split_entry :
    exists pieces, split_titem c (AIAce t) = Ok pieces
      /\ Forall (item_built mem c pl') pieces
      /\ forall k T T', decide denb a_permit (map sem_item T) k = decide denb a_permit (map sem_item T') k ->
           decide denb a_permit (map sem_item (pieces ++ T)) k = decide denb a_permit (map sem_item (AIAce t :: T')) k.
  Proof.
    destruct (ungroup_fst pl (is15 c) a L split_ace_L L_single) as (b & UG).
    exists (map (fun a' => AIAce (mkTace true sq a' opts)) L). split; [|split].
    - cbn [split_titem t t_ace t_type_ext t_seq t_option_line]. fold pl. rewrite UG. reflexivity.
    - apply Forall_forall. intros i Hi. apply in_map_iff in Hi as (x & <- & Hx). cbn [item_built]. now apply L_built.
    - intros k T T' HT. rewrite map_app, map_map. cbn [sem_item t_ace map t]. 
      change (map (fun x : ace => Shading.IAce ""%string x) L) with (map (Shading.IAce ""%string) L).
      now apply L_decide.
  Qed.

  (** without splitting: valid on the target when the ports are *)
  Lemma entry_target : target_ok pl' p1 -> target_ok pl' p2 -> reader_built mem c pl' t.
  Proof.
    intros K1 K2. destruct Hp1 as (P1 & _ & _). destruct Hp2 as (P2 & _ & _).
    apply piece_built; [now apply (port_transfer pl pl' pc pc' toks1)|now left|now apply (port_transfer pl pl' pc pc' toks2)|now left].
  Qed.
End OneEntry.

(** * the list *)
Lemma split_items mem c pl' : (plat c = Ios \/ plat c = Nxos) -> (pl' = Ios \/ pl' = Nxos) ->
  forall items, Forall (item_src mem c) items ->
  exists items1, flat_map_res (split_titem c) items = Ok items1
    /\ Forall (item_built mem c pl') items1
    /\ forall k, decide denb a_permit (map sem_item items1) k = decide denb a_permit (map sem_item items) k.
Proof.
  intros Hpl Hpl'. induction 1 as [|i items Hi _ (items1 & E & B & D)].
  - exists []. repeat split. constructor.
  - destruct i as [t|sq tx].
    + destruct Hi as (permit & n & sq & s & d & toks1 & toks2 & p1 & p2 & opts & flags & logs
                      & -> & Hn & Hs & Hd & Hp1 & Hp2 & Ho).
      destruct (split_entry mem c pl' Hpl Hpl' permit n sq s d toks1 toks2 p1 p2 opts flags logs Hn Hs Hd Hp1 Hp2 Ho)
        as (pieces & SP & PB & PD).
      exists (pieces ++ items1). cbn [flat_map_res]. rewrite SP. cbn [bind]. rewrite E. cbn [bind].
      split; [reflexivity|]. split; [now apply Forall_app|].
      intros k. now apply PD.
    + exists (AIRemark sq tx :: items1). cbn [flat_map_res split_titem bind]. rewrite E. cbn [bind app].
      split; [reflexivity|]. split; [constructor; [exact I|exact B]|].
      intros k. cbn [map sem_item decide]. apply D.
Qed.

Lemma items_target mem c : (plat c = Ios \/ plat c = Nxos) ->
  forall items, Forall (item_src mem c) items -> Forall (item_built mem c Ios) items.
Proof.
  intros Hpl items H. eapply Forall_impl; [|exact H]. intros [t|sq tx]; cbn [item_src item_built]; [|auto].
  intros (permit & n & sq & s & d & toks1 & toks2 & p1 & p2 & opts & flags & logs
          & -> & Hn & Hs & Hd & Hp1 & Hp2 & Ho).
  apply (entry_target mem c Ios Hpl (or_introl eq_refl) permit n sq s d toks1 toks2 p1 p2 opts flags logs Hn Hs Hd Hp1 Hp2 Ho);
    left; reflexivity.
Qed.

(** THE THEOREM: Acl.platform on a flat list of reader-built entries *)
Theorem acl_conversion_split mem c pl' :
  (plat c = Ios \/ plat c = Nxos) -> (pl' = Ios \/ pl' = Nxos) ->
  forall items, Forall (item_src mem c) items ->
  exists conv, acl_set_platform c (mkCfg pl' (is15 c) (port_nr c) (protocol_nr c) (max_ncwb c)) items = Ok conv
               /\ forall k, decide denb a_permit (map sem_item conv) k = decide denb a_permit (map sem_item items) k.
Proof.
  intros Hpl Hpl' items HS. unfold acl_set_platform. cbn [plat].
  destruct Hpl' as [-> | ->].
  - destruct (items_convert mem c Ios Hpl (or_introl eq_refl) items (items_target mem c Hpl items HS)) as (conv & E & D).
    exists conv. cbn [bind]. rewrite E. split; [reflexivity|exact D].
  - destruct (split_items mem c Nxos Hpl (or_intror eq_refl) items HS) as (items1 & E1 & B1 & D1).
    destruct (items_convert mem c Nxos Hpl (or_intror eq_refl) items1 B1) as (conv & E & D).
    exists conv. rewrite E1. cbn [bind]. rewrite E. split; [reflexivity|].
    intros k. now rewrite D, D1.
Qed.

(** * the class is closed under conversion: the converted entries are reader-built on the target *)
Definition tgt_built (mem : bool) (c : cfg) (pl' : platform) (t : tace) : Prop :=
  exists permit n sq s d t1 t2 q1 q2 opts flags logs,
    t = mkTace true sq (mkAce permit n s d q1 q2 flags logs) opts
    /\ n <= 255
    /\ addr_src mem (plat c) (Z.of_nat (max_ncwb c)) s
    /\ addr_src mem (plat c) (Z.of_nat (max_ncwb c)) d
    /\ (parse_port pl' (proto_ctx pl' (is15 c) n) t1 = Ok q1
        /\ (proto_ctx pl' (is15 c) n = None -> q1 = empty_port) /\ port_cls q1)
    /\ (parse_port pl' (proto_ctx pl' (is15 c) n) t2 = Ok q2
        /\ (proto_ctx pl' (is15 c) n = None -> q2 = empty_port) /\ port_cls q2)
    /\ (Forall token opts /\ Forall af opts /\ parse_option opts = Ok (flags, logs) /\ opt_sep opts).

Definition item_tgt (mem : bool) (c : cfg) (pl' : platform) (i : aitem) : Prop :=
  match i with AIRemark _ text => remark_ok text | AIAce t => tgt_built mem c pl' t end.

Lemma tgt_converts mem c pl' t : (plat c = Ios \/ plat c = Nxos) -> (pl' = Ios \/ pl' = Nxos) -> tgt_built mem c pl' t ->
  exists r, ace_set_platform (mkCfg pl' (is15 c) (port_nr c) (protocol_nr c) (max_ncwb c)) t = Ok r
            /\ src_built mem (mkCfg pl' (is15 c) (port_nr c) (protocol_nr c) (max_ncwb c)) r
            /\ a_permit (t_ace r) = a_permit (t_ace t)
            /\ forall k, denb (t_ace r) k = denb (t_ace t) k.
Proof.
  intros Hpl Hpl' (permit & n & sq & s & d & t1 & t2 & q1 & q2 & opts & flags & logs
                   & -> & Hn & Hs & Hd & (P1 & E1 & N1) & (P2 & E2 & N2) & (O1 & O2 & O3 & O4)).
  destruct (ace_conversion_shape mem c pl' Hpl Hpl' permit n sq s d t1 t2 q1 q2 opts flags logs Hn Hs Hd
              (conj P1 E1) (conj P2 E2) (conj O1 (conj O2 (conj O3 (opt_sep_split _ _ q2 opts O4)))))
    as (E & AS & AD & ES & ED).
  eexists. split; [exact E|]. split; [|split; [reflexivity|]].
  - exists permit, n, sq, (conv_addr pl' s), (conv_addr pl' d), t1, t2, q1, q2, opts, flags, logs.
    cbn [plat max_ncwb is15].
    split; [reflexivity|]. split; [exact Hn|]. split; [exact AS|]. split; [exact AD|].
    split; [auto|]. split; [auto|]. auto.
  - intros k. unfold denb. cbn [t_ace a_src a_dst a_proto a_sport a_dport a_flags]. now rewrite ES, ED.
Qed.

Section OneEntryClosed.
  Variable mem : bool.
  Variable c : cfg.
  Variable pl' : platform.
  Let pl := plat c.
  Hypothesis Hpl : pl = Ios \/ pl = Nxos.
  Hypothesis Hpl' : pl' = Ios \/ pl' = Nxos.
  Variables (permit : bool) (n sq : N) (s d : addr) (toks1 toks2 : list string)
            (p1 p2 : port) (opts flags logs : list string).
  Let pc := proto_ctx pl (is15 c) n.
  Let pc' := proto_ctx pl' (is15 c) n.
  Hypothesis Hn : n <= 255.
  Hypothesis Hs : addr_src mem pl (Z.of_nat (max_ncwb c)) s.
  Hypothesis Hd : addr_src mem pl (Z.of_nat (max_ncwb c)) d.
  Hypothesis Hp1 : parse_port pl pc toks1 = Ok p1 /\ (pc = None -> p1 = empty_port) /\ port_cls p1.
  Hypothesis Hp2 : parse_port pl pc toks2 = Ok p2 /\ (pc = None -> p2 = empty_port) /\ port_cls p2.
  Hypothesis Ho : Forall token opts /\ Forall af opts /\ parse_option opts = Ok (flags, logs) /\ opt_sep opts.

  Lemma piece_tgt q1 q2 :
    (exists t1, parse_port pl' pc' t1 = Ok q1) -> (q1 = p1 \/ p_op p1 = Some Eq \/ p_op p1 = Some Neq) -> port_cls q1 ->
    (exists t2, parse_port pl' pc' t2 = Ok q2) -> (q2 = p2 \/ p_op p2 = Some Eq \/ p_op p2 = Some Neq) -> port_cls q2 ->
    tgt_built mem c pl' (mkTace true sq (mkAce permit n s d q1 q2 flags logs) opts).
  Proof.
    intros (t1 & T1) R1 M1 (t2 & T2) R2 M2.
    destruct Hp1 as (P1 & E1 & N1). destruct Hp2 as (P2 & E2 & N2).
    assert (NB : pc' = None -> pc = None) by (apply proto_ctx_plat; assumption).
    assert (Q1 : pc' = None -> q1 = empty_port).
    { intros Z. pose proof (E1 (NB Z)) as EE. destruct R1 as [-> | [R|R]]; [exact EE| |]; rewrite EE in R; discriminate. }
    assert (Q2 : pc' = None -> q2 = empty_port).
    { intros Z. pose proof (E2 (NB Z)) as EE. destruct R2 as [-> | [R|R]]; [exact EE| |]; rewrite EE in R; discriminate. }
    exists permit, n, sq, s, d, t1, t2, q1, q2, opts, flags, logs.
    split; [reflexivity|]. split; [exact Hn|]. split; [exact Hs|]. split; [exact Hd|].
    split; [auto|]. split; [auto|]. exact Ho.
  Qed.

  Let a := mkAce permit n s d p1 p2 flags logs.
  Let t := mkTace true sq a opts.
  Let L := flat_map (fun q1 => map (fun q2 => with_ports a q1 q2) (side_list p2)) (side_list p1).

  Lemma L_tgt x : In x L -> tgt_built mem c pl' (mkTace true sq x opts).
  Proof.
    destruct Hp1 as (P1 & _ & N1). destruct Hp2 as (P2 & _ & N2).
    intros Hx. unfold L in Hx. apply in_flat_map in Hx as (q1 & Hq1 & Hx). apply in_map_iff in Hx as (q2 & <- & Hq2).
    destruct (side_list_built pl pl' pc pc' toks1 p1 q1 P1 N1 Hq1) as (T1 & R1 & C1).
    destruct (side_list_built pl pl' pc pc' toks2 p2 q2 P2 N2 Hq2) as (T2 & R2 & C2).
    unfold with_ports. cbn [a a_permit a_proto a_src a_dst a_flags a_logs].
    apply piece_tgt; [exact T1|exact R1|exact C1|exact T2|exact R2|exact C2].
  Qed.

  Lemma split_entry_tgt :
    exists pieces, split_titem c (AIAce t) = Ok pieces
      /\ Forall (item_tgt mem c pl') pieces
      /\ forall k T T', decide denb a_permit (map sem_item T) k = decide denb a_permit (map sem_item T') k ->
           decide denb a_permit (map sem_item (pieces ++ T)) k = decide denb a_permit (map sem_item (AIAce t :: T')) k.
  Proof.
    destruct (split_entry mem c pl' Hpl Hpl' permit n sq s d toks1 toks2 p1 p2 opts flags logs Hn Hs Hd Hp1 Hp2 Ho)
      as (pieces & SP & _ & PD).
    destruct (ungroup_fst pl (is15 c) a L
                (split_ace_L c permit n s d toks1 toks2 p1 p2 flags logs Hp1 Hp2)
                (L_single c permit n s d toks1 toks2 p1 p2 flags logs Hp1 Hp2)) as (b & UG).
    assert (EP : pieces = map (fun a' => AIAce (mkTace true sq a' opts)) L).
    { cbn [split_titem t t_ace t_type_ext t_seq t_option_line] in SP. fold pl in SP. fold a in SP. rewrite UG in SP.
      cbn [bind fst] in SP. now injection SP as <-. }
    exists pieces. split; [exact SP|]. split; [|exact PD].
    rewrite EP. apply Forall_forall. intros i Hi. apply in_map_iff in Hi as (x & <- & Hx). cbn [item_tgt]. now apply L_tgt.
  Qed.

  Lemma entry_tgt : target_ok pl' p1 -> target_ok pl' p2 -> tgt_built mem c pl' t.
  Proof.
    intros K1 K2. destruct Hp1 as (P1 & _ & M1). destruct Hp2 as (P2 & _ & M2).
    apply piece_tgt; [now apply (port_transfer pl pl' pc pc' toks1)|now left|exact M1|now apply (port_transfer pl pl' pc pc' toks2)|now left|exact M2].
  Qed.
End OneEntryClosed.

Lemma split_items_tgt mem c pl' : (plat c = Ios \/ plat c = Nxos) -> (pl' = Ios \/ pl' = Nxos) ->
  forall items, Forall (item_src mem c) items ->
  exists items1, flat_map_res (split_titem c) items = Ok items1
    /\ Forall (item_tgt mem c pl') items1
    /\ forall k, decide denb a_permit (map sem_item items1) k = decide denb a_permit (map sem_item items) k.
Proof.
  intros Hpl Hpl'. induction 1 as [|i items Hi _ (items1 & E & B & D)].
  - exists []. repeat split. constructor.
  - destruct i as [t|sq tx].
    + destruct Hi as (permit & n & sq & s & d & toks1 & toks2 & p1 & p2 & opts & flags & logs
                      & -> & Hn & Hs & Hd & Hp1 & Hp2 & Ho).
      destruct (split_entry_tgt mem c pl' Hpl Hpl' permit n sq s d toks1 toks2 p1 p2 opts flags logs Hn Hs Hd Hp1 Hp2 Ho)
        as (pieces & SP & PB & PD).
      exists (pieces ++ items1). cbn [flat_map_res]. rewrite SP. cbn [bind]. rewrite E. cbn [bind].
      split; [reflexivity|]. split; [now apply Forall_app|].
      intros k. now apply PD.
    + exists (AIRemark sq tx :: items1). cbn [flat_map_res split_titem bind]. rewrite E. cbn [bind app].
      split; [reflexivity|]. split; [constructor; [exact Hi|exact B]|].
      intros k. cbn [map sem_item decide]. apply D.
Qed.

Lemma items_tgt_ios mem c : (plat c = Ios \/ plat c = Nxos) ->
  forall items, Forall (item_src mem c) items -> Forall (item_tgt mem c Ios) items.
Proof.
  intros Hpl items H. eapply Forall_impl; [|exact H]. intros [t|sq tx]; cbn [item_src item_tgt]; [|auto].
  intros (permit & n & sq & s & d & toks1 & toks2 & p1 & p2 & opts & flags & logs
          & -> & Hn & Hs & Hd & Hp1 & Hp2 & Ho).
  apply (entry_tgt mem c Ios Hpl (or_introl eq_refl) permit n sq s d toks1 toks2 p1 p2 opts flags logs Hn Hs Hd Hp1 Hp2 Ho);
    left; reflexivity.
Qed.

Lemma items_convert_tgt mem c pl' :
  (plat c = Ios \/ plat c = Nxos) -> (pl' = Ios \/ pl' = Nxos) ->
  forall items, Forall (item_tgt mem c pl') items ->
  exists conv, map_res (item_set_platform (mkCfg pl' (is15 c) (port_nr c) (protocol_nr c) (max_ncwb c))) items = Ok conv
               /\ Forall (item_src mem (mkCfg pl' (is15 c) (port_nr c) (protocol_nr c) (max_ncwb c))) conv
               /\ forall k, decide denb a_permit (map sem_item conv) k = decide denb a_permit (map sem_item items) k.
Proof.
  intros Hpl Hpl'. induction 1 as [|i items Hi _ (conv & E & B & D)].
  - exists []. repeat split. constructor.
  - destruct i as [t|sq tx].
    + destruct (tgt_converts mem c pl' t Hpl Hpl' Hi) as (r & Hr & Br & Pr & Dr).
      exists (AIAce r :: conv). cbn [SplitPorts.map_res item_set_platform]. rewrite Hr. cbn [bind]. rewrite E. cbn [bind].
      split; [reflexivity|]. split; [constructor; [exact Br|exact B]|].
      intros k. cbn [map sem_item decide]. now rewrite Dr, Pr, D.
    + exists (AIRemark sq tx :: conv). cbn [SplitPorts.map_res item_set_platform bind]. rewrite E. cbn [bind].
      split; [reflexivity|]. split; [constructor; [exact Hi|exact B]|].
      intros k. cbn [map sem_item decide]. apply D.
Qed.

(** THE THEOREM, closed form: the converted list is again a list of reader-built entries (of the
    target platform), so conversions can be chained without end *)
Theorem acl_conversion_closed mem c pl' :
  (plat c = Ios \/ plat c = Nxos) -> (pl' = Ios \/ pl' = Nxos) ->
  forall items, Forall (item_src mem c) items ->
  exists conv, acl_set_platform c (mkCfg pl' (is15 c) (port_nr c) (protocol_nr c) (max_ncwb c)) items = Ok conv
               /\ Forall (item_src mem (mkCfg pl' (is15 c) (port_nr c) (protocol_nr c) (max_ncwb c))) conv
               /\ forall k, decide denb a_permit (map sem_item conv) k = decide denb a_permit (map sem_item items) k.
Proof.
  intros Hpl Hpl' items HS. unfold acl_set_platform. cbn [plat].
  destruct Hpl' as [-> | ->].
  - destruct (items_convert_tgt mem c Ios Hpl (or_introl eq_refl) items (items_tgt_ios mem c Hpl items HS)) as (conv & E & B & D).
    exists conv. cbn [bind]. rewrite E. split; [reflexivity|]. split; [exact B|exact D].
  - destruct (split_items_tgt mem c Nxos Hpl (or_intror eq_refl) items HS) as (items1 & E1 & B1 & D1).
    destruct (items_convert_tgt mem c Nxos Hpl (or_intror eq_refl) items1 B1) as (conv & E & B & D).
    exists conv. rewrite E1. cbn [bind]. rewrite E. split; [reflexivity|]. split; [exact B|].
    intros k. now rewrite D, D1.
Qed.
