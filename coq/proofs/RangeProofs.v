(** Proofs about range generation (C18). *)
From V Require Import base.Prelude base.Strs gen.Tables model.Cfg model.Names model.Ports
  model.RangeGen proofs.PortsProofs.
Local Open Scope N_scope.

Definition tok_ports (t : rtok) : list N :=
  match t with RNum n => [n] | RRange a b => range_incl a b | REmpty => [] end.

Lemma flush_ports cur : concat (map chunk_ports (flush cur)) = cur.
Proof. destruct cur; cbn; auto. now rewrite app_nil_r. Qed.

(** the chunks list exactly the requested ports, in request order *)
Lemma split_aux_ports count policy toks : forall cur,
  concat (map chunk_ports (split_aux count policy toks cur)) = cur ++ concat (map tok_ports toks).
Proof.
  induction toks as [|t toks IH]; intros cur; cbn [split_aux map concat].
  - rewrite flush_ports. now rewrite app_nil_r.
  - destruct t as [n|a b|]; cbn [tok_ports].
    + destruct (Nat.eqb count 0); [rewrite IH; now rewrite <- app_assoc|].
      destruct (Nat.leb count (length cur)).
      * cbn [map concat chunk_ports]. now rewrite IH.
      * rewrite IH. now rewrite <- app_assoc.
    + rewrite !map_app, !concat_app, flush_ports, IH. cbn [app].
      destruct policy; cbn [map concat chunk_ports]; now rewrite app_nil_r.
    + rewrite map_app, concat_app, flush_ports, IH. reflexivity.
Qed.

Lemma chunks_of_aux_concat fuel count l :
  (0 < count)%nat -> (length l <= fuel)%nat -> concat (chunks_of_aux fuel count l) = l.
Proof.
  intros Hc. revert l. induction fuel as [|f IH]; intros l Hl.
  - destruct l; [reflexivity|cbn in Hl; lia].
  - cbn [chunks_of_aux]. destruct l as [|x t] eqn:E; [reflexivity|]. rewrite <- E in *.
    cbn [concat]. rewrite IH.
    + apply firstn_skipn.
    + rewrite skipn_length. subst l. cbn [length] in *. lia.
Qed.

Lemma chunks_of_aux_len fuel count l :
  Forall (fun c => (length c <= count)%nat) (chunks_of_aux fuel count l).
Proof.
  revert l. induction fuel as [|f IH]; intros l; cbn [chunks_of_aux]; [constructor|].
  destruct l; [constructor|]. constructor; auto. rewrite firstn_length. lia.
Qed.

(** none missing, none extra: the concatenated port lists of the generated chunks are the
    concatenated port lists of the request *)
Theorem split_range_cover count policy toks :
  (policy = false -> 0 < count)%nat ->
  concat (map chunk_ports (split_range count policy toks)) = concat (map tok_ports toks).
Proof.
  intros Hc. unfold split_range. pose proof (split_aux_ports count policy toks []) as H. cbn [app] in H.
  destruct policy; [exact H|].
  replace (Nat.eqb count 0) with false by (symmetry; apply Nat.eqb_neq; specialize (Hc eq_refl); lia).
  rewrite map_map. cbn [chunk_ports]. rewrite map_id. unfold chunks_of.
  rewrite chunks_of_aux_concat; auto.
Qed.

(** the ports-per-line limit *)
Lemma split_aux_limit count policy toks : forall cur,
  (0 < count)%nat -> (length cur <= count)%nat -> policy = true ->
  Forall (fun c => match c with CNums l => (length l <= count)%nat | CRange _ _ => True end)
         (split_aux count policy toks cur).
Proof.
  induction toks as [|t toks IH]; intros cur Hc Hl Hp; cbn [split_aux].
  - destruct cur; cbn; repeat constructor. exact Hl.
  - assert (F : Forall (fun c => match c with CNums l => (length l <= count)%nat | CRange _ _ => True end) (flush cur)).
    { destruct cur; cbn; repeat constructor. exact Hl. }
    destruct t as [n|a b|].
    + replace (Nat.eqb count 0) with false by (symmetry; apply Nat.eqb_neq; lia).
      destruct (Nat.leb count (length cur)) eqn:E.
      * constructor; [exact Hl|]. apply IH; auto; cbn; lia.
      * apply Nat.leb_gt in E. apply IH; auto; rewrite app_length; cbn; lia.
    + subst policy. apply Forall_app. split; auto. constructor; [exact I|]. apply IH; auto; cbn; lia.
    + apply Forall_app. split; auto. apply IH; auto; cbn; lia.
Qed.

Theorem split_range_limit count policy toks :
  (0 < count)%nat ->
  Forall (fun c => match c with CNums l => (length l <= count)%nat | CRange _ _ => True end)
         (split_range count policy toks).
Proof.
  intros Hc. unfold split_range. destruct policy.
  - apply split_aux_limit; auto. cbn. lia.
  - replace (Nat.eqb count 0) with false by (symmetry; apply Nat.eqb_neq; lia).
    apply Forall_map. unfold chunks_of. eapply Forall_impl; [|apply chunks_of_aux_len]. auto.
Qed.

(** the range-versus-eq policy *)
Theorem split_range_policy_false count toks :
  Forall (fun c => match c with CNums _ => True | CRange _ _ => False end) (split_range count false toks).
Proof.
  unfold split_range. destruct (Nat.eqb count 0); [repeat constructor|].
  apply Forall_map. apply Forall_forall. auto.
Qed.

Lemma split_aux_policy_true count toks : forall cur,
  Forall (fun c => match c with
                   | CRange a b => In (RRange a b) toks
                   | CNums l => forall n, In n l -> In n cur \/ In (RNum n) toks
                   end) (split_aux count true toks cur).
Proof.
  induction toks as [|t toks IH]; intros cur; cbn [split_aux].
  - destruct cur as [|x cur']; cbn [flush]; [constructor|].
    constructor; [intros m Hm; now left|constructor].
  - assert (F : Forall (fun c => match c with
                   | CRange a b => In (RRange a b) (t :: toks)
                   | CNums l => forall n, In n l -> In n cur \/ In (RNum n) (t :: toks)
                   end) (flush cur)).
    { destruct cur as [|x cur']; cbn [flush]; [constructor|].
      constructor; [intros m Hm; now left|constructor]. }
    assert (W : forall cur', (forall n, In n cur' -> In n cur \/ In (RNum n) (t :: toks)) ->
              Forall (fun c => match c with
                   | CRange a b => In (RRange a b) (t :: toks)
                   | CNums l => forall n, In n l -> In n cur \/ In (RNum n) (t :: toks)
                   end) (split_aux count true toks cur')).
    { intros cur' Hc. eapply Forall_impl; [|apply (IH cur')]. intros [l|a b].
      - intros H n Hn. destruct (H n Hn) as [H1|H1]; [now apply Hc|right; now right].
      - intros H. now right. }
    destruct t as [n|a b|].
    + destruct (Nat.eqb count 0).
      * apply W. intros m Hm. apply in_app_or in Hm as [Hm|[<-|[]]]; [now left|right; now left].
      * destruct (Nat.leb count (length cur)).
        -- constructor; [intros m Hm; now left|]. apply W. intros m [<-|[]]. right. now left.
        -- apply W. intros m Hm. apply in_app_or in Hm as [Hm|[<-|[]]]; [now left|right; now left].
    + apply Forall_app. split; auto. constructor; [now left|]. apply W. intros m [].
    + apply Forall_app. split; auto. apply W. intros m [].
Qed.

(** with policy True every requested range "a-b" appears as one [range a b] line and every other
    line is an eq line made of requested single ports *)
Theorem split_range_policy_true count toks :
  Forall (fun c => match c with
                   | CRange a b => In (RRange a b) toks
                   | CNums l => forall n, In n l -> In (RNum n) toks
                   end) (split_range count true toks).
Proof.
  unfold split_range. eapply Forall_impl; [|apply (split_aux_policy_true count toks [])].
  intros [l|a b]; auto. intros H n Hn. destruct (H n Hn) as [[]|]; auto.
Qed.
