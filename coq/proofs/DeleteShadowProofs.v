(** C04: decision preservation of delete_shadow from its removal certificate, instantiated with
    Ace.shadow_of (sound by C03) and the packet semantics of spec/AceSem.v. *)
From V Require Import base.Prelude base.Strs gen.Tables model.Cfg model.Names model.Wildcard
  model.Addr model.Ports model.Ace model.Shading spec.AceSem spec.AclSem
  proofs.WildProofs proofs.AddrProofs proofs.PortsProofs proofs.ShadowProofs proofs.AclProofs.
Local Open Scope N_scope.

(** the address sets of an address object *)
Definition sets_of (a : addr) : list (N * N) :=
  match a with
  | ASingle _ w => [(w_prefix w, w_mask w)]
  | AGroup _ items =>
      flat_map (fun o => match o with Some w => [(w_prefix w, w_mask w)] | None => [] end) items
  end.

(** boolean packet matching, equivalent to [den] *)
Definition in_wildb (x b m : N) : bool :=
  N.eqb (N.land x (N.lxor ALL_ONES m)) (N.land b (N.lxor ALL_ONES m)).
Definition in_setsb (x : N) (sets : list (N * N)) : bool :=
  existsb (fun s => in_wildb x (fst s) (snd s)) sets.
Definition port_matchb (p : port) (proto x : N) : bool :=
  match p_op p with
  | None => true
  | Some _ => (N.eqb proto 6 || N.eqb proto 17) && memN x (p_ports p)
  end.
Definition flags_matchb (fl : list string) (proto : N) (kf : list string) : bool :=
  match fl with
  | [] => true
  | _ => N.eqb proto 6 && existsb (fun f => mem_str f kf) fl
  end.
Definition denb (a : ace) (k : pkt) : bool :=
  (N.eqb (a_proto a) 0 || N.eqb (a_proto a) (k_proto k))
  && in_setsb (k_src k) (sets_of (a_src a)) && in_setsb (k_dst k) (sets_of (a_dst a))
  && port_matchb (a_sport a) (k_proto k) (k_sport k)
  && port_matchb (a_dport a) (k_proto k) (k_dport k)
  && flags_matchb (a_flags a) (k_proto k) (k_flags k).

Lemma in_setsb_spec x sets : in_setsb x sets = true <-> in_sets x sets.
Proof.
  unfold in_setsb, in_sets. rewrite existsb_exists, Exists_exists.
  split; intros (s & Hs & H); exists s; split; auto; unfold in_wildb, in_wild in *; now apply N.eqb_eq.
Qed.

Lemma port_matchb_spec p proto x : port_matchb p proto x = true <-> port_match p proto x.
Proof.
  unfold port_matchb, port_match. destruct (p_op p); [|tauto].
  rewrite andb_true_iff, orb_true_iff, !N.eqb_eq, memN_In. tauto.
Qed.

Lemma flags_matchb_spec fl proto kf : flags_matchb fl proto kf = true <-> flags_match fl proto kf.
Proof.
  unfold flags_matchb, flags_match. destruct fl as [|f0 fl'].
  - split; auto.
  - rewrite andb_true_iff, N.eqb_eq, existsb_exists. split.
    + intros [P (f & Hf & M)]. right. split; auto. exists f. split; auto. now apply mem_str_In.
    + intros [C|[P (f & Hf & M)]]; [discriminate|]. split; auto. exists f. split; auto. now apply mem_str_In.
Qed.

Lemma denb_spec a k : denb a k = true <-> den a (sets_of (a_src a)) (sets_of (a_dst a)) k.
Proof.
  unfold denb, den. rewrite !andb_true_iff, orb_true_iff, !N.eqb_eq.
  rewrite !in_setsb_spec, !port_matchb_spec, flags_matchb_spec. tauto.
Qed.

(** payload of an ACL item: (identity, ACE) *)
Definition payload := (N * ace)%type.
Definition good (p : payload) : Prop :=
  ace_wf (snd p) /\ addr_sets (a_src (snd p)) (sets_of (a_src (snd p)))
  /\ addr_sets (a_dst (snd p)) (sets_of (a_dst (snd p))).
Definition pmatches (p : payload) (k : pkt) : bool := denb (snd p) k.
Definition paction (p : payload) : bool := a_permit (snd p).

Lemma shb_sound pl sg snc b t :
  good b -> good t -> shb pl sg snc b t = true ->
  paction b = paction t /\ forall k, pkt_wf k -> pmatches b k = true -> pmatches t k = true.
Proof.
  intros (Wb & Sb & Db) (Wt & St & Dt) H. unfold shb in H.
  destruct (shadow_of pl sg snc (snd b) (snd t)) as [[|]| | | |] eqn:E; try discriminate.
  destruct (shadow_sound pl sg snc (snd b) (snd t) _ _ _ _ Wb Wt Sb Db St Dt E) as [A C].
  split; auto. intros k Kk M. unfold pmatches in *. apply denb_spec. apply C; auto. now apply denb_spec.
Qed.

(** every packet's first-match decision is unchanged whenever the removal certificate holds *)
Theorem delete_decision pl sg snc (orig : list (item payload)) (keep : list bool) :
  all_good payload good orig ->
  removal_okb payload (shb pl sg snc) [] orig keep = true ->
  forall k, pkt_wf k ->
    decide pmatches paction (select payload orig keep) k = decide pmatches paction orig k.
Proof.
  intros G H k Kk.
  apply (removal_decision payload pkt pmatches paction (shb pl sg snc) good pkt_wf
           (shb_sound pl sg snc) orig [] keep H G (Forall_nil _) k Kk).
  intros t [].
Qed.
