(** Independent specification: packets and the packet set of an ACE (Cisco meaning, DESIGN 5).
    Nothing here mentions the library's algorithms; [p_ports] is the port *set* of a port
    expression whose Cisco meaning is established by C08_sem. *)
From V Require Import base.Prelude gen.Tables model.Wildcard model.Addr model.Ports model.Ace
  proofs.WildProofs.
Local Open Scope N_scope.

Record pkt := mkPkt {
  k_proto : N; k_src : N; k_dst : N; k_sport : N; k_dport : N;
  k_flags : list string          (* the TCP flags that are set *)
}.

Definition pkt_wf (k : pkt) : Prop :=
  k_proto k < 256 /\ k_src k < 2 ^ 32 /\ k_dst k < 2 ^ 32 /\
  1 <= k_sport k <= 65535 /\ 1 <= k_dport k <= 65535.

(** an address set is a finite union of wildcard sets (one for a plain address, the members
    for a group) *)
Definition in_sets (x : N) (sets : list (N * N)) : Prop :=
  Exists (fun s => in_wild x (fst s) (snd s)) sets.

(** a port expression restricts TCP/UDP packets to its port set; no expression = no restriction *)
Definition port_match (p : port) (proto x : N) : Prop :=
  match p_op p with
  | None => True
  | Some _ => (proto = 6 \/ proto = 17) /\ In x (p_ports p)
  end.

(** bare TCP flag keywords are match-any; log keywords do not take part in matching *)
Definition flags_match (fl : list string) (proto : N) (set_flags : list string) : Prop :=
  fl = [] \/ (proto = 6 /\ exists f, In f fl /\ In f set_flags).

(** protocol 0 is [ip] = every protocol *)
Definition den (a : ace) (srcs dsts : list (N * N)) (k : pkt) : Prop :=
  (a_proto a = 0 \/ a_proto a = k_proto k) /\
  in_sets (k_src k) srcs /\ in_sets (k_dst k) dsts /\
  port_match (a_sport a) (k_proto k) (k_sport k) /\
  port_match (a_dport a) (k_proto k) (k_dport k) /\
  flags_match (a_flags a) (k_proto k) (k_flags k).
