(** Independent specification: first-match decision of an ordered rule list. *)
From V Require Import base.Prelude model.Shading.

Section Decide.
  Variables (A K : Type).
  Variable matches : A -> K -> bool.
  Variable action : A -> bool.

  (** the action of the first ACE that matches the packet; remarks never match *)
  Fixpoint decide (items : list (item A)) (k : K) : option bool :=
    match items with
    | [] => None
    | IAce _ a :: t => if matches a k then Some (action a) else decide t k
    | IRemark _ :: t => decide t k
    end.
End Decide.
Arguments decide {A K} matches action items k.
