(** Hand-written reference: Cisco keyword -> standard (IANA) number, written from the Cisco
    IOS / IOS-XE / NX-OS / ASA command references, independently of the code's tables.
    This file is specification (trusted as such). *)
From V Require Import base.Prelude.

Definition REF_TCP : list (string * N) := [
  ("aol", 5190); ("bgp", 179); ("chargen", 19); ("cifs", 3020); ("citrix-ica", 1494);
  ("cmd", 514); ("ctiqbe", 2748); ("daytime", 13); ("discard", 9); ("domain", 53);
  ("drip", 3949); ("echo", 7); ("exec", 512); ("finger", 79); ("ftp", 21); ("ftp-data", 20);
  ("gopher", 70); ("h323", 1720); ("hostname", 101); ("http", 80); ("https", 443);
  ("ident", 113); ("imap4", 143); ("irc", 194); ("kerberos", 750); ("klogin", 543);
  ("kshell", 544); ("ldap", 389); ("ldaps", 636); ("login", 513); ("lotusnotes", 1352);
  ("lpd", 515); ("msrpc", 135); ("netbios-ssn", 139); ("nfs", 2049); ("nntp", 119);
  ("onep-plain", 15001); ("onep-tls", 15002); ("pcanywhere-data", 5631);
  ("pim-auto-rp", 496); ("pop2", 109); ("pop3", 110); ("pptp", 1723); ("rsh", 514);
  ("rtsp", 554); ("sip", 5060); ("smtp", 25); ("sqlnet", 1521); ("ssh", 22);
  ("sunrpc", 111); ("syslog", 514); ("tacacs", 49); ("talk", 517); ("telnet", 23);
  ("time", 37); ("uucp", 540); ("whois", 43); ("www", 80)
]%N.

Definition REF_UDP : list (string * N) := [
  ("biff", 512); ("bootpc", 68); ("bootps", 67); ("cifs", 3020); ("discard", 9);
  ("dnsix", 195); ("domain", 53); ("echo", 7); ("http", 80); ("isakmp", 500);
  ("kerberos", 750); ("mobile-ip", 434); ("nameserver", 42); ("netbios-dgm", 138);
  ("netbios-ns", 137); ("netbios-ss", 139); ("nfs", 2049); ("non500-isakmp", 4500);
  ("ntp", 123); ("pcanywhere-status", 5632); ("pim-auto-rp", 496); ("radius", 1645);
  ("radius-acct", 1646); ("rip", 520); ("ripv6", 521); ("secureid-udp", 5510);
  ("sip", 5060); ("snmp", 161); ("snmptrap", 162); ("sunrpc", 111); ("syslog", 514);
  ("tacacs", 49); ("talk", 517); ("tftp", 69); ("time", 37); ("vxlan", 4789);
  ("who", 513); ("www", 80); ("xdmcp", 177)
]%N.

(** IP protocol keywords (IANA assigned internet protocol numbers; [ip] = 0 = any protocol) *)
Definition REF_PROTO : list (string * N) := [
  ("ip", 0); ("icmp", 1); ("igmp", 2); ("ipinip", 4); ("ipip", 4); ("tcp", 6); ("egp", 8);
  ("igrp", 9); ("udp", 17); ("ipv6", 41); ("gre", 47); ("esp", 50); ("ah", 51); ("ahp", 51);
  ("icmp6", 58); ("eigrp", 88); ("ospf", 89); ("nos", 94); ("pim", 103); ("pcp", 108);
  ("snp", 109); ("sctp", 132)
]%N.
