(** C07 - Config-level extraction returns exactly the ACLs, bindings and group members.

    Proved on the line-level model of config_parser.py: the interfaces listed as input (output)
    of an access list are exactly the interface sections that contain "ip access-group LIST in"
    (out) for that list - several lists per interface, repeated sections, any order (this is the
    clause the repaired defect F6 violated).  The section dictionary (repeated keys append,
    comment lines, first line, interfaces without settings), the ACL / address-group section
    recognition and the name filter are modelled in Gallina and compared with ConfigParser on
    every generated configuration; the objects built from the sections (entries in order, group
    members with the IOS mask-to-wildcard conversion) are checked against the generator's
    expectation on the public functions.
    Structured configurations: [C07_sections] - a configuration assembled from sections with
    pairwise distinct headers (a header line, then at least one indented line) is read back as
    exactly these sections, in order; [C07_noise] - a section that is neither an access list nor
    an address group and mentions no access-group changes neither the access lists, nor their
    bindings, nor the address groups.  What stays partial: the text level below the line
    model (splitting the configuration text into lines, indentation, comment filter) and the
    objects built from the sections are tied by correspondence; repeated headers (bodies append)
    are covered by correspondence only. *)
From V Require Import base.Prelude base.Strs gen.Tables model.Cfg model.Names model.Lex model.Config
  proofs.ConfigProofs.

Theorem C07_bindings_partial : forall d bs name dir k,
  bindings d = BOk bs ->
  (In k (ifaces_of name dir bs) <->
   exists body l, In (k, body) d /\ In l body /\ binding_of_line l = Some (name, dir)).
Proof. exact ifaces_spec. Qed.

Theorem C07_bindings_raw_partial : forall d bs, bindings d = BOk bs ->
  forall n dir k, In (n, dir, k) bs <->
    exists body l, In (k, body) d /\ In l body /\ binding_of_line l = Some (n, dir) /\
                   existsb (contains_sub "ip access-group") body = true.
Proof. exact bindings_spec. Qed.

Theorem C07_sections : forall secs,
  NoDup (map fst secs) -> Forall (fun s => snd s <> []) secs ->
  parse_dic (lines_of secs) = secs.
Proof. exact parse_dic_sections. Qed.

Theorem C07_noise : forall pl names d1 e d2, noise e ->
  acl_sections pl names (d1 ++ e :: d2) = acl_sections pl names (d1 ++ d2)
  /\ addgr_sections (d1 ++ e :: d2) = addgr_sections (d1 ++ d2).
Proof. exact noise_irrelevant. Qed.

Definition c07_example : res (list (string * list string * list string)) :=
  let text := "ip access-list extended A
 permit ip any any
!
interface Gi1
 ip access-group A in
 ip access-group B out
ip access-list extended B
 deny ip any any
interface Gi2
 ip access-group A in
"%string in
  do l <- acl_sections Ios None (parse_dic (config_lines text));
  Ok (map (fun s => (as_name s, as_input s, as_output s)) l).
Example C07_nonvacuous :
  c07_example = Ok [("A", ["interface Gi1"; "interface Gi2"], []); ("B", [], ["interface Gi1"])].
Proof. vm_compute. reflexivity. Qed.
