(** C07 - Config-level extraction returns exactly the ACLs, bindings and group members.

    Proved on the line-level model of config_parser.py: the interfaces listed as input (output)
    of an access list are exactly the interface sections that contain "ip access-group LIST in"
    (out) for that list - several lists per interface, repeated sections, any order (this is the
    clause the repaired defect F6 violated).  The section dictionary (repeated keys append,
    comment lines, first line, interfaces without settings), the ACL / address-group section
    recognition and the name filter are modelled in Gallina and compared with ConfigParser on
    every generated configuration; the objects built from the sections (entries in order, group
    members with the IOS mask-to-wildcard conversion) are checked against the generator's
    expectation on the public functions.
    Structured configurations: [C07_sections] - a configuration assembled from sections with
    pairwise distinct headers (a header line, then at least one indented line) is read back as
    exactly these sections, in order; [C07_noise] - a section that is neither an access list nor
    an address group and mentions no access-group changes neither the access lists, nor their
    bindings, nor the address groups.  Text level (`proofs/ConfigTextProofs.v`): [C07_text] - a
    configuration TEXT made of header lines, body lines with ANY non-empty indentation and any
    trailing blanks, and blank / "!" comment lines anywhere, joined by newlines, is read as
    exactly its header and body lines, hence ([C07_text_sections]) as exactly the sections it
    was assembled from; [C07_text_noise] - inserting a blank or comment line anywhere changes
    nothing; [C07_text_indent] - the canonical layout with any indentation string gives the
    sections back (the indentation width is irrelevant).  What stays partial: the objects built
    from the sections are tied by correspondence; repeated headers (bodies append) and line
    separators other than "\n" (str.splitlines) are covered by correspondence only. *)
From V Require Import base.Prelude base.Strs gen.Tables model.Cfg model.Names model.Lex model.Config
  proofs.ConfigProofs proofs.ConfigTextProofs.

Theorem C07_bindings_partial : forall d bs name dir k,
  bindings d = BOk bs ->
  (In k (ifaces_of name dir bs) <->
   exists body l, In (k, body) d /\ In l body /\ binding_of_line l = Some (name, dir)).
Proof. exact ifaces_spec. Qed.

Theorem C07_bindings_raw_partial : forall d bs, bindings d = BOk bs ->
  forall n dir k, In (n, dir, k) bs <->
    exists body l, In (k, body) d /\ In l body /\ binding_of_line l = Some (n, dir) /\
                   existsb (contains_sub "ip access-group") body = true.
Proof. exact bindings_spec. Qed.

Theorem C07_sections : forall secs,
  NoDup (map fst secs) -> Forall (fun s => snd s <> []) secs ->
  parse_dic (lines_of secs) = secs.
Proof. exact parse_dic_sections. Qed.

Theorem C07_noise : forall pl names d1 e d2, noise e ->
  acl_sections pl names (d1 ++ e :: d2) = acl_sections pl names (d1 ++ d2)
  /\ addgr_sections (d1 ++ e :: d2) = addgr_sections (d1 ++ d2).
Proof. exact noise_irrelevant. Qed.

(** the text level: raw lines (headers, indented bodies, noise) joined by newlines *)
Theorem C07_text : forall rl,
  forallb raw_ok rl = true -> header_first (flat_map erase rl) ->
  config_lines (config_text rl) = flat_map erase rl.
Proof. exact config_lines_raw. Qed.

Theorem C07_text_sections : forall secs rl,
  NoDup (map fst secs) -> Forall (fun s => snd s <> []) secs ->
  forallb raw_ok rl = true -> flat_map erase rl = lines_of secs ->
  parse_dic (config_lines (config_text rl)) = secs.
Proof. exact config_text_sections. Qed.

Theorem C07_text_noise : forall r1 n r2,
  forallb raw_ok (r1 ++ RNoise n :: r2) = true -> header_first (flat_map erase (r1 ++ r2)) ->
  config_lines (config_text (r1 ++ RNoise n :: r2)) = config_lines (config_text (r1 ++ r2)).
Proof. exact config_text_noise. Qed.

Theorem C07_text_indent : forall ind secs,
  str_nonempty ind = true -> all_ws ind = true -> no_nl ind = true ->
  forallb sec_ok secs = true ->
  NoDup (map fst secs) -> Forall (fun s => snd s <> []) secs ->
  parse_dic (config_lines (config_text (layout ind secs))) = secs.
Proof. exact config_text_layout. Qed.

(** non-vacuity: a text with indentation 1 and 4, a tab, trailing blanks, blank and comment lines *)
Definition c07_raw : list raw :=
  [RNoise "!"; RNoise "   "; RHdr "ip access-list extended A" "  ";
   RBody " " "permit ip any any" ""; RNoise "! comment"; RBody "    " "deny ip any any" " ";
   RNoise ""; RHdr "interface Gi1" ""; RBody (String "009" "") "ip access-group A in" ""].
Example C07_text_nonvacuous :
  forallb raw_ok c07_raw = true
  /\ flat_map erase c07_raw
     = lines_of [("ip access-list extended A", ["permit ip any any"; "deny ip any any"]);
                 ("interface Gi1", ["ip access-group A in"])]
  /\ parse_dic (config_lines (config_text c07_raw))
     = [("ip access-list extended A", ["permit ip any any"; "deny ip any any"]);
        ("interface Gi1", ["ip access-group A in"])].
Proof. vm_compute. repeat split. Qed.

Definition c07_example : res (list (string * list string * list string)) :=
  let text := "ip access-list extended A
 permit ip any any
!
interface Gi1
 ip access-group A in
 ip access-group B out
ip access-list extended B
 deny ip any any
interface Gi2
 ip access-group A in
"%string in
  do l <- acl_sections Ios None (parse_dic (config_lines text));
  Ok (map (fun s => (as_name s, as_input s, as_output s)) l).
Example C07_nonvacuous :
  c07_example = Ok [("A", ["interface Gi1"; "interface Gi2"], []); ("B", [], ["interface Gi1"])].
Proof. vm_compute. reflexivity. Qed.
