(** C07 - Config-level extraction returns exactly the ACLs, bindings and group members.

    Proved on the line-level model of config_parser.py: the interfaces listed as input (output)
    of an access list are exactly the interface sections that contain "ip access-group LIST in"
    (out) for that list - several lists per interface, repeated sections, any order (this is the
    clause the repaired defect F6 violated).  The section dictionary (repeated keys append,
    comment lines, first line, interfaces without settings), the ACL / address-group section
    recognition and the name filter are modelled in Gallina and compared with ConfigParser on
    every generated configuration; the objects built from the sections (entries in order, group
    members with the IOS mask-to-wildcard conversion) are checked against the generator's
    expectation on the public functions.
    Structured configurations: [C07_sections] - a configuration assembled from sections with
    pairwise distinct headers (a header line, then at least one indented line) is read back as
    exactly these sections, in order; [C07_noise] - a section that is neither an access list nor
    an address group and mentions no access-group changes neither the access lists, nor their
    bindings, nor the address groups.  Text level (`proofs/ConfigTextProofs.v`): [C07_text] - a
    configuration TEXT made of header lines, body lines with ANY non-empty indentation and any
    trailing blanks, and blank / "!" comment lines anywhere, joined by newlines, is read as
    exactly its header and body lines, hence ([C07_text_sections]) as exactly the sections it
    was assembled from; [C07_text_noise] - inserting a blank or comment line anywhere changes
    nothing; [C07_text_indent] - the canonical layout with any indentation string gives the
    sections back (the indentation width is irrelevant).  What stays partial: the objects built
    from the sections are tied by correspondence; repeated headers (bodies append) and line
    non-ASCII line separators (\x85, U+2028/9) are covered by correspondence only / outside the ASCII convention.
    Every raw line carries its own terminator, any of the ASCII line-break characters of str.splitlines. *)
From V Require Import base.Prelude base.Strs gen.Tables model.Cfg model.Names model.Lex model.Config
  proofs.ConfigProofs proofs.ConfigTextProofs.

Theorem C07_bindings_partial : forall d bs name dir k,
  bindings d = BOk bs ->
  (In k (ifaces_of name dir bs) <->
   exists body l, In (k, body) d /\ In l body /\ binding_of_line l = Some (name, dir)).
Proof. exact ifaces_spec. Qed.

Theorem C07_bindings_raw_partial : forall d bs, bindings d = BOk bs ->
  forall n dir k, In (n, dir, k) bs <->
    exists body l, In (k, body) d /\ In l body /\ binding_of_line l = Some (n, dir) /\
                   existsb (contains_sub "ip access-group") body = true.
Proof. exact bindings_spec. Qed.

Theorem C07_sections : forall secs,
  NoDup (map fst secs) -> Forall (fun s => snd s <> []) secs ->
  parse_dic (lines_of secs) = secs.
Proof. exact parse_dic_sections. Qed.

Theorem C07_noise : forall pl names d1 e d2, noise e ->
  acl_sections pl names (d1 ++ e :: d2) = acl_sections pl names (d1 ++ d2)
  /\ addgr_sections (d1 ++ e :: d2) = addgr_sections (d1 ++ d2).
Proof. exact noise_irrelevant. Qed.

(** the text level: raw lines (headers, indented bodies, noise), each with its own terminator (any of the
    line-break characters of str.splitlines in ASCII), and a last line without terminator *)
Theorem C07_text : forall rl last,
  forallb raw_ok (all_raws rl last) = true -> forallb is_linebreak (map snd rl) = true ->
  header_first (flat_map erase (all_raws rl last)) ->
  config_lines (config_text rl last) = flat_map erase (all_raws rl last).
Proof. exact config_lines_raw. Qed.

Theorem C07_text_sections : forall secs rl last,
  NoDup (map fst secs) -> Forall (fun s => snd s <> []) secs ->
  forallb raw_ok (all_raws rl last) = true -> forallb is_linebreak (map snd rl) = true ->
  flat_map erase (all_raws rl last) = lines_of secs ->
  parse_dic (config_lines (config_text rl last)) = secs.
Proof. exact config_text_sections. Qed.

Theorem C07_text_noise : forall r1 n c r2 last,
  forallb raw_ok (all_raws (r1 ++ (RNoise n, c) :: r2) last) = true ->
  forallb is_linebreak (map snd (r1 ++ (RNoise n, c) :: r2)) = true ->
  header_first (flat_map erase (all_raws (r1 ++ r2) last)) ->
  config_lines (config_text (r1 ++ (RNoise n, c) :: r2) last) = config_lines (config_text (r1 ++ r2) last).
Proof. exact config_text_noise. Qed.

Theorem C07_text_indent : forall ind c secs,
  str_nonempty ind = true -> all_ws ind = true -> no_nl ind = true -> is_linebreak c = true ->
  forallb sec_ok secs = true ->
  NoDup (map fst secs) -> Forall (fun s => snd s <> []) secs ->
  parse_dic (config_lines (config_text (map (fun r => (r, c)) (layout ind secs)) (RNoise ""))) = secs.
Proof. exact config_text_layout. Qed.

(** non-vacuity: a text with indentation 1 and 4, a tab, trailing blanks, blank and comment lines, "\r\n" and
    form-feed line ends, the last line without terminator *)
Definition c07_raw : list (raw * ascii) :=
  [(RNoise "!", "010"); (RNoise "   ", "010"); (RHdr "ip access-list extended A" "  ", "013"); (RNoise "", "010");
   (RBody " " "permit ip any any" "", "010"); (RNoise "! comment", "012");
   (RBody "    " "deny ip any any" " ", "010"); (RNoise "", "010"); (RHdr "interface Gi1" "", "010")]%char.
Definition c07_last : raw := RBody (String "009" "") "ip access-group A in" "".
Example C07_text_nonvacuous :
  forallb raw_ok (all_raws c07_raw c07_last) = true
  /\ forallb is_linebreak (map snd c07_raw) = true
  /\ flat_map erase (all_raws c07_raw c07_last)
     = lines_of [("ip access-list extended A", ["permit ip any any"; "deny ip any any"]);
                 ("interface Gi1", ["ip access-group A in"])]
  /\ parse_dic (config_lines (config_text c07_raw c07_last))
     = [("ip access-list extended A", ["permit ip any any"; "deny ip any any"]);
        ("interface Gi1", ["ip access-group A in"])].
Proof. vm_compute. repeat split. Qed.

Definition c07_example : res (list (string * list string * list string)) :=
  let text := "ip access-list extended A
 permit ip any any
!
interface Gi1
 ip access-group A in
 ip access-group B out
ip access-list extended B
 deny ip any any
interface Gi2
 ip access-group A in
"%string in
  do l <- acl_sections Ios None (parse_dic (config_lines text));
  Ok (map (fun s => (as_name s, as_input s, as_output s)) l).
Example C07_nonvacuous :
  c07_example = Ok [("A", ["interface Gi1"; "interface Gi2"], []); ("B", [], ["interface Gi1"])].
Proof. vm_compute. reflexivity. Qed.
