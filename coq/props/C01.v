(** C01 - Parsing an ACE keeps its meaning (fields and re-rendered text).

    The full statement (for every syntax tree s valid for the platform and every whitespace
    layout ws:  parse_ace_text cfg (text ws (spell s)) = Ok e  with  fields e = mean s,  and the
    rendered line read by an independent reader denotes the same packets) is NOT yet proved end
    to end in Coq.  Proved here (C01_*_partial): the field constructors map every accepted
    spelling to its Cisco meaning, and the vocabulary fact that makes the regex splitter's
    "last address occurrence" the true destination.  The assembly through the token-level
    splitter ([parse_ace_extended]) is decided by the correspondence of the model with the
    implementation on generated valid and malformed lines plus an independent Cisco reader. *)
From V Require Import base.Prelude base.Strs gen.Tables model.Cfg model.Names model.Wildcard
  model.Addr model.Ports model.Ace model.Lex model.AddrText model.AceText spec.Reference
  proofs.WildProofs proofs.AddrProofs proofs.PortsProofs proofs.NamesProofs proofs.ShadowProofs
  proofs.TextProofs proofs.SplitterProofs.
Local Open Scope N_scope.

(** fields from split spellings: action, protocol number, address sets (any / host / prefix with
    host bits / wildcard with bits under the mask / non-contiguous), port expressions, flag and
    log tokens - on every platform, version and limit *)
Theorem C01_fields_partial : forall pl v15 limit permit proto src dst sp dp opts a,
  sp_single src -> sp_single dst ->
  build_ace pl v15 limit permit proto src dst sp dp opts = Ok a ->
  a_permit a = permit /\ a_proto a = proto /\
  denotes (a_src a) (sp_base src) (sp_mask src) /\ denotes (a_dst a) (sp_base dst) (sp_mask dst) /\
  parse_port pl (proto_ctx pl v15 proto) sp = Ok (a_sport a) /\
  parse_port pl (proto_ctx pl v15 proto) dp = Ok (a_dport a) /\
  a_flags a = filter (fun s => negb (mem_str s LOGS)) opts /\
  a_logs a = filter (fun s => mem_str s LOGS) opts.
Proof. exact build_ace_fields. Qed.

(** an address object denoting (base, mask) expands to exactly that address set (C05) *)
Theorem C01_address_set_partial : forall a base mask x,
  base < 2 ^ 32 -> mask < 2 ^ 32 -> x < 2 ^ 32 -> denotes a base mask ->
  exists nets, addr_ipnets a = Ok nets /\ (Exists (in_net x) nets <-> in_wild x base mask).
Proof.
  intros a base mask x Hb Hm Hx D. exists (ipnets base mask). split.
  - now apply denotes_ipnets.
  - now apply ipnets_exact.
Qed.

(** port operands: names are pure spelling (C09) and the operator's port set is the Cisco
    meaning (C08) *)
Theorem C01_port_names_partial : forall p pl v15 nm n,
  In (nm, n) (names_table p pl v15) -> parse_port_item (names_table p pl v15) nm = Ok n.
Proof. intros p pl v15 nm n H. exact (port_name_accepted _ nm n (names_table_ok p pl v15) H). Qed.

Theorem C01_port_set_partial : forall pl c o xs prt,
  parse_nums pl c o xs = Ok prt -> in_range xs ->
  forall p, In p (p_ports prt) <-> (1 <= p <= 65535 /\ sem o xs p).
Proof. exact ports_sem. Qed.

(** the crux fact of the splitter, checked on the regenerated tables: no port name, operator,
    log keyword or TCP flag can be taken for a destination address *)
Theorem C01_vocabulary_address_free_partial : forall t rest,
  In t (all_known_names ++ OPERATORS ++ LOGS ++ TCP_FLAGS) -> addr_loose false (t :: rest) = None.
Proof. exact known_word_no_dst. Qed.

(** whitespace: the parser sees the token list only ([C01_tokens]); the token list is the same
    when whitespace characters (blank, tab, ...) are doubled, exchanged for one another, or added
    at either end of the line.  Every spacing of a line is reached from the single-blank spelling
    by such steps, so meaning and re-rendered text do not depend on the spacing. *)
Theorem C01_tokens : forall c l1 l2,
  split_ws l1 = split_ws l2 -> parse_ace_text c l1 = parse_ace_text c l2.
Proof. exact parse_depends_on_tokens. Qed.

Theorem C01_ws_double : forall a c c' b, is_ws c = true -> is_ws c' = true ->
  split_ws (a ++ String c (String c' b)) = split_ws (a ++ String c b).
Proof. exact ws_double. Qed.

Theorem C01_ws_exchange : forall a c c' b, is_ws c = true -> is_ws c' = true ->
  split_ws (a ++ String c b) = split_ws (a ++ String c' b).
Proof. exact ws_exchange. Qed.

Theorem C01_ws_leading : forall c b, is_ws c = true -> split_ws (String c b) = split_ws b.
Proof. exact ws_leading. Qed.

Theorem C01_ws_trailing : forall a c, is_ws c = true -> split_ws (a ++ String c "") = split_ws a.
Proof. exact ws_trailing. Qed.

(** ** the splitter (the regex field separation, modelled on tokens) on canonical lines
    A canonical line: [sequence] permit|deny PROTOCOL SRC [source-port tokens] DST [tail], in any
    spacing, where SRC / DST are addresses as the library writes them (any, host A, A/len, A W with
    dotted addresses; [C01_splitter] also covers group references) and every other token is
    "address free" - no alternative of the address regex can start at it; this holds for every
    port name, operator, log keyword and TCP flag of the regenerated tables
    ([C01_vocabulary_address_free_partial]) and for numbers.  [C01_splitter]: the rightmost-
    destination search of the greedy regex finds exactly these fields (with the look-behind of
    repair F11 a destination never starts at the name of an address group).  [C01_line_fields]:
    the object is then built by the field constructors from exactly the spellings, port tokens
    and option tokens that stand in the line; [C01_fields_partial] gives their meaning. *)
Theorem C01_splitter : forall H sq act proto SRC src SPORT DST dst TAIL,
  head_toks H sq act -> addr_toks SRC src -> names_ok SRC -> Forall af SPORT ->
  addr_toks DST dst -> Forall af TAIL ->
  parse_ace_extended (H ++ proto :: SRC ++ SPORT ++ DST ++ TAIL)
  = Some (mkSplit sq act proto src SPORT dst TAIL).
Proof. exact parse_ace_extended_canon. Qed.

Theorem C01_line_fields : forall c line H sq act proto SRC src ssp SPORT DST dst dsp TAIL,
  split_ws line = H ++ proto :: SRC ++ SPORT ++ DST ++ TAIL ->
  head_toks H sq act -> addr_spelled (plat c) SRC src ssp -> Forall af SPORT ->
  addr_spelled (plat c) DST dst dsp -> Forall af TAIL ->
  let dport := fst (split_dstport_option TAIL) in
  let opts := snd (split_dstport_option TAIL) in
  parse_ace_text c line =
    if negb (str_nonempty proto) && match SPORT, dport with [], [] => true | _, _ => false end then VErr
    else if String.eqb proto "ip" && match SPORT, dport with [], [] => false | _, _ => true end then VErr
    else
      do s <- addr_of_spelling (plat c) (Z.of_nat (max_ncwb c)) ssp;
      do d <- addr_of_spelling (plat c) (Z.of_nat (max_ncwb c)) dsp;
      do pr <- parse_proto proto;
      do p1 <- parse_port (plat c) (proto_ctx (plat c) (is15 c) pr) SPORT;
      do p2 <- parse_port (plat c) (proto_ctx (plat c) (is15 c) pr) dport;
      do o <- parse_option opts;
      Ok (mkTace true (seq_of sq) (mkAce (String.eqb act "permit") pr s d p1 p2 (fst o) (snd o)) opts).
Proof. exact parse_ace_text_fields. Qed.

(** non-vacuity of the hypotheses: a concrete line is canonical in the above sense *)
Example C01_canonical_line :
  split_ws "10 permit tcp host 10.0.0.1 eq www   10.0.0.0 0.0.0.255 eq 443 log"
  = [dec 10; "permit"] ++ "tcp" :: ["host"; render_ip 167772161] ++ ["eq"; "www"]
    ++ [render_ip 167772160; render_ip 255] ++ ["eq"; "443"; "log"]
  /\ head_toks [dec 10; "permit"] (dec 10) "permit"
  /\ addr_spelled Ios ["host"; render_ip 167772161] ("host " ++ render_ip 167772161) (SHost 167772161)
  /\ Forall af ["eq"; "www"]
  /\ addr_spelled Ios [render_ip 167772160; render_ip 255] (render_ip 167772160 ++ " " ++ render_ip 255) (SWild 167772160 255)
  /\ Forall af ["eq"; "443"; "log"].
Proof.
  split; [vm_compute; reflexivity|]. split; [apply HT_seq; now left|].
  split; [apply AS_host; vm_compute; reflexivity|].
  split; [repeat constructor; vm_compute; reflexivity|].
  split; [apply AS_wild; vm_compute; reflexivity|].
  repeat constructor; vm_compute; reflexivity.
Qed.

(** non-vacuity: a full line through the modelled splitter, in two spellings and layouts *)
Example C01_nonvacuous :
  exists t1 t2,
    parse_ace_text (mkCfg Ios false false false 16)
       "  10   permit tcp host 10.0.0.1   eq 179 10.0.0.0/30 eq www 443 ack log " = Ok t1 /\
    parse_ace_text (mkCfg Ios false false false 16)
       "10 permit 6 10.0.0.1 0.0.0.0 eq bgp 10.0.0.2 0.0.0.3 eq 80 443 ack log" = Ok t2 /\
    render_ace (mkCfg Ios false false false 16) t1
      = "10 permit tcp host 10.0.0.1 eq bgp 10.0.0.0 0.0.0.3 eq www 443 ack log" /\
    render_ace (mkCfg Ios false false false 16) t2 = render_ace (mkCfg Ios false false false 16) t1.
Proof.
  eexists. eexists.
  split; [vm_compute; reflexivity|]. split; [vm_compute; reflexivity|].
  split; vm_compute; reflexivity.
Qed.
