(** C14 - Collapsing addresses preserves the covered address set exactly.
    Networks are (address, prefix length); [strict_net] = no host bits, length <= 32 (what every
    contiguous address yields).  The Gallina loop runs on fuel; [C14_terminates] proves that the
    fuel is never exhausted (the work-list loop terminates: the potential 2*sum(len+1) minus
    "the front element is a /0" decreases in every iteration), so [C14_total] states the
    property without a "returning case" proviso. *)
From V Require Import base.Prelude gen.Tables model.Cfg model.Wildcard model.Addr model.Collapse
  proofs.WildProofs proofs.AddrProofs proofs.CollapseProofs.
Local Open Scope N_scope.

(** the loop always returns, and what it returns is right *)
Theorem C14_terminates : forall nets, Forall strict_net nets -> collapse_nets nets <> None.
Proof. exact collapse_terminates. Qed.

Theorem C14_total : forall nets, Forall strict_net nets ->
  exists r, collapse_nets nets = Some r /\ (forall x, covered r x <-> covered nets x)
            /\ (length r <= length nets)%nat /\ net_sorted r.
Proof.
  intros nets HS. destruct (collapse_nets nets) as [r|] eqn:E.
  - exists r. split; [reflexivity|]. split; [now apply (collapse_set nets r)|].
    split; [now apply (collapse_count nets r)|now apply (collapse_sorted nets r)].
  - exfalso. now apply (collapse_terminates nets HS).
Qed.

(** none gained, none lost: an address is covered by the result iff it is covered by the input *)
Theorem C14_set : forall nets r,
  Forall strict_net nets -> collapse_nets nets = Some r ->
  forall x, covered r x <-> covered nets x.
Proof. exact collapse_set. Qed.

Theorem C14_count : forall nets r, collapse_nets nets = Some r -> (length r <= length nets)%nat.
Proof. exact collapse_count. Qed.

Theorem C14_sorted : forall nets r, collapse_nets nets = Some r -> net_sorted r.
Proof. exact collapse_sorted. Qed.

(** a non-contiguous wildcard anywhere in the list is refused with TypeError *)
Theorem C14_refuse : forall l, l <> [] -> existsb addr_is_nc l = true -> collapse_addrs l = TErr.
Proof. exact collapse_refuses. Qed.

(** the networks of addresses built from contiguous spellings are strict *)
Theorem C14_strict_inputs : forall addr mask, addr < 2 ^ 32 -> Forall strict_net (ipnets addr mask).
Proof. exact ipnets_all_strict. Qed.

(** non-vacuity: 10.0.0.0/31 + host .2 + host .3 (+ a covered host) collapse to 10.0.0.0/30 *)
Example C14_nonvacuous :
  collapse_nets [(167772162, 32%nat); (167772160, 31%nat); (167772161, 32%nat); (167772163, 32%nat)]
  = Some [(167772160, 30%nat)].
Proof. vm_compute. reflexivity. Qed.
