(** C08 - Port operators denote exactly the Cisco port sets; views write back losslessly.
    [parse_nums pl c o xs] is Port(line) for the line "<operator> x1 x2 ..." with numeric
    operands; all statements are for every operator, every operand tuple over 1..65535, every
    platform.  Names are covered by C09 (a name is pure spelling of its number). *)
From V Require Import base.Prelude base.Strs gen.Tables model.Cfg model.Names model.Ports
  proofs.PortsProofs.
Local Open Scope N_scope.

(** eq = the listed ports, neq = all others, lt/gt strict, range inclusive regardless of the
    operand order (min/max), everything inside 1..65535 *)
Theorem C08_sem : forall pl c o xs prt,
  parse_nums pl c o xs = Ok prt -> in_range xs ->
  forall p, In p (p_ports prt) <-> (1 <= p <= 65535 /\ sem o xs p).
Proof. exact ports_sem. Qed.

Theorem C08_sorted : forall pl c o xs prt,
  parse_nums pl c o xs = Ok prt -> (o = Eq -> NoDup xs) -> lt_sorted (p_ports prt).
Proof. exact ports_sorted. Qed.

(** the compact range string encodes exactly the set and decodes back to it *)
Theorem C08_codec : forall l,
  NoDup l -> in_range l -> string_to_ports (ports_to_string l) = sortN l.
Proof. exact codec_roundtrip. Qed.

Theorem C08_codec_set : forall l p,
  NoDup l -> in_range l -> (In p (string_to_ports (ports_to_string l)) <-> In p l).
Proof. intros l p ND R. rewrite (codec_roundtrip l ND R). apply sortN_In. Qed.

(** assigning an expression's own items, port list or range string back leaves the whole
    object (operator, operands, port set, range string) unchanged - also for the empty sets
    [gt 65535] and [lt 1] *)
Theorem C08_writeback : forall pl c o xs prt,
  parse_nums pl c o xs = Ok prt -> in_range xs -> NoDup xs ->
  set_items pl c prt (p_items prt) = Ok prt /\
  set_ports pl c prt (p_ports prt) = Ok prt /\
  set_sport pl c prt (p_sport prt) = Ok prt.
Proof. exact writeback. Qed.

(** known finding N2: with a repeated operand the sport write-back drops the duplicate
    (meaning kept, text changed) - hence the [NoDup] guard above *)
Theorem C08_dup_refuted :
  exists p p', parse_nums Ios (Some (Tcp, Ios, false)) Eq [1; 1] = Ok p /\
               set_sport Ios (Some (Tcp, Ios, false)) p (p_sport p) = Ok p' /\
               p_items p = [1; 1] /\ p_items p' = [1].
Proof. eexists. eexists. repeat split; vm_compute; reflexivity. Qed.

(** non-vacuity: the boundary expressions parse and meet the hypotheses *)
Example C08_nonvacuous :
  (exists p, parse_nums Ios None Gt [65535] = Ok p /\ p_ports p = []) /\
  (exists p, parse_nums Nxos None Lt [1] = Ok p /\ p_ports p = []) /\
  (exists p, parse_nums Ios None Range [21; 20] = Ok p /\ p_ports p = [20; 21]) /\
  (exists p, parse_nums Ios None Eq [443; 80] = Ok p /\ p_sport p = "80,443") /\
  in_range [65535] /\ NoDup [443; 80].
Proof.
  split; [eexists; split; vm_compute; reflexivity|].
  split; [eexists; split; vm_compute; reflexivity|].
  split; [eexists; split; vm_compute; reflexivity|].
  split; [eexists; split; vm_compute; reflexivity|].
  split.
  - intros y [<-|[]]; lia.
  - repeat constructor; cbn; intuition discriminate.
Qed.
