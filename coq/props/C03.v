(** C03 - Shadow detection is sound: a reported shadow is really covered.
    [den a srcs dsts k] is the independent packet semantics of spec/AceSem.v; [addr_sets] ties an
    address object (plain, or a group with arbitrary member networks) to its address sets. *)
From V Require Import base.Prelude base.Strs gen.Tables model.Cfg model.Names model.Wildcard
  model.Addr model.Ports model.Ace spec.AceSem
  proofs.WildProofs proofs.AddrProofs proofs.PortsProofs proofs.ShadowProofs.
Local Open Scope N_scope.

(** whenever bottom.shadow_of(top, skip) is True: same action, and every packet matched by the
    bottom entry is matched by the top entry - all protocols, contiguous and non-contiguous
    wildcards, address groups with members, every port operator incl. the empty port sets,
    flags and logs, every subset of skip options, every platform *)
Theorem C03_sound : forall pl sg snc b t sb db st dt,
  ace_wf b -> ace_wf t ->
  addr_sets (a_src b) sb -> addr_sets (a_dst b) db -> addr_sets (a_src t) st -> addr_sets (a_dst t) dt ->
  shadow_of pl sg snc b t = Ok true ->
  a_permit b = a_permit t /\ forall k, pkt_wf k -> den b sb db k -> den t st dt k.
Proof. exact shadow_sound. Qed.

(** adding skip options can only turn answers from true to false *)
Theorem C03_skip_antitone : forall pl sg snc sg' snc' b t,
  (sg = true -> sg' = true) -> (snc = true -> snc' = true) ->
  shadow_of pl sg' snc' b t = Ok true -> shadow_of pl sg snc b t = Ok true.
Proof. exact skip_antitone. Qed.

(** the hypotheses are met by parsed objects: port expressions over 1..65535 are well-formed,
    addresses built from spellings denote their sets *)
Theorem C03_ports_wf : forall pl c o xs p, parse_nums pl c o xs = Ok p -> in_range xs -> port_wf p.
Proof. exact parse_nums_wf. Qed.

Theorem C03_addr_denotes : forall pl limit sp a,
  sp_single sp -> addr_of_spelling pl limit sp = Ok a -> denotes a (sp_base sp) (sp_mask sp).
Proof. exact spelling_denotes. Qed.

(** non-vacuity, and the repaired defect F4 as a regression witness:
    "permit tcp any any" is NOT in the shadow of "permit tcp any gt 65535 any" *)
Example C03_nonvacuous :
  exists top empty bottom,
    build_ace Ios false 16 true 6 SAny SAny [] ["range"; "1"; "1023"] [] = Ok top /\
    build_ace Ios false 16 true 6 SAny SAny ["gt"; "65535"] [] [] = Ok empty /\
    build_ace Ios false 16 true 6 (SHost 167772161) SAny [] ["eq"; "80"] ["log"] = Ok bottom /\
    shadow_of Ios false false bottom top = Ok true /\
    shadow_of Ios false false top empty = Ok false /\
    ace_wf top /\ ace_wf bottom.
Proof.
  eexists. eexists. eexists.
  split; [vm_compute; reflexivity|]. split; [vm_compute; reflexivity|].
  split; [vm_compute; reflexivity|]. split; [vm_compute; reflexivity|].
  split; [vm_compute; reflexivity|].
  split; (split; [|split; [|split]]); cbn [a_sport a_dport a_proto a_flags];
    try apply empty_port_wf;
    try (apply (parse_nums_wf Ios (Some (Tcp, Ios, false)) Range [1; 1023]);
         [vm_compute; reflexivity | intros x [<-|[<-|[]]]; lia]);
    try (apply (parse_nums_wf Ios (Some (Tcp, Ios, false)) Eq [80]);
         [vm_compute; reflexivity | intros x [<-|[]]; lia]);
    try (intros _; now left); try (intros C; exfalso; apply C; reflexivity).
Qed.
