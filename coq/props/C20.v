(** C20 - Arbitrary text only ever yields an object or a documented value/type error.

    The model's result type has five outcomes: Ok | VErr (ValueError) | TErr (TypeError) | Abort
    (NetmaskValueError, a ValueError) | Crash k (any other exception at an explicit partial
    operation: list index, unpacking).  Proved: for EVERY string the ACE constructor of the model
    never takes the Crash outcome, nor do its field constructors; the Gallina functions are total,
    so the model terminates on every input.  What a theorem cannot exhibit - the re engine below
    token level, Python's exception machinery, recursion limit, running time - is sampled by the
    differential robustness run (token soups, truncated / permuted lines, random indentation,
    empty input, out-of-range numbers) on every constructor and config-level function: partial. *)
From V Require Import base.Prelude base.Strs gen.Tables model.Cfg model.Names model.Wildcard
  model.Addr model.Ports model.Ace model.Lex model.AddrText model.AceText model.AclText
  proofs.TextProofs.

Theorem C20_no_crash_ace : forall c line, documented (parse_ace_text c line).
Proof. exact parse_ace_text_documented. Qed.

Theorem C20_no_crash_address : forall pl limit line, documented (parse_address_text pl limit line).
Proof. exact parse_address_text_documented. Qed.

Theorem C20_no_crash_port : forall pl c toks, documented (parse_port pl c toks).
Proof. exact parse_port_documented. Qed.

(** a body line never makes the ACL constructor fail except through the documented
    NetmaskValueError: every line has one of the five classes *)
Theorem C20_line_total : forall c line,
  match line_to_oace c line with LBlank | LItem _ | LIgnorable | LReported | LAbort => True end.
Proof. intros c line. destruct (line_to_oace c line); exact I. Qed.

Example C20_nonvacuous :
  let c := mkCfg Ios false false false 16 in
  map (fun l => match parse_ace_text c l with Ok _ => "ok" | VErr => "ValueError" | TErr => "TypeError"
                                          | Abort => "NetmaskValueError" | Crash k => k end)
      [""; "permit"; "permit ip any"; "permit tcp any range 5 any"; "permit ip 1.1.1.1/33 any";
       "permit ip any any"; "10 deny 300 any any"; "permit tcp any eq nosuch any"; "permit ip host 1.2.3.4.5 any"]
  = ["ValueError"; "ValueError"; "ValueError"; "ValueError"; "NetmaskValueError"; "ok"; "ValueError";
     "ValueError"; "ValueError"].
Proof. vm_compute. reflexivity. Qed.
