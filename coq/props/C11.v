(** C11 - Shadow answers are exact on group-free entries; the ACL report follows its spec. *)
From V Require Import base.Prelude base.Strs gen.Tables model.Cfg model.Names model.Wildcard
  model.Addr model.Ports model.Ace model.Shading spec.AceSem
  proofs.WildProofs proofs.AddrProofs proofs.PortsProofs proofs.ShadowProofs proofs.ReportProofs.
Local Open Scope N_scope.

(** exactness: for two group-free entries (each address denotes one wildcard set, contiguous or
    not) with non-empty port sets, bottom.shadow_of(top) is True exactly when both have the same
    action and the bottom's packet set is contained in the top's *)
Theorem C11_exact : forall pl b t bsb msb bdb mdb bst mst bdt mdt,
  ace_wf b -> ace_wf t -> nonempty_ports b -> a_proto b < 256 ->
  bsb < 2 ^ 32 -> msb < 2 ^ 32 -> bdb < 2 ^ 32 -> mdb < 2 ^ 32 ->
  bst < 2 ^ 32 -> mst < 2 ^ 32 -> bdt < 2 ^ 32 -> mdt < 2 ^ 32 ->
  denotes (a_src b) bsb msb -> denotes (a_dst b) bdb mdb ->
  denotes (a_src t) bst mst -> denotes (a_dst t) bdt mdt ->
  (shadow_of pl false false b t = Ok true <->
   (a_permit b = a_permit t /\
    forall k, pkt_wf k -> den b [(bsb, msb)] [(bdb, mdb)] k -> den t [(bst, mst)] [(bdt, mdt)] k)).
Proof.
  intros pl b t bsb msb bdb mdb bst mst bdt mdt Wb Wt NE Pb B1 B2 B3 B4 B5 B6 B7 B8 D1 D2 D3 D4.
  assert (S : forall a x m, x < 2 ^ 32 -> m < 2 ^ 32 -> denotes a x m -> addr_sets a [(x, m)]).
  { intros a x m Hx Hm (ty & w & -> & C). cbn. exists x, m. auto. }
  split.
  - intros H. apply (shadow_sound pl false false b t _ _ _ _ Wb Wt); auto.
  - intros [EA INC]. apply (exact_complete pl b t bsb msb bdb mdb bst mst bdt mdt); auto.
Qed.

(** skip options: the answer is the unskipped answer, and additionally false whenever a
    skipped address kind is involved in the source or in the destination pair - for every
    combination of the two options *)
Theorem C11_skip : forall pl sg snc b t r,
  shadow_of pl false false b t = Ok r ->
  shadow_of pl sg snc b t =
    Ok (r && negb (skipped sg snc (a_src b) (a_src t)) && negb (skipped sg snc (a_dst b) (a_dst t))).
Proof. exact skip_rule. Qed.

(** for addresses built from any spelling, "no single network" means a non-contiguous
    wildcard (or a group): the kinds the skip options name *)
Theorem C11_skipped_kinds : forall pl limit sp a,
  addr_of_spelling pl limit sp = Ok a -> has_ipnet a = false ->
  addr_type a = TWildcard \/ addr_type a = TGroup.
Proof. exact spelled_nc_type. Qed.

(** ** the ACL-level report
    [Acl.shading] on an ACL whose ACE lines are pairwise distinct (inside one ACL the same text is
    the same entry): a line [v] is listed under the line [k] exactly when the ACE [k] is the FIRST
    ACE standing before the ACE [v] that shadows it ([first_shader]); every listed line appears
    once.  So each ACE that some earlier ACE shadows is listed exactly once, under the first such
    ACE, and nothing else is listed.  [Acl.shadow_of] is the flattened report. *)
Theorem C11_report : forall (A : Type) (sh : A -> A -> bool) (items : list (item A)),
  NoDup (map fst (aces_of items)) ->
  (forall k v, InD k v (shading sh items) <->
     exists top bot, fst top = k /\ fst bot = v /\ first_shader A sh (aces_of items) top bot)
  /\ NoDup (ReportProofs.values (shading sh items)).
Proof. exact shading_spec. Qed.

Theorem C11_report_flat : forall (A : Type) (sh : A -> A -> bool) items,
  shadow_list (shading sh items) = flat_map snd (shading sh items).
Proof. reflexivity. Qed.

Example C11_nonvacuous :
  exists b t,
    build_ace Ios false 16 true 6 (SWild 167772160 259) SAny [] ["eq"; "80"] ["syn"] = Ok b /\
    build_ace Ios false 16 true 6 (SWild 167772160 771) SAny [] ["range"; "1"; "1023"] ["ack"; "syn"] = Ok t /\
    shadow_of Ios false false b t = Ok true /\ shadow_of Ios false true b t = Ok false /\
    shadow_of Ios false false t b = Ok false.
Proof. eexists. eexists. repeat split; vm_compute; reflexivity. Qed.
