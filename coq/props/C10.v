(** C10 - Resequencing numbers every line start, start+step, ... and changes nothing else.
    Items are leaves (remark / ACE / address-group member) or groups of items; [leaves_l] is the
    rendered order looking inside groups; [shape] is everything but the numbers; integers are Z. *)
From V Require Import base.Prelude gen.Tables model.Reseq proofs.ReseqProofs.
Local Open Scope Z_scope.

(** start > 0: a normally returning call had step >= 1, the lines carry start, start+step, ...,
    the call returns the last number and nothing but the numbers changed - for every nesting
    of non-empty groups and every previous numbering *)
Theorem C10_numbers : forall start step items last items',
  resequence start step items = Ok (last, items') -> 0 < start -> all_ne items -> items <> [] ->
  1 <= step /\
  leaves_l items' = number_from start step (ids_of (leaves_l items)) /\
  last = start + step * (nll items - 1) /\ map shape items' = map shape items.
Proof. exact resequence_numbers. Qed.

(** start 0 removes all numbers *)
Theorem C10_zero : forall step items last items',
  resequence 0 step items = Ok (last, items') -> all_ne items -> items <> [] ->
  last = 0 /\ Forall (fun e => fst e = 0) (leaves_l items') /\ map shape items' = map shape items.
Proof. exact resequence_zero. Qed.

(** start outside 0..4294967295, or a step below 1 with a positive start, raises *)
Theorem C10_errors : forall start step items,
  (start < 0 \/ SEQ_MAX < start \/ (0 < start /\ step < 1)) -> resequence start step items = VErr.
Proof. exact resequence_errors. Qed.

(** a normally returning call never leaves a number above 4294967295 (a larger last number
    raises instead) *)
Theorem C10_bound : forall start step items last items',
  resequence start step items = Ok (last, items') -> all_ne items -> items <> [] ->
  last <= SEQ_MAX /\ Forall (fun e => fst e <= SEQ_MAX) (leaves_l items').
Proof. exact resequence_bound. Qed.

Theorem C10_max_is_2_32_minus_1 : SEQ_MAX = 4294967295.
Proof. exact SEQ_MAX_val. Qed.

Example C10_nonvacuous :
  let items := [RLeaf 5 0%N; RGroup 0 1%N [RLeaf 7 2%N; RLeaf 7 3%N]; RLeaf 0 4%N] in
  resequence 10 10 items =
    Ok (40, [RLeaf 10 0%N; RGroup 30 1%N [RLeaf 20 2%N; RLeaf 30 3%N]; RLeaf 40 4%N]) /\
  resequence 4294967294 1 items = VErr /\ resequence 4294967292 1 items <> VErr /\
  all_ne items.
Proof. repeat split; try (vm_compute; reflexivity); try discriminate; cbn; auto. Qed.
