(** C18 - Generated port/protocol ranges cover exactly the requested set.
    A request is a list of items (number | a-b | empty); a chunk is what one generated line
    carries.  [chunk_ports] / [tok_ports] are their port lists. *)
From V Require Import base.Prelude base.Strs gen.Tables model.Cfg model.Names model.Ports
  model.RangeGen proofs.PortsProofs proofs.RangeProofs.
Local Open Scope N_scope.

(** no value missing, none extra (and nothing reordered): concatenating the ports of the
    generated lines gives the concatenated ports of the request *)
Theorem C18_cover : forall count policy toks,
  (policy = false -> 0 < count)%nat ->
  concat (map chunk_ports (split_range count policy toks)) = concat (map tok_ports toks).
Proof. exact split_range_cover. Qed.

(** the ports-per-line limit (range_ports always passes port_count >= 1) *)
Theorem C18_limit : forall count policy toks, (0 < count)%nat ->
  Forall (fun c => match c with CNums l => (length l <= count)%nat | CRange _ _ => True end)
         (split_range count policy toks).
Proof. exact split_range_limit. Qed.

(** the range-versus-eq policy *)
Theorem C18_policy_eq_only : forall count toks,
  Forall (fun c => match c with CNums _ => True | CRange _ _ => False end) (split_range count false toks).
Proof. exact split_range_policy_false. Qed.

Theorem C18_policy_ranges : forall count toks,
  Forall (fun c => match c with
                   | CRange a b => In (RRange a b) toks
                   | CNums l => forall n, In n l -> In (RNum n) toks
                   end) (split_range count true toks).
Proof. exact split_range_policy_true. Qed.

(** the generated port expression denotes the chunk: an eq line lists the chunk's ports, a range
    line a..b (C08_sem gives the meaning of the parsed expression) *)
Theorem C18_chunk_meaning : forall pl c o xs prt,
  parse_nums pl c o xs = Ok prt -> in_range xs ->
  forall p, In p (p_ports prt) <-> (1 <= p <= 65535 /\ sem o xs p).
Proof. exact ports_sem. Qed.

Example C18_nonvacuous :
  split_range 2 true [RNum 1; RRange 3 5; RNum 7; RNum 8; RNum 9]
    = [CNums [1]; CRange 3 5; CNums [7; 8]; CNums [9]] /\
  split_range 2 false [RNum 1; RRange 3 5; RNum 7]
    = [CNums [1; 3]; CNums [4; 5]; CNums [7]].
Proof. split; vm_compute; reflexivity. Qed.
