(** C17 - Any sequence of public operations keeps an ACL consistent with a reference model.

    The concrete model is coq/model/Ops.v (state = flags, grouping, entries with identifier,
    note and numbers; 16 operations), tied to the implementation by the history correspondence
    (text, flags, grouping and identifiers compared after every step).  The reference is the
    rule list and its first-match decision (spec/AceSem.v, spec/AclSem.v).

    - Meaning-preserving operations (platform, port_nr, protocol_nr, type, resequence, ungroup,
      copy, export/import, re-parse, ungroup_ports): each step carries a certificate that Coq
      evaluates on the model's states ([step_cert], part of every observation of the
      correspondence); [C17_neutral_history] lifts it to histories of ANY length: the final
      ACL gives every packet the decision the initial ACL gave.  resequence and ungroup need no
      certificate (proved outright).  Stated for flat ACLs; on a grouped ACL every assignment
      re-groups, which may move entries between blocks (the reference of group()).
    - Order-changing operations are characterised exactly: reverse, sort (a permutation of the
      blocks, ordered by number; modelled for pairwise distinct numbers), pop, insert.
    - re-parse ([C17_reparse]) is proved outright for Acls of remarks and reader-built ACEs.
    - group() depends on the rule list only, not on identifiers, notes or the history
      ([C17_group_erase]): the buckets of the erased entries are the erased buckets.
    - History independence: [Ops.step] is a function of the modelled state; what is not visible
      in the text (identifiers, notes) provably does not influence the buckets; block numbers
      are visible state of their own (set by resequence).  The implementation-side clause (same
      operation on a freshly built equal object) is checked per step by the harness.
    delete_shadow is owned by C04 (certificate there); here it is covered by correspondence and
    by the reference prediction of the oracle. *)
From V Require Import base.Prelude spec.AceSem spec.AclSem model.Cfg model.AceText model.AclText model.Shading
  model.Ops proofs.DeleteShadowProofs proofs.PlatformProofs proofs.OpsProofs proofs.HistoryProofs proofs.AclFixProofs proofs.ReparseProofs.
From Coq Require Import Permutation Sorting.Sorted.
Local Open Scope N_scope.

Theorem C17_neutral_history : forall ops a a',
  neutral_run a ops = Some a' -> forall k, acl_decide a' k = acl_decide a k.
Proof. exact neutral_history. Qed.

Theorem C17_step_cert : forall a o a',
  neutral o = true -> o_gby a = "" -> o_gby a' = "" -> step_cert a o a' = true ->
  forall k, acl_decide a' k = acl_decide a k.
Proof. exact step_cert_sound. Qed.

Theorem C17_resequence : forall start step a a',
  op_resequence start step a = Ok a' -> den_items a' = den_items a.
Proof. exact resequence_items. Qed.

Theorem C17_ungroup : forall a, den_items (op_ungroup a) = den_items a.
Proof. exact ungroup_items. Qed.

Theorem C17_reverse : forall a,
  den_items (op_reverse a) = concat (rev (map (fun t => map leaf_item (top_leaves t)) (o_tops a))).
Proof. exact reverse_items. Qed.

Theorem C17_sort : forall a a',
  op_sort a = Ok a' ->
  Permutation (o_tops a') (o_tops a) /\ Sorted (fun x y => top_seq x <= top_seq y) (o_tops a').
Proof. exact sort_spec. Qed.

Theorem C17_pop : forall i a a',
  op_pop i a = Ok a' -> o_tops a' = firstn i (o_tops a) ++ skipn (S i) (o_tops a).
Proof. exact pop_items. Qed.

Theorem C17_insert : forall i line a a',
  op_insert i line a = Ok a' ->
  exists t, parse_ace_text (o_cfg a) line = Ok t
            /\ o_tops a' = firstn i (o_tops a) ++ [TLeaf (LAce 0 0 t)] ++ skipn i (o_tops a).
Proof. exact insert_items. Qed.

Theorem C17_group_erase : forall gby ls,
  erase_buckets (lgroup_buckets gby ls) = lgroup_buckets gby (map erase ls).
Proof. exact group_erase. Qed.

(** grouping neither invents nor loses an entry (a repeated heading remark is merged) *)
Theorem C17_group_sound : forall gby old ls y, In y (flat (regroup gby old ls)) -> In y ls.
Proof. exact regroup_sound. Qed.
Theorem C17_group_keeps : forall gby old ls y,
  In y ls -> is_head gby y = false -> In y (flat (regroup gby old ls)).
Proof. exact regroup_keeps. Qed.


(** re-creating the Acl from its own text needs no certificate when the entries are remarks and
    reader-built extended ACEs ([item_built], C06): for EVERY such Acl, grouped or flat, the new
    object is flat, has the same configuration and name, consists of fresh objects only, has the
    same entries in the same order, prints the same lines and decides every packet alike *)
Theorem C17_reparse : forall a,
  (plat (o_cfg a) = Ios \/ plat (o_cfg a) = Nxos) ->
  Forall (fun l => item_built (o_cfg a) (leaf_aitem l)) (flat (o_tops a)) ->
  exists a', op_reparse a = Ok a'
    /\ o_cfg a' = o_cfg a /\ o_name a' = o_name a /\ o_gby a' = ""%string
    /\ map leaf_aitem (flat (o_tops a')) = map leaf_aitem (flat (o_tops a))
    /\ Forall (fun l => leaf_id l = 0 /\ leaf_note l = 0) (flat (o_tops a'))
    /\ acl_lines a' = acl_lines a
    /\ forall k, acl_decide a' k = acl_decide a k.
Proof. exact reparse_built. Qed.

(** non-vacuity: a seven-step history of meaning-preserving operations on an IOS list with a
    two-port entry passes every certificate, so the theorem applies to it *)
Local Open Scope string_scope.
Definition C17_demo : option (list string) :=
  match init_acl (mkCfg Ios false false false 16%nat) "A"
          ["remark r"; "10 permit tcp any host 10.0.0.1 eq www 443 log"; "20 deny udp any any range 5 6"; "deny ip any any"] with
  | Ok a0 =>
      match neutral_run a0 [OpPortNr true; OpPlatform Nxos; OpResequence 100 10; OpCopy; OpProtocolNr true;
                            OpPlatform Ios; OpReparse] with
      | Some a => Some (acl_lines a)
      | None => None
      end
  | _ => None
  end.
Example C17_nonvacuous :
  C17_demo = Some ["ip access-list extended A"; "100 remark r"; "110 permit tcp any host 10.0.0.1 eq 80 log";
                   "120 permit tcp any host 10.0.0.1 eq 443 log"; "130 deny udp any any range 5 6"; "140 deny 0 any any"].
Proof. vm_compute. reflexivity. Qed.
