(** C17 - Any sequence of public operations keeps an ACL consistent with a reference model.

    The concrete model is coq/model/Ops.v (state = flags, grouping, entries with identifier,
    note and numbers; 16 operations), tied to the implementation by the history correspondence
    (text, flags, grouping and identifiers compared after every step).  The reference is the
    rule list and its first-match decision (spec/AceSem.v, spec/AclSem.v).

    - Meaning-preserving operations (platform, port_nr, protocol_nr, type, resequence, ungroup,
      copy, export/import, re-parse, ungroup_ports): each step carries a certificate that Coq
      evaluates on the model's states ([step_cert], part of every observation of the
      correspondence); [C17_neutral_history] lifts it to histories of ANY length: the final
      ACL gives every packet the decision the initial ACL gave.  resequence and ungroup need no
      certificate (proved outright).  Stated for flat ACLs; on a grouped ACL every assignment
      re-groups, which may move entries between blocks (the reference of group()).
    - Order-changing operations are characterised exactly: reverse, sort (a permutation of the
      blocks, ordered by number; modelled for pairwise distinct numbers), pop, insert.
    - platform ([C17_platform]) and re-parse ([C17_reparse]) are proved outright for Acls of remarks and reader-built ACEs.
    - group() depends on the rule list only, not on identifiers, notes or the history
      ([C17_group_erase]): the buckets of the erased entries are the erased buckets.
    - History independence: [Ops.step] is a function of the modelled state; what is not visible
      in the text (identifiers, notes) provably does not influence the buckets; block numbers
      are visible state of their own (set by resequence).  The implementation-side clause (same
      operation on a freshly built equal object) is checked per step by the harness.
    delete_shadow is owned by C04 (certificate there); here it is covered by correspondence and
    by the reference prediction of the oracle. *)
From V Require Import base.Prelude spec.AceSem spec.AclSem model.Cfg model.AceText model.AclText model.Shading
  model.Ops proofs.DeleteShadowProofs proofs.PlatformProofs proofs.OpsProofs proofs.HistoryProofs proofs.AclFixProofs proofs.ReparseProofs proofs.ConvSplitProofs proofs.PlatformOpProofs proofs.OpsBuiltProofs proofs.ClassCheck.
From V Require Import model.Platform.
From Coq Require Import Permutation Sorting.Sorted.
Local Open Scope N_scope.

Theorem C17_neutral_history : forall ops a a',
  neutral_run a ops = Some a' -> forall k, acl_decide a' k = acl_decide a k.
Proof. exact neutral_history. Qed.

Theorem C17_step_cert : forall a o a',
  neutral o = true -> o_gby a = "" -> o_gby a' = "" -> step_cert a o a' = true ->
  forall k, acl_decide a' k = acl_decide a k.
Proof. exact step_cert_sound. Qed.

Theorem C17_resequence : forall start step a a',
  op_resequence start step a = Ok a' -> den_items a' = den_items a.
Proof. exact resequence_items. Qed.

Theorem C17_ungroup : forall a, den_items (op_ungroup a) = den_items a.
Proof. exact ungroup_items. Qed.

Theorem C17_reverse : forall a,
  den_items (op_reverse a) = concat (rev (map (fun t => map leaf_item (top_leaves t)) (o_tops a))).
Proof. exact reverse_items. Qed.

Theorem C17_sort : forall a a',
  op_sort a = Ok a' ->
  Permutation (o_tops a') (o_tops a) /\ Sorted (fun x y => top_seq x <= top_seq y) (o_tops a').
Proof. exact sort_spec. Qed.

Theorem C17_pop : forall i a a',
  op_pop i a = Ok a' -> o_tops a' = firstn i (o_tops a) ++ skipn (S i) (o_tops a).
Proof. exact pop_items. Qed.

Theorem C17_insert : forall i line a a',
  op_insert i line a = Ok a' ->
  exists t, parse_ace_text (o_cfg a) line = Ok t
            /\ o_tops a' = firstn i (o_tops a) ++ [TLeaf (LAce 0 0 t)] ++ skipn i (o_tops a).
Proof. exact insert_items. Qed.

Theorem C17_group_erase : forall gby ls,
  erase_buckets (lgroup_buckets gby ls) = lgroup_buckets gby (map erase ls).
Proof. exact group_erase. Qed.

(** grouping neither invents nor loses an entry (a repeated heading remark is merged) *)
Theorem C17_group_sound : forall gby old ls y, In y (flat (regroup gby old ls)) -> In y ls.
Proof. exact regroup_sound. Qed.
Theorem C17_group_keeps : forall gby old ls y,
  In y ls -> is_head gby y = false -> In y (flat (regroup gby old ls)).
Proof. exact regroup_keeps. Qed.


(** re-creating the Acl from its own text needs no certificate when the entries are remarks and
    reader-built extended ACEs ([item_built], C06): for EVERY such Acl, grouped or flat, the new
    object is flat, has the same configuration and name, consists of fresh objects only, has the
    same entries in the same order, prints the same lines and decides every packet alike *)
Theorem C17_reparse : forall a,
  (plat (o_cfg a) = Ios \/ plat (o_cfg a) = Nxos) ->
  Forall (fun l => AclFixProofs.item_built (o_cfg a) (leaf_aitem l)) (flat (o_tops a)) ->
  exists a', op_reparse a = Ok a'
    /\ o_cfg a' = o_cfg a /\ o_name a' = o_name a /\ o_gby a' = ""%string
    /\ map leaf_aitem (flat (o_tops a')) = map leaf_aitem (flat (o_tops a))
    /\ Forall (fun l => leaf_id l = 0 /\ leaf_note l = 0) (flat (o_tops a'))
    /\ acl_lines a' = acl_lines a
    /\ forall k, acl_decide a' k = acl_decide a k.
Proof. exact reparse_built. Qed.


(** Acl.platform = p needs no certificate on a flat Acl of reader-built entries ([item_src], C02:
    any port expression except multi-operand neq): the operation of the model is the list
    conversion of C02 on the entries ([C17_platform_is_conversion], for every flat Acl), hence it
    succeeds and keeps the decision of every packet ([C17_platform]) *)
Theorem C17_platform_is_conversion : forall a p ls conv,
  o_gby a = ""%string -> o_tops a = map TLeaf ls ->
  acl_set_platform (o_cfg a) (with_plat (o_cfg a) p) (map leaf_aitem ls) = Ok conv ->
  exists a' ls', op_platform p a = Ok a' /\ o_tops a' = map TLeaf ls' /\ map leaf_aitem ls' = conv
                 /\ o_cfg a' = with_plat (o_cfg a) p /\ o_gby a' = ""%string /\ o_name a' = o_name a
                 /\ o_id a' = o_id a /\ o_note a' = o_note a.
Proof. exact platform_flat_sim. Qed.

Theorem C17_platform : forall mem a p ls,
  (plat (o_cfg a) = Ios \/ plat (o_cfg a) = Nxos) -> (p = Ios \/ p = Nxos) ->
  o_gby a = ""%string -> o_tops a = map TLeaf ls ->
  Forall (fun l => item_src mem (o_cfg a) (leaf_aitem l)) ls ->
  exists a', op_platform p a = Ok a' /\ o_gby a' = ""%string /\ plat (o_cfg a') = p
             /\ forall k, acl_decide a' k = acl_decide a k.
Proof. exact platform_op_built. Qed.


(** ** histories of ANY length, without certificates
    [acl_built]: a flat IOS / NX-OS Acl whose entries are remarks (blank-joined tokens) and
    extended ACEs built by the readers of its platform (single addresses or address-group
    references without attached members), any port expression except neq with several operands
    (finding N5).
    The class is closed under every meaning-preserving operation of the model ([op_ok]: platform
    to IOS / NX-OS, port_nr, protocol_nr, type, resequence, ungroup, copy, export/import,
    re-parse, ungroup_ports); each keeps the decision of every packet ([C17_step]); so does
    every history over them, of any length ([C17_history]); and no operation of the class fails
    on it, except resequence with invalid arguments ([C17_history_progress]). *)
Theorem C17_step : forall a o a', acl_built a -> op_ok o -> Ops.step a o = Ok a' ->
  acl_built a' /\ forall k, acl_decide a' k = acl_decide a k.
Proof. exact step_built. Qed.

Theorem C17_history : forall ops a a', acl_built a -> Forall op_ok ops -> steps a ops = Ok a' ->
  acl_built a' /\ forall k, acl_decide a' k = acl_decide a k.
Proof. exact history_built. Qed.

Theorem C17_history_progress : forall ops a, acl_built a -> Forall op_ok ops ->
  (forall o s d, In o ops -> o <> OpResequence s d) -> exists a', steps a ops = Ok a'.
Proof. exact history_progress. Qed.


(** the class is decidable enough to be counted: [acl_builtb] is a sound boolean checker, and the
    history theorem in checked form is what the check evaluates on every explored history
    ([run.RunOps.history_in_class]; the count is written into the evidence).  The history here is
    the one the correspondence runs: fresh objects are named after every step. *)
Theorem C17_class_checker : forall a, acl_builtb a = true -> acl_built a.
Proof. exact acl_builtb_ok. Qed.

Theorem C17_history_checked : forall next a ops a',
  acl_builtb a = true -> forallb op_okb ops = true -> steps_labelled next a ops = Ok a' ->
  forall k, acl_decide a' k = acl_decide a k.
Proof. exact history_checked. Qed.

(** non-vacuity: a seven-step history of meaning-preserving operations on an IOS list with a
    two-port entry passes every certificate, so the theorem applies to it *)
Local Open Scope string_scope.
Definition C17_demo : option (list string) :=
  match init_acl (mkCfg Ios false false false 16%nat) "A"
          ["remark r"; "10 permit tcp any host 10.0.0.1 eq www 443 log"; "20 deny udp any any range 5 6"; "deny ip any any"] with
  | Ok a0 =>
      match neutral_run a0 [OpPortNr true; OpPlatform Nxos; OpResequence 100 10; OpCopy; OpProtocolNr true;
                            OpPlatform Ios; OpReparse] with
      | Some a => Some (acl_lines a)
      | None => None
      end
  | _ => None
  end.
Example C17_nonvacuous :
  C17_demo = Some ["ip access-list extended A"; "100 remark r"; "110 permit tcp any host 10.0.0.1 eq 80 log";
                   "120 permit tcp any host 10.0.0.1 eq 443 log"; "130 deny udp any any range 5 6"; "140 deny 0 any any"].
Proof. vm_compute. reflexivity. Qed.

(** non-vacuity of [C17_history]: an Acl of the class (a remark and a two-port 'eq' entry) and an
    eight-step history over it; the theorem applies to it *)
From V Require Import model.Addr model.Ports model.Ace proofs.SplitterProofs proofs.AddrObjProofs.
Ltac tok := split; [vm_compute; reflexivity|vm_compute; discriminate].
Ltac toks := repeat (first [apply Forall_nil | apply Forall_cons; [tok|]]).
Ltac afs := repeat (first [apply Forall_nil | apply Forall_cons; [vm_compute; reflexivity|]]).
Definition c17_any : addr := Eval vm_compute in match addr_of_spelling Ios 16 SAny with Ok a => a | _ => AGroup "" [] end.
Definition c17_host : addr := Eval vm_compute in match addr_of_spelling Ios 16 (SHost 167772161) with Ok a => a | _ => AGroup "" [] end.
Definition c17_q2 : port := Eval vm_compute in match parse_port Ios (proto_ctx Ios false 6) ["eq"; "www"; "443"] with Ok p => p | _ => empty_port end.
Definition c17_acl : acl :=
  mkAcl (mkCfg Ios false false false 16%nat) "A" "" 1 0
        (map TLeaf [LRem 2 0 0 "x y"; LAce 3 0 (mkTace true 0 (mkAce true 6 c17_any c17_host empty_port c17_q2 [] ["log"]) ["log"])]).
Definition c17_ops : list op :=
  [OpPlatform Nxos; OpResequence 10 10; OpPortNr true; OpCopy; OpPlatform Ios; OpReparse; OpUngroupPorts; OpProtocolNr true].
Example C17_history_nonvacuous :
  acl_built c17_acl /\ Forall op_ok c17_ops /\ acl_builtb c17_acl = true
  /\ match steps c17_acl c17_ops with Ok a => acl_lines a | _ => [] end
     = ["ip access-list extended A"; "10 remark x y"; "20 permit tcp any host 10.0.0.1 eq 80 log"; "30 permit tcp any host 10.0.0.1 eq 443 log"].
Proof.
  split; [|split; [unfold c17_ops; repeat (apply Forall_cons; [exact I|]); apply Forall_nil|split; vm_compute; reflexivity]].
  split; [left; reflexivity|]. split; [reflexivity|]. eexists. split; [reflexivity|].
  apply Forall_cons; [|apply Forall_cons; [|apply Forall_nil]].
  - exists ["x"; "y"]. split; [discriminate|]. split; [toks|reflexivity].
  - exists true, 6, 0, c17_any, c17_host, [], ["eq"; "www"; "443"], empty_port, c17_q2, ["log"], [], ["log"].
    split; [reflexivity|]. split; [vm_compute; discriminate|].
    split; [left; exists SAny; split; [exact I|]; split; [intros [_ [x Hx]]; discriminate|vm_compute; reflexivity]|].
    split; [left; exists (SHost 167772161); split; [vm_compute; reflexivity|]; split; [intros [_ [x Hx]]; discriminate|vm_compute; reflexivity]|].
    split; [split; [reflexivity|]; split; [reflexivity|left; discriminate]|].
    split; [split; [vm_compute; reflexivity|]; split; [discriminate|left; intros H; vm_compute in H; discriminate H]|].
    split; [toks|]. split; [afs|]. split; [vm_compute; reflexivity|]. split; vm_compute; reflexivity.
Qed.
