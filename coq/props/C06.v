(** C06 - Rendered text is a fixed point of the parser at every object level.

    Proved (component level): a port expression renders to text that parses back to the same
    object for every operator / operands / platform / version / protocol and both settings of
    the names-as-numbers switch; a protocol renders to text that parses back to the same number
    (C09); decimal numbers print and parse back.  The fixed point of whole ACEs, remarks, ACE
    groups, ACLs, address groups and the config-level functions is decided per generated object
    by evaluating parse (render (parse t)) in the model and in the implementation (strict for
    native text, from the first re-parse on for foreign spellings) - partial in that sense. *)
From V Require Import base.Prelude base.Strs gen.Tables model.Cfg model.Names model.Wildcard model.Ports model.Addr model.Ace
  model.Lex model.AddrText model.AceText model.AclText
  proofs.NamesProofs proofs.PortsProofs proofs.TextProofs proofs.SplitterProofs proofs.AceFixProofs proofs.AddrObjProofs proofs.ParsedAceProofs proofs.GroupAceProofs proofs.AclFixProofs proofs.ClassCheck proofs.StdAceProofs.
Local Open Scope N_scope.

Theorem C06_port_partial : forall pr pl v15 nr o xs p,
  parse_nums pl (Some (pr, pl, v15)) o xs = Ok p ->
  parse_port pl (Some (pr, pl, v15)) (render_port nr (Some (pr, pl, v15)) p) = Ok p.
Proof. exact port_text_fixpoint. Qed.

Theorem C06_protocol_partial : forall pl nr hp n,
  n <= 255 -> parse_proto (render_proto pl nr hp n) = Ok n.
Proof. exact proto_roundtrip. Qed.

Theorem C06_number_partial : forall n, undec (dec n) = Some n.
Proof. exact undec_dec. Qed.

(** IPv4 text: the dotted spelling the renderer produces for any 32-bit address is read back as
    that address (the four octets pass the IPv4Address rules: 1-3 digits, no leading zero, <= 255) *)
Theorem C06_ip_partial : forall n, (n < 2 ^ 32)%N -> parse_ip (render_ip n) = Some n.
Proof. exact parse_render_ip. Qed.

(** address text: each native spelling the renderer writes (any / host A / A/len / A W) is read
    back as exactly that spelling, for all 32-bit addresses and masks and all prefix lengths *)
Theorem C06_address_partial : forall pl x m len, (x < 2 ^ 32)%N -> (m < 2 ^ 32)%N -> (len <= 32)%nat ->
  spelling_of_text pl "any" = Ok SAny
  /\ spelling_of_text pl ("host " ++ render_ip x) = Ok (SHost x)
  /\ spelling_of_text pl (render_ip x ++ "/" ++ dec (N.of_nat len)) = Ok (SPrefix x len)
  /\ spelling_of_text pl (render_ip x ++ " " ++ render_ip m) = Ok (SWild x m).
Proof.
  intros pl x m len Hx Hm Hl. split; [apply any_text_fixpoint|]. split; [now apply host_text_fixpoint|].
  split; [now apply prefix_text_fixpoint|now apply wild_text_fixpoint].
Qed.


(** ** address OBJECTS
    Every address object the reader builds from a native spelling (any, host A, A/len, A W; all
    32-bit addresses and masks, all lengths, contiguous or not, any limit of non-contiguous bits
    that accepts it) renders to text that is read back as the SAME object, on IOS and NX-OS -
    except the listed finding N1 (IOS, zero-length prefix), for which the statement is refuted
    by [C06_n1_refuted]. *)
Theorem C06_address_object : forall pl limit sp a,
  (pl = Ios \/ pl = Nxos) -> sp_bounds sp -> ~ is_n1 pl sp ->
  addr_of_spelling pl limit sp = Ok a ->
  parse_address_text pl limit (render_addr pl a) = Ok a.
Proof. exact reader_addr_fixpoint. Qed.

Theorem C06_address_std : forall pl limit a m w,
  (pl = Ios \/ pl = Nxos) -> a < 2 ^ 32 -> m < 2 ^ 32 -> new_wild limit a m = Ok w ->
  parse_address_text pl limit (render_addr pl (ASingle (std_type pl w) w)) = Ok (ASingle (std_type pl w) w).
Proof. exact addr_obj_fixpoint. Qed.

Definition c06_n1 : res (addr * string * res addr) :=
  do a <- addr_of_spelling Ios 16 (SPrefix 167772160 0);
  Ok (a, render_addr Ios a, parse_address_text Ios 16 (render_addr Ios a)).
Theorem C06_n1_refuted :
  exists a t a', c06_n1 = Ok (a, t, Ok a') /\ t = "0.0.0.0 255.255.255.255"%string /\ render_addr Ios a' = "any"%string.
Proof. eexists. eexists. eexists. split; [vm_compute; reflexivity|]. split; vm_compute; reflexivity. Qed.

(** ** a whole extended ACE
    If every field of an extended ACE is a fixed point of its own reader and is written in
    well-formed tokens ([fields_fixed]: the addresses as in C06_address_partial, the ports as in
    C06_port_partial, the protocol as in C06_protocol_partial, option tokens that are no address
    starts), the rendered line is split back into exactly these fields ([C01_splitter]) and the
    ACE is read back unchanged.  N1 (an IOS address that renders the all-ones wildcard) and N14
    (address-like option text) do not satisfy the hypotheses - that is where they fail.
    [C06_ace_nonvacuous]: a parsed ACE with ports on both sides and an option satisfies them. *)
Theorem C06_ace : forall c t SRC DST,
  t_type_ext t = true -> fields_fixed c t SRC DST -> parse_ace_text c (render_ace c t) = Ok t.
Proof. exact ace_fixpoint. Qed.

(** ** an extended ACE built by the readers
    [C06_parsed_ace] discharges the hypotheses of [C06_ace]: an extended, group-free ACE whose
    addresses were built by the address reader from native spellings (not N1), whose ports were
    built by the port reader (none without tcp/udp: they would not be rendered), with a protocol
    number up to 255 and option tokens that are well-formed, start no address, are accepted by the
    option reader and can be told from the destination port, is read back UNCHANGED from its
    rendered line, on IOS and NX-OS, for every version, switch setting and limit.  The rendered
    port and protocol tokens are shown to be well-formed and address-free
    ([render_port_toks], from the regenerated tables). *)
Theorem C06_parsed_ace : forall c, (plat c = Ios \/ plat c = Nxos) ->
  forall permit n sq ssp dsp s d toks1 toks2 p1 p2 opts flags logs,
  n <= 255 ->
  sp_bounds ssp /\ ~ is_n1 (plat c) ssp /\ addr_of_spelling (plat c) (Z.of_nat (max_ncwb c)) ssp = Ok s ->
  sp_bounds dsp /\ ~ is_n1 (plat c) dsp /\ addr_of_spelling (plat c) (Z.of_nat (max_ncwb c)) dsp = Ok d ->
  parse_port (plat c) (proto_ctx (plat c) (is15 c) n) toks1 = Ok p1 /\ (proto_ctx (plat c) (is15 c) n = None -> p1 = empty_port) ->
  parse_port (plat c) (proto_ctx (plat c) (is15 c) n) toks2 = Ok p2 /\ (proto_ctx (plat c) (is15 c) n = None -> p2 = empty_port) ->
  Forall token opts /\ Forall af opts /\ parse_option opts = Ok (flags, logs)
  /\ split_dstport_option (render_port (port_nr c) (proto_ctx (plat c) (is15 c) n) p2 ++ opts)
     = (render_port (port_nr c) (proto_ctx (plat c) (is15 c) n) p2, opts) ->
  let t := mkTace true sq (mkAce permit n s d p1 p2 flags logs) opts in
  parse_ace_text c (render_ace c t) = Ok t.
Proof. exact parsed_ace_fixpoint. Qed.


(** ** ... with address-group references
    The same for ACEs whose source and/or destination is a group reference "object-group NAME" /
    "addrgroup NAME" (no attached members: the line does not carry them) with a valid name that
    is not itself a group keyword: [addr_built] = reader-built single address OR group reference.
    [C06_group_reference] is the address-level fixed point of the reference. *)
Theorem C06_group_reference : forall pl limit name, (pl = Ios \/ pl = Nxos) -> check_name name = true ->
  parse_address_text pl limit (render_addr pl (AGroup name [])) = Ok (AGroup name []).
Proof. exact group_text_fixpoint. Qed.

Theorem C06_parsed_ace_groups : forall c, (plat c = Ios \/ plat c = Nxos) ->
  forall permit n sq s d toks1 toks2 p1 p2 opts flags logs,
  n <= 255 ->
  addr_built (plat c) (Z.of_nat (max_ncwb c)) s ->
  addr_built (plat c) (Z.of_nat (max_ncwb c)) d ->
  parse_port (plat c) (proto_ctx (plat c) (is15 c) n) toks1 = Ok p1 /\ (proto_ctx (plat c) (is15 c) n = None -> p1 = empty_port) ->
  parse_port (plat c) (proto_ctx (plat c) (is15 c) n) toks2 = Ok p2 /\ (proto_ctx (plat c) (is15 c) n = None -> p2 = empty_port) ->
  Forall token opts /\ Forall af opts /\ parse_option opts = Ok (flags, logs)
  /\ split_dstport_option (render_port (port_nr c) (proto_ctx (plat c) (is15 c) n) p2 ++ opts)
     = (render_port (port_nr c) (proto_ctx (plat c) (is15 c) n) p2, opts) ->
  let t := mkTace true sq (mkAce permit n s d p1 p2 flags logs) opts in
  parse_ace_text c (render_ace c t) = Ok t.
Proof. exact parsed_ace_fixpoint_groups. Qed.


(** ** the body of an ACL
    A list of remarks (text = blank-joined tokens) and reader-built extended ACEs, with or
    without group references, is a fixed point of the text round trip of the container: every
    rendered line is classified as an item and read back as the SAME item; no line is dropped,
    reported or aborts the construction; the items come back in the same order. *)
Theorem C06_acl_body : forall c, (plat c = Ios \/ plat c = Nxos) ->
  forall items, Forall (item_built c) items ->
  let cl := classify_all c (map (render_item c) items) in
  cl = map LItem items /\ aborted cl = false /\ items_of cl = items.
Proof. exact acl_body_built_fixpoint. Qed.


(** the checked form: [src_builtb] is a sound boolean checker of the class of [C06_parsed_ace_groups]
    (proofs/ClassCheck.v); the check counts with it, inside Coq, how many explored lines produce an
    entry that is provably a fixed point ([run.RunClass.ace_in_class]) *)
Theorem C06_checked : forall c t, plat_okb (plat c) = true -> src_builtb c t = true ->
  parse_ace_text c (render_ace c t) = Ok t.
Proof. exact fixpoint_checked. Qed.


(** ** standard-type ACEs
    "[seq] permit|deny SRC [options]" with SRC built by the address reader from a native spelling
    (not N1), the reader's "any" as destination, protocol 0, no ports, and option tokens that are
    well-formed, start no address and are accepted by the option reader: the rendered line is
    REFUSED by the extended pattern ([ext_none]: no destination can be found), read by the
    standard pattern, and gives the SAME entry.  (The finding N14 is an entry whose option text is
    "any" - it starts an address, so it is outside the hypotheses, as it must be.) *)
Theorem C06_standard_ace : forall c, (plat c = Ios \/ plat c = Nxos) ->
  forall permit sq ssp s dany opts flags logs,
  sp_bounds ssp /\ ~ is_n1 (plat c) ssp /\ addr_of_spelling (plat c) (Z.of_nat (max_ncwb c)) ssp = Ok s ->
  addr_of_spelling (plat c) (Z.of_nat (max_ncwb c)) SAny = Ok dany ->
  Forall token opts /\ Forall af opts /\ parse_option opts = Ok (flags, logs) ->
  let t := mkTace false sq (mkAce permit 0 s dany empty_port empty_port flags logs) opts in
  parse_ace_text c (render_ace c t) = Ok t.
Proof. exact std_ace_fixpoint. Qed.

Theorem C06_port_tokens : forall nr c p, Forall token (render_port nr c p) /\ Forall af (render_port nr c p).
Proof. exact render_port_toks. Qed.

Local Open Scope string_scope.
Definition c06_cx := mkCfg Ios false false false 16%nat.
Definition c06_tx_opt : option tace := Eval vm_compute in
  match parse_ace_text c06_cx "10 permit tcp host 10.0.0.1 eq www 10.0.0.0 0.0.0.255 eq 443 log" with Ok t => Some t | _ => None end.
Definition c06_tx : tace := Eval vm_compute in match c06_tx_opt with Some t => t | None => mkTace true 0 (mkAce true 0 (AGroup "" []) (AGroup "" []) empty_port empty_port [] []) [] end.
Ltac tok := split; [vm_compute; reflexivity|vm_compute; discriminate].
Ltac toks := repeat (first [apply Forall_nil | apply Forall_cons; [tok|]]).
Ltac afs := repeat (first [apply Forall_nil | apply Forall_cons; [vm_compute; reflexivity|]]).
Example C06_ace_nonvacuous : parse_ace_text c06_cx (render_ace c06_cx c06_tx) = Ok c06_tx.
Proof.
  apply (ace_text_fixpoint c06_cx c06_tx eq_refl ["host"; render_ip 167772161] [render_ip 167772160; render_ip 255]).
  - assert (E : render_addr (plat c06_cx) (a_src (t_ace c06_tx)) = "host " ++ render_ip 167772161) by (vm_compute; reflexivity).
    rewrite E. split; [vm_compute; reflexivity|]. split; [apply AT_host|]. intros kw name E0 [-> | ->]; discriminate.
  - assert (E : render_addr (plat c06_cx) (a_dst (t_ace c06_tx)) = render_ip 167772160 ++ " " ++ render_ip 255) by (vm_compute; reflexivity).
    rewrite E. split; [vm_compute; reflexivity|]. apply AT_wild.
  - vm_compute. reflexivity.
  - vm_compute. reflexivity.
  - tok.
  - vm_compute. reflexivity.
  - vm_compute. reflexivity.
  - split; [|split; [|vm_compute; reflexivity]].
    + assert (E : render_port (port_nr c06_cx) (proto_ctx (plat c06_cx) (is15 c06_cx) (a_proto (t_ace c06_tx))) (a_sport (t_ace c06_tx)) = ["eq"; "www"]) by (vm_compute; reflexivity).
      rewrite E. toks.
    + assert (E : render_port (port_nr c06_cx) (proto_ctx (plat c06_cx) (is15 c06_cx) (a_proto (t_ace c06_tx))) (a_sport (t_ace c06_tx)) = ["eq"; "www"]) by (vm_compute; reflexivity).
      rewrite E. afs.
  - split; [|split; [|vm_compute; reflexivity]].
    + assert (E : render_port (port_nr c06_cx) (proto_ctx (plat c06_cx) (is15 c06_cx) (a_proto (t_ace c06_tx))) (a_dport (t_ace c06_tx)) = ["eq"; "443"]) by (vm_compute; reflexivity).
      rewrite E. toks.
    + assert (E : render_port (port_nr c06_cx) (proto_ctx (plat c06_cx) (is15 c06_cx) (a_proto (t_ace c06_tx))) (a_dport (t_ace c06_tx)) = ["eq"; "443"]) by (vm_compute; reflexivity).
      rewrite E. afs.
  - assert (E : t_option_line c06_tx = ["log"]) by (vm_compute; reflexivity). rewrite E.
    split; [toks|]. split; [afs|]. split; vm_compute; reflexivity.
Qed.

(** a two-step example with a foreign spelling (prefix notation on IOS) *)
Definition c06_example : res (string * string) :=
  let c := mkCfg Ios false false false 16 in
  do t1 <- parse_ace_text c "permit tcp 10.0.0.1/24 eq 80 443 any eq 22 log";
  let l1 := render_ace c t1 in
  do t2 <- parse_ace_text c l1; Ok (l1, render_ace c t2).
Example C06_nonvacuous :
  c06_example = Ok ("permit tcp 10.0.0.0 0.0.0.255 eq www 443 any eq 22 log",
                    "permit tcp 10.0.0.0 0.0.0.255 eq www 443 any eq 22 log").
Proof. vm_compute. reflexivity. Qed.

(** the hypotheses of [C06_parsed_ace_groups] are met by a line with two group references, one
    of them named like an address keyword *)
Definition c06_gp1 : port := Eval vm_compute in match parse_port Ios (proto_ctx Ios false 6) ["eq"; "80"] with Ok p => p | _ => empty_port end.
Example C06_groups_nonvacuous :
  let c := mkCfg Ios false false false 16%nat in
  let t := mkTace true 20 (mkAce false 6 (AGroup "any-servers" []) (AGroup "host" []) c06_gp1 empty_port [] ["log"]) ["log"] in
  render_ace c t = "20 deny tcp object-group any-servers eq www object-group host log"
  /\ parse_ace_text c (render_ace c t) = Ok t.
Proof.
  split; [vm_compute; reflexivity|].
  apply (C06_parsed_ace_groups (mkCfg Ios false false false 16%nat) (or_introl eq_refl)
           false 6 20 (AGroup "any-servers" []) (AGroup "host" []) ["eq"; "80"] [] c06_gp1 empty_port ["log"] [] ["log"]).
  - vm_compute. discriminate.
  - right. exists "any-servers". split; [reflexivity|]. split; vm_compute; reflexivity.
  - right. exists "host". split; [reflexivity|]. split; vm_compute; reflexivity.
  - split; [vm_compute; reflexivity|discriminate].
  - split; [vm_compute; reflexivity|discriminate].
  - split; [toks|]. split; [afs|]. split; vm_compute; reflexivity.
Qed.

Example C06_acl_body_nonvacuous :
  let c := mkCfg Ios false false false 16%nat in
  let t := mkTace true 20 (mkAce false 6 (AGroup "any-servers" []) (AGroup "host" []) c06_gp1 empty_port [] ["log"]) ["log"] in
  let items := [AIRemark 10 "10 permit me"; AIAce t] in
  Forall (item_built c) items
  /\ map (render_item c) items = ["10 remark 10 permit me"; "20 deny tcp object-group any-servers eq www object-group host log"].
Proof.
  split; [|vm_compute; reflexivity].
  apply Forall_cons; [|apply Forall_cons; [|apply Forall_nil]].
  - exists ["10"; "permit"; "me"]. split; [discriminate|]. split; [toks|reflexivity].
  - exists false, 6, 20, (AGroup "any-servers" []), (AGroup "host" []), ["eq"; "80"], [], c06_gp1, empty_port, ["log"], [], ["log"].
    split; [reflexivity|]. split; [vm_compute; discriminate|].
    split; [right; exists "any-servers"; split; [reflexivity|]; split; vm_compute; reflexivity|].
    split; [right; exists "host"; split; [reflexivity|]; split; vm_compute; reflexivity|].
    split; [split; [vm_compute; reflexivity|discriminate]|].
    split; [split; [vm_compute; reflexivity|discriminate]|].
    split; [toks|]. split; [afs|]. split; vm_compute; reflexivity.
Qed.

Definition c06_std_opt : option tace := Eval vm_compute in
  match parse_ace_text c06_cx "10 permit host 10.0.0.1 log" with Ok t => Some t | _ => None end.
Example C06_standard_nonvacuous :
  exists s dany, c06_std_opt = Some (mkTace false 10 (mkAce true 0 s dany empty_port empty_port [] ["log"]) ["log"])
    /\ addr_of_spelling Ios 16 (SHost 167772161) = Ok s /\ addr_of_spelling Ios 16 SAny = Ok dany
    /\ render_ace c06_cx (mkTace false 10 (mkAce true 0 s dany empty_port empty_port [] ["log"]) ["log"]) = "10 permit host 10.0.0.1 log".
Proof. eexists. eexists. split; [vm_compute; reflexivity|]. split; [vm_compute; reflexivity|]. split; vm_compute; reflexivity. Qed.
