(** C06 - Rendered text is a fixed point of the parser at every object level.

    Proved (component level): a port expression renders to text that parses back to the same
    object for every operator / operands / platform / version / protocol and both settings of
    the names-as-numbers switch; a protocol renders to text that parses back to the same number
    (C09); decimal numbers print and parse back.  The fixed point of whole ACEs, remarks, ACE
    groups, ACLs, address groups and the config-level functions is decided per generated object
    by evaluating parse (render (parse t)) in the model and in the implementation (strict for
    native text, from the first re-parse on for foreign spellings) - partial in that sense. *)
From V Require Import base.Prelude base.Strs gen.Tables model.Cfg model.Names model.Ports
  model.Lex model.AddrText model.AceText model.AclText
  proofs.NamesProofs proofs.PortsProofs proofs.TextProofs.
Local Open Scope N_scope.

Theorem C06_port_partial : forall pr pl v15 nr o xs p,
  parse_nums pl (Some (pr, pl, v15)) o xs = Ok p ->
  parse_port pl (Some (pr, pl, v15)) (render_port nr (Some (pr, pl, v15)) p) = Ok p.
Proof. exact port_text_fixpoint. Qed.

Theorem C06_protocol_partial : forall pl nr hp n,
  n <= 255 -> parse_proto (render_proto pl nr hp n) = Ok n.
Proof. exact proto_roundtrip. Qed.

Theorem C06_number_partial : forall n, undec (dec n) = Some n.
Proof. exact undec_dec. Qed.

(** a two-step example with a foreign spelling (prefix notation on IOS) *)
Definition c06_example : res (string * string) :=
  let c := mkCfg Ios false false false 16 in
  do t1 <- parse_ace_text c "permit tcp 10.0.0.1/24 eq 80 443 any eq 22 log";
  let l1 := render_ace c t1 in
  do t2 <- parse_ace_text c l1; Ok (l1, render_ace c t2).
Example C06_nonvacuous :
  c06_example = Ok ("permit tcp 10.0.0.0 0.0.0.255 eq www 443 any eq 22 log",
                    "permit tcp 10.0.0.0 0.0.0.255 eq www 443 any eq 22 log").
Proof. vm_compute. reflexivity. Qed.
