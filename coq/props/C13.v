(** C13 - Address containment answers equal true set containment (full IPv4 space). *)
From V Require Import base.Prelude gen.Tables model.Cfg model.Wildcard model.Addr
  proofs.WildProofs proofs.AddrProofs.
Local Open Scope N_scope.

(** a.subnet_of(b), hosts / prefixes / contiguous and non-contiguous wildcards, any accepted
    spelling (any, host A, A/len with host bits, A W with base bits under the wildcard), any
    platform: the answer is true exactly when every address of a belongs to b *)
Theorem C13_exact : forall pl limit spa spb a b,
  sp_single spa -> sp_single spb -> sp_bounded spa -> sp_bounded spb ->
  addr_of_spelling pl limit spa = Ok a -> addr_of_spelling pl limit spb = Ok b ->
  exists r, addr_subnet_of a b = Ok r /\
            (r = true <-> wild_subset (sp_base spa) (sp_mask spa) (sp_base spb) (sp_mask spb)).
Proof. exact subnet_of_spellings. Qed.

(** the same for any two objects denoting address sets (covers AddressAg.subnet_of) *)
Theorem C13_exact_denotes : forall a b ba ma bb mb,
  ba < 2 ^ 32 -> ma < 2 ^ 32 -> bb < 2 ^ 32 -> mb < 2 ^ 32 ->
  denotes a ba ma -> denotes b bb mb ->
  exists r, addr_subnet_of a b = Ok r /\ (r = true <-> wild_subset ba ma bb mb).
Proof. exact subnet_of_exact. Qed.

(** [other in self] for two group members (single networks): the same relation *)
Theorem C13_member : forall self other bs ms bo mo,
  bs < 2 ^ 32 -> ms < 2 ^ 32 -> bo < 2 ^ 32 -> mo < 2 ^ 32 ->
  denotes self bs ms -> denotes other bo mo -> ncwb ms = [] -> ncwb mo = [] ->
  exists r, addr_contains self other = Ok r /\ (r = true <-> wild_subset bo mo bs ms).
Proof. exact contains_exact. Qed.

(** [member in group] exactly when some member of the group contains it *)
Theorem C13_group_iff : forall items other bo mo sets,
  bo < 2 ^ 32 -> mo < 2 ^ 32 -> denotes other bo mo -> ncwb mo = [] ->
  Forall2 (fun it s => fst s < 2 ^ 32 /\ snd s < 2 ^ 32 /\ denotes it (fst s) (snd s) /\ ncwb (snd s) = [])
          items sets ->
  exists r, group_contains items other = Ok r /\
            (r = true <-> Exists (fun s => wild_subset bo mo (fst s) (snd s)) sets).
Proof. exact group_contains_exact. Qed.

(** with grouped addresses on either side a positive answer implies true containment *)
Theorem C13_group_sound : forall a b sa sb,
  addr_sets a sa -> addr_sets b sb -> addr_subnet_of a b = Ok true ->
  forall x, x < 2 ^ 32 ->
    Exists (fun s => in_wild x (fst s) (snd s)) sa -> Exists (fun s => in_wild x (fst s) (snd s)) sb.
Proof. exact subnet_of_sound_groups. Qed.

(** non-vacuity: 10.0.0.0 0.0.1.3 (non-contiguous) inside 10.0.0.0/22, not conversely *)
Example C13_nonvacuous :
  exists a b,
    addr_of_spelling Ios 16 (SWild 167772160 259) = Ok a /\
    addr_of_spelling Nxos 16 (SPrefix 167772161 22) = Ok b /\
    addr_subnet_of a b = Ok true /\ addr_subnet_of b a = Ok false.
Proof. eexists. eexists. repeat split; vm_compute; reflexivity. Qed.
