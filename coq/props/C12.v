(** C12 - No rule line is lost without a trace when objects are built from text.
    [line_to_oace] classifies one body line exactly like AceGroup._line_to_oace / the Acl and
    AceGroup line setters: Blank | Item | Ignorable | Reported | Abort.  That a log record is
    really emitted for [Reported] lines is runtime behaviour observed by the correspondence
    check (root-logger handler), not a theorem. *)
From V Require Import base.Prelude base.Strs gen.Tables model.Cfg model.Names model.Wildcard
  model.Addr model.Ports model.Ace model.Lex model.AddrText model.AceText model.AclText
  proofs.TextProofs proofs.AclFixProofs.

(** valid lines are never dropped: whatever the ACE constructor accepts, in the documented
    shape "[sequence] permit|deny ...", is represented by its item *)
Theorem C12_valid_kept : forall c line t,
  acl_shaped (split_ws line) -> parse_ace_text c line = Ok t -> line_to_oace c line = LItem (AIAce t).
Proof. exact valid_line_kept. Qed.

(** item order equals line order *)
Theorem C12_order : forall c l1 l2,
  items_of (classify_all c (l1 ++ l2)) = items_of (classify_all c l1) ++ items_of (classify_all c l2).
Proof. exact items_in_order. Qed.

(** accounting: every line is exactly one of the five classes (by construction of the type);
    a line dropped silently starts with one of the documented ignorable prefixes, which are the
    literal list regenerated from ace_group.py on every run *)
Theorem C12_silent_only_documented : forall c line,
  line_to_oace c line = LIgnorable ->
  exists k, In k KNOWN_SKIP /\ starts_with k (init_line line) = true.
Proof. exact silent_drop_documented. Qed.

Theorem C12_documented_prefixes : KNOWN_SKIP = ["statistics "; "description "; "ignore "].
Proof. vm_compute. reflexivity. Qed.

Theorem C12_blank_iff : forall c line, line_to_oace c line = LBlank <-> split_ws line = [].
Proof.
  intros c line. unfold line_to_oace. destruct (split_ws line) as [|t ts]; [tauto|].
  split; [|discriminate]. destruct (is_line_for_acl (t :: ts)).
  - destruct (parse_action (t :: ts)) as [[[sq act] text]|]; [|discriminate].
    destruct (String.eqb act "remark"); [discriminate|]. destruct (parse_ace_text c line); discriminate.
  - destruct (existsb _ _); discriminate.
Qed.

Example C12_nonvacuous :
  let c := mkCfg Ios false false false 16 in
  map (fun l => match line_to_oace c l with
                | LBlank => "blank" | LItem _ => "item" | LIgnorable => "ignorable"
                | LReported => "reported" | LAbort => "abort" end)
      ["10 permit ip any any"; "remark x"; "statistics per-entry"; "no statistics per-entry"; "  ";
       "permit ip 10.0.0.0 0.255.255.254 any"; "permit ip any"]
  = ["item"; "item"; "ignorable"; "reported"; "blank"; "abort"; "reported"].
Proof. vm_compute. reflexivity. Qed.

(** what the library itself prints is never lost when read again: every rendered line of a body
    of remarks and reader-built extended ACEs ([item_built], C06) is classified as an item - the
    same item -, none is ignorable, reported or aborting, and the items come back in line order *)
Theorem C12_rendered_kept : forall c, (plat c = Ios \/ plat c = Nxos) ->
  forall items, Forall (item_built c) items ->
  let cl := classify_all c (map (render_item c) items) in
  cl = map LItem items /\ aborted cl = false /\ items_of cl = items.
Proof. exact acl_body_built_fixpoint. Qed.
