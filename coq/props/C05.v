(** C05 - Wildcard -> prefixes is exact; limits reject, never truncate; no stale results.
    All statements are for every 32-bit base and mask (no bound), every limit, every history. *)
From V Require Import base.Prelude gen.Tables model.Wildcard proofs.WildProofs.
Local Open Scope N_scope.

(** none missing, none extra: an address is in some derived prefix iff it agrees with the base
    on every non-wildcard bit *)
Theorem C05_exact : forall addr mask a,
  addr < 2 ^ 32 -> mask < 2 ^ 32 -> a < 2 ^ 32 ->
  (Exists (in_net a) (ipnets addr mask) <-> in_wild a addr mask).
Proof. exact ipnets_exact. Qed.

(** no two listed prefixes overlap *)
Theorem C05_disjoint : forall addr mask, ForallOrdPairs disjoint_nets (ipnets addr mask).
Proof. exact ipnets_disjoint. Qed.

(** 2^k prefixes, k = (number of wildcard bits) - (length of the contiguous low run) *)
Theorem C05_count : forall addr mask,
  length (ipnets addr mask) = (2 ^ length (ncwb mask))%nat /\
  length (ncwb mask) = (popcount mask - prefixlen_idx mask)%nat.
Proof. exact ipnets_count. Qed.

(** equal length; no host bits (IPv4Network((int, len)) cannot raise) *)
Theorem C05_same_len : forall addr mask,
  Forall (fun n => snd n = prefixlen mask) (ipnets addr mask).
Proof. exact ipnets_same_len. Qed.

Theorem C05_strict : forall addr mask, addr < 2 ^ 32 ->
  Forall (fun n => forall i, (i < W - snd n)%nat \/ (32 <= i)%nat -> tb (fst n) i = false)
         (ipnets addr mask).
Proof. exact ipnets_strict. Qed.

(** a single network is reported exactly when there is no non-contiguous bit, and then it is
    the whole list *)
Theorem C05_single : forall addr mask n, mask < 2 ^ 32 ->
  (create_ipnet (create_prefix addr mask) mask = Some n <->
   (ncwb mask = [] /\ ipnets addr mask = [n])).
Proof. exact ipnets_single. Qed.

(** the limit rejects (NetmaskValueError) exactly when more bits are needed; an accepted line
    yields the exact list, never a truncated one; limits outside 0..30 are a ValueError *)
Theorem C05_limit : forall limit addr mask,
  (set_line limit addr mask = Abort <-> (limit < length (ncwb mask))%nat) /\
  (forall w, set_line limit addr mask = Ok w ->
     (length (ncwb mask) <= limit)%nat /\ w_cache w = None /\
     snd (ask w QIpnets) = AIpnets (ipnets addr mask) /\
     snd (ask w QIpnet) = AIpnet (create_ipnet (create_prefix addr mask) mask) /\
     snd (ask w QLine) = ALine (create_prefix addr mask) mask).
Proof. exact limit_spec. Qed.

Theorem C05_limit_range : forall limit addr mask,
  (limit < 0 \/ 30 < limit)%Z -> new_wild limit addr mask = VErr.
Proof. exact limit_range. Qed.

(** no stale results: every history of reassignments and queries on one object answers like
    the cache-free specification (each answer is the pure function of the last line set) *)
Theorem C05_fresh : forall ops w addr mask,
  consistent w addr mask -> run_hist w ops = spec_hist (w_limit w) addr mask ops.
Proof. exact hist_refines. Qed.

Theorem C05_fresh_after_set : forall limit addr mask w,
  set_line limit addr mask = Ok w -> consistent w addr mask /\ w_limit w = limit.
Proof. exact set_line_consistent. Qed.

(** non-vacuity: a non-contiguous wildcard within the limit; 10.0.0.0 0.0.1.3 *)
Example C05_nonvacuous :
  ipnets 167772160 259 = [(167772160, 30%nat); (167772416, 30%nat)] /\
  ncwb 259 = [8%nat] /\ create_ipnet (create_prefix 167772160 259) 259 = None /\
  set_line 0 167772160 259 = Abort /\
  (exists w, set_line 16 167772160 259 = Ok w /\ consistent w 167772160 259).
Proof.
  repeat split; try (vm_compute; reflexivity).
  eexists. split; [vm_compute; reflexivity|].
  unfold consistent. repeat split; try (vm_compute; reflexivity). left. reflexivity.
Qed.
