(** C09 - Port/protocol names are pure spelling of their standard numbers.
    The tables are the GENERATED [gen/Tables.v]; the space is finite and enumerated completely
    by [vm_compute] inside the lemmas, the round-trip theorems hold for every number. *)
From V Require Import base.Prelude base.Strs gen.Tables model.Cfg model.Names spec.Reference
  proofs.NamesProofs.

(** Every name of every table any (platform, version, protocol) can select denotes the standard
    number of the reference, within 1..65535, and is accepted by the parser for that selection. *)
Theorem C09_port_standard :
  forall p pl v15 nm n, In (nm, n) (names_table p pl v15) ->
    assoc_str nm (ref_of p) = Some n /\ (1 <= n <= 65535)%N /\
    parse_port_item (names_table p pl v15) nm = Ok n.
Proof.
  intros p pl v15 nm n H. split; [|split].
  - exact (port_standard p _ nm n (names_table_listed p pl v15) H).
  - exact (proj2 (proj2 (proj2 (table_ok_entry _ nm n (names_table_ok p pl v15) H)))).
  - exact (port_name_accepted _ nm n (names_table_ok p pl v15) H).
Qed.

(** The text rendered for ANY number (name or decimal, either setting of the switch) is accepted
    back by the parser of the same platform/version/protocol and yields the same number. *)
Theorem C09_port_closed :
  forall p pl v15 nr n,
    parse_port_item (names_table p pl v15) (render_port_item nr (names_table p pl v15) n) = Ok n.
Proof. intros. exact (port_item_roundtrip _ nr n (names_table_ok p pl v15)). Qed.

(** Same for IP protocols: all 256 numbers x 3 platforms x switch x has-port flag. *)
Theorem C09_proto_closed :
  forall pl nr hp n, (n <= 255)%N -> parse_proto (render_proto pl nr hp n) = Ok n.
Proof. exact proto_roundtrip. Qed.

Theorem C09_proto_standard :
  forall pl nm n, In (nm, n) (proto_table pl) ->
    assoc_str nm REF_PROTO = Some n /\ (n <= 255)%N /\ parse_proto nm = Ok n.
Proof. intros pl nm n H. exact (proto_entry _ nm n (proto_table_listed pl) H). Qed.

(** Vocabulary used by the dstport/option splitter: complete and collision free. *)
Theorem C09_vocab :
  forall p pl v15 nm n, In (nm, n) (names_table p pl v15) -> is_known_name nm = true.
Proof. intros p pl v15 nm n H. exact (vocab_In p _ nm n (names_table_listed p pl v15) H). Qed.

Theorem C09_no_collision :
  forall nm, is_known_name nm = true ->
    ~ In nm (OPERATORS ++ ["any"; "host"; "object-group"; "addrgroup"] ++ LOGS)
    /\ is_digits nm = false /\ nm <> "".
Proof. exact vocab_no_collision. Qed.

(** Non-vacuity: the tables are inhabited and aliases exist (first name wins). *)
Example C09_nonvacuous :
  In ("syslog", 514%N) (names_table Tcp Ios false) /\
  render_port_item false (names_table Tcp Ios false) 514 = "cmd" /\
  render_port_item true (names_table Tcp Ios false) 514 = "514" /\
  render_proto Ios false false 51 = "ahp" /\ parse_proto "ah" = Ok 51%N.
Proof.
  split; [apply mem_In_pair; vm_compute; reflexivity|]. vm_compute. repeat split.
Qed.
