(** C16 - copy()/data() rebuild an equal, independent object; ids and notes are stable.

    Proved here, on the operation model of an Acl (model/Ops.v, tied to the implementation by
    the history correspondence K-ids): what every in-place transformation does to the
    (identifier, note) of the ACL and of its entries, and what copy() does.  An entry is a leaf
    of the object tree: an ACE or a remark, also inside the AceGroups that group_by builds.
    Identifier 0 stands for "a new object".  [is_head] = a heading remark of the grouping:
    group() merges a repeated heading remark (C15 owns that), every other entry is kept.

    Not expressible in Gallina: aliasing between a copy and its source (checked on the
    implementation by a reachability walk and mutate-then-observe histories), and equality /
    identical data() of the copy for the classes below the ACL (checked object by object). *)
From V Require Import base.Prelude model.Cfg model.AceText model.AclText model.Ops proofs.OpsProofs.
From Coq Require Import Permutation.
Local Open Scope N_scope.

(** every in-place transformation: the ACL keeps identifier and note; every (identifier, note)
    found afterwards was there before, or belongs to a new object carrying the note of an entry
    that was there before (the split) *)
Theorem C16_inplace : forall o a a',
  inplace o = true -> Ops.step a o = Ok a' -> same_acl_id a a' /\ note_inherited a a'.
Proof. exact inplace_ids. Qed.

(** numeric/name switches, type, import with identifiers: nothing invented, every entry kept *)
Theorem C16_switch : forall c' a a',
  reinit c' a = Ok a' -> same_acl_id a a' /\ none_invented a a' /\ entries_kept (o_gby a) a a'.
Proof. exact reinit_ids. Qed.

Theorem C16_resequence : forall start step a a',
  op_resequence start step a = Ok a' -> same_acl_id a a' /\ tags (o_tops a') = tags (o_tops a).
Proof. exact resequence_ids. Qed.

Theorem C16_sort : forall a a',
  op_sort a = Ok a' -> same_acl_id a a' /\ Permutation (tags (o_tops a')) (tags (o_tops a)).
Proof. exact sort_ids. Qed.

Theorem C16_reverse : forall a,
  same_acl_id a (op_reverse a) /\ Permutation (tags (o_tops (op_reverse a))) (tags (o_tops a)).
Proof. exact reverse_ids. Qed.

Theorem C16_group : forall gby a,
  same_acl_id a (op_group gby a) /\ none_invented a (op_group gby a) /\ entries_kept gby a (op_group gby a).
Proof. exact group_ids. Qed.

Theorem C16_ungroup : forall a,
  same_acl_id a (op_ungroup a) /\ tags (o_tops (op_ungroup a)) = tags (o_tops a).
Proof. exact ungroup_ids. Qed.

(** the split: an entry that is not split is the same object afterwards *)
Theorem C16_split : forall a a',
  op_ungroup_ports a = Ok a' ->
  same_acl_id a a' /\ note_inherited a a'
  /\ (forall l, In l (flat (o_tops a)) -> split_leaf (o_cfg a) l = Ok [l] -> is_head (o_gby a) l = false ->
      In (leaf_tag l) (tags (o_tops a'))).
Proof. exact ungroup_ports_ids. Qed.

Theorem C16_split_entry : forall c l r,
  split_leaf c l = Ok r ->
  r = [l] \/ Forall (fun x => leaf_id x = 0 /\ leaf_note x = leaf_note l /\ forall gby, is_head gby x = false) r.
Proof. exact split_leaf_ids. Qed.

(** platform: for NX-OS the split, then a conversion that keeps every object *)
Theorem C16_platform : forall p a a',
  op_platform p a = Ok a' ->
  same_acl_id a a' /\
  exists a1, (match p with Nxos => op_ungroup_ports a = Ok a1 | _ => a1 = a end)
             /\ tags (o_tops a') = tags (o_tops a1).
Proof. exact platform_ids. Qed.

(** copy(): a new object at every level, every note carried over, nothing else *)
Theorem C16_copy : forall a a',
  op_copy a = Ok a' ->
  o_id a' = 0 /\ o_note a' = o_note a
  /\ Forall (fun tg => fst tg = 0) (tags (o_tops a'))
  /\ (forall n, In n (map snd (tags (o_tops a'))) -> In n (map snd (tags (o_tops a))))
  /\ (forall l, In l (flat (o_tops a)) -> is_head (o_gby a) l = false -> In (0, leaf_note l) (tags (o_tops a'))).
Proof. exact copy_ids. Qed.

(** non-vacuity: a labelled, annotated ACL; grouping, a switch, the conversion to NX-OS (one
    entry is split in two) and a copy succeed, and the tags are what the theorems say *)
Local Open Scope string_scope.
Definition C16_demo : res (list (list (N * N))) :=
  do a0 <- init_acl (mkCfg Ios false false false 16%nat) "A"
             ["remark = G1"; "10 permit tcp any eq 1 2 any eq www"; "remark plain"; "20 deny udp any any range 5 6"];
  let a1 := note_all (snd (relabel 1 a0)) in
  let a2 := op_group "= " a1 in
  do a3 <- op_port_nr true a2;
  do a4 <- op_platform Nxos a3;
  do a5 <- op_copy a4;
  Ok [tags (o_tops a1); tags (o_tops a3); tags (o_tops a4); tags (o_tops a5)].
Example C16_nonvacuous :
  C16_demo = Ok [[(2, 2); (3, 3); (4, 4); (5, 5)]; [(2, 2); (3, 3); (4, 4); (5, 5)];
                 [(2, 2); (0, 3); (0, 3); (4, 4); (5, 5)]; [(0, 2); (0, 3); (0, 3); (0, 4); (0, 5)]]%N.
Proof. vm_compute. reflexivity. Qed.
