(* placeholder *) From V Require Import base.Prelude.
