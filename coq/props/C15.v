(** C15 - Grouping, ungrouping and sorting never lose, duplicate or split entries. *)
From V Require Import base.Prelude base.Strs model.Group proofs.GroupProofs.
From Coq Require Import Sorting.Permutation.
Local Open Scope N_scope.

(** grouping and ungrouping never adds or drops an entry (any placement of headings, also
    repeated ones: only a repeated heading remark itself is merged) *)
Theorem C15_aces : forall l, Permutation (others (ungroup (group l))) (others l).
Proof. exact group_conserves. Qed.

(** when block headings are distinct nothing is reordered: the flattened list (hence the
    rendered ACL text) is unchanged *)
Theorem C15_text : forall l, NoDup (headings l) -> ~ In "" (headings l) -> ungroup (group l) = l.
Proof. exact group_ungroup_id. Qed.

(** a block is one top-level item: a reordering of the ACL permutes blocks, and after
    resequencing (distinct numbers) sorting any permutation restores the numbered order *)
Theorem C15_sort : forall (A : Type) (key : A -> N) l l',
  NoDup (map key l) -> key_sorted A key l -> Permutation l' l -> sort_by key l' = l.
Proof. exact sort_restores. Qed.

(** TCAM = 1 + sum of the ACE contributions, unchanged by grouping and by any reordering *)
Theorem C15_tcam_group : forall l, tcam_grouped (group l) = tcam_flat l.
Proof. exact tcam_group. Qed.
Theorem C15_tcam_perm : forall a b, Permutation a b -> tcam_flat a = tcam_flat b.
Proof. exact tcam_perm. Qed.
Theorem C15_tcam_formula : forall l,
  tcam_flat l = 1 + fold_right (fun it a => item_cnt it + a) 0 l.
Proof. reflexivity. Qed.

Example C15_nonvacuous :
  let l := [GOther 0 1; GHead "= A" 1; GOther 2 6; GHead "= B" 3; GOther 4 1; GHead "= A" 5; GOther 6 2] in
  map (map item_id) (group l) = [[0]; [1; 2; 6]; [3; 4]] /\ tcam_grouped (group l) = 11 /\
  ungroup (group [GOther 0 1; GHead "= A" 1; GOther 2 6]) = [GOther 0 1; GHead "= A" 1; GOther 2 6].
Proof. repeat split; vm_compute; reflexivity. Qed.
