(** C19 - Splitting multi-port entries into single-port entries keeps the meaning. *)
From V Require Import base.Prelude base.Strs gen.Tables model.Cfg model.Names model.Wildcard
  model.Addr model.Ports model.Ace model.SplitPorts model.Shading spec.AceSem spec.AclSem
  proofs.PortsProofs proofs.ShadowProofs proofs.AclProofs proofs.SplitProofs
  model.AceText model.AclText model.Ops proofs.HistoryProofs proofs.ConvSplitProofs proofs.OpsBuiltProofs.
Local Open Scope N_scope.

(** an entry whose port expressions are [eq] lists (or need no splitting): the split entries
    keep every other field, list exactly one port per split side, and the union of their packet
    sets is the original packet set *)
Theorem C19_eq : forall pl v15 a,
  eq_or_unsplit (a_sport a) -> eq_or_unsplit (a_dport a) ->
  exists l, split_ace pl v15 a = Ok l /\
    (forall srcs dsts k, den a srcs dsts k <-> exists a', In a' l /\ den a' srcs dsts k) /\
    (forall a', In a' l ->
        a_permit a' = a_permit a /\ a_proto a' = a_proto a /\ a_src a' = a_src a /\
        a_dst a' = a_dst a /\ a_flags a' = a_flags a /\ a_logs a' = a_logs a /\
        (a_sport a' = a_sport a \/ (p_op (a_sport a') = Some Eq /\ length (p_items (a_sport a')) = 1%nat)) /\
        (a_dport a' = a_dport a \/ (p_op (a_dport a') = Some Eq /\ length (p_items (a_dport a')) = 1%nat))).
Proof. exact split_den. Qed.

(** in place, decision of every packet unchanged: replacing each entry of an ACL by adjacent
    entries with the same action whose union is the original leaves the first-match decision *)
Theorem C19_decision : forall (A K : Type) (matches : A -> K -> bool) (action : A -> bool)
                              (f : A -> list A) (items : list (item A)) k,
  (forall l a, In (IAce l a) items ->
      (forall a', In a' (f a) -> action a' = action a) /\
      matches a k = existsb (fun a' => matches a' k) (f a)) ->
  decide matches action (flat_map (expand_item A f) items) k = decide matches action items k.
Proof. exact expand_decision. Qed.

(** entries that need no splitting are left as they are (the object itself is returned) *)
Theorem C19_unsplit : forall pl v15 a l,
  split_ace pl v15 a = Ok [l] -> ungroup_ports pl v15 a = Ok ([a], true).
Proof. intros pl v15 a l H. unfold ungroup_ports. now rewrite H. Qed.


(** ** the operation Acl.ungroup_ports(), outright
    On every flat Acl of remarks and reader-built extended ACEs with any port expression except
    multi-operand neq ([acl_built], C17) the operation succeeds, stays in the class and keeps the
    first-match decision of every packet: 'eq' lists are replaced in place by their single-port
    entries, everything else (ranges, lt, gt, neq X) is left as it is.  [C19_side] is the
    per-side statement: the reader-built port expression is matched by exactly the packets its
    pieces match. *)
Theorem C19_acl_ungroup_ports : forall a, acl_built a ->
  exists a', op_ungroup_ports a = Ok a' /\ acl_built a' /\ forall k, acl_decide a' k = acl_decide a k.
Proof. exact ungroup_ports_built. Qed.

Theorem C19_side : forall pl c toks p, parse_port pl c toks = Ok p -> port_cls p ->
  side_ports pl c p = Ok (side_list p)
  /\ forall proto x, port_match p proto x <-> exists q, In q (side_list p) /\ port_match q proto x.
Proof. exact reader_side. Qed.

(** known finding N5 (pinned by the upstream tests): [neq a b] is split into [neq a], [neq b],
    whose union is every port: port 1 is not matched by the original and is matched after *)
Definition neq_witness : res (bool * bool * nat) :=
  do a <- build_ace Ios false 16 true 6 SAny SAny ["neq"; "1"; "2"] [] [];
  do l <- split_ace Ios false a;
  Ok (memN 1 (p_ports (a_sport a)),                               (* port 1 matched before? *)
      existsb (fun a' => memN 1 (p_ports (a_sport a'))) l,        (* ... after the split?    *)
      length l).
Theorem C19_neq_refuted : neq_witness = Ok (false, true, 2%nat).
Proof. vm_compute. reflexivity. Qed.

Example C19_nonvacuous :
  exists a l,
    build_ace Ios false 16 true 6 SAny SAny ["eq"; "1"; "2"] ["eq"; "3"; "4"] ["log"] = Ok a /\
    split_ace Ios false a = Ok l /\ length l = 4%nat /\
    eq_or_unsplit (a_sport a) /\ eq_or_unsplit (a_dport a).
Proof.
  eexists. eexists. split; [vm_compute; reflexivity|]. split; [vm_compute; reflexivity|].
  split; [reflexivity|]. split; left; split; reflexivity.
Qed.
