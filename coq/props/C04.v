(** C04 - Deleting shadowed entries never changes any packet's permit/deny decision.

    What is proved for ALL item lists and ALL packets: if the removal is described by keep-flags
    that pass the (executable) certificate [removal_okb] - only ACEs are dropped and each dropped
    ACE is in the shadow (Ace.shadow_of, sound by C03) of an ACE standing above it in the
    original list - then every packet's first-match decision is unchanged and all remarks
    survive.  The check evaluates the model of Acl.delete_shadow on every generated ACL,
    compares it with the implementation, and checks the certificate of the model's result inside
    Coq (translation validation per ACL).  The statement "delete_shadow always produces a
    certifiable result" for every ACL is the part not yet proved in general: see
    [C04_decision_partial]. *)
From V Require Import base.Prelude base.Strs gen.Tables model.Cfg model.Names model.Wildcard
  model.Addr model.Ports model.Ace model.Shading spec.AceSem spec.AclSem
  proofs.ShadowProofs proofs.AclProofs proofs.DeleteShadowProofs.

Theorem C04_decision_partial : forall pl sg snc (orig : list (item payload)) (keep : list bool),
  all_good payload good orig ->
  removal_okb payload (shb pl sg snc) [] orig keep = true ->
  forall k, pkt_wf k ->
    decide pmatches paction (select payload orig keep) k = decide pmatches paction orig k.
Proof. exact delete_decision. Qed.

(** the boolean matcher used above is the packet semantics of the specification *)
Theorem C04_matches_is_den : forall a k,
  denb a k = true <-> den a (sets_of (a_src a)) (sets_of (a_dst a)) k.
Proof. exact denb_spec. Qed.

(** remarks, relative order: the result is the original list filtered by the keep-flags, and a
    passing certificate keeps every remark *)
Theorem C04_remarks_kept : forall pl sg snc (orig : list (item payload)) seen keep,
  removal_okb payload (shb pl sg snc) seen orig keep = true ->
  forall l, In (IRemark l) orig -> In (IRemark l) (select payload orig keep).
Proof. intros pl sg snc. exact (removal_keeps_remarks payload (shb pl sg snc)). Qed.

(** the returned report is what the shading query returns just before *)
Theorem C04_report : forall (A : Type) (sh : A -> A -> bool) items d r,
  delete_shadow sh items = Ok (d, r) -> d = shading sh items.
Proof.
  intros A sh items d r. unfold delete_shadow.
  destruct (shading sh items) as [|e t] eqn:E.
  - intros [= <- _]. reflexivity.
  - destruct (delete_loop _ _ _ _) as [st| | | |]; cbn [bind]; try discriminate.
    intros [= <- _]. reflexivity.
Qed.

(** non-vacuity: [S; A; S] with an exact duplicate - the second S is dropped, certificate holds *)
Example C04_nonvacuous :
  exists S A,
    build_ace Ios false 16 true 6 SAny SAny [] ["eq"; "80"] [] = Ok S /\
    build_ace Ios false 16 false 17 SAny SAny [] [] [] = Ok A /\
    let items := [IAce "S" (0%N, S); IAce "A" (1%N, A); IAce "S" (2%N, S)] in
    delete_shadow (shb Ios false false) items = Ok ([("S", ["S"])], [IAce "S" (0%N, S); IAce "A" (1%N, A)]) /\
    removal_okb payload (shb Ios false false) [] items [true; true; false] = true.
Proof.
  eexists. eexists. split; [vm_compute; reflexivity|]. split; [vm_compute; reflexivity|].
  split; vm_compute; reflexivity.
Qed.

(** ** the algorithm itself (not only its certificate)
    For every item list whose ACE lines are pairwise distinct and distinct from the remark
    lines (inside one ACL the same text is the same entry, and remark lines begin with the word
    "remark"), whatever [delete_shadow] returns gives every packet the decision the original list
    gave.  [delete_shadow_certified] shows that the result always passes the certificate: every
    dropped item is an ACE whose line is in the report, and every line in the report belongs to
    an ACE shaded by an ACE standing before it. *)
From V Require Import proofs.DeleteAlgoProofs.

Theorem C04_certified : forall (A : Type) (sh : A -> A -> bool) items d rest,
  ace_lines_unique A items -> remark_lines_apart A items ->
  delete_shadow sh items = Ok (d, rest) ->
  exists keep, rest = select A items keep /\ removal_okb A sh [] items keep = true.
Proof. exact delete_shadow_certified. Qed.

Theorem C04_decision : forall pl sg snc (items : list (item payload)) d rest,
  all_good payload good items -> ace_lines_unique payload items -> remark_lines_apart payload items ->
  delete_shadow (shb pl sg snc) items = Ok (d, rest) ->
  forall k, pkt_wf k -> decide pmatches paction rest k = decide pmatches paction items k.
Proof.
  intros pl sg snc items d rest G U R H k Hk.
  destruct (delete_shadow_certified payload (shb pl sg snc) items d rest U R H) as (keep & -> & OK).
  now apply (delete_decision pl sg snc items keep G OK k Hk).
Qed.
