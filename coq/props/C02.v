(** C02 - IOS <-> NX-OS conversion changes spelling only, never the ACL's meaning.

    Level: translation validation.  The platform setters re-render every entry and re-parse the
    text, so "the converted ACL means the same" is decided per conversion by a boolean certificate
    [conv_okb] that Coq evaluates on the model's output (and, through the correspondence, on the
    implementation's output, which is compared with the model's rendered lines one by one):
    [C02_decision] proves that an accepted certificate implies equal first-match decisions for
    every packet.  What is proved once and for all: soundness of the certificate, of the
    object-level equality it uses, and that the re-typing step of the address setter keeps the
    packet set.  Multi-port 'neq' entries are excluded by [splittable_ok] (C19 owns them). *)
From V Require Import base.Prelude spec.AceSem spec.AclSem model.Cfg model.Addr model.Ports model.Ace model.Shading
  model.SplitPorts model.Platform proofs.DeleteShadowProofs proofs.SplitProofs proofs.PlatformProofs
  model.Names model.AceText model.AclText proofs.SplitterProofs proofs.AddrObjProofs proofs.ConvProofs.
Local Open Scope N_scope.

(** an accepted certificate: same decision for every packet, in the same order (first match) *)
Theorem C02_decision : forall pl v15 do_split orig conv,
  splittable_ok orig -> conv_okb pl v15 do_split orig conv = true ->
  forall k, decide denb a_permit conv k = decide denb a_permit orig k.
Proof. exact conversion_decision. Qed.

(** the form the correspondence evaluates: hypothesis and certificate are both checks.  [splittable_okb]
    accepts an entry whose ports are 'eq' lists or need no split, or whose split is a single
    entry equal to it on the objects (single-port neq) *)
Theorem C02_decision_checked : forall pl v15 do_split orig conv,
  splittable_okb pl v15 orig = true -> conv_okb pl v15 do_split orig conv = true ->
  forall k, decide denb a_permit conv k = decide denb a_permit orig k.
Proof. exact conversion_decision_checked. Qed.

(** the object-level comparison used by the certificate implies same action and same packets *)
Theorem C02_entry_equal : forall a b,
  ace_eqb_sem a b = true -> a_permit a = a_permit b /\ forall k, denb a k = denb b k.
Proof. exact ace_eqb_sem_sound. Qed.

(** the boolean packet semantics is the specification's [den] *)
Theorem C02_denb_is_den : forall a k, denb a k = true <-> den a (sets_of (a_src a)) (sets_of (a_dst a)) k.
Proof. exact denb_spec. Qed.

(** re-typing (host/any/prefix/wildcard) for the target platform keeps the address set and is idempotent *)
Theorem C02_retype_sets : forall pl a, sets_of (retype pl a) = sets_of a.
Proof. exact retype_sets. Qed.

Theorem C02_retype_idem : forall pl a, retype pl (retype pl a) = retype pl a.
Proof. exact retype_idem. Qed.

Theorem C02_retype_ace : forall pl a k, denb (retype_ace pl a) k = denb a k.
Proof. exact retype_ace_den. Qed.


(** ** one ACE, for every reader-built extended ACE (no certificate)
    An extended, group-free ACE whose addresses the SOURCE platform's reader built from native
    spellings (not N1) and whose port expressions are valid on the TARGET platform as well (what
    [Acl.platform] arranges by ungrouping first, C19), with a protocol number up to 255 and
    well-formed option tokens, is converted by the ACE platform setter (re-type the addresses,
    render for the target, parse on the target) into an ACE with the SAME action that matches
    exactly the SAME packets - for every such ACE, both directions, every version, switch setting
    and wildcard limit.  The conversion cannot fail on it. *)
Theorem C02_ace_conversion : forall c pl', (plat c = Ios \/ plat c = Nxos) -> (pl' = Ios \/ pl' = Nxos) ->
  forall permit n sq ssp dsp s d toks1 toks2 p1 p2 opts flags logs,
  n <= 255 ->
  sp_bounds ssp /\ ~ is_n1 (plat c) ssp /\ addr_of_spelling (plat c) (Z.of_nat (max_ncwb c)) ssp = Ok s ->
  sp_bounds dsp /\ ~ is_n1 (plat c) dsp /\ addr_of_spelling (plat c) (Z.of_nat (max_ncwb c)) dsp = Ok d ->
  parse_port pl' (proto_ctx pl' (is15 c) n) toks1 = Ok p1 /\ (proto_ctx pl' (is15 c) n = None -> p1 = empty_port) ->
  parse_port pl' (proto_ctx pl' (is15 c) n) toks2 = Ok p2 /\ (proto_ctx pl' (is15 c) n = None -> p2 = empty_port) ->
  Forall token opts /\ Forall af opts /\ parse_option opts = Ok (flags, logs)
  /\ split_dstport_option (render_port (port_nr c) (proto_ctx pl' (is15 c) n) p2 ++ opts)
     = (render_port (port_nr c) (proto_ctx pl' (is15 c) n) p2, opts) ->
  let t := mkTace true sq (mkAce permit n s d p1 p2 flags logs) opts in
  exists r, ace_set_platform (mkCfg pl' (is15 c) (port_nr c) (protocol_nr c) (max_ncwb c)) t = Ok r
            /\ a_permit (t_ace r) = permit
            /\ forall k, denb (t_ace r) k = denb (t_ace t) k.
Proof. exact ace_conversion. Qed.


(** ** the flat list: Acl.platform on reader-built entries (no certificate)
    A list of remarks and reader-built extended ACEs ([reader_built]: the hypotheses of
    [C02_ace_conversion]) that the port-ungrouping step leaves alone (towards NX-OS: single-port
    eq/neq, ranges, lt/gt; multi-port eq lists are C19's theorem, composed per ACL by the
    certificate) is converted by the model of Acl.platform WITHOUT failure into a list of the
    same length with the same first-match decision for every packet. *)
Theorem C02_acl_conversion : forall c pl', (plat c = Ios \/ plat c = Nxos) -> (pl' = Ios \/ pl' = Nxos) ->
  forall items, Forall (item_built c pl') items -> (pl' = Nxos -> Forall (item_unsplit c) items) ->
  exists conv, acl_set_platform c (mkCfg pl' (is15 c) (port_nr c) (protocol_nr c) (max_ncwb c)) items = Ok conv
               /\ length conv = length items
               /\ forall k, decide denb a_permit (map sem_item conv) k = decide denb a_permit (map sem_item items) k.
Proof. exact acl_conversion. Qed.

(** non-vacuity: an IOS list with a remark and a two-port 'eq' entry converts to NX-OS as adjacent
    single-port entries; the certificate accepts it and there-back-there is a fixed point *)
From V Require Import run.RunPlatform.
Local Open Scope string_scope.
Example C02_nonvacuous :
  run_acl_platform (mkCfg Ios false false false 16%nat) (mkCfg Nxos false false false 16%nat)
    ["remark x"; "permit tcp any host 10.0.0.1 eq www 443 log"; "deny ip any any"]
  = VL [VL [VS "remark x"; VS "permit tcp any host 10.0.0.1 eq www log";
            VS "permit tcp any host 10.0.0.1 eq 443 log"; VS "deny ip any any"]; VB true; VB true].
Proof. vm_compute. reflexivity. Qed.

(** the hypotheses of [C02_ace_conversion] are met by "permit tcp host 10.0.0.1 eq 80 10.0.0.0/24
    range 1 5 log" read on IOS and converted to NX-OS (the prefix spelling changes) *)
Ltac tok := split; [vm_compute; reflexivity|vm_compute; discriminate].
Ltac toks := repeat (first [apply Forall_nil | apply Forall_cons; [tok|]]).
Ltac afs := repeat (first [apply Forall_nil | apply Forall_cons; [vm_compute; reflexivity|]]).
Definition c02_s : addr := Eval vm_compute in match addr_of_spelling Ios 16 (SHost 167772161) with Ok a => a | _ => AGroup "" [] end.
Definition c02_d : addr := Eval vm_compute in match addr_of_spelling Ios 16 (SWild 167772160 255) with Ok a => a | _ => AGroup "" [] end.
Definition c02_p1 : port := Eval vm_compute in match parse_port Nxos (proto_ctx Nxos false 6) ["eq"; "80"] with Ok p => p | _ => empty_port end.
Definition c02_p2 : port := Eval vm_compute in match parse_port Nxos (proto_ctx Nxos false 6) ["range"; "1"; "5"] with Ok p => p | _ => empty_port end.
Example C02_ace_conversion_nonvacuous :
  exists r, ace_set_platform (mkCfg Nxos false false false 16%nat)
              (mkTace true 10 (mkAce true 6 c02_s c02_d c02_p1 c02_p2 [] ["log"]) ["log"]) = Ok r
            /\ render_ace (mkCfg Nxos false false false 16%nat) r = "10 permit tcp host 10.0.0.1 eq www 10.0.0.0/24 range 1 5 log".
Proof.
  destruct (C02_ace_conversion (mkCfg Ios false false false 16%nat) Nxos (or_introl eq_refl) (or_intror eq_refl)
              true 6 10 (SHost 167772161) (SWild 167772160 255) c02_s c02_d ["eq"; "80"] ["range"; "1"; "5"] c02_p1 c02_p2 ["log"] [] ["log"])
    as (r & Hr & _).
  - vm_compute. discriminate.
  - split; [vm_compute; reflexivity|]. split; [intros [_ [x Hx]]; discriminate|vm_compute; reflexivity].
  - split; [split; vm_compute; reflexivity|]. split; [intros [_ [x Hx]]; discriminate|vm_compute; reflexivity].
  - split; [vm_compute; reflexivity|discriminate].
  - split; [vm_compute; reflexivity|discriminate].
  - split; [toks|]. split; [afs|]. split; vm_compute; reflexivity.
  - exists r. split; [exact Hr|]. vm_compute in Hr. injection Hr as <-. vm_compute. reflexivity.
Qed.


Theorem C02_sem_item_is_to_item : sem_item = to_item.
Proof. reflexivity. Qed.

Example C02_acl_conversion_nonvacuous :
  let items := [AIRemark 5 "x"; AIAce (mkTace true 10 (mkAce true 6 c02_s c02_d c02_p1 c02_p2 [] ["log"]) ["log"])] in
  Forall (item_built (mkCfg Ios false false false 16%nat) Nxos) items
  /\ Forall (item_unsplit (mkCfg Ios false false false 16%nat)) items.
Proof.
  split.
  - apply Forall_cons; [exact I|]. apply Forall_cons; [|apply Forall_nil].
    exists true, 6, 10, (SHost 167772161), (SWild 167772160 255), c02_s, c02_d, ["eq"; "80"], ["range"; "1"; "5"], c02_p1, c02_p2, ["log"], [], ["log"].
    split; [reflexivity|]. split; [vm_compute; discriminate|].
    split; [split; [vm_compute; reflexivity|]; split; [intros [_ [x Hx]]; discriminate|vm_compute; reflexivity]|].
    split; [split; [split; vm_compute; reflexivity|]; split; [intros [_ [x Hx]]; discriminate|vm_compute; reflexivity]|].
    split; [split; [vm_compute; reflexivity|discriminate]|].
    split; [split; [vm_compute; reflexivity|discriminate]|].
    split; [toks|]. split; [afs|]. split; vm_compute; reflexivity.
  - apply Forall_cons; [exact I|]. apply Forall_cons; [|apply Forall_nil]. exists true. vm_compute. reflexivity.
Qed.
