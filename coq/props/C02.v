(** C02 - IOS <-> NX-OS conversion changes spelling only, never the ACL's meaning.

    Level: translation validation.  The platform setters re-render every entry and re-parse the
    text, so "the converted ACL means the same" is decided per conversion by a boolean certificate
    [conv_okb] that Coq evaluates on the model's output (and, through the correspondence, on the
    implementation's output, which is compared with the model's rendered lines one by one):
    [C02_decision] proves that an accepted certificate implies equal first-match decisions for
    every packet.  What is proved once and for all: soundness of the certificate, of the
    object-level equality it uses, and that the re-typing step of the address setter keeps the
    packet set.  Multi-port 'neq' entries are excluded by [splittable_ok] (C19 owns them). *)
From V Require Import base.Prelude spec.AceSem spec.AclSem model.Cfg model.Addr model.Ports model.Ace model.Shading
  model.SplitPorts model.Platform proofs.DeleteShadowProofs proofs.SplitProofs proofs.PlatformProofs
  model.Names model.AceText model.AclText proofs.SplitterProofs proofs.AddrObjProofs proofs.ConvProofs proofs.ConvSplitProofs proofs.ClassCheck.
From V Require Import model.Wildcard.
Local Open Scope N_scope.

(** an accepted certificate: same decision for every packet, in the same order (first match) *)
Theorem C02_decision : forall pl v15 do_split orig conv,
  splittable_ok orig -> conv_okb pl v15 do_split orig conv = true ->
  forall k, decide denb a_permit conv k = decide denb a_permit orig k.
Proof. exact conversion_decision. Qed.

(** the form the correspondence evaluates: hypothesis and certificate are both checks.  [splittable_okb]
    accepts an entry whose ports are 'eq' lists or need no split, or whose split is a single
    entry equal to it on the objects (single-port neq) *)
Theorem C02_decision_checked : forall pl v15 do_split orig conv,
  splittable_okb pl v15 orig = true -> conv_okb pl v15 do_split orig conv = true ->
  forall k, decide denb a_permit conv k = decide denb a_permit orig k.
Proof. exact conversion_decision_checked. Qed.

(** the object-level comparison used by the certificate implies same action and same packets *)
Theorem C02_entry_equal : forall a b,
  ace_eqb_sem a b = true -> a_permit a = a_permit b /\ forall k, denb a k = denb b k.
Proof. exact ace_eqb_sem_sound. Qed.

(** the boolean packet semantics is the specification's [den] *)
Theorem C02_denb_is_den : forall a k, denb a k = true <-> den a (sets_of (a_src a)) (sets_of (a_dst a)) k.
Proof. exact denb_spec. Qed.

(** re-typing (host/any/prefix/wildcard) for the target platform keeps the address set and is idempotent *)
Theorem C02_retype_sets : forall pl a, sets_of (retype pl a) = sets_of a.
Proof. exact retype_sets. Qed.

Theorem C02_retype_idem : forall pl a, retype pl (retype pl a) = retype pl a.
Proof. exact retype_idem. Qed.

Theorem C02_retype_ace : forall pl a k, denb (retype_ace pl a) k = denb a k.
Proof. exact retype_ace_den. Qed.


(** ** one ACE, for every reader-built extended ACE (no certificate)
    [addr_src mem pl limit a]: the address was built by the SOURCE platform's reader from a
    native spelling (any / host / prefix / wildcard, every 32-bit value, not the finding N1), or
    is an address-group reference with a valid name - with attached members when [mem = true].
    An extended ACE with such addresses, port expressions that are valid on the TARGET platform
    as well (what [Acl.platform] arranges by ungrouping first, C19), a protocol number up to 255
    and well-formed option tokens is converted by the ACE platform setter (re-type the
    addresses, render for the target, parse on the target, re-attach the members) into an ACE with
    the SAME action that matches exactly the SAME packets - for every such ACE, both directions,
    every version, switch setting and wildcard limit.  The conversion cannot fail on it.
    [C02_ace_conversion_shape] gives the result explicitly: every field kept, the addresses
    re-typed ([conv_addr]: members kept), again in the class, same address sets. *)
Theorem C02_ace_conversion : forall mem c pl', (plat c = Ios \/ plat c = Nxos) -> (pl' = Ios \/ pl' = Nxos) ->
  forall permit n sq s d toks1 toks2 p1 p2 opts flags logs,
  n <= 255 ->
  addr_src mem (plat c) (Z.of_nat (max_ncwb c)) s ->
  addr_src mem (plat c) (Z.of_nat (max_ncwb c)) d ->
  parse_port pl' (proto_ctx pl' (is15 c) n) toks1 = Ok p1 /\ (proto_ctx pl' (is15 c) n = None -> p1 = empty_port) ->
  parse_port pl' (proto_ctx pl' (is15 c) n) toks2 = Ok p2 /\ (proto_ctx pl' (is15 c) n = None -> p2 = empty_port) ->
  Forall token opts /\ Forall af opts /\ parse_option opts = Ok (flags, logs)
  /\ split_dstport_option (render_port (port_nr c) (proto_ctx pl' (is15 c) n) p2 ++ opts)
     = (render_port (port_nr c) (proto_ctx pl' (is15 c) n) p2, opts) ->
  let t := mkTace true sq (mkAce permit n s d p1 p2 flags logs) opts in
  exists r, ace_set_platform (mkCfg pl' (is15 c) (port_nr c) (protocol_nr c) (max_ncwb c)) t = Ok r
            /\ a_permit (t_ace r) = permit
            /\ forall k, denb (t_ace r) k = denb (t_ace t) k.
Proof. exact ace_conversion. Qed.

Theorem C02_ace_conversion_shape : forall mem c pl', (plat c = Ios \/ plat c = Nxos) -> (pl' = Ios \/ pl' = Nxos) ->
  forall permit n sq s d toks1 toks2 p1 p2 opts flags logs,
  n <= 255 ->
  addr_src mem (plat c) (Z.of_nat (max_ncwb c)) s ->
  addr_src mem (plat c) (Z.of_nat (max_ncwb c)) d ->
  parse_port pl' (proto_ctx pl' (is15 c) n) toks1 = Ok p1 /\ (proto_ctx pl' (is15 c) n = None -> p1 = empty_port) ->
  parse_port pl' (proto_ctx pl' (is15 c) n) toks2 = Ok p2 /\ (proto_ctx pl' (is15 c) n = None -> p2 = empty_port) ->
  Forall token opts /\ Forall af opts /\ parse_option opts = Ok (flags, logs)
  /\ split_dstport_option (render_port (port_nr c) (proto_ctx pl' (is15 c) n) p2 ++ opts)
     = (render_port (port_nr c) (proto_ctx pl' (is15 c) n) p2, opts) ->
  ace_set_platform (mkCfg pl' (is15 c) (port_nr c) (protocol_nr c) (max_ncwb c))
                   (mkTace true sq (mkAce permit n s d p1 p2 flags logs) opts)
  = Ok (mkTace true sq (mkAce permit n (conv_addr pl' s) (conv_addr pl' d) p1 p2 flags logs) opts)
  /\ addr_src mem pl' (Z.of_nat (max_ncwb c)) (conv_addr pl' s) /\ addr_src mem pl' (Z.of_nat (max_ncwb c)) (conv_addr pl' d)
  /\ sets_of (conv_addr pl' s) = sets_of s /\ sets_of (conv_addr pl' d) = sets_of d.
Proof. exact ace_conversion_shape. Qed.

(** ** the flat list: Acl.platform on reader-built entries (no certificate)
    A list of remarks and reader-built extended ACEs ([reader_built]: the hypotheses of
    [C02_ace_conversion]) that the port-ungrouping step leaves alone is converted by the model of
    Acl.platform WITHOUT failure into a list of the same length with the same first-match
    decision for every packet. *)
Theorem C02_acl_conversion : forall mem c pl', (plat c = Ios \/ plat c = Nxos) -> (pl' = Ios \/ pl' = Nxos) ->
  forall items, Forall (item_built mem c pl') items -> (pl' = Nxos -> Forall (item_unsplit c) items) ->
  exists conv, acl_set_platform c (mkCfg pl' (is15 c) (port_nr c) (protocol_nr c) (max_ncwb c)) items = Ok conv
               /\ length conv = length items
               /\ forall k, decide denb a_permit (map sem_item conv) k = decide denb a_permit (map sem_item items) k.
Proof. exact acl_conversion. Qed.

(** ** ... including the port split towards NX-OS (no certificate)
    [item_src mem c]: remarks (blank-joined tokens) and extended ACEs built by the readers of the
    SOURCE platform - addresses as above (group references with members when [mem = true]);
    ports from the port reader, any expression except neq with several operands, which is the
    known finding N5 of C19 ([port_cls]: eq lists of any length, ranges, lt, gt, neq X); protocol <= 255; well-formed option tokens that start no address, are accepted by the
    option reader and do not begin with a port operand or operator.  For EVERY such list, both
    directions, the model of Acl.platform - ungroup the ports under the old platform, re-type /
    render / re-parse every entry on the target - succeeds, and the resulting list gives every
    packet the decision of the original list. *)
Theorem C02_acl_conversion_split : forall mem c pl', (plat c = Ios \/ plat c = Nxos) -> (pl' = Ios \/ pl' = Nxos) ->
  forall items, Forall (item_src mem c) items ->
  exists conv, acl_set_platform c (mkCfg pl' (is15 c) (port_nr c) (protocol_nr c) (max_ncwb c)) items = Ok conv
               /\ forall k, decide denb a_permit (map sem_item conv) k = decide denb a_permit (map sem_item items) k.
Proof. exact acl_conversion_split. Qed.

(** the class is closed: the converted list is again a list of reader-built entries (of the target
    platform), so conversions can be chained without end - there and back and there again *)
Theorem C02_acl_conversion_closed : forall mem c pl', (plat c = Ios \/ plat c = Nxos) -> (pl' = Ios \/ pl' = Nxos) ->
  forall items, Forall (item_src mem c) items ->
  exists conv, acl_set_platform c (mkCfg pl' (is15 c) (port_nr c) (protocol_nr c) (max_ncwb c)) items = Ok conv
               /\ Forall (item_src mem (mkCfg pl' (is15 c) (port_nr c) (protocol_nr c) (max_ncwb c))) conv
               /\ forall k, decide denb a_permit (map sem_item conv) k = decide denb a_permit (map sem_item items) k.
Proof. exact acl_conversion_closed. Qed.


(** the checked form: [item_srcb] is a sound boolean checker of the class (without members); the
    check counts with it how many of the explored conversions the theorem covers
    ([run.RunPlatform.acl_in_class]) *)
Theorem C02_conversion_checked : forall c pl' items,
  plat_okb (plat c) = true -> plat_okb pl' = true -> forallb (item_srcb c) items = true ->
  exists conv, acl_set_platform c (mkCfg pl' (is15 c) (port_nr c) (protocol_nr c) (max_ncwb c)) items = Ok conv
               /\ forall k, decide denb a_permit (map sem_item conv) k = decide denb a_permit (map sem_item items) k.
Proof. exact conversion_checked. Qed.

(** non-vacuity: an IOS list with a remark and a two-port 'eq' entry converts to NX-OS as adjacent
    single-port entries; the certificate accepts it and there-back-there is a fixed point *)
From V Require Import run.RunPlatform.
Local Open Scope string_scope.
Example C02_nonvacuous :
  run_acl_platform (mkCfg Ios false false false 16%nat) (mkCfg Nxos false false false 16%nat)
    ["remark x"; "permit tcp any host 10.0.0.1 eq www 443 log"; "deny ip any any"]
  = VL [VL [VS "remark x"; VS "permit tcp any host 10.0.0.1 eq www log";
            VS "permit tcp any host 10.0.0.1 eq 443 log"; VS "deny ip any any"]; VB true; VB true].
Proof. vm_compute. reflexivity. Qed.

Theorem C02_sem_item_is_to_item : sem_item = to_item.
Proof. reflexivity. Qed.

(** the hypotheses of [C02_acl_conversion_split] are met (with [mem = true]) by a list with a
    remark and an entry from an address group WITH MEMBERS, source port 'range 20 22', to a host with a
    two-port 'eq'; it is split on
    the way to NX-OS, the members stay attached *)
Ltac tok := split; [vm_compute; reflexivity|vm_compute; discriminate].
Ltac toks := repeat (first [apply Forall_nil | apply Forall_cons; [tok|]]).
Ltac afs := repeat (first [apply Forall_nil | apply Forall_cons; [vm_compute; reflexivity|]]).
Definition c02_host : addr := Eval vm_compute in match addr_of_spelling Ios 16 (SHost 167772161) with Ok a => a | _ => AGroup "" [] end.
Definition c02_member : option wild := Eval vm_compute in match new_wild 16 167772160 255 with Ok w => Some w | _ => None end.
Definition c02_grp : addr := AGroup "SERVERS" [c02_member].
Definition c02_q1 : port := Eval vm_compute in match parse_port Ios (proto_ctx Ios false 6) ["range"; "20"; "22"] with Ok p => p | _ => empty_port end.
Definition c02_q2 : port := Eval vm_compute in match parse_port Ios (proto_ctx Ios false 6) ["eq"; "www"; "443"] with Ok p => p | _ => empty_port end.
Definition c02_items : list aitem :=
  [AIRemark 0 "x"; AIAce (mkTace true 0 (mkAce true 6 c02_grp c02_host c02_q1 c02_q2 [] ["log"]) ["log"])].
Example C02_acl_conversion_split_nonvacuous :
  Forall (item_src true (mkCfg Ios false false false 16%nat)) c02_items
  /\ match acl_set_platform (mkCfg Ios false false false 16%nat) (mkCfg Nxos false false false 16%nat) c02_items with
     | Ok conv => (map (render_item (mkCfg Nxos false false false 16%nat)) conv,
                   map (fun i => match i with AIAce t => a_src (t_ace t) | _ => AGroup "" [] end) conv)
     | _ => ([], [])
     end = (["remark x"; "permit tcp addrgroup SERVERS range ftp-data 22 host 10.0.0.1 eq www log"; "permit tcp addrgroup SERVERS range ftp-data 22 host 10.0.0.1 eq 443 log"],
            [AGroup "" []; c02_grp; c02_grp]).
Proof.
  split; [|vm_compute; reflexivity].
  apply Forall_cons; [exists ["x"]; split; [discriminate|]; split; [toks|reflexivity]|]. apply Forall_cons; [|apply Forall_nil].
  exists true, 6, 0, c02_grp, c02_host, ["range"; "20"; "22"], ["eq"; "www"; "443"], c02_q1, c02_q2, ["log"], [], ["log"].
  split; [reflexivity|]. split; [vm_compute; discriminate|].
  split; [right; exists "SERVERS", [c02_member]; split; [reflexivity|]; split; [vm_compute; reflexivity|]; split; [vm_compute; reflexivity|discriminate]|].
  split; [left; exists (SHost 167772161); split; [vm_compute; reflexivity|]; split; [intros [_ [x Hx]]; discriminate|vm_compute; reflexivity]|].
  split; [split; [vm_compute; reflexivity|]; split; [discriminate|left; intros H; vm_compute in H; discriminate H]|].
  split; [split; [vm_compute; reflexivity|]; split; [discriminate|left; intros H; vm_compute in H; discriminate H]|].
  split; [toks|]. split; [afs|]. split; [vm_compute; reflexivity|]. split; vm_compute; reflexivity.
Qed.
