(** C02 - IOS <-> NX-OS conversion changes spelling only, never the ACL's meaning.

    Level: translation validation.  The platform setters re-render every entry and re-parse the
    text, so "the converted ACL means the same" is decided per conversion by a boolean certificate
    [conv_okb] that Coq evaluates on the model's output (and, through the correspondence, on the
    implementation's output, which is compared with the model's rendered lines one by one):
    [C02_decision] proves that an accepted certificate implies equal first-match decisions for
    every packet.  What is proved once and for all: soundness of the certificate, of the
    object-level equality it uses, and that the re-typing step of the address setter keeps the
    packet set.  Multi-port 'neq' entries are excluded by [splittable_ok] (C19 owns them). *)
From V Require Import base.Prelude spec.AceSem spec.AclSem model.Cfg model.Addr model.Ports model.Ace model.Shading
  model.SplitPorts model.Platform proofs.DeleteShadowProofs proofs.SplitProofs proofs.PlatformProofs.
Local Open Scope N_scope.

(** an accepted certificate: same decision for every packet, in the same order (first match) *)
Theorem C02_decision : forall pl v15 do_split orig conv,
  splittable_ok orig -> conv_okb pl v15 do_split orig conv = true ->
  forall k, decide denb a_permit conv k = decide denb a_permit orig k.
Proof. exact conversion_decision. Qed.

(** the form the correspondence evaluates: hypothesis and certificate are both checks.  [splittable_okb]
    accepts an entry whose ports are 'eq' lists or need no split, or whose split is a single
    entry equal to it on the objects (single-port neq) *)
Theorem C02_decision_checked : forall pl v15 do_split orig conv,
  splittable_okb pl v15 orig = true -> conv_okb pl v15 do_split orig conv = true ->
  forall k, decide denb a_permit conv k = decide denb a_permit orig k.
Proof. exact conversion_decision_checked. Qed.

(** the object-level comparison used by the certificate implies same action and same packets *)
Theorem C02_entry_equal : forall a b,
  ace_eqb_sem a b = true -> a_permit a = a_permit b /\ forall k, denb a k = denb b k.
Proof. exact ace_eqb_sem_sound. Qed.

(** the boolean packet semantics is the specification's [den] *)
Theorem C02_denb_is_den : forall a k, denb a k = true <-> den a (sets_of (a_src a)) (sets_of (a_dst a)) k.
Proof. exact denb_spec. Qed.

(** re-typing (host/any/prefix/wildcard) for the target platform keeps the address set and is idempotent *)
Theorem C02_retype_sets : forall pl a, sets_of (retype pl a) = sets_of a.
Proof. exact retype_sets. Qed.

Theorem C02_retype_idem : forall pl a, retype pl (retype pl a) = retype pl a.
Proof. exact retype_idem. Qed.

Theorem C02_retype_ace : forall pl a k, denb (retype_ace pl a) k = denb a k.
Proof. exact retype_ace_den. Qed.

(** non-vacuity: an IOS list with a remark and a two-port 'eq' entry converts to NX-OS as adjacent
    single-port entries; the certificate accepts it and there-back-there is a fixed point *)
From V Require Import run.RunPlatform.
Local Open Scope string_scope.
Example C02_nonvacuous :
  run_acl_platform (mkCfg Ios false false false 16%nat) (mkCfg Nxos false false false 16%nat)
    ["remark x"; "permit tcp any host 10.0.0.1 eq www 443 log"; "deny ip any any"]
  = VL [VL [VS "remark x"; VS "permit tcp any host 10.0.0.1 eq www log";
            VS "permit tcp any host 10.0.0.1 eq 443 log"; VS "deny ip any any"]; VB true; VB true].
Proof. vm_compute. reflexivity. Qed.
