(** Decimal text <-> N (Python [str(int)], [s.isdigit()] + [int(s)] on ASCII), string helpers. *)
From V Require Import base.Prelude.
From Coq Require Import DecimalString DecimalN.

Definition dec (n : N) : string := NilZero.string_of_uint (N.to_uint n).

(** [undec s = Some n] iff [s] is a non-empty string of ASCII digits denoting [n]
    (what [s.isdigit()] accepts and [int(s)] returns, leading zeros allowed). *)
Definition undec (s : string) : option N :=
  option_map N.of_uint (NilZero.uint_of_string s).

Definition is_digits (s : string) : bool :=
  match undec s with Some _ => true | None => false end.

Lemma to_uint_nonnil n : N.to_uint n <> Decimal.Nil.
Proof.
  destruct n as [|p]; cbn; [discriminate|].
  intro H. pose proof (DecimalPos.Unsigned.to_uint_nonnil p). congruence.
Qed.

Lemma undec_dec n : undec (dec n) = Some n.
Proof.
  unfold undec, dec. rewrite NilZero.usu by apply to_uint_nonnil.
  cbn. now rewrite DecimalN.Unsigned.of_to.
Qed.

Lemma is_digits_dec n : is_digits (dec n) = true.
Proof. unfold is_digits. now rewrite undec_dec. Qed.

(** ** join / prefix *)
Fixpoint join (sep : string) (l : list string) : string :=
  match l with
  | [] => ""
  | [x] => x
  | x :: t => (x ++ sep ++ join sep t)%string
  end.

Fixpoint starts_with (p s : string) : bool :=
  match p, s with
  | EmptyString, _ => true
  | String a p', String b s' => Ascii.eqb a b && starts_with p' s'
  | _, EmptyString => false
  end.

Definition str_nonempty (s : string) : bool :=
  match s with EmptyString => false | _ => true end.

Fixpoint str_contains_char (c : ascii) (s : string) : bool :=
  match s with
  | EmptyString => false
  | String a s' => Ascii.eqb a c || str_contains_char c s'
  end.

(** ** ordering of strings by code points (Python [sorted] on ASCII str) *)
Fixpoint str_leb (a b : string) : bool :=
  match a, b with
  | EmptyString, _ => true
  | String _ _, EmptyString => false
  | String x a', String y b' =>
      let nx := N_of_ascii x in let ny := N_of_ascii y in
      if N.ltb nx ny then true else if N.ltb ny nx then false else str_leb a' b'
  end.

Fixpoint insert_str (x : string) (l : list string) : list string :=
  match l with
  | [] => [x]
  | y :: t => if str_leb x y then x :: l else y :: insert_str x t
  end.
Definition sort_str (l : list string) : list string := fold_right insert_str [] l.
