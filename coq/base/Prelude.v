(** Common imports, the [val] exchange type of the correspondence check, small helpers. *)
From Coq Require Export ZArith NArith Bool String Ascii List Lia Arith.
Export ListNotations.
Open Scope string_scope.
Open Scope list_scope.

(** * Exchange values: what a kernel returns and what the harness predicts. *)
Inductive val :=
| VN (n : N)
| VZ (z : Z)
| VS (s : string)
| VB (b : bool)
| VE (kind : string)            (* an error outcome, by class name *)
| VL (l : list val).

Fixpoint val_eqb (a b : val) {struct a} : bool :=
  match a, b with
  | VN x, VN y => N.eqb x y
  | VZ x, VZ y => Z.eqb x y
  | VS x, VS y => String.eqb x y
  | VB x, VB y => Bool.eqb x y
  | VE x, VE y => String.eqb x y
  | VL x, VL y =>
      (fix go (x y : list val) {struct x} : bool :=
         match x, y with
         | [], [] => true
         | a :: x', b :: y' => val_eqb a b && go x' y'
         | _, _ => false
         end) x y
  | _, _ => false
  end.

(** A correspondence case: index, model output, implementation output. *)
Definition bad_cases (cs : list (N * val * val)) : list N :=
  map (fun c => fst (fst c))
      (filter (fun c => negb (val_eqb (snd (fst c)) (snd c))) cs).

(** * Result type of partial Python operations. *)
Inductive res (A : Type) :=
| Ok (a : A)
| VErr            (* ValueError *)
| TErr            (* TypeError *)
| Abort           (* ipaddress.NetmaskValueError raised by the nc-bit limit *)
| Crash (k : string).  (* any other exception: must be unreachable *)
Arguments Ok {A} a.
Arguments VErr {A}.
Arguments TErr {A}.
Arguments Abort {A}.
Arguments Crash {A} k.

Definition bind {A B} (r : res A) (f : A -> res B) : res B :=
  match r with
  | Ok a => f a
  | VErr => VErr
  | TErr => TErr
  | Abort => Abort
  | Crash k => Crash k
  end.
Notation "'do' x <- r ; k" := (bind r (fun x => k))
  (at level 200, x pattern, r at level 100, k at level 200, right associativity).

Definition res_val {A} (f : A -> val) (r : res A) : val :=
  match r with
  | Ok a => f a
  | VErr => VE "ValueError"
  | TErr => VE "TypeError"
  | Abort => VE "NetmaskValueError"
  | Crash k => VE k
  end.

(** * List helpers *)
Fixpoint seqN (start : N) (len : nat) : list N :=
  match len with O => [] | S l => start :: seqN (N.succ start) l end.

Lemma in_seqN : forall len start x,
  In x (seqN start len) <-> (start <= x < start + N.of_nat len)%N.
Proof.
  induction len as [|len IH]; intros start x; cbn [seqN].
  - cbn. lia.
  - cbn [In]. rewrite IH. lia.
Qed.

Lemma seqN_length : forall len start, length (seqN start len) = len.
Proof. induction len; intros; cbn; auto. Qed.

Definition memN (x : N) (l : list N) : bool := existsb (N.eqb x) l.
Lemma memN_In x l : memN x l = true <-> In x l.
Proof.
  unfold memN. rewrite existsb_exists. split.
  - intros [y [Hy He]]. apply N.eqb_eq in He. subst; auto.
  - intros H. exists x. split; auto. apply N.eqb_refl.
Qed.

Definition mem_str (x : string) (l : list string) : bool := existsb (String.eqb x) l.
Lemma mem_str_In x l : mem_str x l = true <-> In x l.
Proof.
  unfold mem_str. rewrite existsb_exists. split.
  - intros [y [Hy He]]. apply String.eqb_eq in He. subst; auto.
  - intros H. exists x. split; auto. apply String.eqb_refl.
Qed.

(** assoc lists used for the Python dicts (insertion order) *)
Fixpoint assoc_str {A} (k : string) (l : list (string * A)) : option A :=
  match l with
  | [] => None
  | (k', v) :: t => if String.eqb k k' then Some v else assoc_str k t
  end.
Fixpoint assoc_N {A} (k : N) (l : list (N * A)) : option A :=
  match l with
  | [] => None
  | (k', v) :: t => if N.eqb k k' then Some v else assoc_N k t
  end.

Lemma mem_In_pair (nm : string) (n : N) l :
  existsb (fun e => String.eqb (fst e) nm && N.eqb (snd e) n) l = true -> In (nm, n) l.
Proof.
  rewrite existsb_exists. intros [[a b] [H1 H2]]. cbn in H2. apply andb_prop in H2 as [A B].
  apply String.eqb_eq in A. apply N.eqb_eq in B. now subst.
Qed.


(** strings given by byte codes (for non-printable characters in generated cases) *)
Fixpoint str_of_codes (l : list N) : string :=
  match l with
  | [] => EmptyString
  | c :: t => String (ascii_of_N c) (str_of_codes t)
  end.
