(** Entry points for line classification and ACL text (kernel K-classify / K-acl-text). *)
From V Require Import base.Prelude base.Strs gen.Tables model.Cfg model.Names model.Wildcard
  model.Addr model.Ports model.Ace model.Lex model.AddrText model.AceText model.AclText run.RunText.
Local Open Scope N_scope.

Definition v_class (c : cfg) (x : lineclass) : val :=
  match x with
  | LBlank => VL [VS "blank"]
  | LItem i => VL [VS "item"; VS (render_item c i)]
  | LIgnorable => VL [VS "ignorable"]
  | LReported => VL [VS "reported"]
  | LAbort => VL [VS "abort"]
  end.

(** one body line: its class (and the rendered item) *)
Definition run_classify (c : cfg) (line : string) : val := v_class c (line_to_oace c line).

(** a whole body: NetmaskValueError aborts, otherwise the rendered items in order and the
    number of reported lines *)
Definition run_body (c : cfg) (lines : list string) : val :=
  let cl := classify_all c lines in
  if aborted cl then VE "NetmaskValueError"
  else VL [VL (map (fun i => VS (render_item c i)) (items_of cl));
           VN (N.of_nat (List.length (filter (fun x => match x with LReported => true | _ => false end) cl)))].
