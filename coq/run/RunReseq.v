(** Entry points for resequence (kernel K-reseq). *)
From V Require Import base.Prelude gen.Tables model.Reseq.
Local Open Scope Z_scope.

Fixpoint v_ritem (it : ritem) : val :=
  match it with
  | RLeaf s id => VL [VZ s; VN id]
  | RGroup s id sub => VL [VZ s; VN id; VL (map v_ritem sub)]
  end.

Definition run_resequence (start step : Z) (items : list ritem) : val :=
  res_val (fun r => VL [VZ (fst r); VL (map v_ritem (snd r))]) (resequence start step items).
