(** Entry points of the correspondence check for port_name.py / protocol.py (kernel K-tables). *)
From V Require Import base.Prelude base.Strs gen.Tables model.Cfg model.Names.

Definition v_names (l : list (string * N)) : val := VL (map (fun e => VL [VS (fst e); VN (snd e)]) l).
Definition v_ports (l : list (N * string)) : val := VL (map (fun e => VL [VN (fst e); VS (snd e)]) l).
Definition v_strs (l : list string) : val := VL (map VS l).

Definition run_names p pl v15 : val := v_names (names_table p pl v15).
Definition run_ports p pl v15 : val := v_ports (ports_table p pl v15).
Definition run_all_known : val := v_strs (sort_str all_known_names).
Definition run_nr_to_protocol pl : val := v_ports (nr_to_protocol pl).
Definition run_protocols_any : val := v_names PROTOCOLS_ANY.
Definition run_proto_table pl : val := v_names (proto_table pl).

Definition run_port_parse p pl v15 (item : string) : val :=
  res_val VN (parse_port_item (names_table p pl v15) item).
Definition run_port_render nr p pl v15 (n : N) : val :=
  VS (render_port_item nr (names_table p pl v15) n).
Definition run_proto_parse (line : string) : val := res_val VN (parse_proto line).
Definition run_proto_render pl nr hp n : val := VS (render_proto pl nr hp n).
Definition run_split_dstport (items : list string) : val :=
  let r := split_dstport_option items in VL [v_strs (fst r); v_strs (snd r)].
