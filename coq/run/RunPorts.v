(** Entry points of the correspondence check for port.py / the range-string codec (kernel K-port). *)
From V Require Import base.Prelude base.Strs gen.Tables model.Cfg model.Names model.Ports.
Local Open Scope N_scope.

Fixpoint intervals_aux (lo hi : N) (l : list N) : list (N * N) :=
  match l with
  | [] => [(lo, hi)]
  | x :: t => if N.eqb x (hi + 1) then intervals_aux lo x t
              else if N.eqb x hi then intervals_aux lo hi t
              else (lo, hi) :: intervals_aux x x t
  end.
Definition intervals (l : list N) : list (N * N) :=
  match l with [] => [] | x :: t => intervals_aux x x t end.

Definition v_Ns (l : list N) : val := VL (map VN l).
Definition v_ivs (l : list N) : val :=
  VL [VN (N.of_nat (List.length l)); VL (map (fun iv => VL [VN (fst iv); VN (snd iv)]) (intervals l))].

(** operands: the list itself when short, its interval form when long (keeps case files small) *)
Definition v_items (l : list N) : val :=
  if Nat.leb (List.length l) 40 then VL [VN 0; v_Ns l] else VL [VN 1; v_ivs l].

Definition v_port (nr : bool) (c : pctx) (p : port) : val :=
  VL [VS (match p_op p with Some o => pop_name o | None => "" end);
      v_items (p_items p); v_ivs (p_ports p);
      VS (if Nat.leb (String.length (p_sport p)) 300 then p_sport p else "<long>");
      (let ln := join " " (render_port nr c p) in
       VS (if Nat.leb (String.length ln) 300 then ln else "<long>"))].

(** helpers.init_protocol: "6" -> tcp, "17" -> udp, anything else but tcp/udp -> "" *)
Definition mk_ctx (proto : string) (pl : platform) (v15 : bool) : pctx :=
  if String.eqb proto "tcp" || String.eqb proto "6" then Some (Tcp, pl, v15)
  else if String.eqb proto "udp" || String.eqb proto "17" then Some (Udp, pl, v15) else None.

Inductive vop :=
| SelfItems | SelfPorts | SelfSport
| PutItems (l : list N) | PutPorts (l : list N) | PutSport (s : string)
| PutPlatform (pl : platform) | PutLine (toks : list string).

Definition step (nr : bool) (proto : string) (v15 : bool) (st : platform * port) (o : vop)
  : res (platform * port) :=
  let pl := fst st in let p := snd st in let c := mk_ctx proto pl v15 in
  match o with
  | SelfItems => do q <- set_items pl c p (p_items p); Ok (pl, q)
  | SelfPorts => do q <- set_ports pl c p (p_ports p); Ok (pl, q)
  | SelfSport => do q <- set_sport pl c p (p_sport p); Ok (pl, q)
  | PutItems l => do q <- set_items pl c p l; Ok (pl, q)
  | PutPorts l => do q <- set_ports pl c p l; Ok (pl, q)
  | PutSport s => do q <- set_sport pl c p s; Ok (pl, q)
  | PutLine t => do q <- parse_port pl c t; Ok (pl, q)
  | PutPlatform pl' =>
      let c' := mk_ctx proto pl' v15 in
      do q <- parse_port pl' c' (render_port nr c' p); Ok (pl', q)
  end.

Fixpoint steps nr proto v15 (st : platform * port) (ops : list vop) : res (platform * port) :=
  match ops with
  | [] => Ok st
  | o :: t => do st' <- step nr proto v15 st o; steps nr proto v15 st' t
  end.

(** Port(line, protocol, platform, version, port_nr) then a sequence of view assignments *)
Definition run_port (nr : bool) (proto : string) (pl : platform) (v15 : bool)
           (toks : list string) (ops : list vop) : val :=
  (* init_protocol(line, protocol): an empty line leaves the protocol empty for good *)
  let proto := match toks with [] => "" | _ => proto end in
  res_val (fun st => v_port nr (mk_ctx proto (fst st) v15) (snd st))
          (do p <- parse_port pl (mk_ctx proto pl v15) toks; steps nr proto v15 (pl, p) ops).

Definition run_p2s (l : list N) : val := VS (ports_to_string l).
Definition run_s2p (s : string) : val := v_ivs (string_to_ports s).
