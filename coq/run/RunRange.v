(** Entry points for range generation (kernel K-range). *)
From V Require Import base.Prelude base.Strs gen.Tables model.Cfg model.Names model.Ports
  model.RangeGen run.RunPorts.
Local Open Scope N_scope.

Definition v_chunk (c : chunk) : val :=
  match c with
  | CNums l => VL (map (fun n => VS (dec n)) l)
  | CRange a b => VL [VS (dec a ++ "-" ++ dec b)%string]
  end.

(** _split_range_for_ace(request, port_count, port_range) *)
Definition run_split_range (count : nat) (policy : bool) (toks : list rtok) : val :=
  VL (map v_chunk (split_range count policy toks)).

(** range_ports for one side: operator and operands of every generated line *)
Definition run_gen_ports (pl : platform) (proto : string) (v15 : bool) (top : option pop)
           (count : nat) (policy : bool) (toks : list rtok) : val :=
  if negb (template_op_ok top) then VE "ValueError"
  else res_val (fun ps => VL (map (fun p => VL [VS (match p_op p with Some o => pop_name o | None => "" end);
                                                  v_Ns (p_items p)]) ps))
               (gen_ports pl (mk_ctx proto pl v15) top (split_range count policy toks)).

(** range_protocols: netports.iip expands, sorts and de-duplicates the request *)
Definition run_range_protocols (toks : list rtok) : val :=
  v_Ns (dedup_sorted (sortN (concat (map (fun t => match t with
                                                    | RNum n => [n] | RRange a b => range_incl a b | REmpty => []
                                                    end) toks)))).
