(** Entry points for config_parser.py (kernel K-config). *)
From V Require Import base.Prelude base.Strs gen.Tables model.Cfg model.Names model.Lex model.Config.

Definition v_strs (l : list string) : val := VL (map VS l).
Definition v_dic (d : dic) : val := VL (map (fun e => VL [VS (fst e); v_strs (snd e)]) d).

(** parser.dic after parse_config() *)
Definition run_dic (text : string) : val := v_dic (parse_dic (config_lines text)).

(** parser.acls(names): name, type text of the key, key, body, input, output *)
Definition run_acl_sections (pl : platform) (names : option (list string)) (text : string) : val :=
  res_val (fun l => VL (map (fun s => VL [VS (as_name s); VS (as_type s); VS (as_key s); v_strs (as_body s);
                                          v_strs (as_input s); v_strs (as_output s)]) l))
          (acl_sections pl names (parse_dic (config_lines text))).

Definition run_addgr_sections (text : string) : val :=
  VL (map (fun e => VL [VS (fst e); v_strs (snd e)]) (addgr_sections (parse_dic (config_lines text)))).
