(** Entry points for address containment (kernel K-addr). *)
From V Require Import base.Prelude gen.Tables model.Cfg model.Wildcard model.Addr run.RunWild.

Definition v_addr (a : addr) : val :=
  match a with
  | ASingle ty w => VL [VS (atype_name ty); VN (w_prefix w); VN (w_mask w); v_onet (w_ipnet w)]
  | AGroup n items => VL [VS "addrgroup"; VS n; VN (N.of_nat (List.length items))]
  end.

Definition v_rbool (r : res bool) : val := res_val VB r.

(** Address(spelling): type and wildcard *)
Definition run_addr pl limit sp : val := res_val v_addr (addr_of_spelling pl limit sp).
Definition run_addrag pl limit sp : val := res_val v_addr (addrag_of_spelling pl limit sp).

(** a.subnet_of(b) for two ACE addresses; members of groups are given as (addr, mask) pairs *)
Definition run_subnet_of pl limit (a b : spelling) : val :=
  v_rbool (do x <- addr_of_spelling pl limit a; do y <- addr_of_spelling pl limit b;
           addr_subnet_of x y).

Definition run_ag_subnet_of pl limit (a b : spelling) : val :=
  v_rbool (do x <- addrag_of_spelling pl limit a; do y <- addrag_of_spelling pl limit b;
           addr_subnet_of x y).

(** [a in b] for two group members *)
Definition run_ag_contains pl limit (a b : spelling) : val :=
  v_rbool (do x <- addrag_of_spelling pl limit a; do y <- addrag_of_spelling pl limit b;
           addr_contains y x).

Fixpoint build_all pl limit (l : list spelling) : res (list addr) :=
  match l with
  | [] => Ok []
  | s :: t => do a <- addrag_of_spelling pl limit s; do r <- build_all pl limit t; Ok (a :: r)
  end.

(** [a in AddrGroup(items)] *)
Definition run_group_contains pl limit (a : spelling) (items : list spelling) : val :=
  v_rbool (do x <- addrag_of_spelling pl limit a; do its <- build_all pl limit items;
           addrgroup_contains its x).

(** group members of an ACE address, from (addr, mask) pairs *)
Fixpoint mk_members (limit : Z) (l : list (N * N)) : list (option wild) :=
  match l with
  | [] => []
  | (a, m) :: t => (match new_wild limit a m with Ok w => Some w | _ => None end) :: mk_members limit t
  end.

(** Address("object-group G", items=[member spellings]) *)
Fixpoint member_wilds pl limit (l : list spelling) : res (list (option wild)) :=
  match l with
  | [] => Ok []
  | s :: t =>
      do a <- addr_of_spelling pl limit s; do r <- member_wilds pl limit t;
      Ok (match a with ASingle _ w => Some w | AGroup _ _ => None end :: r)
  end.

Definition run_subnet_of_g pl limit (a b : spelling) (ma mb : list spelling) : val :=
  v_rbool (
    do wa <- member_wilds pl limit ma; do wb <- member_wilds pl limit mb;
    let fix_ := fun (s : spelling) (w : list (option wild)) =>
                  match s with SGroup n _ => SGroup n w | _ => s end in
    do x <- addr_of_spelling pl limit (fix_ a wa); do y <- addr_of_spelling pl limit (fix_ b wb);
    addr_subnet_of x y).
