(** Entry points for platform conversion (kernel K-platform). *)
From V Require Import base.Prelude base.Strs gen.Tables model.Cfg model.Names model.Wildcard
  model.Addr model.Ports model.Ace model.Lex model.AddrText model.AceText model.AclText model.Shading
  model.SplitPorts model.Platform proofs.PlatformProofs run.RunAddr run.RunAce run.RunText.
Local Open Scope N_scope.

Definition to_item (i : aitem) : item ace :=
  match i with AIAce t => IAce "" (t_ace t) | AIRemark _ _ => IRemark "" end.

Definition is_nxos (p : platform) : bool := match p with Nxos => true | _ => false end.

(** Acl(body lines, platform of c).platform = platform of c':
    rendered lines after the conversion, the certificate (same decisions, proved sound), and
    the lines after converting back and forth again *)
Definition run_acl_platform (c c' : cfg) (lines : list string) : val :=
  res_val (fun v => v)
    (let cl := classify_all c lines in
     if aborted cl then Abort
     else
       let items := items_of cl in
       do conv <- acl_set_platform c c' items;
       do back <- acl_set_platform c' c conv;
       do again <- acl_set_platform c c' back;
       Ok (VL [VL (map (fun i => VS (render_item c' i)) conv);
               VB (splittable_okb (plat c) (is15 c) (map to_item items)
                   && conv_okb (plat c) (is15 c) (is_nxos (plat c')) (map to_item items) (map to_item conv));
               VB (list_eqb String.eqb (map (render_item c') conv) (map (render_item c') again))])).

(** a single ACE *)
Definition run_ace_platform (c c' : cfg) (line : string) : val :=
  res_val (fun t => VL [VS (render_ace c' t); v_ace (t_ace t)])
          (do t <- parse_ace_text c line; ace_set_platform c' t).

(** a single address *)
Definition run_addr_platform (pl pl' : platform) (line : string) : val :=
  res_val (fun a => VL [RunAddr.v_addr a; VS (render_addr pl' a)])
          (do a <- parse_address_text pl 16 (init_line line); addr_set_platform pl' 16 a).

