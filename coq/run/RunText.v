(** Entry points for the text layer (kernel K-ace-text): Ace(text) -> fields + rendered line. *)
From V Require Import base.Prelude base.Strs gen.Tables model.Cfg model.Names model.Wildcard
  model.Addr model.Ports model.Ace model.Lex model.AddrText model.AceText
  run.RunWild run.RunAddr run.RunPorts run.RunAce.
Local Open Scope N_scope.

Definition v_tace (c : cfg) (t : tace) : val :=
  VL [VB (t_type_ext t); VN (t_seq t); v_ace (t_ace t); VS (render_ace c t)].

Definition mk_cfg (pl : platform) (v15 nr pnr : bool) (limit : nat) : cfg := mkCfg pl v15 nr pnr limit.

(** Ace(line, platform, version, port_nr, protocol_nr, max_ncwb) *)
Definition run_ace_text (c : cfg) (line : string) : val :=
  res_val (v_tace c) (parse_ace_text c line).

(** the rendered line parsed again, and rendered again (fixed point check) *)
Definition run_ace_twice (c : cfg) (line : string) : val :=
  res_val (fun v => v)
    (do t <- parse_ace_text c line;
     let l1 := render_ace c t in
     do t2 <- parse_ace_text c l1;
     Ok (VL [VS l1; VS (render_ace c t2); v_ace (t_ace t2)])).

Definition run_address_text (pl : platform) (limit : Z) (line : string) : val :=
  res_val (fun a => VL [v_addr a; VS (render_addr pl a)]) (parse_address_text pl limit (init_line line)).
