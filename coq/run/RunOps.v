(** Entry points for operation histories on an Acl (kernels K-ids, K-history). *)
From V Require Import base.Prelude base.Strs gen.Tables model.Cfg model.Names model.Wildcard
  model.Addr model.Ports model.Ace model.Lex model.AddrText model.AceText model.AclText
  model.Shading model.SplitPorts model.Platform model.Ops proofs.HistoryProofs.
Local Open Scope N_scope.

Definition v_leaf (l : leaf) : val := VL [VN (leaf_id l); VN (leaf_note l)].
Definition v_top (t : top) : val :=
  match t with
  | TLeaf l => v_leaf l
  | TGrp id n name s ls => VL [VS "group"; VN id; VN n; VS name; VN s; VL (map v_leaf ls)]
  end.

(** what is observed after a step: the certificate of the step (HistoryProofs.step_cert: equal
    decisions where the reference says so), the text lines, the flags, and who is who *)
Definition observe (cert : bool) (a : acl) : val :=
  VL [VB cert; VL (map VS (acl_lines a));
      VL [VS (platform_name (plat (o_cfg a))); VB (port_nr (o_cfg a)); VB (protocol_nr (o_cfg a)); VS (o_gby a)];
      VL [VN (o_id a); VN (o_note a)];
      VL (map v_top (o_tops a))].

Fixpoint run_ops (next : N) (a : acl) (ops : list op) : list val :=
  match ops with
  | [] => []
  | o :: rest =>
      match step a o with
      | Ok a1 => let p := relabel next a1 in observe (step_cert a o a1) (snd p) :: run_ops (fst p) (snd p) rest
      | r => [res_val (fun _ => VS "") r]
      end
  end.

(** Acl(header + body) -> label -> give notes -> the operations, one observation per step *)
Definition run_history (c : cfg) (name : string) (body : list string) (ops : list op) : val :=
  match init_acl c name body with
  | Ok a0 =>
      let p := relabel 1 a0 in
      let a1 := note_all (snd p) in
      VL (observe true a1 :: run_ops (fst p) a1 ops)
  | r => res_val (fun _ => VS "") r
  end.

(** debugging aid for the correspondence: index of the first differing step, and both values there *)
Fixpoint first_diff_l (i : N) (a b : list val) : N * val * val :=
  match a, b with
  | x :: a', y :: b' => if val_eqb x y then first_diff_l (i + 1) a' b' else (i, x, y)
  | [], [] => (i, VS "same", VS "same")
  | x :: _, [] => (i, x, VS "<end>")
  | [], y :: _ => (i, VS "<end>", y)
  end.
Definition first_diff (a b : val) : N * val * val :=
  match a, b with VL x, VL y => first_diff_l 0 x y | _, _ => (0, a, b) end.

