(** Entry points for ungroup_ports (kernel K-split). *)
From V Require Import base.Prelude base.Strs gen.Tables model.Cfg model.Names model.Wildcard
  model.Addr model.Ports model.Ace model.SplitPorts run.RunAce.

(** Ace.ungroup_ports(): the resulting entries and whether the object itself was returned *)
Definition run_split pl v15 limit (f : fields) : val :=
  res_val (fun r => VL [VL (map v_ace (fst r)); VB (snd r)])
          (do a <- ace_of pl v15 limit f; ungroup_ports pl v15 a).

(** Acl / AceGroup.ungroup_ports(): entries are replaced in place, remarks stay *)
Fixpoint run_acl_split_aux pl v15 limit (l : list (option fields)) : res (list val) :=
  match l with
  | [] => Ok []
  | None :: t => do r <- run_acl_split_aux pl v15 limit t; Ok (VS "remark" :: r)
  | Some f :: t =>
      do a <- ace_of pl v15 limit f; do s <- ungroup_ports pl v15 a;
      do r <- run_acl_split_aux pl v15 limit t; Ok (map v_ace (fst s) ++ r)
  end.
Definition run_acl_split pl v15 limit (l : list (option fields)) : val :=
  res_val VL (run_acl_split_aux pl v15 limit l).
