(** Entry points for collapse (kernel K-collapse). *)
From V Require Import base.Prelude gen.Tables model.Cfg model.Wildcard model.Addr model.Collapse
  run.RunWild run.RunAddr.

Fixpoint build_addrs (ag : bool) pl limit (l : list spelling) : res (list addr) :=
  match l with
  | [] => Ok []
  | s :: t =>
      do a <- (if ag then addrag_of_spelling pl limit s else addr_of_spelling pl limit s);
      do r <- build_addrs ag pl limit t; Ok (a :: r)
  end.

(** address.collapse / address_ag.collapse on addresses given by their spellings *)
Definition run_collapse (ag : bool) pl limit (l : list spelling) : val :=
  res_val v_nets (do a <- build_addrs ag pl limit l; collapse_addrs a).
