(** Entry points for Acl.shading / shadow_of / delete_shadow (kernel K-acl-shadow). *)
From V Require Import base.Prelude base.Strs gen.Tables model.Cfg model.Names model.Wildcard
  model.Addr model.Ports model.Ace model.Shading run.RunAce spec.AclSem proofs.AclProofs.
Local Open Scope N_scope.

Definition payload := (N * ace)%type.

Fixpoint build_items pl v15 limit (id : N) (l : list (string * option fields)) : res (list (item payload)) :=
  match l with
  | [] => Ok []
  | (line, Some f) :: t =>
      do a <- ace_of pl v15 limit f; do r <- build_items pl v15 limit (id + 1) t;
      Ok (IAce line (id, a) :: r)
  | (line, None) :: t => do r <- build_items pl v15 limit (id + 1) t; Ok (IRemark line :: r)
  end.


(** an exception of any evaluated pair aborts the whole call; only TypeError can occur *)
Fixpoint pairs_error pl sg snc (l : list payload) : bool :=
  match l with
  | [] => false
  | t :: rest =>
      existsb (fun b => match shadow_of pl sg snc (snd b) (snd t) with Ok _ => false | _ => true end) rest
      || pairs_error pl sg snc rest
  end.

Definition v_dict (d : dict) : val :=
  VL (map (fun e => VL [VS (fst e); VL (map VS (snd e))]) d).
Definition v_lines (l : list (item payload)) : val := VL (map (fun i => VS (item_line i)) l).

Definition same_item (x y : item payload) : bool :=
  match x, y with
  | IAce l a, IAce l' a' => String.eqb l l' && N.eqb (fst a) (fst a')
  | IRemark l, IRemark l' => String.eqb l l'
  | _, _ => false
  end.

(** keep-flags of a subsequence (greedy alignment; identical remarks are interchangeable) *)
Fixpoint keep_flags (orig res : list (item payload)) : list bool :=
  match orig with
  | [] => []
  | o :: orig' =>
      match res with
      | r :: res' => if same_item o r then true :: keep_flags orig' res'
                     else false :: keep_flags orig' res
      | [] => false :: keep_flags orig' []
      end
  end.

Definition lines_eqb (a b : list (item payload)) : bool :=
  (fix go (a b : list (item payload)) : bool :=
     match a, b with
     | [], [] => true
     | x :: a', y :: b' => same_item x y && go a' b'
     | _, _ => false
     end) a b.

Definition run_shading pl v15 limit sg snc (l : list (string * option fields)) : val :=
  res_val (fun v => v)
    (do items <- build_items pl v15 limit 0 l;
     if pairs_error pl sg snc (map snd (aces_of items)) then TErr
     else Ok (v_dict (shading (shb pl sg snc) items))).

(** result: report, remaining lines, certificate ok, second removal finds nothing *)
Definition run_delete_shadow pl v15 limit sg snc (l : list (string * option fields)) : val :=
  res_val (fun v => v)
    (do items <- build_items pl v15 limit 0 l;
     if pairs_error pl sg snc (map snd (aces_of items)) then TErr
     else
       do r <- delete_shadow (shb pl sg snc) items;
       let keep := keep_flags items (snd r) in
       Ok (VL [v_dict (fst r); v_lines (snd r);
               VB (lines_eqb (select payload items keep) (snd r)
                   && removal_okb payload (shb pl sg snc) [] items keep);
               VB (match shading (shb pl sg snc) (snd r) with [] => true | _ => false end)])).
