(** Entry points for Ace.shadow_of (kernel K-shadow) and ACE construction from split fields. *)
From V Require Import base.Prelude base.Strs gen.Tables model.Cfg model.Names model.Wildcard
  model.Addr model.Ports model.Ace run.RunWild run.RunAddr run.RunPorts.
Local Open Scope N_scope.

Record fields := mkF {
  f_permit : bool; f_proto : N;
  f_src : spelling; f_srcm : list spelling;
  f_dst : spelling; f_dstm : list spelling;
  f_sp : list string; f_dp : list string; f_opts : list string
}.

Definition with_members pl limit (s : spelling) (m : list spelling) : res spelling :=
  match s with
  | SGroup n _ => do w <- member_wilds pl limit m; Ok (SGroup n w)
  | _ => Ok s
  end.

Definition ace_of pl v15 limit (f : fields) : res ace :=
  (* members are attached after construction (ace.srcaddr.items = [...]) *)
  do a <- build_ace pl v15 limit (f_permit f) (f_proto f) (f_src f) (f_dst f) (f_sp f) (f_dp f) (f_opts f);
  do s <- with_members pl limit (f_src f) (f_srcm f);
  do d <- with_members pl limit (f_dst f) (f_dstm f);
  do s' <- addr_of_spelling pl limit s;
  do d' <- addr_of_spelling pl limit d;
  Ok (mkAce (a_permit a) (a_proto a) s' d' (a_sport a) (a_dport a) (a_flags a) (a_logs a)).

Definition v_ace (a : ace) : val :=
  VL [VB (a_permit a); VN (a_proto a); v_addr (a_src a); v_addr (a_dst a);
      v_Ns (p_items (a_sport a)); v_ivs (p_ports (a_sport a));
      v_Ns (p_items (a_dport a)); v_ivs (p_ports (a_dport a));
      VL (map VS (a_flags a)); VL (map VS (a_logs a))].

Definition run_ace pl v15 limit (f : fields) : val := res_val v_ace (ace_of pl v15 limit f).

Definition run_shadow pl v15 limit (sg snc : bool) (bottom top : fields) : val :=
  res_val VB (do b <- ace_of pl v15 limit bottom; do t <- ace_of pl v15 limit top;
              shadow_of pl sg snc b t).
