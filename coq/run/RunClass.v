(** Counting entry points: is an explored input inside the class of a certificate-free theorem?
    Kept apart from the correspondence entry points so that those do not depend on the long proof
    chain behind the checker (a broken proof there must not stop the search for a failing input). *)
From V Require Import base.Prelude base.Strs gen.Tables model.Cfg model.Names model.Wildcard
  model.Addr model.Ports model.Ace model.Lex model.AddrText model.AceText model.AclText
  model.Shading model.SplitPorts model.Platform model.Ops proofs.ClassCheck.
Local Open Scope N_scope.

(** [ClassCheck.history_checked]: every packet's decision is provably kept along this history *)
Definition history_in_class (c : cfg) (name : string) (body : list string) (ops : list op) : bool :=
  match init_acl c name body with
  | Ok a0 => acl_builtb (note_all (snd (relabel 1 a0))) && forallb op_okb ops
  | _ => false
  end.

(** [ClassCheck.conversion_checked]: this conversion provably succeeds and keeps every decision *)
Definition acl_in_class (c c' : cfg) (lines : list string) : bool :=
  let cl := classify_all c lines in
  negb (aborted cl) && plat_okb (plat c) && plat_okb (plat c') && forallb (item_srcb c) (items_of cl).

(** [ClassCheck.fixpoint_checked]: the entry read from this line is provably a fixed point of its text *)
Definition ace_in_class (c : cfg) (line : string) : bool :=
  match parse_ace_text c line with
  | Ok t => plat_okb (plat c) && src_builtb c t
  | _ => false
  end.
