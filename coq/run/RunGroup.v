(** Entry points for group / ungroup / sort / tcam (kernel K-group). *)
From V Require Import base.Prelude base.Strs model.Group.
Local Open Scope N_scope.

Definition v_block (b : list gitem) : val := VL (map (fun it => VN (item_id it)) b).

(** Acl.group(prefix) on the flat list: the blocks (ids), the flat order after ungroup, and the
    TCAM estimate before grouping, after grouping and after ungrouping again *)
Definition run_group (l : list gitem) : val :=
  let g := group l in
  VL [VL (map v_block g); v_block (ungroup g);
      VN (tcam_flat l); VN (tcam_grouped g); VN (tcam_flat (ungroup g))].

Definition run_ace_cnt (sg dg : bool) (ns nd : N) : val := VN (ace_cnt sg dg ns nd).

(** sort of top-level items (key = sequence number, value = id) *)
Definition run_sort (l : list (N * N)) : val := VL (map (fun e => VN (snd e)) (sort_by fst l)).
