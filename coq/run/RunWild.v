(** Entry points of the correspondence check for wildcard.py (kernel K-wild). *)
From V Require Import base.Prelude gen.Tables model.Wildcard.

Definition v_net (n : net) : val := VL [VN (fst n); VN (N.of_nat (snd n))].
Definition v_onet (o : option net) : val := match o with Some n => VL [v_net n] | None => VL [] end.
Definition v_nets (l : list net) : val := VL (map v_net l).

Definition v_answer (a : answer) : val :=
  match a with
  | ALine p m => VL [VN p; VN m]
  | AIpnet o => v_onet o
  | AIpnets l => v_nets l
  end.

Definition ipnets_answer (w : wild) : list net :=
  match snd (ask w QIpnets) with AIpnets l => l | _ => [] end.

Definition v_wild (w : wild) : val :=
  VL [VN (w_prefix w); VN (w_mask w); v_onet (w_ipnet w); v_nets (ipnets_answer w)].

Definition run_wild (limit : Z) (addr mask : N) : val := res_val v_wild (new_wild limit addr mask).
Definition run_fprefix (limit : Z) (addr : N) (len : nat) : val := res_val v_wild (fprefix limit addr len).
Definition run_fsubnet (limit : Z) (addr m : N) : val := res_val v_wild (fsubnet limit addr m).

Definition v_out (o : wout) : val :=
  match o with RSet b => VB b | RAns a => v_answer a end.

Definition run_wild_hist (limit : Z) (addr mask : N) (ops : list wop) : val :=
  match new_wild limit addr mask with
  | Ok w => VL (map v_out (run_hist w ops))
  | r => res_val (fun _ => VL []) r
  end.
