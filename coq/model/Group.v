(** Model of Acl.group / Acl.ungroup / sort keys / tcam_count on the item list. *)
From V Require Import base.Prelude base.Strs.
Local Open Scope N_scope.

(** a line of an ACL: a heading remark (its text starts with group_by) or any other line
    (plain remark or ACE); [cnt] is the ACE's TCAM contribution (0 for a remark) *)
Inductive gitem :=
| GHead (text : string) (id : N)
| GOther (id : N) (cnt : N).

Definition item_id (it : gitem) : N := match it with GHead _ id => id | GOther id _ => id end.

Definition buckets := list (string * list gitem).

Fixpoint has_key (k : string) (d : buckets) : bool :=
  match d with [] => false | (k', _) :: t => String.eqb k k' || has_key k t end.

(** d[k].append(x) for an existing key *)
Fixpoint bucket_append (k : string) (x : gitem) (d : buckets) : buckets :=
  match d with
  | [] => []                                   (* KeyError cannot happen: k is always a key *)
  | (k', v) :: t => if String.eqb k k' then (k', v ++ [x]) :: t else (k', v) :: bucket_append k x t
  end.

(** the loop of Acl.group over the ungrouped items: state = (buckets, current group name) *)
Definition group_step (st : buckets * string) (it : gitem) : buckets * string :=
  let d := fst st in
  match it with
  | GHead text _ =>
      if has_key text d then (d, text)            (* a repeated heading remark is dropped *)
      else (d ++ [(text, [it])], text)
  | GOther _ _ => (bucket_append (snd st) it d, snd st)
  end.

Definition group_buckets (l : list gitem) : buckets :=
  fst (fold_left group_step l ([("", [])], "")).

(** the AceGroups that are created: non-empty buckets, in insertion order *)
Definition group (l : list gitem) : list (list gitem) :=
  filter (fun v => match v with [] => false | _ => true end) (map snd (group_buckets l)).

Definition ungroup (g : list (list gitem)) : list gitem := concat g.

Definition headings (l : list gitem) : list string :=
  flat_map (fun it => match it with GHead t _ => [t] | GOther _ _ => [] end) l.

(** tcam_count: 1 + sum over ACEs (also inside blocks) *)
Definition item_cnt (it : gitem) : N := match it with GHead _ _ => 0 | GOther _ c => c end.
Definition tcam_flat (l : list gitem) : N := 1 + fold_right (fun it a => item_cnt it + a) 0 l.
Definition tcam_grouped (g : list (list gitem)) : N :=
  1 + fold_right (fun blk a => fold_right (fun it b => item_cnt it + b) 0 blk + a) 0 g.

(** per-ACE contribution: product of the member counts (1 for a plain address or an empty group) *)
Definition ace_cnt (src_is_group dst_is_group : bool) (nsrc ndst : N) : N :=
  (if src_is_group then (if N.eqb nsrc 0 then 1 else nsrc) else 1)
  * (if dst_is_group then (if N.eqb ndst 0 then 1 else ndst) else 1).

(** sorting top-level items by their sequence numbers (insertion sort, stable) *)
Fixpoint insert_by {A} (key : A -> N) (x : A) (l : list A) : list A :=
  match l with
  | [] => [x]
  | y :: t => if N.leb (key x) (key y) then x :: l else y :: insert_by key x t
  end.
Definition sort_by {A} (key : A -> N) (l : list A) : list A := fold_right (insert_by key) [] l.
