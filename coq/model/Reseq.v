(** Model of resequence (helpers.check_start_step_sequence + AceGroup.resequence +
    AddrGroup.resequence).  Python ints are Z.  An item is a line (remark / ACE / address) or a
    group of items; a group also carries a sequence number of its own. *)
From V Require Import base.Prelude gen.Tables.
Local Open Scope Z_scope.

Inductive ritem :=
| RLeaf (seq : Z) (id : N)
| RGroup (seq : Z) (id : N) (items : list ritem).

Definition SEQ_MAX : Z := Z.of_N SEQUENCE_MAX.

(** the wrapper's argument checks: Some step' (the effective step) or None (ValueError) *)
Definition wrap_args (start step : Z) : option Z :=
  if negb ((0 <=? start) && (start <=? SEQ_MAX)) then None
  else if negb (start =? 0) && (step <? 1) then None
  else Some (if start =? 0 then 0 else step).

Fixpoint reseq_item (s step : Z) (it : ritem) {struct it} : res (Z * ritem) :=
  match it with
  | RLeaf _ id => Ok (s, RLeaf s id)
  | RGroup _ id sub =>
      (* self.resequence(start=sequence, step=step, items=item.items): through the wrapper again *)
      match wrap_args s step with
      | None => VErr
      | Some step' =>
          match sub with
          | [] => Crash "RecursionError"      (* [] or self._items: restarts on the whole list *)
          | _ =>
              do r <- (fix go (s : Z) (l : list ritem) {struct l} : res (Z * list ritem) :=
                         match l with
                         | [] => Ok (s, [])
                         | x :: t =>
                             do p <- reseq_item s step' x;
                             match t with
                             | [] => Ok (fst p, [snd p])
                             | _ => do q <- go (fst p + step') t; Ok (fst q, snd p :: snd q)
                             end
                         end) s sub;
              if SEQ_MAX <? fst r then VErr else Ok (fst r, RGroup (fst r) id (snd r))
          end
      end
  end.

(** the same loop, as a function of its own (used for the top level and in the proofs) *)
Fixpoint reseq_list (s step' : Z) (l : list ritem) {struct l} : res (Z * list ritem) :=
  match l with
  | [] => Ok (s, [])
  | x :: t =>
      do p <- reseq_item s step' x;
      match t with
      | [] => Ok (fst p, [snd p])
      | _ => do q <- reseq_list (fst p + step') step' t; Ok (fst q, snd p :: snd q)
      end
  end.

(** obj.resequence(start, step) on the top-level item list: (last number, renumbered items) *)
Definition resequence (start step : Z) (items : list ritem) : res (Z * list ritem) :=
  match wrap_args start step with
  | None => VErr
  | Some step' =>
      do r <- reseq_list start step' items;
      if SEQ_MAX <? fst r then VErr else Ok r
  end.

Fixpoint leaves (it : ritem) : list (Z * N) :=
  match it with
  | RLeaf s id => [(s, id)]
  | RGroup _ _ sub => flat_map leaves sub
  end.
Definition leaves_l (l : list ritem) : list (Z * N) := flat_map leaves l.

(** shape: everything but the numbers *)
Fixpoint shape (it : ritem) : ritem :=
  match it with
  | RLeaf _ id => RLeaf 0 id
  | RGroup _ id sub => RGroup 0 id (map shape sub)
  end.
