(** Model of the platform setters (Address, Port/Protocol/Option via Base, Ace, Acl). *)
From V Require Import base.Prelude base.Strs gen.Tables model.Cfg model.Names model.Wildcard
  model.Addr model.Ports model.Ace model.Lex model.AddrText model.AceText model.AclText model.SplitPorts.
Local Open Scope N_scope.

(** AddressBase.platform setter: re-type by the new platform, then rebuild from the rendered line *)
Definition retype (pl' : platform) (a : addr) : addr :=
  match a with
  | AGroup _ _ => a
  | ASingle ty w =>
      let ty' :=
        match pl', w_ipnet w with
        | Ios, Some (p, len) => if Nat.eqb len 32 then THost
                                else if N.eqb p 0 && Nat.eqb len 0 then TAny else TWildcard
        | Ios, None => TWildcard
        | Nxos, Some (p, len) => if N.eqb p 0 && Nat.eqb len 0 then TAny else TPrefix
        | Nxos, None => TWildcard
        | Asa, _ => ty
        end in
      ASingle ty' w
  end.

Definition addr_set_platform (pl' : platform) (limit : Z) (a : addr) : res addr :=
  match a with
  | AGroup n items => Ok (AGroup n items)      (* the members are converted one by one, same sets *)
  | ASingle _ _ => parse_address_text pl' limit (render_addr pl' (retype pl' a))
  end.

(** Ace.platform setter: every part is switched, then the ACE is rebuilt from its own line *)
Definition ace_set_platform (c' : cfg) (t : tace) : res tace :=
  let a := t_ace t in
  let a' := mkAce (a_permit a) (a_proto a) (retype (plat c') (a_src a)) (retype (plat c') (a_dst a))
                  (a_sport a) (a_dport a) (a_flags a) (a_logs a) in
  do r <- parse_ace_text c' (render_ace c' (mkTace (t_type_ext t) (t_seq t) a' (t_option_line t)));
  (* group members survive the rebuild (data() carries them) *)
  let keep := fun (old new : addr) => match old, new with AGroup _ items, AGroup n _ => AGroup n items | _, _ => new end in
  let ra := t_ace r in
  Ok (mkTace (t_type_ext r) (t_seq r)
             (mkAce (a_permit ra) (a_proto ra) (keep (a_src a) (a_src ra)) (keep (a_dst a) (a_dst ra))
                    (a_sport ra) (a_dport ra) (a_flags ra) (a_logs ra)) (t_option_line r)).

(** Acl.platform setter on the flat item list: for nxos the ports are ungrouped first (under the
    current platform), then every item is converted *)
Definition split_titem (c : cfg) (i : aitem) : res (list aitem) :=
  match i with
  | AIRemark _ _ => Ok [i]
  | AIAce t =>
      do r <- ungroup_ports (plat c) (is15 c) (t_ace t);
      Ok (map (fun a => AIAce (mkTace (t_type_ext t) (t_seq t) a (t_option_line t))) (fst r))
  end.

Fixpoint flat_map_res {A B} (f : A -> res (list B)) (l : list A) : res (list B) :=
  match l with
  | [] => Ok []
  | x :: t => do y <- f x; do r <- flat_map_res f t; Ok (y ++ r)
  end.

Definition item_set_platform (c' : cfg) (i : aitem) : res aitem :=
  match i with
  | AIRemark s t => Ok (AIRemark s t)
  | AIAce t => do r <- ace_set_platform c' t; Ok (AIAce r)
  end.

Definition acl_set_platform (c c' : cfg) (items : list aitem) : res (list aitem) :=
  do items1 <- (match plat c' with
                | Nxos => flat_map_res (split_titem c) items
                | _ => Ok items
                end);
  map_res (item_set_platform c') items1.
