(** Remark / AceGroup / Acl text: helpers.is_line_for_acl, AceGroup._line_to_oace, the ACL header,
    Acl.line setter and getter. *)
From V Require Import base.Prelude base.Strs gen.Tables model.Cfg model.Names model.Wildcard
  model.Addr model.Ports model.Ace model.Lex model.AddrText model.AceText.
Local Open Scope N_scope.

(** helpers.is_line_for_acl on the token list of the normalised line: any number of leading
    all-digit tokens, then permit / remark / deny followed by at least one more token *)
Fixpoint is_line_for_acl (toks : list string) : bool :=
  match toks with
  | t :: rest =>
      if (String.eqb t "permit" || String.eqb t "remark" || String.eqb t "deny")
      then match rest with [] => false | _ => true end
      else if is_digits t then is_line_for_acl rest else false
  | [] => false
  end.

(** parsers.parse_action: (sequence digits, action, text tokens) *)
Definition parse_action (toks : list string) : option (string * string * list string) :=
  let is_act s := String.eqb s "remark" || String.eqb s "permit" || String.eqb s "deny" in
  match toks with
  | t0 :: rest =>
      let d := take_digits t0 in
      if is_act (snd d) then match rest with [] => None | _ => Some (fst d, snd d, rest) end
      else if str_nonempty (fst d) && negb (str_nonempty (snd d)) then
        match rest with
        | t1 :: r => if is_act t1 then match r with [] => None | _ => Some (fst d, t1, r) end else None
        | [] => None
        end
      else None
  | [] => None
  end.

Inductive aitem :=
| AIAce (t : tace)
| AIRemark (seq : N) (text : string).

Inductive lineclass :=
| LBlank                    (* empty line: nothing to account for *)
| LItem (i : aitem)         (* represented by an item *)
| LIgnorable                (* statistics / description / ignore: dropped silently *)
| LReported                 (* dropped with a warning record naming the line *)
| LAbort.                   (* NetmaskValueError: the whole construction fails *)

(** AceGroup._line_to_oace(line, warning=True) *)
Definition line_to_oace (c : cfg) (line : string) : lineclass :=
  let toks := split_ws line in
  match toks with
  | [] => LBlank
  | _ =>
      if is_line_for_acl toks then
        match parse_action toks with
        | None => LReported                                     (* ValueError of parse_action *)
        | Some (sq, act, text) =>
            if String.eqb act "remark" then LItem (AIRemark (seq_of sq) (join " " text))
            else match parse_ace_text c line with
                 | Ok t => LItem (AIAce t)
                 | Abort => LAbort
                 | _ => LReported
                 end
        end
      else if existsb (fun k => starts_with k (join " " toks)) KNOWN_SKIP then LIgnorable
      else LReported
  end.

Definition render_item (c : cfg) (i : aitem) : string :=
  match i with
  | AIAce t => render_ace c t
  | AIRemark sq text =>
      join " " (filter str_nonempty [if N.eqb sq 0 then "" else dec sq; "remark"; text])
  end.

(** ** ACL header *)
Definition acl_header (pl : platform) (ty name : string) : string :=
  join " " (["ip access-list"] ++ (match pl with Ios => [ty] | _ => [] end) ++ [name]).

(** the body of an ACL text: classification of every line, items in line order *)
Fixpoint classify_all (c : cfg) (lines : list string) : list lineclass :=
  match lines with [] => [] | l :: t => line_to_oace c l :: classify_all c t end.

(** the container (an extended ACL / AceGroup) stamps its own type on every item it takes (items
    setter: item._type = self._type), so a line in standard syntax is rendered in the extended
    form inside it *)
Definition stamp_ext (i : aitem) : aitem :=
  match i with
  | AIAce t => AIAce (mkTace true (t_seq t) (t_ace t) (t_option_line t))
  | AIRemark _ _ => i
  end.

Definition items_of (cl : list lineclass) : list aitem :=
  flat_map (fun x => match x with LItem i => [stamp_ext i] | _ => [] end) cl.

Definition aborted (cl : list lineclass) : bool :=
  existsb (fun x => match x with LAbort => true | _ => false end) cl.
