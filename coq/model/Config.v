(** Model of config_parser.py at line level: the section dictionary, ACL sections, interface
    bindings and address-group sections. *)
From V Require Import base.Prelude base.Strs gen.Tables model.Cfg model.Names model.Lex.
Local Open Scope N_scope.

(** a configuration line after rstrip: (is it indented?, stripped text) *)
Definition cline := (bool * string)%type.

Fixpoint lstrip_ws (s : string) : string :=
  match s with String c s' => if is_ws c then lstrip_ws s' else s | EmptyString => EmptyString end.
Fixpoint rev_str (s acc : string) : string :=
  match s with EmptyString => acc | String c s' => rev_str s' (String c acc) end.
Definition rstrip_ws (s : string) : string := rev_str (lstrip_ws (rev_str s "")) "".
Definition strip_ws (s : string) : string := lstrip_ws (rstrip_ws s).

Definition first_is_ws (s : string) : bool := match s with String c _ => is_ws c | _ => false end.

(** str.splitlines() on ASCII text: a line ends at \n \r \v \f \x1c \x1d \x1e.  ("\r\n" is one boundary for
    Python and two here: the empty line in between is dropped by the filter of parse_config, like the empty
    last line after a final terminator.) *)
Definition is_linebreak (c : ascii) : bool :=
  let n := N_of_ascii c in (N.leb 10 n && N.leb n 13) || (N.leb 28 n && N.leb n 30).
Fixpoint splitlines_aux (s cur : string) : list string :=
  match s with
  | EmptyString => [cur]
  | String c s' => if is_linebreak c then cur :: splitlines_aux s' ""
                   else splitlines_aux s' (cur ++ String c "")%string
  end.
Definition splitlines (s : string) : list string := splitlines_aux s "".

(** parse_config: splitlines, rstrip, drop empty lines and lines starting with "!",
    strip the first line *)
Definition config_lines (text : string) : list cline :=
  let ls := filter (fun s => str_nonempty s && negb (starts_with "!" s)) (map rstrip_ws (splitlines text)) in
  match ls with
  | [] => []
  | l0 :: rest => (false, strip_ws l0) :: map (fun s => (first_is_ws s, strip_ws s)) rest
  end.

(** the dictionary: key -> list of body lines, in insertion order; a repeated key appends *)
Definition dic := list (string * list string).

Fixpoint dic_get (k : string) (d : dic) : option (list string) :=
  match d with [] => None | (k', v) :: t => if String.eqb k k' then Some v else dic_get k t end.
Fixpoint dic_set (k : string) (v : list string) (d : dic) : dic :=
  match d with
  | [] => [(k, v)]
  | (k', v') :: t => if String.eqb k k' then (k', v) :: t else (k', v') :: dic_set k v t
  end.

Definition is_interface_key (k : string) : bool :=
  starts_with "interface " k && Nat.ltb 10 (String.length k).

(** _parse_dic *)
Definition dic_step (st : dic * string) (l : cline) : dic * string :=
  let d := fst st in let key := snd st in
  if fst l then
    (* indented: value of the current key ([data.get(key)] is falsy for a missing or empty list) *)
    match dic_get key d with
    | Some (x :: xs) => (dic_set key ((x :: xs) ++ [snd l]) d, key)
    | _ => (dic_set key [snd l] d, key)
    end
  else
    (* a key line: an interface without settings still becomes a key *)
    let d' := if is_interface_key key then
                match dic_get key d with
                | Some (_ :: _) => d
                | _ => dic_set key [] d
                end
              else d in
    (d', snd l).

Definition parse_dic (ls : list cline) : dic := fst (fold_left dic_step ls ([], "")).

(** the regex "ip access-list (extended |standard )?(.+)" searched anywhere in the key *)
Fixpoint find_sub (pat s : string) : option string :=   (* text after the first occurrence *)
  if starts_with pat s then Some (substring (String.length pat) (String.length s) s)
  else match s with String _ s' => find_sub pat s' | EmptyString => None end.

Definition acl_key (k : string) : option (string * string) :=     (* (type text, name) *)
  match find_sub "ip access-list " k with
  | Some rest =>
      if starts_with "extended " rest && Nat.ltb 9 (String.length rest)
      then Some ("extended", substring 9 (String.length rest) rest)
      else if starts_with "standard " rest && Nat.ltb 9 (String.length rest)
      then Some ("standard", substring 9 (String.length rest) rest)
      else if str_nonempty rest then Some ("", rest) else None
  | None => None
  end.

Definition contains_sub (pat s : string) : bool :=
  match find_sub pat s with Some _ => true | None => false end.

(** one "ip access-group NAME DIR" occurrence per body line (tokens after the keyword) *)
Definition binding_of_line (l : string) : option (string * string) :=
  match find_sub "ip access-group " l with
  | Some rest => match split_ws rest with
                 | n :: d :: _ => if first_is_ws rest then None else Some (n, d)
                 | _ => None
                 end
  | None => None
  end.

Inductive bind_res := BOk (l : list (string * string * string)) | BErr.   (* (acl, direction, interface) *)

(** _acls_on_interfaces (after the repair F6: one record per access-group line) *)
Fixpoint bindings (d : dic) : bind_res :=
  match d with
  | [] => BOk []
  | (k, body) :: t =>
      if existsb (contains_sub "ip access-group") body then
        if negb (starts_with "interface " k) then BErr
        else
          let bs := flat_map (fun l => match binding_of_line l with Some b => [b] | None => [] end) body in
          if negb (forallb (fun b => String.eqb (snd b) "in" || String.eqb (snd b) "out") bs) then BErr
          else match bindings t with
               | BOk r => BOk (map (fun b => (fst b, snd b, k)) bs ++ r)
               | BErr => BErr
               end
      else bindings t
  end.

Definition ifaces_of (name dir : string) (bs : list (string * string * string)) : list string :=
  dedup (sort_str (flat_map (fun b => if String.eqb (fst (fst b)) name && String.eqb (snd (fst b)) dir
                                      then [snd b] else []) bs)).

Record acl_sec := mkAclSec {
  as_name : string; as_type : string; as_key : string; as_body : list string;
  as_input : list string; as_output : list string
}.

(** ConfigParser.acls(names) *)
Definition acl_sections (pl : platform) (names : option (list string)) (d : dic) : res (list acl_sec) :=
  let secs := flat_map (fun e =>
                match acl_key (fst e) with
                | Some (ty, name) =>
                    if match names with None => true | Some ns => mem_str name ns end
                    then [(ty, name, fst e, snd e)] else []
                | None => []
                end) d in
  match bindings d with
  | BErr => VErr
  | BOk bs =>
      Ok (map (fun s => let '(ty, name, key, body) := s in
                        mkAclSec name ty key body (ifaces_of name "in" bs) (ifaces_of name "out" bs)) secs)
  end.

(** addgrs(): "object-group (network |ip address )?(.+)" with a type *)
Definition addgr_key (k : string) : option string :=
  match find_sub "object-group " k with
  | Some rest =>
      if starts_with "network " rest && Nat.ltb 8 (String.length rest)
      then Some (substring 8 (String.length rest) rest)
      else if starts_with "ip address " rest && Nat.ltb 11 (String.length rest)
      then Some (substring 11 (String.length rest) rest)
      else None
  | None => None
  end.

Definition addgr_sections (d : dic) : list (string * list string) :=
  flat_map (fun e => match addgr_key (fst e) with Some n => [(n, snd e)] | None => [] end) d.
