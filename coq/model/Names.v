(** Model of port_name.py (table selection, first-name-wins inversion, vocabulary)
    and of the name tables of protocol.py.  Data comes from the generated Tables.v. *)
From V Require Import base.Prelude base.Strs gen.Tables model.Cfg.

Inductive l4 := Tcp | Udp.
Definition l4_name (p : l4) := match p with Tcp => "tcp" | Udp => "udp" end.

(** PortName.names(): platform/version/protocol -> table *)
Definition names_table (p : l4) (pl : platform) (v15 : bool) : list (string * N) :=
  match p, pl with
  | Tcp, Asa => TCP_NAME_PORT__ASA
  | Tcp, Ios => if v15 then TCP_NAME_PORT__IOS_15 else TCP_NAME_PORT__IOS_16
  | Tcp, Nxos => TCP_NAME_PORT__NXOS
  | Udp, Asa => UDP_NAME_PORT__ASA
  | Udp, Ios => if v15 then UDP_NAME_PORT__IOS_15 else UDP_NAME_PORT__IOS_16
  | Udp, Nxos => UDP_NAME_PORT__NXOS
  end.

Definition has_keyN {A} (k : N) (d : list (N * A)) : bool :=
  existsb (fun e => N.eqb (fst e) k) d.

(** _swap(): first name wins *)
Definition swap (l : list (string * N)) : list (N * string) :=
  fold_left (fun acc e => if has_keyN (snd e) acc then acc else acc ++ [(snd e, fst e)]) l [].

(** PortName.ports() *)
Definition ports_table (p : l4) (pl : platform) (v15 : bool) : list (N * string) :=
  swap (names_table p pl v15).

Fixpoint dedup (l : list string) : list string :=
  match l with
  | [] => []
  | x :: t => if mem_str x t then dedup t else x :: dedup t
  end.

(** all_known_names(): the tables the code unions (IOS_15 tables are not listed there) *)
Definition all_known_names : list string :=
  dedup (map fst (TCP_NAME_PORT__BASE ++ TCP_NAME_PORT__ASA ++ TCP_NAME_PORT__IOS_16
                  ++ TCP_NAME_PORT__NXOS ++ UDP_NAME_PORT__BASE
                  ++ UDP_NAME_PORT__BASE ++ UDP_NAME_PORT__ASA ++ UDP_NAME_PORT__IOS_16
                  ++ UDP_NAME_PORT__NXOS)).

Definition is_known_name (s : string) : bool := mem_str s all_known_names.

(** Every table any platform/version/protocol can select (incl. the IOS 15 ones) *)
Definition all_port_tables : list (l4 * list (string * N)) :=
  [(Tcp, TCP_NAME_PORT__BASE); (Tcp, TCP_NAME_PORT__ASA); (Tcp, TCP_NAME_PORT__NXOS);
   (Tcp, TCP_NAME_PORT__IOS_15); (Tcp, TCP_NAME_PORT__IOS_16);
   (Udp, UDP_NAME_PORT__BASE); (Udp, UDP_NAME_PORT__ASA); (Udp, UDP_NAME_PORT__NXOS);
   (Udp, UDP_NAME_PORT__IOS_15); (Udp, UDP_NAME_PORT__IOS_16)].

Global Strategy 100 [all_known_names all_port_tables].

(** ** one operand of a port expression: Port._line__items_to_ints / Port.line *)
Definition parse_port_item (tbl : list (string * N)) (item : string) : res N :=
  match undec item with
  | Some n => Ok n
  | None =>
      match assoc_str item tbl with
      | Some n => if N.eqb n 0 then VErr else Ok n   (* [if port_nr := data.get(item)] *)
      | None => VErr
      end
  end.

Definition render_port_item (nr : bool) (tbl : list (string * N)) (n : N) : string :=
  if nr then dec n
  else match assoc_N n (swap tbl) with
       | Some nm => if str_nonempty nm then nm else dec n   (* [data.get(i) or i] *)
       | None => dec n
       end.

(** ** parsers._parse_dstport_option on the token list of the text after the destination address *)
Fixpoint span_str (f : string -> bool) (l : list string) : list string * list string :=
  match l with
  | [] => ([], [])
  | x :: t => if f x then let r := span_str f t in (x :: fst r, snd r) else ([], l)
  end.

Definition split_dstport_option (items : list string) : list string * list string :=
  match items with
  | [] => ([], [])
  | op :: rest =>
      if mem_str op OPERATORS then
        let r := span_str (fun it => is_digits it || is_known_name it) rest in (op :: fst r, snd r)
      else ([], items)
  end.

(** ** protocols *)
Definition proto_table (pl : platform) : list (string * N) :=
  match pl with Asa => PROTOCOLS_ASA | Ios => PROTOCOLS_IOS | Nxos => PROTOCOLS_NXOS end.

Definition dict_setN {A} (k : N) (v : A) (d : list (N * A)) : list (N * A) :=
  if has_keyN k d then map (fun e => if N.eqb (fst e) k then (k, v) else e) d
  else d ++ [(k, v)].

(** NR_TO_PROTOCOL[platform] = {i: s for s, i in table.items()} : last name wins *)
Definition nr_to_protocol (pl : platform) : list (N * string) :=
  fold_left (fun d e => dict_setN (snd e) (fst e) d) (proto_table pl) [].

Definition proto_name (pl : platform) (n : N) : string :=
  match assoc_N n (nr_to_protocol pl) with Some s => s | None => "" end.

(** Protocol.line setter on an already whitespace-normalised line *)
Definition parse_proto (line : string) : res N :=
  if String.eqb line "" then Ok PROTOCOL_IP
  else match undec line with
       | Some n => if N.leb n 255 then Ok n else VErr
       | None => match assoc_str line PROTOCOLS_ANY with Some n => Ok n | None => VErr end
       end.

(** Protocol.line getter *)
Definition render_proto (pl : platform) (nr has_port : bool) (n : N) : string :=
  if nr && negb has_port then dec n
  else let nm := proto_name pl n in if str_nonempty nm then nm else dec n.

Global Strategy 100 [nr_to_protocol].
