(** Model of Ace.ungroup_ports / AceGroup.ungroup_ports / Acl.ungroup_ports. *)
From V Require Import base.Prelude base.Strs gen.Tables model.Cfg model.Names model.Wildcard
  model.Addr model.Ports model.Ace.
Local Open Scope N_scope.

Definition splittable (p : port) : bool :=
  match p_op p with Some Eq | Some Neq => true | _ => false end.

(** [port.items = [item]]: the items setter re-parses "<op> <item>" *)
Definition single_port (pl : platform) (c : pctx) (p : port) (item : N) : res port :=
  set_items pl c p [item].

Fixpoint map_res {A B} (f : A -> res B) (l : list A) : res (list B) :=
  match l with
  | [] => Ok []
  | x :: t => do y <- f x; do r <- map_res f t; Ok (y :: r)
  end.

(** one side: the single-port expressions, or the expression itself when it is not eq/neq *)
Definition side_ports (pl : platform) (c : pctx) (p : port) : res (list port) :=
  if splittable p then map_res (single_port pl c p) (p_items p) else Ok [p].

Definition with_ports (a : ace) (s d : port) : ace :=
  mkAce (a_permit a) (a_proto a) (a_src a) (a_dst a) s d (a_flags a) (a_logs a).

(** the cross product of source items x destination items, source first (every copy of the
    first loop carries the original destination port, so the second loop splits the same list) *)
Definition split_ace (pl : platform) (v15 : bool) (a : ace) : res (list ace) :=
  let c := proto_ctx pl v15 (a_proto a) in
  do ss <- side_ports pl c (a_sport a);
  do dd <- side_ports pl c (a_dport a);
  Ok (flat_map (fun s => map (fun d => with_ports a s d) dd) ss).

(** ungroup_ports returns [self] when there is nothing to split (exactly one result) *)
Definition ungroup_ports (pl : platform) (v15 : bool) (a : ace) : res (list ace * bool) :=
  do l <- split_ace pl v15 a;
  match l with
  | [_] => Ok ([a], true)       (* the object itself, identity kept *)
  | _ => Ok (l, false)          (* fresh copies *)
  end.
