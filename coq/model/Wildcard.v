(** Model of wildcard.py on 32-bit numbers.  A network is (address, prefix length). *)
From V Require Import base.Prelude gen.Tables.

Definition net := (N * nat)%type.
Definition tb (x : N) (i : nat) : bool := N.testbit x (N.of_nat i).
Definition W := 32%nat.                       (* = PREFIX_LEN, checked in proofs/WildProofs.v *)

(** _create_prefix: base address with the wildcard bits cleared *)
Definition create_prefix (addr mask : N) : N := N.land addr (N.lxor ALL_ONES mask).

(** wb_idxs: indexes of the wildcard bits, ascending *)
Definition wb_idxs (mask : N) : list nat := filter (tb mask) (seq 0 W).

(** _prefixlen_idx: number of positions k with wb_idxs[k] = k, counted from the start *)
Fixpoint prefixlen_idx_aux (i : nat) (l : list nat) : nat :=
  match l with
  | x :: t => if Nat.eqb i x then S (prefixlen_idx_aux (S i) t) else 0
  | [] => 0
  end.
Definition prefixlen_idx (mask : N) : nat := prefixlen_idx_aux 0 (wb_idxs mask).

(** _ncw_bits: the remaining (non-contiguous) wildcard bits, highest first *)
Definition ncwb (mask : N) : list nat := rev (skipn (prefixlen_idx mask) (wb_idxs mask)).
Definition prefixlen (mask : N) : nat := W - prefixlen_idx mask.

(** ipnets(): itertools.product((0,1), repeat=k) zipped with ncwb, first coordinate slowest *)
Fixpoint expand (bits : list nat) (p : N) : list N :=
  match bits with
  | [] => [p]
  | b :: t => expand t (N.clearbit p (N.of_nat b)) ++ expand t (N.setbit p (N.of_nat b))
  end.

Definition ipnets_of (prefix : N) (bits : list nat) (plen : nat) : list net :=
  map (fun p => (p, plen)) (expand bits prefix).

Definition ipnets (addr mask : N) : list net :=
  ipnets_of (create_prefix addr mask) (ncwb mask) (prefixlen mask).

(** is_mask(): format(m,'032b').lstrip('1') contains no '1' *)
Fixpoint lstrip1 (l : list bool) : list bool :=
  match l with true :: t => lstrip1 t | _ => l end.
Definition bits_msb_first (m : N) : list bool := map (tb m) (rev (seq 0 W)).
Definition is_mask (m : N) : bool := forallb negb (lstrip1 (bits_msb_first m)).
Definition invert_mask (m : N) : N := N.lxor ALL_ONES m.   (* 255 - octet, per octet *)

Fixpoint count_true (l : list bool) : nat :=
  match l with [] => 0 | b :: t => (if b then 1 else 0) + count_true t end.

(** _create_ipnet: IPv4Network(prefix/netmask) when the inverted wildcard is a netmask *)
Definition create_ipnet (prefix mask : N) : option net :=
  if N.eqb mask ALL_ONES then Some (prefix, 0%nat)
  else if N.eqb mask 0 then Some (prefix, W)
  else if is_mask (invert_mask mask)
       then Some (prefix, count_true (bits_msb_first (invert_mask mask)))
       else None.

(** init_max_ncwb *)
Definition valid_limit (l : Z) : bool := (0 <=? l)%Z && (l <=? Z.of_N MAX_NCWB)%Z.

(** ** the object: what the line setter stores *)
Record wild := mkWild {
  w_prefix : N; w_mask : N; w_ipnet : option net;
  w_ncwb : list nat; w_plen : nat;
  w_limit : nat;
  w_cache : option (list net)      (* memo of ipnets(), reset by the line setter *)
}.

(** line setter on parsed numbers.  On failure Python leaves a half-updated object behind; the
    model returns the error only (a failed assignment is outside C05's "after reassignment"). *)
Definition set_line (limit : nat) (addr mask : N) : res wild :=
  let p := create_prefix addr mask in
  let nc := ncwb mask in
  if Nat.ltb limit (List.length nc) then Abort
  else Ok (mkWild p mask (create_ipnet p mask) nc (prefixlen mask) limit None).

Definition new_wild (limit : Z) (addr mask : N) : res wild :=
  if valid_limit limit then set_line (Z.to_nat limit) addr mask else VErr.

Inductive query := QLine | QIpnet | QIpnets.
Inductive answer :=
| ALine (prefix mask : N)
| AIpnet (n : option net)
| AIpnets (l : list net).

Definition ask (w : wild) (q : query) : wild * answer :=
  match q with
  | QLine => (w, ALine (w_prefix w) (w_mask w))
  | QIpnet => (w, AIpnet (w_ipnet w))
  | QIpnets =>
      match w_cache w with
      | Some l => (w, AIpnets l)
      | None =>
          let l := ipnets_of (w_prefix w) (w_ncwb w) (w_plen w) in
          (mkWild (w_prefix w) (w_mask w) (w_ipnet w) (w_ncwb w) (w_plen w) (w_limit w) (Some l),
           AIpnets l)
      end
  end.

(** a history on one object: reassignments interleaved with queries *)
Inductive wop := OSet (addr mask : N) | OAsk (q : query).
Inductive wout := RSet (ok : bool) | RAns (a : answer).

Fixpoint run_hist (w : wild) (ops : list wop) : list wout :=
  match ops with
  | [] => []
  | OSet a m :: t =>
      match set_line (w_limit w) a m with
      | Ok w' => RSet true :: run_hist w' t
      | _ => [RSet false]               (* the model stops at a rejected assignment *)
      end
  | OAsk q :: t => let r := ask w q in RAns (snd r) :: run_hist (fst r) t
  end.

(** ** fprefix / fsubnet on numbers *)
Definition hostmask (len : nat) : N := N.ones (N.of_nat (W - len)).
Definition netmask (len : nat) : N := N.lxor ALL_ONES (hostmask len).

(** Wildcard.fprefix("A.B.C.D/LEN"): host bits are cleared (with a warning), LEN > 32 is an error *)
Definition fprefix (limit : Z) (addr : N) (len : nat) : res wild :=
  if Nat.ltb W len then Abort
  else new_wild limit (N.land addr (netmask len)) (hostmask len).

(** Wildcard.fsubnet("A.B.C.D M.M.M.M") *)
Definition fsubnet (limit : Z) (addr m : N) : res wild :=
  if N.eqb m 0 then new_wild limit addr ALL_ONES
  else if is_mask m then
    let len := count_true (bits_msb_first m) in
    if N.eqb (N.land addr (hostmask len)) 0 then new_wild limit addr (hostmask len) else VErr
  else if is_mask (invert_mask m) then VErr     (* a host mask: accepted by ipaddress, rejected by the text comparison *)
  else Abort.                                   (* NetmaskValueError *)
