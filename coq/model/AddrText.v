(** Address text: Address.line setter/getter (class Address) and AddressAg on text. *)
From V Require Import base.Prelude base.Strs gen.Tables model.Cfg model.Wildcard model.Addr model.Lex.
Local Open Scope N_scope.

Definition is_digit (c : ascii) : bool := let n := N_of_ascii c in N.leb 48 n && N.leb n 57.

Fixpoint take_digits (s : string) : string * string :=
  match s with
  | String c s' => if is_digit c then let r := take_digits s' in (String c (fst r), snd r) else ("", s)
  | EmptyString => ("", "")
  end.

(** the regex \d+\.\d+\.\d+\.\d+ anchored at the start of [s]: (matched text, rest) *)
Definition octets_prefix (s : string) : option (string * string) :=
  let d1 := take_digits s in
  match fst d1, snd d1 with
  | String _ _, String "." r1 =>
      let d2 := take_digits r1 in
      match fst d2, snd d2 with
      | String _ _, String "." r2 =>
          let d3 := take_digits r2 in
          match fst d3, snd d3 with
          | String _ _, String "." r3 =>
              let d4 := take_digits r3 in
              match fst d4 with
              | String _ _ =>
                  Some ((fst d1 ++ "." ++ fst d2 ++ "." ++ fst d3 ++ "." ++ fst d4)%string, snd d4)
              | EmptyString => None
              end
          | _, _ => None
          end
      | _, _ => None
      end
  | _, _ => None
  end.

(** re.findall(OCTETS, line)[0]: leftmost match anywhere in the string *)
Fixpoint find_octets (s : string) : option string :=
  match octets_prefix s with
  | Some (m, _) => Some m
  | None => match s with String _ s' => find_octets s' | EmptyString => None end
  end.

Fixpoint str_index (c : ascii) (s : string) : option nat :=
  match s with
  | EmptyString => None
  | String a s' => if Ascii.eqb a c then Some O
                   else match str_index c s' with Some n => Some (S n) | None => None end
  end.

(** helpers.check_name: non-empty, only letters / digits / punctuation except "?" *)
Definition name_char_ok (c : ascii) : bool :=
  let n := N_of_ascii c in N.leb 33 n && N.leb n 126 && negb (N.eqb n 63).
Fixpoint all_chars (f : ascii -> bool) (s : string) : bool :=
  match s with EmptyString => true | String c s' => f c && all_chars f s' end.
Definition check_name (s : string) : bool := str_nonempty s && all_chars name_char_ok s.

Definition first_is_digit (s : string) : bool :=
  match s with String c _ => is_digit c | EmptyString => false end.

(** IPv4Network(text, strict) via helpers.prefix_to_ipnet: address error -> ValueError,
    mask error -> NetmaskValueError, host bits are cleared *)
Definition parse_prefix_text (line : string) : res (N * nat) :=
  match split_char "/" line with
  | [a; m] =>
      match parse_ip a with
      | None => VErr
      | Some ip => match parse_masklen m with MLen l => Ok (ip, l) | MBad => Abort end
      end
  | _ => VErr
  end.

Definition group_cmd (pl : platform) : string :=
  match pl with Nxos => "addrgroup" | _ => "object-group" end.

(** Address.line setter (the line is already whitespace-normalised); [items] are the members
    to attach when the address turns out to be a group *)
Definition spelling_of_text (pl : platform) (line : string) : res spelling :=
  if String.eqb line "any" then Ok SAny
  else if first_is_digit line && str_contains_char "/" line then
    do p <- parse_prefix_text line; Ok (SPrefix (fst p) (snd p))
  else if first_is_digit line && str_contains_char " " line then
    match split_ws line with
    | [a; m] => match parse_ip a, parse_ip m with
                | Some x, Some y => Ok (SWild x y)
                | _, _ => VErr
                end
    | _ => VErr
    end
  else if starts_with "host " line || is_octets line then
    match find_octets line with
    | Some t => match parse_ip t with Some x => Ok (SHost x) | None => VErr end
    | None => VErr
    end
  else if starts_with (group_cmd pl) line then
    let cmd := (group_cmd pl ++ " ")%string in
    if starts_with cmd line then
      let name := substring (String.length cmd) (String.length line) line in
      if check_name name then Ok (SGroup name []) else VErr
    else VErr
  else VErr.

Definition parse_address_text (pl : platform) (limit : Z) (line : string) : res addr :=
  do sp <- spelling_of_text pl line; addr_of_spelling pl limit sp.

(** ** rendering *)
Definition net_prefix_text (n : net) : string :=
  (render_ip (fst n) ++ "/" ++ dec (N.of_nat (snd n)))%string.

Definition render_addr (pl : platform) (a : addr) : string :=
  match a with
  | AGroup name _ => (group_cmd pl ++ " " ++ name)%string
  | ASingle ty w =>
      let wild := (render_ip (w_prefix w) ++ " " ++ render_ip (w_mask w))%string in
      match ty with
      | TAny => "any"
      | THost => ("host " ++ render_ip (w_prefix w))%string
      | TPrefix => match w_ipnet w with Some n => net_prefix_text n | None => "" end
      | TSubnet => match w_ipnet w with
                   | Some n => (render_ip (fst n) ++ " " ++ render_ip (netmask (snd n)))%string
                   | None => ""
                   end
      | TWildcard | TGroup => wild
      end
  end.
