(** Model of the Acl object as a state (entries with identifier and note, AceGroups made by
    group_by) and of its public operations (C16: identifiers and notes, C17: histories).

    Identifiers: a freshly created object has identifier 0; the harness (and [relabel]) names
    fresh objects in traversal order after every step, so that the model and the
    implementation speak about the same objects.  Notes are numbers (0 = no note).

    Scope: extended ACLs without address groups; AceGroups are the ones Acl.group() builds
    (one level).  sort() is modelled for pairwise distinct top-level sequence numbers. *)
From V Require Import base.Prelude base.Strs gen.Tables model.Cfg model.Names model.Wildcard
  model.Addr model.Ports model.Ace model.Lex model.AddrText model.AceText model.AclText
  model.Shading model.SplitPorts model.Platform.
Local Open Scope N_scope.

Inductive leaf :=
| LAce (id note : N) (t : tace)
| LRem (id note : N) (seq : N) (text : string).

Inductive top :=
| TLeaf (l : leaf)
| TGrp (id note : N) (name : string) (seq : N) (ls : list leaf).

Record acl := mkAcl {
  o_cfg : cfg;
  o_name : string;
  o_gby : string;           (* Acl._group_by: "" = not grouped *)
  o_id : N;
  o_note : N;
  o_tops : list top
}.

Definition leaf_id (l : leaf) : N := match l with LAce i _ _ => i | LRem i _ _ _ => i end.
Definition leaf_note (l : leaf) : N := match l with LAce _ n _ => n | LRem _ n _ _ => n end.
Definition leaf_tag (l : leaf) : N * N := (leaf_id l, leaf_note l).
Definition leaf_seq (l : leaf) : N := match l with LAce _ _ t => t_seq t | LRem _ _ s _ => s end.
Definition leaf_aitem (l : leaf) : aitem :=
  match l with LAce _ _ t => AIAce t | LRem _ _ s x => AIRemark s x end.
Definition leaf_line (c : cfg) (l : leaf) : string := render_item c (leaf_aitem l).
Definition fresh (l : leaf) : leaf :=
  match l with LAce _ n t => LAce 0 n t | LRem _ n s x => LRem 0 n s x end.

Definition top_leaves (t : top) : list leaf := match t with TLeaf l => [l] | TGrp _ _ _ _ ls => ls end.
Definition flat (tops : list top) : list leaf := flat_map top_leaves tops.
Definition top_seq (t : top) : N := match t with TLeaf l => leaf_seq l | TGrp _ _ _ s _ => s end.

(** Acl.line: header and every entry, AceGroups flattened *)
Definition acl_lines (a : acl) : list string :=
  acl_header (plat (o_cfg a)) "extended" (o_name a) :: map (leaf_line (o_cfg a)) (flat (o_tops a)).

(** ** grouping (Acl.group) *)
Definition is_head (gby : string) (l : leaf) : bool :=
  match l with LRem _ _ _ text => starts_with gby text | LAce _ _ _ => false end.
Definition head_text (l : leaf) : string := match l with LRem _ _ _ text => text | LAce _ _ _ => "" end.

Definition lbuckets := list (string * list leaf).
Fixpoint lhas_key (k : string) (d : lbuckets) : bool :=
  match d with [] => false | (k', _) :: t => String.eqb k k' || lhas_key k t end.
Fixpoint lbucket_append (k : string) (x : leaf) (d : lbuckets) : lbuckets :=
  match d with
  | [] => []
  | (k', v) :: t => if String.eqb k k' then (k', v ++ [x]) :: t else (k', v) :: lbucket_append k x t
  end.
Definition lgroup_step (gby : string) (st : lbuckets * string) (l : leaf) : lbuckets * string :=
  let d := fst st in
  if is_head gby l then
    let text := head_text l in
    if lhas_key text d then (d, text) else (d ++ [(text, [l])], text)
  else (lbucket_append (snd st) l d, snd st).
Definition lgroup_buckets (gby : string) (ls : list leaf) : lbuckets :=
  fst (fold_left (lgroup_step gby) ls ([("", [])], "")).

(** the AceGroups that are created: a group of the list being re-grouped that has the same name
    hands over identifier, note and sequence (dict by name: the last one wins); otherwise a fresh
    object without note, sequence 0 *)
Fixpoint find_grp (name : string) (old : list top) : option (N * N * N) :=
  match old with
  | [] => None
  | TGrp id n nm s _ :: t =>
      match find_grp name t with
      | Some r => Some r
      | None => if String.eqb nm name then Some (id, n, s) else None
      end
  | TLeaf _ :: t => find_grp name t
  end.

Definition regroup (gby : string) (old : list top) (ls : list leaf) : list top :=
  flat_map (fun kv => match snd kv with
                      | [] => []
                      | _ => match find_grp (fst kv) old with
                             | Some (id, n, s) => [TGrp id n (fst kv) s (snd kv)]
                             | None => [TGrp 0 0 (fst kv) 0 (snd kv)]
                             end
                      end)
           (lgroup_buckets gby ls).

(** the tail of the Acl.items setter *)
Definition set_items (gby : string) (tops : list top) : list top :=
  if str_nonempty gby then regroup gby tops (flat tops) else tops.

Definition with_tops (a : acl) (tops : list top) : acl :=
  mkAcl (o_cfg a) (o_name a) (o_gby a) (o_id a) (o_note a) tops.

Definition op_group (gby : string) (a : acl) : acl :=
  if str_nonempty gby
  then mkAcl (o_cfg a) (o_name a) gby (o_id a) (o_note a) (regroup gby (o_tops a) (flat (o_tops a)))
  else a.

Definition op_ungroup (a : acl) : acl :=
  mkAcl (o_cfg a) (o_name a) "" (o_id a) (o_note a) (map TLeaf (flat (o_tops a))).

(** ** rebuilding an entry from its own text: Ace built from ace.data(uuid=True) under the flags of [c'],
    the text being rendered by the entry as it is ([c]) *)
Definition rebuild_leaf (c c' : cfg) (l : leaf) : res leaf :=
  match l with
  | LAce id n t => do r <- parse_ace_text c' (render_ace c t); Ok (LAce id n r)
  | LRem _ _ _ _ => Ok l
  end.

Definition rebuild_top (c c' : cfg) (t : top) : res top :=
  match t with
  | TLeaf l => do r <- rebuild_leaf c c' l; Ok (TLeaf r)
  | TGrp id n name s ls => do r <- map_res (rebuild_leaf c c') ls; Ok (TGrp id n name s r)
  end.

(** re-initialisation from self.data(uuid=True) of an Acl whose flags have just been set to [c'] *)
Definition reinit (c' : cfg) (a : acl) : res acl :=
  do tops <- map_res (rebuild_top (o_cfg a) c') (o_tops a);
  Ok (mkAcl c' (o_name a) (o_gby a) (o_id a) (o_note a) (set_items (o_gby a) tops)).

Definition with_port_nr (c : cfg) (b : bool) : cfg := mkCfg (plat c) (is15 c) b (protocol_nr c) (max_ncwb c).
Definition with_protocol_nr (c : cfg) (b : bool) : cfg := mkCfg (plat c) (is15 c) (port_nr c) b (max_ncwb c).
Definition with_plat (c : cfg) (p : platform) : cfg := mkCfg p (is15 c) (port_nr c) (protocol_nr c) (max_ncwb c).

Definition op_port_nr (b : bool) (a : acl) : res acl := reinit (with_port_nr (o_cfg a) b) a.
Definition op_protocol_nr (b : bool) (a : acl) : res acl := reinit (with_protocol_nr (o_cfg a) b) a.

(** acl.type = "extended": every entry is rebuilt by its own type setter, then the Acl by its own *)
Definition op_type_ext (a : acl) : res acl :=
  do a1 <- (do tops <- map_res (rebuild_top (o_cfg a) (o_cfg a)) (o_tops a); Ok (with_tops a tops));
  reinit (o_cfg a) a1.

(** Acl built from acl.data(uuid=True) *)
Definition op_import_uuid (a : acl) : res acl := reinit (o_cfg a) a.

(** acl.copy() = Acl built from acl.data(): new objects everywhere, the notes travel with the data *)
Definition fresh_top (t : top) : top :=
  match t with TLeaf l => TLeaf (fresh l) | TGrp _ n name s ls => TGrp 0 n name s (map fresh ls) end.
Definition op_copy (a : acl) : res acl :=
  do r <- reinit (o_cfg a) a;
  Ok (mkAcl (o_cfg r) (o_name r) (o_gby r) 0 (o_note r) (map fresh_top (o_tops r))).

(** Acl(acl.line, platform=, port_nr=, protocol_nr=): a new flat object from the text *)
Definition leaf_of_aitem (i : aitem) : leaf :=
  match i with AIAce t => LAce 0 0 t | AIRemark s x => LRem 0 0 s x end.
Definition op_reparse (a : acl) : res acl :=
  let c := o_cfg a in
  let cl := classify_all c (map (leaf_line c) (flat (o_tops a))) in
  if aborted cl then Abort
  else Ok (mkAcl c (o_name a) "" 0 0 (map (fun i => TLeaf (leaf_of_aitem i)) (items_of cl))).

(** ** ungroup_ports *)
Definition split_leaf (c : cfg) (l : leaf) : res (list leaf) :=
  match l with
  | LRem _ _ _ _ => Ok [l]
  | LAce id n t =>
      do r <- ungroup_ports (plat c) (is15 c) (t_ace t);
      if snd r then Ok [l]
      else Ok (map (fun a => LAce 0 n (mkTace (t_type_ext t) (t_seq t) a (t_option_line t))) (fst r))
  end.

Definition split_top (c : cfg) (t : top) : res (list top) :=
  match t with
  | TLeaf l => do r <- split_leaf c l; Ok (map TLeaf r)
  | TGrp id n name s ls => do r <- flat_map_res (split_leaf c) ls; Ok [TGrp id n name s r]
  end.

Definition op_ungroup_ports (a : acl) : res acl :=
  do tops <- flat_map_res (split_top (o_cfg a)) (o_tops a);
  Ok (with_tops a (set_items (o_gby a) tops)).

(** ** platform *)
Definition leaf_set_platform (c' : cfg) (l : leaf) : res leaf :=
  match l with
  | LAce id n t => do r <- ace_set_platform c' t; Ok (LAce id n r)
  | LRem _ _ _ _ => Ok l
  end.

(** AceGroup.platform setter inside an Acl (the ports are already ungrouped).  Towards nxos the
    entries after the first are re-labelled before they are converted (known finding N11): their
    text, still in the old spelling, is parsed under the new platform. *)
Definition grp_leaf_platform (c c' : cfg) (first : bool) (l : leaf) : res leaf :=
  let relabelled := match plat c' with Nxos => negb first | _ => false end in
  do l1 <- rebuild_leaf c (if relabelled then c' else c) l;     (* item.type = self._type *)
  leaf_set_platform c' l1.                                        (* item.platform = ... *)

Fixpoint grp_leaves_platform (c c' : cfg) (first : bool) (ls : list leaf) : res (list leaf) :=
  match ls with
  | [] => Ok []
  | l :: t => do r <- grp_leaf_platform c c' first l; do rs <- grp_leaves_platform c c' false t; Ok (r :: rs)
  end.

Definition top_set_platform (c c' : cfg) (t : top) : res top :=
  match t with
  | TLeaf l => do r <- leaf_set_platform c' l; Ok (TLeaf r)
  | TGrp id n name s ls =>
      do ls1 <- grp_leaves_platform c c' true ls;
      do ls2 <- map_res (rebuild_leaf c' c') ls1;       (* the group's own re-initialisation *)
      Ok (TGrp id n name s ls2)
  end.

Definition op_platform (p : platform) (a : acl) : res acl :=
  let c := o_cfg a in
  let c' := with_plat c p in
  do a1 <- (match p with Nxos => op_ungroup_ports a | _ => Ok a end);
  do tops <- map_res (top_set_platform c c') (o_tops a1);
  Ok (mkAcl c' (o_name a) (o_gby a) (o_id a) (o_note a) tops).

(** ** resequence *)
Definition set_leaf_seq (s : N) (l : leaf) : leaf :=
  match l with
  | LAce id n t => LAce id n (mkTace (t_type_ext t) s (t_ace t) (t_option_line t))
  | LRem id n _ x => LRem id n s x
  end.

(** numbering a list: (number of the last entry, renumbered list) *)
Fixpoint reseq_leaves (s step : N) (ls : list leaf) : N * list leaf :=
  match ls with
  | [] => (s, [])
  | [l] => (s, [set_leaf_seq s l])
  | l :: t => let r := reseq_leaves (s + step) step t in (fst r, set_leaf_seq s l :: snd r)
  end.

Definition seq_args_ok (start step : N) : option N :=
  if SEQUENCE_MAX <? start then None
  else if negb (start =? 0) && (step <? 1) then None
  else Some (if start =? 0 then 0 else step).

Fixpoint reseq_tops (s step : N) (tops : list top) : res (N * list top) :=
  match tops with
  | [] => Ok (s, [])
  | t :: rest =>
      do p <- (match t with
               | TLeaf l => Ok (s, TLeaf (set_leaf_seq s l))
               | TGrp id n name _ ls =>
                   match seq_args_ok s step with
                   | None => VErr
                   | Some step' =>
                       match ls with
                       | [] => Crash "RecursionError"
                       | _ => let r := reseq_leaves s step' ls in
                              if SEQUENCE_MAX <? fst r then VErr else Ok (fst r, TGrp id n name (fst r) (snd r))
                       end
                   end
               end);
      match rest with
      | [] => Ok (fst p, [snd p])
      | _ => do q <- reseq_tops (fst p + step) step rest; Ok (fst q, snd p :: snd q)
      end
  end.

Definition op_resequence (start step : N) (a : acl) : res acl :=
  match seq_args_ok start step with
  | None => VErr
  | Some step' =>
      do r <- reseq_tops start step' (o_tops a);
      if SEQUENCE_MAX <? fst r then VErr else Ok (with_tops a (snd r))
  end.

(** ** list operations on the top-level items *)
Fixpoint distinct (l : list N) : bool :=
  match l with [] => true | x :: t => negb (memN x t) && distinct t end.

Fixpoint insert_top (x : top) (l : list top) : list top :=
  match l with
  | [] => [x]
  | y :: t => if top_seq x <=? top_seq y then x :: l else y :: insert_top x t
  end.
Definition sort_tops (l : list top) : list top := fold_right insert_top [] l.

Definition op_sort (a : acl) : res acl :=
  if distinct (map top_seq (o_tops a)) then Ok (with_tops a (sort_tops (o_tops a)))
  else Crash "unmodelled: sort with equal sequence numbers".

Definition op_reverse (a : acl) : acl := with_tops a (rev (o_tops a)).

Definition op_pop (i : nat) (a : acl) : res acl :=
  if Nat.ltb i (List.length (o_tops a))
  then Ok (with_tops a (firstn i (o_tops a) ++ skipn (S i) (o_tops a)))
  else Crash "IndexError".

(** acl.insert(i, Ace(line, same platform and flags)) *)
Definition op_insert (i : nat) (line : string) (a : acl) : res acl :=
  do t <- parse_ace_text (o_cfg a) line;
  Ok (with_tops a (firstn i (o_tops a) ++ [TLeaf (LAce 0 0 t)] ++ skipn i (o_tops a))).

(** ** delete_shadow *)
Definition payload := (N * ace)%type.

Fixpoint index_leaves (i : N) (ls : list leaf) : list (N * leaf) :=
  match ls with [] => [] | l :: t => (i, l) :: index_leaves (i + 1) t end.

Definition sh_item (c : cfg) (il : N * leaf) : item payload :=
  match snd il with
  | LAce _ _ t => IAce (leaf_line c (snd il)) (fst il, t_ace t)
  | LRem _ _ _ _ => IRemark (leaf_line c (snd il))
  end.

Fixpoint pairs_error (pl : platform) (l : list payload) : bool :=
  match l with
  | [] => false
  | t :: rest =>
      existsb (fun b => match shadow_of pl false false (snd b) (snd t) with Ok _ => false | _ => true end) rest
      || pairs_error pl rest
  end.

Definition kept_ids (items : list (item payload)) : list N :=
  flat_map (fun i => match i with IAce _ p => [fst p] | IRemark _ => [] end) items.

Definition op_delete_shadow (a : acl) : res acl :=
  let c := o_cfg a in
  let ils := index_leaves 0 (flat (o_tops a)) in
  let items := map (sh_item c) ils in
  if pairs_error (plat c) (map snd (aces_of items)) then TErr
  else
    do r <- delete_shadow (shb (plat c) false false) items;
    match fst r with
    | [] => Ok a                                          (* nothing shadowed: untouched *)
    | _ =>
        let keep := kept_ids (snd r) in
        let ls := flat_map (fun il => match snd il with
                                      | LAce _ _ _ => if memN (fst il) keep then [fresh (snd il)] else []
                                      | LRem _ _ _ _ => [fresh (snd il)]
                                      end) ils in
        Ok (with_tops a (set_items (o_gby a) (map TLeaf ls)))
    end.

(** ** operations and histories *)
Inductive op :=
| OpPlatform (p : platform)
| OpPortNr (b : bool)
| OpProtocolNr (b : bool)
| OpTypeExt
| OpResequence (start step : N)
| OpGroup (gby : string)
| OpUngroup
| OpSort
| OpReverse
| OpInsert (i : nat) (line : string)
| OpPop (i : nat)
| OpCopy
| OpImportUuid
| OpReparse
| OpDeleteShadow
| OpUngroupPorts.

Definition step (a : acl) (o : op) : res acl :=
  match o with
  | OpPlatform p => op_platform p a
  | OpPortNr b => op_port_nr b a
  | OpProtocolNr b => op_protocol_nr b a
  | OpTypeExt => op_type_ext a
  | OpResequence s d => op_resequence s d a
  | OpGroup g => Ok (op_group g a)
  | OpUngroup => Ok (op_ungroup a)
  | OpSort => op_sort a
  | OpReverse => Ok (op_reverse a)
  | OpInsert i l => op_insert i l a
  | OpPop i => op_pop i a
  | OpCopy => op_copy a
  | OpImportUuid => op_import_uuid a
  | OpReparse => op_reparse a
  | OpDeleteShadow => op_delete_shadow a
  | OpUngroupPorts => op_ungroup_ports a
  end.

(** ** naming fresh objects in traversal order (the harness does the same on the real objects) *)
Definition relabel_leaf (st : N) (l : leaf) : N * leaf :=
  if leaf_id l =? 0 then
    (st + 1, match l with LAce _ n t => LAce st n t | LRem _ n s x => LRem st n s x end)
  else (st, l).

Fixpoint relabel_leaves (st : N) (ls : list leaf) : N * list leaf :=
  match ls with
  | [] => (st, [])
  | l :: t => let p := relabel_leaf st l in let q := relabel_leaves (fst p) t in (fst q, snd p :: snd q)
  end.

Fixpoint relabel_tops (st : N) (tops : list top) : N * list top :=
  match tops with
  | [] => (st, [])
  | TLeaf l :: t =>
      let p := relabel_leaf st l in let q := relabel_tops (fst p) t in (fst q, TLeaf (snd p) :: snd q)
  | TGrp id n name s ls :: t =>
      let st1 := if id =? 0 then st + 1 else st in
      let id1 := if id =? 0 then st else id in
      let p := relabel_leaves st1 ls in
      let q := relabel_tops (fst p) t in (fst q, TGrp id1 n name s (snd p) :: snd q)
  end.

(** [next]: the first unused name *)
Definition relabel (next : N) (a : acl) : N * acl :=
  let st1 := if o_id a =? 0 then next + 1 else next in
  let id1 := if o_id a =? 0 then next else o_id a in
  let p := relabel_tops st1 (o_tops a) in
  (fst p, mkAcl (o_cfg a) (o_name a) (o_gby a) id1 (o_note a) (snd p)).

(** notes: the harness gives note k to the object named k right after the first labelling *)
Definition note_leaf (l : leaf) : leaf :=
  match l with LAce i _ t => LAce i i t | LRem i _ s x => LRem i i s x end.
Definition note_all (a : acl) : acl :=
  mkAcl (o_cfg a) (o_name a) (o_gby a) (o_id a) (o_id a)
        (map (fun t => match t with
                       | TLeaf l => TLeaf (note_leaf l)
                       | TGrp i _ name s ls => TGrp i i name s (map note_leaf ls)
                       end) (o_tops a)).

(** Acl(text lines, cfg): the initial object *)
Definition init_acl (c : cfg) (name : string) (body : list string) : res acl :=
  let cl := classify_all c body in
  if aborted cl then Abort
  else Ok (mkAcl c name "" 0 0 (map (fun i => TLeaf (leaf_of_aitem i)) (items_of cl))).
