(** Acl.shading / Acl.shadow_of / Acl.delete_shadow on the ungrouped item list.
    An item carries its rendered line (the key Python compares) and, for an ACE, its payload. *)
From V Require Import base.Prelude base.Strs.

Section Shading.
  Variable A : Type.
  Variable sh : A -> A -> bool.          (* sh bottom top = bottom.shadow_of(top, skip) *)

  Inductive item :=
  | IAce (line : string) (a : A)
  | IRemark (line : string).

  Definition item_line (i : item) : string :=
    match i with IAce l _ => l | IRemark l => l end.

  Definition aces_of (items : list item) : list (string * A) :=
    flat_map (fun i => match i with IAce l a => [(l, a)] | IRemark _ => [] end) items.

  Definition dict := list (string * list string).

  (** shading_d.setdefault(k, []).append(v) *)
  Fixpoint dict_append (k v : string) (d : dict) : dict :=
    match d with
    | [] => [(k, [v])]
    | (k', vs) :: t => if String.eqb k k' then (k', vs ++ [v]) :: t else (k', vs) :: dict_append k v t
    end.

  Definition set_add (x : string) (s : list string) : list string :=
    if mem_str x s then s else x :: s.

  Fixpoint shading_inner (top : string * A) (bots : list (string * A)) (d : dict) (shadow : list string)
    : dict * list string :=
    match bots with
    | [] => (d, shadow)
    | bt :: rest =>
        if sh (snd bt) (snd top)
        then shading_inner top rest
               (if mem_str (fst bt) shadow then d else dict_append (fst top) (fst bt) d)
               (set_add (fst bt) shadow)
        else shading_inner top rest d shadow
    end.

  Fixpoint shading_outer (aces : list (string * A)) (d : dict) (shadow : list string) : dict :=
    match aces with
    | [] => d
    | top :: rest => let r := shading_inner top rest d shadow in shading_outer rest (fst r) (snd r)
    end.

  (** Acl.shading(skip) *)
  Definition shading (items : list item) : dict := shading_outer (aces_of items) [] [].

  (** Acl.shadow_of(skip): the values, flattened *)
  Definition shadow_list (d : dict) : list string := flat_map snd d.

  (** index of the first item whose line is [k] *)
  Fixpoint index_of (k : string) (lines : list string) : option nat :=
    match lines with
    | [] => None
    | x :: t => if String.eqb x k then Some O
                else match index_of k t with Some n => Some (S n) | None => None end
    end.

  (** one iteration of the delete loop: [lines] is the line list of the ORIGINAL items *)
  Definition delete_step (lines : list string) (st : list item * list string) (top : string)
    : res (list item * list string) :=
    match index_of top lines with
    | None => VErr                                 (* list.index raises ValueError *)
    | Some i =>
        let items := fst st in let shadow := snd st in
        let items_top := firstn (S i) items in
        let items_bot := filter (fun o => negb (mem_str (item_line o) shadow)) (skipn (S i) items) in
        Ok (items_top ++ items_bot, filter (fun s => negb (String.eqb top s)) shadow)
    end.

  Fixpoint delete_loop (lines : list string) (st : list item * list string) (tops : list string)
    : res (list item * list string) :=
    match tops with
    | [] => Ok st
    | t :: rest => do st' <- delete_step lines st t; delete_loop lines st' rest
    end.

  (** Acl.delete_shadow(skip) on the ungrouped items: (report, remaining items) *)
  Definition delete_shadow (items : list item) : res (dict * list item) :=
    let d := shading items in
    match d with
    | [] => Ok ([], items)
    | _ =>
        do st <- delete_loop (map item_line items) (items, shadow_list d) (rev (map fst d));
        Ok (d, fst st)
    end.
End Shading.

Arguments IAce {A} line a.
Arguments IRemark {A} line.
Arguments item_line {A} i.
Arguments aces_of {A} items.
Arguments shading {A} sh items.
Arguments shadow_list d.
Arguments delete_shadow {A} sh items.
