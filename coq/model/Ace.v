(** The ACE object (fields after the line has been split) and Ace.shadow_of. *)
From V Require Import base.Prelude base.Strs gen.Tables model.Cfg model.Names model.Wildcard
  model.Addr model.Ports.
Local Open Scope N_scope.

Record ace := mkAce {
  a_permit : bool;
  a_proto : N;
  a_src : addr;
  a_dst : addr;
  a_sport : port;
  a_dport : port;
  a_flags : list string;     (* Option.flags: every option token that is not a log keyword *)
  a_logs : list string
}.

Definition proto_ctx (pl : platform) (v15 : bool) (proto : N) : pctx :=
  let nm := proto_name pl proto in
  if String.eqb nm "tcp" then Some (Tcp, pl, v15)
  else if String.eqb nm "udp" then Some (Udp, pl, v15) else None.

Definition lower_first (s : string) : bool :=
  match s with
  | String c _ => let n := N_of_ascii c in N.leb 97 n && N.leb n 122
  | EmptyString => false
  end.

(** Option.line setter on tokens *)
Definition parse_option (toks : list string) : res (list string * list string) :=
  if forallb lower_first toks
  then Ok (filter (fun s => negb (mem_str s LOGS)) toks, filter (fun s => mem_str s LOGS) toks)
  else VErr.

(** Ace.line setter after the fields have been split: the order of the constructor calls is the
    order in which errors surface *)
Definition build_ace (pl : platform) (v15 : bool) (limit : Z) (permit : bool) (proto : N)
           (src dst : spelling) (sp dp opts : list string) : res ace :=
  do s <- addr_of_spelling pl limit src;
  do d <- addr_of_spelling pl limit dst;
  let c := proto_ctx pl v15 proto in
  do p1 <- parse_port pl c sp;
  do p2 <- parse_port pl c dp;
  do o <- parse_option opts;
  Ok (mkAce permit proto s d p1 p2 (fst o) (snd o)).

(** ** shadow_of *)
Fixpoint subset_sorted_aux (fuel : nat) (a b : list N) : bool :=
  match fuel with
  | O => match a with [] => true | _ => false end
  | S f =>
      match a, b with
      | [], _ => true
      | _ :: _, [] => false
      | x :: a', y :: b' =>
          if N.eqb x y then subset_sorted_aux f a' b
          else if N.ltb y x then subset_sorted_aux f a b' else false
      end
  end.
(** set(bottom).issubset(set(top)) on the sorted port lists *)
Definition subset_sorted (a b : list N) : bool :=
  subset_sorted_aux (List.length a + List.length b) a b.

Definition has_op (p : port) : bool := match p_op p with Some _ => true | None => false end.

Definition shadow_port (bottom top : port) : bool :=
  if has_op top then
    if has_op bottom then subset_sorted (p_ports bottom) (p_ports top)
    else Nat.eqb (List.length (dedup_sorted (p_ports top))) (N.to_nat 65535)
  else true.

Definition shadow_flags (bottom top : list string) : bool :=
  match top with
  | [] => true
  | _ => match bottom with
         | [] => false
         | _ => forallb (fun f => mem_str f top) bottom
         end
  end.

Definition atype_eqb (a b : atype) : bool :=
  match a, b with
  | TAny, TAny | THost, THost | TPrefix, TPrefix | TSubnet, TSubnet | TWildcard, TWildcard
  | TGroup, TGroup => true
  | _, _ => false
  end.

Definition has_ipnet (a : addr) : bool := match addr_ipnet a with Some _ => true | None => false end.

(** _shadow_of__srcaddr / _shadow_of__dstaddr *)
Definition shadow_addr (skip_group skip_nc : bool) (bottom top : addr) : res bool :=
  if skip_group && (atype_eqb (addr_type bottom) TGroup || atype_eqb (addr_type top) TGroup)
  then Ok false
  else if skip_nc && (atype_eqb (addr_type bottom) TWildcard || atype_eqb (addr_type top) TWildcard)
               && negb (has_ipnet bottom && has_ipnet top)
  then Ok false
  else addr_subnet_of bottom top.

Definition shadow_proto (pl : platform) (bottom top : ace) : bool :=
  String.eqb (proto_name pl (a_proto top)) "ip" || N.eqb (a_proto top) (a_proto bottom).

(** Ace.shadow_of(other=top, skip) with self = bottom *)
Definition shadow_of (pl : platform) (skip_group skip_nc : bool) (bottom top : ace) : res bool :=
  if negb (Bool.eqb (a_permit bottom) (a_permit top)) then Ok false
  else if negb (shadow_proto pl bottom top) then Ok false
  else
    do s <- shadow_addr skip_group skip_nc (a_src bottom) (a_src top);
    if negb s then Ok false
    else
      do d <- shadow_addr skip_group skip_nc (a_dst bottom) (a_dst top);
      if negb d then Ok false
      else Ok (shadow_port (a_sport bottom) (a_sport top)
               && shadow_port (a_dport bottom) (a_dport top)
               && shadow_flags (a_flags bottom) (a_flags top)).

(** boolean view used by the ACL-level algorithms (an exception aborts the whole call there) *)
Definition shb (pl : platform) (sg snc : bool) (b t : N * ace) : bool :=
  match shadow_of pl sg snc (snd b) (snd t) with Ok true => true | _ => false end.
