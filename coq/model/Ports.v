(** Model of port.py (operators, the three writable views) and of the range-string codec of
    helpers.py.  Port numbers are N; the port universe is 1..65535. *)
From V Require Import base.Prelude base.Strs gen.Tables model.Cfg model.Names.
From Coq Require Import Sorting.Mergesort Orders.
Local Open Scope N_scope.

Module NOrder <: TotalLeBool.
  Definition t := N.
  Definition leb := N.leb.
  Theorem leb_total : forall a1 a2, leb a1 a2 = true \/ leb a2 a1 = true.
  Proof. intros a b. unfold leb. destruct (N.leb_spec a b), (N.leb_spec b a); auto; lia. Qed.
End NOrder.
Module NSort := Sort NOrder.
Definition sortN (l : list N) : list N := NSort.sort l.   (* Python sorted() on ints *)

Definition PORT_MAX : N := 65535.
Definition all_ports : list N := seqN 1 (N.to_nat 65535).

Inductive pop := Eq | Gt | Lt | Neq | Range.
Definition pop_name (o : pop) : string :=
  match o with Eq => "eq" | Gt => "gt" | Lt => "lt" | Neq => "neq" | Range => "range" end.
Definition pop_of_string (s : string) : option pop :=
  if String.eqb s "eq" then Some Eq else if String.eqb s "gt" then Some Gt
  else if String.eqb s "lt" then Some Lt else if String.eqb s "neq" then Some Neq
  else if String.eqb s "range" then Some Range else None.

(** ** ports_to_string: maximal runs ("item_next - item <= 1" also glues duplicates) *)
Definition render_run (first : option N) (x : N) : string :=
  match first with None => dec x | Some f => (dec f ++ "-" ++ dec x)%string end.

Fixpoint runs_aux (first : option N) (l : list N) : list string :=
  match l with
  | [] => []
  | x :: t =>
      match t with
      | [] => [render_run first x]
      | y :: _ =>
          if N.leb (y - x) 1
          then runs_aux (Some (match first with None => x | Some f => f end)) t
          else render_run first x :: runs_aux None t
      end
  end.

Definition ports_to_string (l : list N) : string := join "," (runs_aux None (sortN l)).

(** ** string_to_ports *)
Fixpoint split_on_aux (c : ascii) (s : string) (cur : string) : list string :=
  match s with
  | EmptyString => [cur]
  | String a s' =>
      if Ascii.eqb a c then cur :: split_on_aux c s' EmptyString
      else split_on_aux c s' (cur ++ String a EmptyString)%string
  end.
Definition split_on (c : ascii) (s : string) : list string := split_on_aux c s EmptyString.

Fixpoint dedup_sorted (l : list N) : list N :=
  match l with
  | [] => []
  | x :: t => match t with
              | [] => [x]
              | y :: _ => if N.eqb x y then dedup_sorted t else x :: dedup_sorted t
              end
  end.

Definition range_incl (a b : N) : list N := seqN a (N.to_nat (b + 1 - a)).  (* range(a, b+1) *)

Definition value_ports (v : string) : list N :=
  match undec v with
  | Some n => [n]
  | None =>
      match split_on "-" v with
      | [a; b] => match undec a, undec b with
                  | Some x, Some y => range_incl x y
                  | _, _ => []
                  end
      | _ => []
      end
  end.

Definition string_to_ports (s : string) : list N :=
  let values := filter str_nonempty (split_on "," s) in
  let all := flat_map value_ports values in
  dedup_sorted (sortN (filter (fun i => N.leb 1 i && N.leb i 65535) all)).

(** ** the Port object *)
Record port := mkPort {
  p_op : option pop;
  p_items : list N;
  p_ports : list N;
  p_sport : string
}.
Definition empty_port : port := mkPort None [] [] "".

(** which (protocol, platform, version) the port belongs to: [None] when the protocol is not
    tcp/udp (names cannot be resolved then: PortName("") raises ValueError) *)
Definition pctx := option (l4 * platform * bool)%type.
Definition ctx_table (c : pctx) : option (list (string * N)) :=
  match c with Some (p, pl, v15) => Some (names_table p pl v15) | None => None end.
Definition ctx_platform_single (pl : platform) : bool :=
  match pl with Ios => false | _ => true end.

Fixpoint items_to_ints (tbl : option (list (string * N))) (items : list string) : res (list N) :=
  match items with
  | [] => Ok []
  | it :: t =>
      do n <- match undec it with
              | Some n => Ok n
              | None => match tbl with Some tb => parse_port_item tb it | None => VErr end
              end;
      do r <- items_to_ints tbl t; Ok (n :: r)
  end.

Definition items_to_ports (o : pop) (items : list N) : res (list N) :=
  match o with
  | Eq => Ok items
  | Range => match items with
             | [a; b] => Ok (range_incl a b)
             | _ => Crash "IndexError"
             end
  | Neq => Ok (filter (fun i => negb (memN i items)) all_ports)
  | Gt => match items with x :: _ => Ok (filter (fun i => N.ltb x i) all_ports) | [] => Crash "IndexError" end
  | Lt => match items with x :: _ => Ok (filter (fun i => N.ltb i x) all_ports) | [] => Crash "IndexError" end
  end.

(** Port.line setter on the token list of the (whitespace-normalised) line *)
Definition parse_port (pl : platform) (c : pctx) (toks : list string) : res port :=
  match toks with
  | [] => Ok empty_port
  | o :: items =>
      match pop_of_string o with
      | None => VErr
      | Some op =>
          match items with
          | [] => VErr
          | _ =>
              do ints <- items_to_ints (ctx_table c) items;
              let n := List.length ints in
              let bad :=
                match op with
                | Lt | Gt => negb (Nat.eqb n 1%nat)
                | Range => negb (Nat.eqb n 2%nat)
                | Eq | Neq => ctx_platform_single pl && negb (Nat.eqb n 1%nat)
                end in
              if bad then VErr
              else let its := sortN ints in
                   do ps <- items_to_ports op its;
                   Ok (mkPort (Some op) its ps (ports_to_string ps))
          end
      end
  end.

(** Port.line getter *)
Definition render_port (nr : bool) (c : pctx) (p : port) : list string :=
  match p_op p, p_items p, c with
  | Some op, _ :: _, Some (pr, pl, v15) =>
      pop_name op :: map (render_port_item nr (names_table pr pl v15)) (p_items p)
  | _, _, _ => []
  end.

(** ** the three writable views *)
Definition op_token (p : port) : list string :=
  match p_op p with Some o => [pop_name o] | None => [] end.

(** [items] setter: line = operator + str(items) *)
Definition set_items (pl : platform) (c : pctx) (p : port) (items : list N) : res port :=
  match p_op p, items with
  | None, _ :: _ => VErr          (* "1 2": the first number is not an operator *)
  | _, _ => parse_port pl c (op_token p ++ map dec items)
  end.

(** strictly increasing list inside 1..65535: what list.remove() needs for "neq" *)
Fixpoint strictly_inc_from (lo : N) (l : list N) : bool :=
  match l with
  | [] => true
  | x :: t => N.ltb lo x && N.leb x 65535 && strictly_inc_from x t
  end.

Fixpoint complement_from (cur : N) (fuel : nat) (l : list N) : list N :=
  match fuel with
  | O => []
  | S f =>
      match l with
      | x :: t => if N.eqb x cur then complement_from (N.succ cur) f t
                  else cur :: complement_from (N.succ cur) f l
      | [] => cur :: complement_from (N.succ cur) f []
      end
  end.

(** _ports_to_items *)
Definition ports_to_items (o : pop) (ports : list N) : res (list N) :=
  match o with
  | Eq => Ok ports
  | Range => match ports with
             | [] => Crash "IndexError"
             | x :: _ => Ok [x; last ports x]
             end
  | Neq =>
      (* items = [1..65535]; items.remove(port) for each port: ValueError when absent *)
      let s := sortN ports in
      if strictly_inc_from 0 s then Ok (complement_from 1 (N.to_nat 65535) s) else VErr
  | Gt => match ports with x :: _ => Ok [x - 1] | [] => Ok [65535] end
  | Lt => match ports with [] => Ok [1] | x :: _ => Ok [last ports x + 1] end
  end.

Definition set_ports (pl : platform) (c : pctx) (p : port) (ports : list N) : res port :=
  match p_op p with
  | None => VErr                       (* _ports_to_items: "invalid port operator" *)
  | Some o => do its <- ports_to_items o ports; set_items pl c p its
  end.

Definition set_sport (pl : platform) (c : pctx) (p : port) (s : string) : res port :=
  set_ports pl c p (string_to_ports s).
