(** Model of functions.range_ports / _split_range_for_ace / range_protocols. *)
From V Require Import base.Prelude base.Strs gen.Tables model.Cfg model.Names model.Ports.
Local Open Scope N_scope.

(** one comma-separated item of the request *)
Inductive rtok := RNum (n : N) | RRange (a b : N) | REmpty.

(** what goes on one generated line: a list of single ports, or one range *)
Inductive chunk := CNums (l : list N) | CRange (a b : N).

Definition flush (cur : list N) : list chunk := match cur with [] => [] | _ => [CNums cur] end.

(** the for-else loop of _split_range_for_ace (port_count >= 1 in range_ports) *)
Fixpoint split_aux (count : nat) (policy : bool) (toks : list rtok) (cur : list N) : list chunk :=
  match toks with
  | [] => flush cur
  | RNum n :: t =>
      if Nat.eqb count 0 then split_aux count policy t (cur ++ [n])
      else if Nat.leb count (List.length cur) then CNums cur :: split_aux count policy t [n]
      else split_aux count policy t (cur ++ [n])
  | RRange a b :: t =>
      flush cur ++ (if policy then [CRange a b] else [CNums (range_incl a b)])
            ++ split_aux count policy t []
  | REmpty :: t => flush cur ++ split_aux count policy t []
  end.

Definition chunk_ports (c : chunk) : list N :=
  match c with CNums l => l | CRange a b => range_incl a b end.

(** vlist.to_multi: consecutive pieces of [count] elements *)
Fixpoint chunks_of_aux (fuel count : nat) (l : list N) : list (list N) :=
  match fuel with
  | O => []
  | S f => match l with
           | [] => []
           | _ => firstn count l :: chunks_of_aux f count (skipn count l)
           end
  end.
Definition chunks_of (count : nat) (l : list N) : list (list N) :=
  chunks_of_aux (List.length l) count l.

Definition split_range (count : nat) (policy : bool) (toks : list rtok) : list chunk :=
  let items := split_aux count policy toks [] in
  if policy then items
  else
    let flat := concat (map chunk_ports items) in
    if Nat.eqb count 0 then [CNums flat] else map CNums (chunks_of count flat).

(** the port expression written on the generated side: the template's operator if it has one,
    otherwise eq / range by the shape of the chunk *)
Definition chunk_tokens (template_op : option pop) (c : chunk) : list string :=
  let body := match c with
              | CNums l => map dec l
              | CRange a b => match template_op with
                              | None => [dec a; dec b]                 (* "a-b" -> "a b" *)
                              | Some _ => [(dec a ++ "-" ++ dec b)%string]
                              end
              end in
  let op := match template_op with
            | Some o => pop_name o
            | None => match c with CNums _ => "eq" | CRange _ _ => "range" end
            end in
  op :: body.

(** range_ports for one side: the generated Port objects (errors abort the call) *)
Fixpoint gen_ports (pl : platform) (c : pctx) (template_op : option pop) (chunks : list chunk)
  : res (list port) :=
  match chunks with
  | [] => Ok []
  | ch :: t => do p <- parse_port pl c (chunk_tokens template_op ch);
               do r <- gen_ports pl c template_op t; Ok (p :: r)
  end.

(** _check_operator_eq_range: the template may only carry eq / neq / range *)
Definition template_op_ok (o : option pop) : bool :=
  match o with Some Gt | Some Lt => false | _ => true end.
