(** Model of address_base.py / address.py / address_ag.py at the numeric level: address kinds,
    network expansion, containment (helpers.subnet_of, __contains__). *)
From V Require Import base.Prelude gen.Tables model.Cfg model.Wildcard.
Local Open Scope N_scope.

Inductive atype := TAny | THost | TPrefix | TSubnet | TWildcard | TGroup.
Definition atype_name (t : atype) : string :=
  match t with TAny => "any" | THost => "host" | TPrefix => "prefix" | TSubnet => "subnet"
             | TWildcard => "wildcard" | TGroup => "addrgroup" end.

(** An address: either a single Wildcard object (any/host/prefix/subnet/wildcard) or a named
    group with members; a member of a group is a Wildcard or a nested group ([None]). *)
Inductive addr :=
| ASingle (ty : atype) (w : wild)
| AGroup (name : string) (items : list (option wild)).

Definition addr_type (a : addr) : atype :=
  match a with ASingle ty _ => ty | AGroup _ _ => TGroup end.
Definition addr_ipnet (a : addr) : option net :=
  match a with ASingle _ w => w_ipnet w | AGroup _ _ => None end.

(** Wildcard.ipnets() of an already built object *)
Definition wild_ipnets (w : wild) : list net := ipnets_of (w_prefix w) (w_ncwb w) (w_plen w).

Fixpoint members_ipnets (items : list (option wild)) : res (list net) :=
  match items with
  | [] => Ok []
  | Some w :: t => do r <- members_ipnets t; Ok (wild_ipnets w ++ r)
  | None :: _ => TErr          (* "Wildcard expected": nested group-object member *)
  end.

(** AddressBase.ipnets() *)
Definition addr_ipnets (a : addr) : res (list net) :=
  match a with
  | ASingle _ w => match w_ipnet w with Some n => Ok [n] | None => Ok (wild_ipnets w) end
  | AGroup _ items => members_ipnets items
  end.

(** IPv4Network.subnet_of: other.first <= self.first and other.last >= self.last *)
Definition net_first (n : net) : N := fst n.
Definition net_last (n : net) : N := fst n + 2 ^ N.of_nat (W - snd n) - 1.
Definition net_subnet_of (a b : net) : bool :=
  N.leb (net_first b) (net_first a) && N.leb (net_last a) (net_last b).

(** helpers.subnet_of(tops, bottoms) *)
Definition subnet_of_nets (tops bottoms : list net) : bool :=
  match tops, bottoms with
  | [], _ | _, [] => false
  | _, _ => forallb (fun bt => existsb (net_subnet_of bt) tops) bottoms
  end.

(** Address.subnet_of(other): self is the bottom *)
Definition addr_subnet_of (bottom top : addr) : res bool :=
  do tops <- addr_ipnets top; do bottoms <- addr_ipnets bottom;
  Ok (subnet_of_nets tops bottoms).

(** AddressBase.__contains__ : [other in self] for two members (single networks only) *)
Definition addr_contains (self other : addr) : res bool :=
  match addr_ipnet self with
  | None => TErr
  | Some sn =>
      match addr_ipnet other with
      | Some on => Ok (net_subnet_of on sn)
      | None => TErr      (* no ipnet and no member list: "type AddressAg expected" *)
      end
  end.

(** AddrGroup.__contains__(member): equal to an item, or inside one *)
Definition wild_line_eqb (a b : wild) : bool :=
  N.eqb (w_prefix a) (w_prefix b) && N.eqb (w_mask a) (w_mask b).

Fixpoint group_contains (items : list addr) (other : addr) : res bool :=
  match items with
  | [] => Ok false
  | it :: t =>
      do b <- addr_contains it other;
      if b then Ok true else group_contains t other
  end.

Definition addr_eqb (a b : addr) : bool :=
  match a, b with
  | ASingle _ x, ASingle _ y => wild_line_eqb x y
  | AGroup n _, AGroup m _ => String.eqb n m
  | _, _ => false
  end.

Definition addrgroup_contains (items : list addr) (other : addr) : res bool :=
  if existsb (addr_eqb other) items then Ok true else group_contains items other.

(** ** Address.line setter on an already lexed spelling (class Address: an ACE address) *)
Inductive spelling :=
| SAny
| SHost (a : N)
| SPrefix (a : N) (len : nat)
| SWild (a m : N)
| SGroup (name : string) (items : list (option wild)).

Definition is_any_net (o : option net) : bool :=
  match o with Some (p, len) => N.eqb p 0 && Nat.eqb len 0 | None => false end.
Definition is_host_net (o : option net) : bool :=
  match o with Some (_, len) => Nat.eqb len 32 | None => false end.

Definition addr_of_spelling (pl : platform) (limit : Z) (sp : spelling) : res addr :=
  match sp with
  | SAny => do w <- new_wild limit 0 ALL_ONES; Ok (ASingle TAny w)
  | SHost a => do w <- new_wild limit a 0; Ok (ASingle THost w)
  | SPrefix a len =>
      (* prefix_to_ipnet: host bits are cleared with a warning; /33 is NetmaskValueError *)
      if Nat.ltb W len then Abort
      else
        do w <- new_wild limit (N.land a (netmask len)) (hostmask len);
        let ty := if Nat.eqb len 32 then THost
                  else match pl with
                       | Nxos => if is_any_net (w_ipnet w) then TAny else TPrefix
                       | Ios => TWildcard
                       | Asa => TPrefix
                       end in
        Ok (ASingle ty w)
  | SWild a m =>
      do w <- new_wild limit a m;
      let ty := if is_host_net (w_ipnet w) then THost
                else if is_any_net (w_ipnet w) then TAny
                else match w_ipnet w, pl with
                     | Some _, Nxos => TPrefix
                     | _, _ => TWildcard
                     end in
      Ok (ASingle ty w)
  | SGroup name items => Ok (AGroup name items)
  end.

(** ** AddressAg.line setter (a member of an address group); IOS members carry subnet masks *)
Definition subnet_member (limit : Z) (a m : N) : res addr :=
  (* _line__subnet: "0.0.0.0 0.0.0.0" is denied on IOS; otherwise Wildcard.fsubnet *)
  if N.eqb a 0 && N.eqb m 0 then VErr
  else do w <- fsubnet limit a m;
       Ok (ASingle (if is_host_net (w_ipnet w) then THost else TSubnet) w).

Definition addrag_of_spelling (pl : platform) (limit : Z) (sp : spelling) : res addr :=
  match sp with
  | SAny =>
      match pl with
      | Nxos => do w <- new_wild limit 0 ALL_ONES; Ok (ASingle TPrefix w)
      | _ => VErr
      end
  | SHost a => do w <- new_wild limit a 0; Ok (ASingle THost w)
  | SPrefix a len =>
      if Nat.ltb W len then Abort
      else if Nat.eqb len 32 then do w <- new_wild limit a 0; Ok (ASingle THost w)
      else match pl with
           | Ios => subnet_member limit (N.land a (netmask len)) (netmask len)
           | Nxos => do w <- new_wild limit (N.land a (netmask len)) (hostmask len);
                     Ok (ASingle TPrefix w)
           | Asa => do w <- new_wild limit (N.land a (netmask len)) (hostmask len);
                    Ok (ASingle TAny w)    (* neither branch runs: stale type, never used *)
           end
  | SWild a m =>
      match pl with
      | Nxos =>
          do w <- new_wild limit a m;
          let ty := if is_host_net (w_ipnet w) then THost
                    else match w_ipnet w with Some _ => TPrefix | None => TWildcard end in
          Ok (ASingle ty w)
      | _ => subnet_member limit a m
      end
  | SGroup name items =>
      match pl with Nxos => VErr | _ => Ok (AGroup name items) end
  end.
