(** Model of address_base.collapse_ on networks (address, prefix length). *)
From V Require Import base.Prelude gen.Tables model.Cfg model.Wildcard model.Addr.
Local Open Scope N_scope.

Definition net_eqb (a b : net) : bool := N.eqb (fst a) (fst b) && Nat.eqb (snd a) (snd b).
Definition net_mem (n : net) (l : list net) : bool := existsb (net_eqb n) l.

(** IPv4Network.supernet(): one bit shorter, the lowest network bit cleared; /0 is its own *)
Definition supernet (n : net) : net :=
  match snd n with
  | O => n
  | S l' => (N.clearbit (fst n) (N.of_nat (W - snd n)), l')
  end.

(** the two halves of a network ([subnets()]); for a /32 there is only the network itself *)
Definition halves (n : net) : list net :=
  if Nat.ltb (snd n) W
  then [(fst n, S (snd n)); (N.setbit (fst n) (N.of_nat (W - S (snd n))), S (snd n))]
  else [n].

(** the while loop: [work] is the list, popped from the end *)
Fixpoint collapse_loop (fuel : nat) (work acc : list net) : option (list net) :=
  match fuel with
  | O => None
  | S f =>
      match rev work with
      | [] => Some acc
      | n :: rest_rev =>
          let rest := rev rest_rev in
          if existsb (net_subnet_of n) rest then collapse_loop f rest acc
          else
            let sup := supernet n in
            if forallb (fun h => net_mem h (n :: rest)) (halves sup)
            then collapse_loop f (if net_mem sup rest then rest else sup :: rest) acc
            else collapse_loop f rest (acc ++ [n])
      end
  end.

Definition work_measure (l : list net) : nat := fold_right (fun n a => S (snd n) + a)%nat 0%nat l.

(** IPv4Network ordering: by network address, then by netmask *)
Definition net_leb (a b : net) : bool :=
  N.ltb (fst a) (fst b) || (N.eqb (fst a) (fst b) && Nat.leb (snd a) (snd b)).
Fixpoint insert_net (x : net) (l : list net) : list net :=
  match l with [] => [x] | y :: t => if net_leb x y then x :: l else y :: insert_net x t end.
Definition sort_nets (l : list net) : list net := fold_right insert_net [] l.

(** collapse_ on the networks of the given addresses: TypeError for a non-contiguous wildcard *)
Definition collapse_nets (nets : list net) : option (list net) :=
  match collapse_loop (2 * S (work_measure nets) + 2) nets [] with
  | Some r => Some (sort_nets r)
  | None => None
  end.

Definition addr_is_nc (a : addr) : bool :=
  match a with
  | ASingle TWildcard w => match w_ipnet w with Some _ => false | None => true end
  | _ => false
  end.

Fixpoint all_ipnets (l : list addr) : res (list net) :=
  match l with
  | [] => Ok []
  | a :: t => do x <- addr_ipnets a; do r <- all_ipnets t; Ok (x ++ r)
  end.

Definition collapse_addrs (l : list addr) : res (list net) :=
  match l with
  | [] => Ok []
  | _ =>
      if existsb addr_is_nc l then TErr
      else do nets <- all_ipnets l;
           match collapse_nets nets with Some r => Ok r | None => Crash "fuel" end
  end.
