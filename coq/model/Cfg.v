(** Platform / version / switches: the configuration every object carries. *)
From V Require Import base.Prelude.

Inductive platform := Asa | Ios | Nxos.
Definition platform_eqb (a b : platform) : bool :=
  match a, b with Asa, Asa | Ios, Ios | Nxos, Nxos => true | _, _ => false end.
Lemma platform_eqb_eq a b : platform_eqb a b = true <-> a = b.
Proof. destruct a, b; cbn; split; congruence. Qed.

Definition platform_name (p : platform) : string :=
  match p with Asa => "asa" | Ios => "ios" | Nxos => "nxos" end.
Definition all_platforms := [Asa; Ios; Nxos].

(** The version only matters through [SwVersion(version).major == 15] (port_name.py). *)
Record cfg := mkCfg {
  plat : platform;
  is15 : bool;        (* version.major == 15 *)
  port_nr : bool;
  protocol_nr : bool;
  max_ncwb : nat
}.
