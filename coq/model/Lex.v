(** Text layer: whitespace normalisation, IPv4 dotted quads, prefix text (ASCII only). *)
From V Require Import base.Prelude base.Strs gen.Tables model.Wildcard.
Local Open Scope N_scope.

(** Python str.split() on ASCII whitespace: 9..13, 28..31, 32 *)
Definition is_ws (c : ascii) : bool :=
  let n := N_of_ascii c in
  (N.leb 9 n && N.leb n 13) || (N.leb 28 n && N.leb n 32).

Fixpoint split_ws_aux (s : string) (cur : string) : list string :=
  match s with
  | EmptyString => if str_nonempty cur then [cur] else []
  | String c s' =>
      if is_ws c then (if str_nonempty cur then cur :: split_ws_aux s' "" else split_ws_aux s' "")
      else split_ws_aux s' (cur ++ String c "")%string
  end.
Definition split_ws (s : string) : list string := split_ws_aux s "".

(** helpers.init_line / replace_spaces: " ".join(line.split()) *)
Definition init_line (s : string) : string := join " " (split_ws s).

(** line.split("\n") *)
Fixpoint split_lines_aux (s cur : string) : list string :=
  match s with
  | EmptyString => [cur]
  | String c s' => if Ascii.eqb c "010" then cur :: split_lines_aux s' ""
                   else split_lines_aux s' (cur ++ String c "")%string
  end.
Definition split_lines (s : string) : list string := split_lines_aux s "".

Fixpoint split_char_aux (ch : ascii) (s cur : string) : list string :=
  match s with
  | EmptyString => [cur]
  | String c s' => if Ascii.eqb c ch then cur :: split_char_aux ch s' ""
                   else split_char_aux ch s' (cur ++ String c "")%string
  end.
Definition split_char (ch : ascii) (s : string) : list string := split_char_aux ch s "".

(** ** IPv4 text (ipaddress.IPv4Address): four decimal octets, 1..3 ASCII digits each, no leading
    zero, value <= 255 *)
Definition parse_octet (s : string) : option N :=
  match undec s with
  | Some n =>
      if Nat.leb (String.length s) 3
         && (Nat.eqb (String.length s) 1 || negb (starts_with "0" s))
         && N.leb n 255 then Some n else None
  | None => None
  end.

Definition parse_ip (s : string) : option N :=
  match split_char "." s with
  | [a; b; c; d] =>
      match parse_octet a, parse_octet b, parse_octet c, parse_octet d with
      | Some x, Some y, Some z, Some w => Some (x * 16777216 + y * 65536 + z * 256 + w)
      | _, _, _, _ => None
      end
  | _ => None
  end.

Definition render_ip (n : N) : string :=
  (dec (n / 16777216 mod 256) ++ "." ++ dec (n / 65536 mod 256) ++ "." ++
   dec (n / 256 mod 256) ++ "." ++ dec (n mod 256))%string.

(** the regex \d+\.\d+\.\d+\.\d+ on a whole token ([OCTETS], no range check) *)
Definition is_octets (s : string) : bool :=
  match split_char "." s with
  | [a; b; c; d] => is_digits a && is_digits b && is_digits c && is_digits d
  | _ => false
  end.

(** the part of an IPv4Network string after "/": a prefix length (ASCII digits, <= 32) or a
    dotted net mask / host mask *)
Inductive masktxt := MLen (n : nat) | MBad.   (* MBad = NetmaskValueError *)
Definition parse_masklen (s : string) : masktxt :=
  match undec s with
  | Some n => if N.leb n 32 then MLen (N.to_nat n) else MBad
  | None =>
      match parse_ip s with
      | Some m =>
          (* a net mask (ones then zeros) or, failing that, a host mask (zeros then ones) *)
          if is_mask m then MLen (count_true (bits_msb_first m))
          else if is_mask (invert_mask m) then MLen (count_true (bits_msb_first (invert_mask m)))
          else MBad
      | None => MBad
      end
  end.
