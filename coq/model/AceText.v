(** ACE text: the regex field splitter of parsers.py modelled on the token list (same priority
    and backtracking order), the Ace.line setter and getter. *)
From V Require Import base.Prelude base.Strs gen.Tables model.Cfg model.Names model.Wildcard
  model.Addr model.Ports model.Ace model.Lex model.AddrText.
Local Open Scope N_scope.

(** an address at the start of [toks] that must end at a token boundary (source of an extended
    ACE): (address text, remaining tokens) *)
Definition is_prefix_token (t : string) : bool :=
  match octets_prefix t with
  | Some (_, String "/" r) => let d := take_digits r in str_nonempty (fst d) && negb (str_nonempty (snd d))
  | _ => false
  end.

Definition addr_whole (toks : list string) : option (string * list string) :=
  match toks with
  | t0 :: rest =>
      if String.eqb t0 "any" then Some ("any", rest)
      else if String.eqb t0 "host" then
        match rest with t1 :: r => if is_octets t1 then Some (("host " ++ t1)%string, r) else None | [] => None end
      else if String.eqb t0 "object-group" || String.eqb t0 "addrgroup" then
        match rest with t1 :: r => Some ((t0 ++ " " ++ t1)%string, r) | [] => None end
      else if is_prefix_token t0 then Some (t0, rest)
      else if is_octets t0 then
        match rest with t1 :: r => if is_octets t1 then Some ((t0 ++ " " ++ t1)%string, r) else None | [] => None end
      else None
  | [] => None
  end.

(** an address at the start of [toks] with nothing required after it (destination of an
    extended ACE, source of a standard ACE): the last token may be matched as a prefix only, in
    which case the rest of the line is not captured.  [bare] enables the standard ACE's bare
    OCTETS alternative.  -> (address text, Some remaining tokens | None when cut mid-token) *)
Definition addr_loose (bare : bool) (toks : list string) : option (string * option (list string)) :=
  match toks with
  | t0 :: rest =>
      if starts_with "any" t0 then Some ("any", if String.eqb t0 "any" then Some rest else None)
      else if String.eqb t0 "host" then
        match rest with
        | t1 :: r => match octets_prefix t1 with
                     | Some (m, tl) => Some (("host " ++ m)%string, if str_nonempty tl then None else Some r)
                     | None => None
                     end
        | [] => None
        end
      else if String.eqb t0 "object-group" || String.eqb t0 "addrgroup" then
        match rest with t1 :: r => Some ((t0 ++ " " ++ t1)%string, Some r) | [] => None end
      else
        match octets_prefix t0 with
        | Some (m, String "/" r0) =>
            let d := take_digits r0 in
            if str_nonempty (fst d)
            then Some ((m ++ "/" ++ fst d)%string, if str_nonempty (snd d) then None else Some rest)
            else (* OCTETS/ without digits: only the bare alternative can match *)
              if bare then Some (m, None) else None
        | Some (m, EmptyString) =>
            (* OCTETS OCTETS, else (standard only) a bare OCTETS *)
            match rest with
            | t1 :: r =>
                match octets_prefix t1 with
                | Some (m1, tl) => Some ((m ++ " " ++ m1)%string, if str_nonempty tl then None else Some r)
                | None => if bare then Some (m, Some rest) else None
                end
            | [] => if bare then Some (m, Some []) else None
            end
        | Some (m, _) => if bare then Some (m, None) else None
        | None => None
        end
  | [] => None
  end.

(** the look-behind of the destination (repair F11): a destination does not start right after the
    keyword of an address group, i.e. at the group's name ("object-group anyX" is not "any") *)
Definition after_group_kw (prev : string) : bool := String.eqb prev "object-group" || String.eqb prev "addrgroup".

(** rightmost position (scanning the greedy "( .+)?" from the end) where a destination matches:
    (source-port tokens, destination text, captured rest); [prev] is the token standing before
    the candidate position *)
Fixpoint find_dst (prev : string) (before : list string) (toks : list string)
  : option (list string * string * option (list string)) :=
  match toks with
  | [] => None
  | t :: rest =>
      match find_dst t (before ++ [t]) rest with
      | Some r => Some r                                  (* a match further right wins *)
      | None => if after_group_kw prev then None
                else match addr_loose false toks with
                     | Some (d, r) => Some (before, d, r)
                     | None => None
                     end
      end
  end.

Record split := mkSplit {
  s_seq : string; s_action : string; s_proto : string; s_src : string; s_sport : list string;
  s_dst : string; s_dstopt : list string
}.

(** sequence and action: "10 permit", "10permit" or "permit" *)
Definition split_head (toks : list string) : option (string * string * list string) :=
  match toks with
  | t0 :: rest =>
      let d := take_digits t0 in
      let act := snd d in
      if String.eqb act "permit" || String.eqb act "deny" then Some (fst d, act, rest)
      else if str_nonempty (fst d) && negb (str_nonempty act) then
        match rest with
        | t1 :: r => if String.eqb t1 "permit" || String.eqb t1 "deny" then Some (fst d, t1, r) else None
        | [] => None
        end
      else None
  | [] => None
  end.

Definition split_body (proto : string) (toks : list string) : option (string * string * list string * string * list string) :=
  match addr_whole toks with
  | Some (src, rest) =>
      match find_dst (last (split_ws src) "") [] rest with
      | Some (sp, dst, r) => Some (proto, src, sp, dst, match r with Some l => l | None => [] end)
      | None => None
      end
  | None => None
  end.

(** parse_ace_extended *)
Definition parse_ace_extended (toks : list string) : option split :=
  match split_head toks with
  | Some (sq, act, rest) =>
      let with_proto := match rest with
                        | p :: r => split_body p r
                        | [] => None
                        end in
      match (match with_proto with Some x => Some x | None => split_body "" rest end) with
      | Some (proto, src, sp, dst, dopt) => Some (mkSplit sq act proto src sp dst dopt)
      | None => None
      end
  | None => None
  end.

(** parse_ace_standard *)
Definition parse_ace_standard (toks : list string) : option split :=
  match split_head toks with
  | Some (sq, act, rest) =>
      match addr_loose true rest with
      | Some (src, r) => Some (mkSplit sq act "ip" src [] "any" (match r with Some l => l | None => [] end))
      | None => None
      end
  | None => None
  end.

(** ** the ACE object built from text *)
Record tace := mkTace {
  t_type_ext : bool;          (* extended / standard *)
  t_seq : N;
  t_ace : ace;
  t_option_line : list string (* Option.line keeps the whole option text *)
}.

Definition seq_of (s : string) : N := match undec s with Some n => n | None => 0 end.

(** Ace.line setter *)
Definition parse_ace_text (c : cfg) (line : string) : res tace :=
  let toks := split_ws line in
  let pl := plat c in
  let limit := Z.of_nat (max_ncwb c) in
  let build (ext : bool) (sp : split) (dport opts : list string) : res tace :=
    (* _check_parsed_elements *)
    if negb (str_nonempty (s_proto sp)) && match s_sport sp, dport with [], [] => true | _, _ => false end
    then VErr
    else if String.eqb (s_proto sp) "ip" && match s_sport sp, dport with [], [] => false | _, _ => true end
    then VErr
    else
      do src <- parse_address_text pl limit (s_src sp);
      do dst <- parse_address_text pl limit (s_dst sp);
      do pr <- parse_proto (s_proto sp);
      let pc := proto_ctx pl (is15 c) pr in
      do p1 <- parse_port pl pc (s_sport sp);
      do p2 <- parse_port pl pc dport;
      do o <- parse_option opts;
      Ok (mkTace ext (seq_of (s_seq sp))
                 (mkAce (String.eqb (s_action sp) "permit") pr src dst p1 p2 (fst o) (snd o)) opts) in
  match parse_ace_extended toks with
  | Some sp => let d := split_dstport_option (s_dstopt sp) in build true sp (fst d) (snd d)
  | None =>
      match parse_ace_standard toks with
      | Some sp => build false sp [] (s_dstopt sp)
      | None => VErr
      end
  end.

(** Ace.line getter *)
Definition render_ace (c : cfg) (t : tace) : string :=
  let a := t_ace t in
  let pl := plat c in
  let pc := proto_ctx pl (is15 c) (a_proto a) in
  let sp := render_port (port_nr c) pc (a_sport a) in
  let dp := render_port (port_nr c) pc (a_dport a) in
  let has_port := match sp, dp with [], [] => false | _, _ => true end in
  let seq := if N.eqb (t_seq t) 0 then [] else [dec (t_seq t)] in
  let act := [if a_permit a then "permit" else "deny"] in
  let items :=
    if t_type_ext t
    then seq ++ act ++ [render_proto pl (protocol_nr c) has_port (a_proto a)]
             ++ [render_addr pl (a_src a)] ++ sp ++ [render_addr pl (a_dst a)] ++ dp ++ t_option_line t
    else seq ++ act ++ [render_addr pl (a_src a)] ++ t_option_line t in
  join " " (filter str_nonempty items).
