"""Kernel K-acl-shadow: Acl.shading / Acl.shadow_of / Acl.delete_shadow on generated ACLs (C04, C11)."""
from __future__ import annotations

import random

from harness import core, acegen
from harness.core import Case, coq_bool, coq_list, coq_str, outcome

IMPORTS = ["gen.Tables", "model.Cfg", "model.Names", "model.Wildcard", "model.Addr", "model.Ports", "model.Ace",
           "model.Shading", "run.RunAce", "run.RunAcl"]
TARGETS = ["run/RunAcl.vo"]
SKIPS = [[], ["addrgroup"], ["nc_wildcard"], ["addrgroup", "nc_wildcard"]]
GROUP_BY = "= "


def gen_acl(rnd, plat, groups):
    """-> list of entries: ("ace", abstract) | ("remark", text)"""
    base = acegen.rand_ace(rnd, plat, groups)
    alphabet = [base] + [acegen.mutate(rnd, plat, base, groups) for _ in range(rnd.randint(2, 5))]
    if rnd.random() < 0.4:
        other = acegen.rand_ace(rnd, plat, groups)
        alphabet += [other, acegen.mutate(rnd, plat, other, groups)]
    n = rnd.randint(2, 9)
    entries = []
    heads = 0
    for _ in range(n):
        r = rnd.random()
        if r < 0.15:
            heads += 1
            entries.append(("remark", rnd.choice([f"{GROUP_BY}C-{heads}, block", f"{GROUP_BY}C-{heads}", "plain text", "note"])))
        else:
            entries.append(("ace", rnd.choice(alphabet)))
    if not any(e[0] == "ace" for e in entries):
        entries.append(("ace", base))
    return entries


def build(ca, plat, entries, rnd, numbered, grouped):
    """Build the implementation ACL; -> (acl, specs) where specs[i] is the spelling dict of ACE i or None"""
    from cisco_acl import protocol as pr
    lines, specs = [], []
    seq = 10
    for kind, x in entries:
        pre = f"{seq} " if numbered else ""
        seq += 10
        if kind == "remark":
            lines.append(f"{pre}remark {x}")
            specs.append(None)
        else:
            sp = acegen.spell_ace(rnd, plat, x, pr.NR_TO_PROTOCOL[plat])
            lines.append(pre + sp["text"])
            specs.append(sp)
    head = "ip access-list extended A1" if plat == "ios" else "ip access-list A1"
    acl = ca.Acl("\n".join([head] + lines), platform=plat)
    assert len(acl.items) == len(specs), (len(acl.items), len(specs), lines)
    for it, sp in zip(acl.items, specs):
        if sp is not None:
            if sp["src_members"] is not None:
                it.srcaddr.items = list(sp["src_members"])
            if sp["dst_members"] is not None:
                it.dstaddr.items = list(sp["dst_members"])
    if grouped:
        acl.group(GROUP_BY)
    return acl, specs


def flat(acl):
    out = []
    for it in acl.items:
        if hasattr(it, "items") and it.__class__.__name__ == "AceGroup":
            out.extend(it.items)
        else:
            out.append(it)
    return out


def model_items(lines_before, specs):
    parts = []
    for ln, sp in zip(lines_before, specs):
        parts.append(f"({coq_str(ln)}, {'Some ' + sp['fields'] if sp is not None else 'None'})")
    return coq_list(parts)


def gen_all(ctx, groups, n_quick, n_thorough, salt):
    rnd = random.Random(ctx.seed + salt)
    n = n_quick if ctx.tier == "quick" else n_thorough
    out = []
    for i in range(n):
        plat = rnd.choice(["ios", "nxos"])
        entries = gen_acl(rnd, plat, groups and rnd.random() < 0.5)
        spec = {"platform": plat, "entries": entries, "numbered": rnd.random() < 0.35,
                "grouped": rnd.random() < 0.3, "skip": rnd.choice(SKIPS + [[], []]), "seed": rnd.getrandbits(30)}
        fat, thin = twin(spec, True), twin(spec, False)
        # the twins are processed in the same interpreter right before and right after the ACL they were made from:
        # the same lines, the same group NAMES, other members (first: every group covers all of IPv4, so every
        # question "is this address inside the group" is answered yes; last: every group is one far-away host) -
        # an answer remembered under a group's name or text from the previous ACL is wrong in the next
        out += [spec] if fat is None else [fat, spec, thin]
    return out


TWIN_HOSTS = {"G1": 0x0A636301, "G2": 0x0A636302, "SRV": 0x0A636303}


def twin(spec, fat):
    """the same ACL with every address group replaced by the two halves of IPv4 (fat) or by one far-away host
    (None if the ACL has no group)"""
    found = False
    entries = []
    for kind, x in spec["entries"]:
        if kind == "ace":
            x = dict(x)
            for f in ("src", "dst"):
                if x[f][0] == "group":
                    found = True
                    mem = [(0, 0x7FFFFFFF), (0x80000000, 0x7FFFFFFF)] if fat else [(TWIN_HOSTS.get(x[f][1], 0x0A636309), 0)]
                    x[f] = ("group", x[f][1], mem, acegen.group_key(x[f][2]))     # same NAME as the original
        entries.append((kind, x))
    return dict(spec, entries=entries) if found else None
