"""Kernel K-ace-text: Ace(text, platform, version, port_nr, protocol_nr) -> fields and rendered line."""
from __future__ import annotations

import random

from harness import core, acegen, addrgen as ag
from harness.core import Case, coq_bool, coq_str, outcome

IMPORTS = ["gen.Tables", "model.Cfg", "model.Names", "model.Wildcard", "model.Addr", "model.Ports", "model.Ace",
           "model.Lex", "model.AddrText", "model.AceText", "run.RunAce", "run.RunText"]
TARGETS = ["run/RunText.vo"]
PL = {"ios": "Ios", "nxos": "Nxos"}
WS = [" ", " ", " ", "  ", "\t", " \t ", "   "]


def cfg_coq(plat, version, port_nr, protocol_nr, limit=16):
    v15 = version.startswith("15")
    return f"(mk_cfg {PL[plat]} {coq_bool(v15)} {coq_bool(port_nr)} {coq_bool(protocol_nr)} {limit}%nat)"


def spell_port(rnd, proto, plat, version, p, names_tbl):
    if p is None:
        return []
    op, xs = p
    out = [op]
    for x in xs:
        nm = names_tbl.get((proto, x))
        out.append(nm if (nm and rnd.random() < 0.6) else str(x))
    return out


GROUP_NAMES = ["G1", "SRV", "any", "anyX", "any-servers", "host", "hostA", "10net", "10.0.0.0/8", "eq", "log", "WEB_1", "a.b"]


def spell_side(rnd, plat, side):
    """tokens of one address: a set (base, mask) in one of its spellings, or a group reference"""
    if side[0] == "group":
        return ["object-group" if plat == "ios" else "addrgroup", side[1]]
    return ag.spell(rnd, plat, side[1], side[2])[1].split()


def valid_text(rnd, ca, plat, version, a, seq=None):
    """One accepted spelling (token list) of the abstract group-free ACE [a] on the platform."""
    from cisco_acl import port_name as pn, protocol as pr
    proto = a["proto"]
    pname = {6: "tcp", 17: "udp"}.get(proto)
    tbl = {}
    if pname:
        for nm, nr in pn.PortName(pname, plat, version).names().items():
            tbl.setdefault((proto, nr), nm)
    ptxt = str(proto)
    nm = pr.NR_TO_PROTOCOL[plat].get(proto)
    if nm and rnd.random() < 0.7:
        ptxt = nm
    if (a["sport"] or a["dport"]) and proto in (6, 17) and rnd.random() < 0.9:
        ptxt = pname  # numeric tcp/udp with ports is accepted too, keep a few
    toks = []
    if seq:
        toks.append(str(seq))
    toks.append("permit" if a["permit"] else "deny")
    toks.append(ptxt)
    toks += spell_side(rnd, plat, a["src"])
    toks += spell_port(rnd, proto, plat, version, a["sport"], tbl)
    toks += spell_side(rnd, plat, a["dst"])
    toks += spell_port(rnd, proto, plat, version, a["dport"], tbl)
    # option words in any order (a log keyword may stand before a flag or a key/value option)
    units = [("flag", [f]) for f in a["flags"]] + [("opt", o) for o in a.get("opts", [])] + [("log", [l]) for l in a["logs"]]
    if len(units) > 1 and rnd.random() < 0.4:
        rnd.shuffle(units)
        # the abstract entry states the order in which the words were written (oracles compare in text order)
        a["flags"] = [w[0] for k, w in units if k == "flag"]
        a["logs"] = [w[0] for k, w in units if k == "log"]
        if "opts" in a:
            a["opts"] = [w for k, w in units if k == "opt"]
    toks += [t for _, w in units for t in w]
    return toks


def with_ws(rnd, toks):
    s = rnd.choice(["", "", " ", "\t", "  "])
    for i, t in enumerate(toks):
        s += t + (rnd.choice(WS) if i + 1 < len(toks) else rnd.choice(["", "", " ", " \t"]))
    return s


def malformed(rnd, toks):
    t = list(toks)
    how = rnd.choice(["drop", "dup", "swap", "junk", "trunc", "glue", "case", "empty"])
    if how == "drop" and t:
        t.pop(rnd.randrange(len(t)))
    elif how == "dup" and t:
        i = rnd.randrange(len(t))
        t.insert(i, t[i])
    elif how == "swap" and len(t) > 1:
        i, j = rnd.randrange(len(t)), rnd.randrange(len(t))
        t[i], t[j] = t[j], t[i]
    elif how == "junk":
        t.insert(rnd.randrange(len(t) + 1), rnd.choice(["anyX", "host", "1.2.3", "1.2.3.4.5", "300.1.1.1", "eq", "range", "log",
                                                           "object-group", "addrgroup", "10.0.0.0/33", "10.0.0.1/24", "0", "-1",
                                                           "permit", "remark", "ip", "6", "256", "www", "Established",
                                                           "1.2.3.4/", "any", "neq", "gt", "65536", "?", "a?b", "dscp", "ef"]))
    elif how == "trunc" and t:
        t = t[:rnd.randrange(len(t))]
    elif how == "glue" and len(t) > 1:
        i = rnd.randrange(len(t) - 1)
        t[i:i + 2] = [t[i] + t[i + 1]]
    elif how == "case" and t:
        i = rnd.randrange(len(t))
        t[i] = t[i].upper()
    elif how == "empty":
        t = []
    return t


def observe(ca, text, plat, version, port_nr, protocol_nr):
    def f():
        a = ca.Ace(text, platform=plat, version=version, port_nr=port_nr, protocol_nr=protocol_nr)
        return [a.type == "extended", a.sequence, acegen.obs_ace(a), a.line]
    return outcome(f)


def gen_cases(ctx, n_valid, n_bad, salt=0):
    """-> list of dict(text, toks, plat, version, port_nr, protocol_nr, abstract|None, valid)"""
    ca = core.impl_module()
    rnd = random.Random(ctx.seed + 101 + salt)
    out = []
    for i in range(n_valid + n_bad):
        plat = rnd.choice(["ios", "nxos"])
        version = rnd.choice(["0", "15.2", "16.9", "9.3"])
        a = acegen.rand_ace(rnd, plat, groups=False)
        if rnd.random() < 0.15:
            for f in ("src", "dst"):
                if rnd.random() < 0.5:
                    a[f] = ("set", a[f][1], ag.rand_nc_mask(rnd, 3))
        if rnd.random() < 0.2:        # address-group references, with names that look like other tokens
            for f in rnd.choice([("src",), ("dst",), ("dst",), ("src", "dst")]):
                a[f] = ("group", rnd.choice(GROUP_NAMES), [])
        if rnd.random() < 0.2:        # keyword/value options: the pair must stay together, in this order
            a["opts"] = rnd.sample([("dscp", "af11"), ("precedence", "critical"), ("tos", "min-delay"), ("time-range", "alpha"),
                                    ("dscp", "ef"), ("fragments",), ("time-range", "zz9")], rnd.choice([1, 1, 2]))
            if len(a["opts"]) == 2 and a["opts"][0][0] == a["opts"][1][0]:
                a["opts"] = a["opts"][:1]
        seq = rnd.choice([None, None, 10, 1, 4294967295, rnd.randint(1, 10 ** 6)])
        toks = valid_text(rnd, ca, plat, version, a, seq)
        valid = i < n_valid
        if not valid:
            for _ in range(rnd.choice([1, 1, 2])):
                toks = malformed(rnd, toks)
        out.append({"text": with_ws(rnd, toks), "toks": toks, "platform": plat, "version": version,
                    "port_nr": rnd.random() < 0.3, "protocol_nr": rnd.random() < 0.3,
                    "abstract": a if valid else None, "seq": seq or 0, "valid": valid})
    return out


def run(ctx, specs, kernel="K-ace-text", entry="run_ace_text"):
    ca = core.impl_module()
    cases = []
    for s in specs:
        impl = observe(ca, s["text"], s["platform"], s["version"], s["port_nr"], s["protocol_nr"])
        s["impl"] = impl
        cases.append(Case(f"{entry} {cfg_coq(s['platform'], s['version'], s['port_nr'], s['protocol_nr'])} "
                          f"{coq_str(s['text'])}", impl,
                          {k: s[k] for k in ("text", "platform", "version", "port_nr", "protocol_nr", "abstract", "seq", "valid")}))
    core.eval_cases(ctx, kernel, IMPORTS, cases, chunk=max(10, len(cases) // 16 + 1))
    return cases
