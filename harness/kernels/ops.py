"""Kernel K-history: an Acl, a sequence of public operations, one observation per step
(text lines, flags, identifiers and notes of the Acl, its AceGroups and entries).

The same history is run on the implementation (here) and on model/Ops.v (run_history)."""
from __future__ import annotations

from harness import core, acegen
from harness.core import Case, coq_bool, coq_list, coq_str
from harness.kernels import acetext

IMPORTS = acetext.IMPORTS + ["model.AclText", "model.Shading", "model.SplitPorts", "model.Platform", "model.Ops",
                             "proofs.HistoryProofs", "run.RunOps"]
TARGETS = ["run/RunOps.vo"]
PL = {"ios": "Ios", "nxos": "Nxos"}
ALL_OPS = ["platform", "port_nr", "protocol_nr", "type_ext", "resequence", "group", "ungroup", "sort", "reverse",
           "insert", "pop", "copy", "import_uuid", "reparse", "delete_shadow", "ungroup_ports"]
# the in-place transformations C16 names (ungroup_ports = the split)
C16_OPS = ["platform", "port_nr", "protocol_nr", "type_ext", "resequence", "group", "ungroup", "sort", "reverse",
           "ungroup_ports"]


def op_coq(op):
    k = op[0]
    if k == "platform":
        return f"OpPlatform {PL[op[1]]}"
    if k == "port_nr":
        return f"OpPortNr {coq_bool(op[1])}"
    if k == "protocol_nr":
        return f"OpProtocolNr {coq_bool(op[1])}"
    if k == "type_ext":
        return "OpTypeExt"
    if k == "resequence":
        return f"OpResequence {op[1]} {op[2]}"
    if k == "group":
        return f"OpGroup {coq_str(op[1])}"
    if k == "insert":
        return f"OpInsert {op[1]}%nat {coq_str(op[2])}"
    if k == "pop":
        return f"OpPop {op[1]}%nat"
    return {"ungroup": "OpUngroup", "sort": "OpSort", "reverse": "OpReverse", "copy": "OpCopy",
            "import_uuid": "OpImportUuid", "reparse": "OpReparse", "delete_shadow": "OpDeleteShadow",
            "ungroup_ports": "OpUngroupPorts"}[k]


# ------------------------------------------------------------------ implementation side
class Labels:
    def __init__(self):
        self.next = 1

    def name(self, o):
        if not str(o.uuid).startswith("ID-"):
            o.uuid = f"ID-{self.next}"
            self.next += 1
        return int(o.uuid[3:])


def walk(ca, a):
    """objects in the traversal order of Ops.relabel"""
    yield a
    for it in a.items:
        yield it
        if isinstance(it, ca.AceGroup):
            for x in it.items:
                yield x


def observe(ca, a, labels):
    for o in walk(ca, a):
        labels.name(o)
    note = lambda o: o.note if isinstance(o.note, int) and not isinstance(o.note, bool) else 0
    lines = [s.strip() for s in a.line.split("\n") if s.strip()]
    tops = []
    for it in a.items:
        if isinstance(it, ca.AceGroup):
            tops.append(["group", labels.name(it), note(it), it.name, it.sequence,
                         [[labels.name(x), note(x)] for x in it.items]])
        else:
            tops.append([labels.name(it), note(it)])
    # the leading True stands for the step certificate the model computes (HistoryProofs.step_cert)
    return [True, lines, [a.platform, bool(a.port_nr), bool(a.protocol_nr), a.group_by], [labels.name(a), note(a)], tops]


def apply_op(ca, a, op):
    """-> the Acl after the operation (the same object, or the new one for copy/import/reparse)"""
    k = op[0]
    if k == "platform":
        a.platform = op[1]
    elif k == "port_nr":
        a.port_nr = op[1]
    elif k == "protocol_nr":
        a.protocol_nr = op[1]
    elif k == "type_ext":
        a.type = "extended"
    elif k == "resequence":
        a.resequence(op[1], op[2])
    elif k == "group":
        a.group(op[1])
    elif k == "ungroup":
        a.ungroup()
    elif k == "sort":
        a.sort()
    elif k == "reverse":
        a.reverse()
    elif k == "insert":
        a.insert(op[1], ca.Ace(op[2], platform=a.platform, port_nr=a.port_nr, protocol_nr=a.protocol_nr))
    elif k == "pop":
        a.pop(op[1])
    elif k == "copy":
        a = a.copy()
    elif k == "import_uuid":
        a = ca.Acl(**a.data(uuid=True))
    elif k == "reparse":
        a = ca.Acl(a.line, platform=a.platform, port_nr=a.port_nr, protocol_nr=a.protocol_nr)
    elif k == "delete_shadow":
        a.delete_shadow()
    elif k == "ungroup_ports":
        a.ungroup_ports()
    else:
        raise KeyError(k)
    return a


def build(ca, spec):
    head = ("ip access-list extended A" if spec["platform"] == "ios" else "ip access-list A")
    return ca.Acl("\n".join([head] + spec["body"]), platform=spec["platform"], port_nr=spec["port_nr"],
                  protocol_nr=spec["protocol_nr"])


def run_impl(ca, spec, ops=None, hook=None):
    """-> (trace, final acl or None).  trace = [obs0, obs1, ...] or [..., Err] when a step raises."""
    try:
        a = build(ca, spec)
    except Exception as ex:  # noqa
        return core.Err(core.err_class(ex)), None
    labels = Labels()
    obs = observe(ca, a, labels)
    for o in walk(ca, a):
        o.note = int(o.uuid[3:])
    trace = [observe(ca, a, labels)]
    for op in (spec["ops"] if ops is None else ops):
        try:
            a = apply_op(ca, a, op)
            trace.append(observe(ca, a, labels))
        except Exception as ex:  # noqa
            trace.append(core.Err(core.err_class(ex)))
            return trace, None
        if hook:
            hook(a, op, trace)
    return trace, a


# ------------------------------------------------------------------ generation (state aware)
def gen_body(rnd, ca, plat, n=None):
    lines, prev = [], None
    numbered = rnd.random() < 0.5
    for i in range(n or rnd.randint(1, 7)):
        pre = f"{(i + 1) * 10} " if numbered else ""
        r = rnd.random()
        if r < 0.25:
            lines.append(pre + "remark " + rnd.choice(["text", "= B1", "= B2, x", "= B1", "note 2"]))
            continue
        if prev is not None and rnd.random() < 0.45:
            a = acegen.mutate(rnd, plat, prev, groups=False)       # related entries: shadows exist
        else:
            a = acegen.rand_ace(rnd, plat, groups=False)
        for f in ("sport", "dport"):      # multi-port neq is owned by C19
            if a[f] and a[f][0] == "neq":
                a[f] = ("neq", list(a[f][1][:1]))
        if plat == "ios" and a["proto"] in (6, 17) and rnd.random() < 0.3:
            a["dport"] = ("eq", sorted(rnd.sample([22, 80, 443, 135, 8080, 514], rnd.randint(2, 3))))
        prev = a
        lines.append(pre + " ".join(acetext.valid_text(rnd, ca, plat, "0", a, None)))
    return lines


def next_op(rnd, ca, a, alphabet):
    """choose an operation that the model covers in the current state"""
    for _ in range(20):
        k = rnd.choice(alphabet)
        if k == "platform":
            return [k, rnd.choice(["ios", "nxos"])]
        if k in ("port_nr", "protocol_nr"):
            return [k, rnd.random() < 0.6]
        if k == "resequence":
            return [k, rnd.choice([0, 1, 5, 10, 10, 100, 1000]), rnd.choice([1, 2, 5, 10, 10, 100])]
        if k == "group":
            return [k, rnd.choice(["= ", "= ", "= B1", "note"])]
        if k == "sort":
            seqs = [o.sequence for o in a.items]
            if len(set(seqs)) != len(seqs):
                continue
            return [k]
        if k == "pop":
            if not a.items:
                continue
            return [k, rnd.randrange(len(a.items))]
        if k == "insert":
            ab = acegen.rand_ace(rnd, a.platform, groups=False)
            for f in ("sport", "dport"):
                if ab[f] and ab[f][0] == "neq":
                    ab[f] = ("neq", list(ab[f][1][:1]))
            seq = rnd.choice([None, 7, 15, 1234])
            return [k, rnd.randint(0, len(a.items)), " ".join(acetext.valid_text(rnd, ca, a.platform, "0", ab, seq))]
        return [k]
    return ["copy"]


def gen_history(rnd, ca, alphabet, length):
    plat = rnd.choice(["ios", "nxos"])
    spec = {"platform": plat, "port_nr": rnd.random() < 0.25, "protocol_nr": rnd.random() < 0.25,
            "body": gen_body(rnd, ca, plat), "ops": []}
    try:
        a = build(ca, spec)
    except Exception:  # noqa
        return spec
    for _ in range(length):
        op = next_op(rnd, ca, a, alphabet)
        spec["ops"].append(op)
        try:
            a = apply_op(ca, a, op)
        except Exception:  # noqa
            break
    return spec


def model_expr(spec):
    c = acetext.cfg_coq(spec["platform"], "0", spec["port_nr"], spec["protocol_nr"])
    return (f"run_history {c} \"A\" {coq_list(coq_str(l) for l in spec['body'])} "
            f"{coq_list(op_coq(o) for o in spec['ops'])}")


def class_expr(spec):
    c = acetext.cfg_coq(spec["platform"], "0", spec["port_nr"], spec["protocol_nr"])
    return (f"history_in_class {c} \"A\" {coq_list(coq_str(l) for l in spec['body'])} "
            f"{coq_list(op_coq(o) for o in spec['ops'])}")


def cases_for(ca, specs):
    out = []
    for spec in specs:
        trace, _ = run_impl(ca, spec)
        out.append(Case(model_expr(spec), trace, dict(spec, k="history")))
    return out
