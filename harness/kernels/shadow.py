"""Kernel K-shadow: Ace.shadow_of(other, skip) on generated ordered pairs (used by C03 and C11)."""
from __future__ import annotations

import random

from harness import core, acegen
from harness.core import Case, coq_bool, outcome

IMPORTS = ["gen.Tables", "model.Cfg", "model.Names", "model.Wildcard", "model.Addr", "model.Ports", "model.Ace",
           "run.RunAce"]
SKIPS = [[], ["addrgroup"], ["nc_wildcard"], ["addrgroup", "nc_wildcard"]]
TARGETS = ["run/RunAce.vo"]

def _tcp(dport=None, sport=None):
    return {"permit": True, "proto": 6, "src": ("set", 0, acegen.ag.ALL), "dst": ("set", 0, acegen.ag.ALL),
            "sport": sport, "dport": dport, "flags": [], "logs": []}


CORPUS2 = [  # a multi-port list is not an interval: inside the bounds, not in the list
    ("ios", _tcp(("eq", [3])), _tcp(("eq", [1, 5]))), ("ios", _tcp(("eq", [2, 4])), _tcp(("eq", [1, 5]))),
    ("ios", _tcp(("range", [1, 5])), _tcp(("eq", [1, 5]))), ("ios", _tcp(("lt", [4])), _tcp(("eq", [1, 5]))),
    ("ios", _tcp(None, ("eq", [3])), _tcp(None, ("eq", [1, 5]))), ("ios", _tcp(None, ("range", [2, 4])), _tcp(None, ("eq", [1, 2, 4, 5]))),
    ("ios", _tcp(("eq", [1, 5])), _tcp(("eq", [1, 3, 5]))), ("ios", _tcp(("eq", [1, 5])), _tcp(("range", [1, 5]))),
]

CORPUS = CORPUS2 + [  # repaired defects F4, F5 and seeds, as abstract pairs (bottom, top)
    ("ios", {"permit": True, "proto": 6, "src": ("set", 0, acegen.ag.ALL), "dst": ("set", 0, acegen.ag.ALL),
             "sport": None, "dport": None, "flags": [], "logs": []},
            {"permit": True, "proto": 6, "src": ("set", 0, acegen.ag.ALL), "dst": ("set", 0, acegen.ag.ALL),
             "sport": ("gt", [65535]), "dport": None, "flags": [], "logs": []}),
    ("ios", {"permit": True, "proto": 6, "src": ("set", 0, acegen.ag.ALL), "dst": ("set", 0, acegen.ag.ALL),
             "sport": None, "dport": None, "flags": [], "logs": []},
            {"permit": True, "proto": 6, "src": ("set", 0, acegen.ag.ALL), "dst": ("set", 0, acegen.ag.ALL),
             "sport": ("range", [1, 65535]), "dport": None, "flags": [], "logs": []}),
    ("ios", {"permit": True, "proto": 0, "src": ("set", 0x0A000000, 0x103), "dst": ("set", 0, acegen.ag.ALL),
             "sport": None, "dport": None, "flags": [], "logs": []},
            {"permit": True, "proto": 0, "src": ("set", 0x0A000000, 0x303), "dst": ("set", 0, acegen.ag.ALL),
             "sport": None, "dport": None, "flags": [], "logs": []}),
    ("ios", {"permit": True, "proto": 200, "src": ("set", 0, acegen.ag.ALL), "dst": ("set", 0, acegen.ag.ALL),
             "sport": None, "dport": None, "flags": [], "logs": []},
            {"permit": True, "proto": 99, "src": ("set", 0, acegen.ag.ALL), "dst": ("set", 0, acegen.ag.ALL),
             "sport": None, "dport": None, "flags": [], "logs": []}),
    ("ios", {"permit": True, "proto": 6, "src": ("set", 0, acegen.ag.ALL), "dst": ("set", 0, acegen.ag.ALL),
             "sport": None, "dport": None, "flags": ["fin", "rst"], "logs": []},
            {"permit": True, "proto": 6, "src": ("set", 0, acegen.ag.ALL), "dst": ("set", 0, acegen.ag.ALL),
             "sport": None, "dport": None, "flags": ["fin", "syn"], "logs": []}),
]


def gen_pairs(ctx, groups: bool):
    rnd = random.Random(ctx.seed + (11 if groups else 13))
    n = 330 if ctx.tier == "quick" else 3000
    pairs = [(pl, b, t) for pl, b, t in CORPUS]
    for _ in range(n):
        plat = rnd.choice(["ios", "nxos"])
        top = acegen.rand_ace(rnd, plat, groups)
        bottom = acegen.mutate(rnd, plat, top, groups) if rnd.random() < 0.85 else acegen.rand_ace(rnd, plat, groups)
        if rnd.random() < 0.3:
            top, bottom = bottom, top
        if rnd.random() < 0.08:
            # the flag clause on its own: a tcp top WITH flags and a log keyword (spelled in either order) over a
            # bottom with the same fields and no / other / fewer / more flags
            top = dict(top, proto=6, flags=rnd.sample(acegen.FLAGS, rnd.randint(1, 2)), logs=[rnd.choice(["log", "log-input"])])
            bottom = dict(top, flags=rnd.choice([[], rnd.sample(acegen.FLAGS, 1), list(top["flags"])[:1],
                                                 sorted(set(top["flags"]) | set(rnd.sample(acegen.FLAGS, 1)))]),
                          logs=rnd.choice([[], ["log"]]))
        pairs.append((plat, bottom, top))
    return rnd, pairs


def run(ctx, groups: bool):
    """-> list of records {plat, bottom, top, sb, st, answers: {skip_index: impl answer}}"""
    ca = core.impl_module()
    from cisco_acl import protocol as pr
    rnd, pairs = gen_pairs(ctx, groups)
    cases, records = [], []
    for plat, bottom, top in pairs:
        names = pr.NR_TO_PROTOCOL[plat]
        sb = acegen.spell_ace(rnd, plat, bottom, names)
        st = acegen.spell_ace(rnd, plat, top, names)
        rec = {"platform": plat, "bottom": bottom, "top": top, "bottom_text": sb["text"], "top_text": st["text"],
               "sb": sb, "st": st, "answers": {}}
        has_group = any(x is not None for x in (sb["src_members"], sb["dst_members"], st["src_members"], st["dst_members"]))
        has_ports = any(x.get(k) is not None for x in (bottom, top) for k in ("sport", "dport"))
        hist = rnd.choice([0, 0, 1, 2, 3]) if has_group else (4 if has_ports and rnd.random() < 0.5 else 0)
        for si, skip in enumerate(SKIPS):
            def f(skip=skip, hist=hist):
                b = acegen.build_impl(ca, plat, sb, history=hist)
                t = acegen.build_impl(ca, plat, st, history=hist)
                return b.shadow_of(t, skip=list(skip) or None)
            ans = outcome(f)
            rec["answers"][si] = ans
            meta = {"k": "shadow", "platform": plat, "skip": skip, "bottom": sb["text"], "top": st["text"], "history": hist,
                    "bottom_members": [sb["src_members"], sb["dst_members"]],
                    "top_members": [st["src_members"], st["dst_members"]],
                    "abstract": [bottom, top]}
            cases.append(Case(f"run_shadow {acegen.PL[plat]} false 16%Z {coq_bool('addrgroup' in skip)} "
                              f"{coq_bool('nc_wildcard' in skip)} {sb['fields']} {st['fields']}", ans, meta))
        records.append(rec)
    core.eval_cases(ctx, "K-shadow", IMPORTS, cases, chunk=80)
    ctx.coverage["input_distribution"] = {
        "pairs": len(records),
        "in_shadow_noskip": sum(1 for r in records if r["answers"][0] is True),
        "errors": sum(1 for r in records if isinstance(r["answers"][0], core.Err)),
        "with_groups": sum(1 for r in records if not (acegen.group_free(r["bottom"]) and acegen.group_free(r["top"]))),
        "with_ports": sum(1 for r in records if any(r[x][f] for x in ("bottom", "top") for f in ("sport", "dport"))),
        "with_flags": sum(1 for r in records if r["bottom"]["flags"] or r["top"]["flags"]),
    }
    ctx.samples += [{"bottom": r["bottom_text"], "top": r["top_text"], "answers": {str(k): str(v) for k, v in r["answers"].items()}}
                    for r in records[:2] + records[-2:]]
    return records


def impl_answer(ca, meta):
    plat = meta["platform"]
    sb = {"text": meta["bottom"], "src_members": meta["bottom_members"][0], "dst_members": meta["bottom_members"][1]}
    st = {"text": meta["top"], "src_members": meta["top_members"][0], "dst_members": meta["top_members"][1]}
    hist = meta.get("history", 0)
    b = acegen.build_impl(ca, plat, sb, history=hist)
    t = acegen.build_impl(ca, plat, st, history=hist)
    return [outcome(lambda s=s: acegen.build_impl(ca, plat, sb, history=hist).shadow_of(
        acegen.build_impl(ca, plat, st, history=hist), skip=list(s) or None)) for s in SKIPS], b, t
