"""Shared machinery of ./check: lint, table regeneration, Coq build, Print Assumptions,
correspondence evaluation inside coqc, known findings, replay and evidence files."""
from __future__ import annotations

import fcntl
import glob
import hashlib
import json
import os
import re
import subprocess
import sys
import time
from concurrent.futures import ThreadPoolExecutor
from dataclasses import dataclass, field
from typing import Any, Callable, Iterable, Optional

VERIF = os.path.dirname(os.path.dirname(os.path.abspath(__file__)))
REPO = os.environ.get("VERIF_REPO", "/repo")
COQ = os.path.join(VERIF, "coq")
WORK = os.path.join(VERIF, "work")
EVID = os.path.join(VERIF, "evidence")
REPLAY = os.path.join(EVID, "replay")
COQ_DIRS = ["base", "gen", "spec", "model", "proofs", "props", "run"]
NCPU = min(16, os.cpu_count() or 4)

TRUSTED_BASE = [
    "Coq 8.16.1 kernel (coqc; vm_compute used for finite table facts and witnesses; no native_compute)",
    "harness/gen_tables.py (ast translator of the data tables, cross-checked against the imported module)",
    "correspondence check: harness/*.py generators/canonicalisers + comparison by vm_compute inside coqc",
    "spec/*.v (Cisco meaning: packet sets, first match, reference numbers) is specification",
    "CPython 3.12, ipaddress, re, netports, vhelpers are modelled, not verified",
]
AXIOM_ALLOW: list = []  # standard-library axioms a proof is allowed to use (none needed so far)


# ------------------------------------------------------------------ values
class Err:
    """An error outcome of the implementation, by exception class name."""

    def __init__(self, kind: str):
        self.kind = kind

    def __repr__(self):
        return f"Err({self.kind})"

    def __eq__(self, other):
        return isinstance(other, Err) and other.kind == self.kind

    def __hash__(self):
        return hash(("Err", self.kind))


class Z:
    """Force an integer to be emitted as VZ."""

    def __init__(self, v: int):
        self.v = int(v)


def coq_str(s: str) -> str:
    if all(32 <= ord(c) <= 126 for c in s):
        return '"' + s.replace('"', '""') + '"'
    codes = "; ".join(str(b) for b in s.encode("utf-8"))
    return f"(str_of_codes [{codes}])"


def coq_N(n: int) -> str:
    assert n >= 0, n
    return f"{n}"


def coq_Z(n: int) -> str:
    return f"({n})%Z"


def coq_bool(b: bool) -> str:
    return "true" if b else "false"


def coq_list(items: Iterable[str]) -> str:
    return "[" + "; ".join(items) + "]"


def to_val(v: Any) -> str:
    """Python value -> Coq term of type [val]."""
    if isinstance(v, Err):
        return f"VE {coq_str(v.kind)}"
    if isinstance(v, Z):
        return f"VZ {coq_Z(v.v)}"
    if isinstance(v, bool):
        return f"VB {coq_bool(v)}"
    if isinstance(v, int):
        return f"VN {v}" if v >= 0 else f"VZ {coq_Z(v)}"
    if isinstance(v, str):
        return f"VS {coq_str(v)}"
    if isinstance(v, (list, tuple)):
        return "VL [" + "; ".join(to_val(x) for x in v) + "]"
    if v is None:
        return 'VE "None"'
    raise TypeError(f"cannot encode {type(v)}")


def outcome(fn: Callable[[], Any]) -> Any:
    """Run fn; map exceptions to the small error enum."""
    try:
        return fn()
    except Exception as ex:  # noqa
        return Err(err_class(ex))


def err_class(ex) -> str:
    """Small error enum: NetmaskValueError (re-raised by the nc-bit limit and by bad prefix lengths),
    ValueError (incl. AddressValueError, NetportsValueError, ...), TypeError, else the class name."""
    from ipaddress import NetmaskValueError
    if isinstance(ex, NetmaskValueError):
        return "NetmaskValueError"
    if isinstance(ex, ValueError):
        return "ValueError"
    if isinstance(ex, TypeError):
        return "TypeError"
    return type(ex).__name__


# ------------------------------------------------------------------ context
@dataclass
class Case:
    model: str          # Coq expression of type val (the model's answer)
    impl: Any           # python value (implementation's canonicalised answer)
    meta: Any = None    # the input, JSON-serialisable (for replay / oracle)


@dataclass
class Broken:
    kind: str           # lint | translator | proof | assumption | correspondence
    what: str
    detail: str = ""
    inputs: list = field(default_factory=list)   # metas of disagreeing cases


@dataclass
class Ctx:
    prop: str
    tier: str
    seed: int
    t0: float = field(default_factory=time.time)
    broken: list = field(default_factory=list)
    coverage: dict = field(default_factory=dict)
    kernels: dict = field(default_factory=dict)
    samples: list = field(default_factory=list)
    notes: list = field(default_factory=list)
    known_lines: list = field(default_factory=list)
    workdir: str = ""

    def count(self, key: str, n: int = 1):
        self.coverage[key] = self.coverage.get(key, 0) + n


def ensure_env():
    """Re-exec with a fixed hash seed and the guard variable, implementation from /repo."""
    want = {"PYTHONHASHSEED": "0", "CISCO_ACL_VERIF": "1"}
    if any(os.environ.get(k) != v for k, v in want.items()):
        env = dict(os.environ, **want)
        os.execve(sys.executable, [sys.executable] + sys.argv, env)
    for p in (REPO, VERIF):
        if p in sys.path:
            sys.path.remove(p)
    sys.path.insert(0, VERIF)
    sys.path.insert(0, REPO)
    import logging
    logging.disable(logging.CRITICAL)   # kernels that observe log records re-enable it locally


def impl_module():
    import cisco_acl  # noqa
    assert os.path.realpath(cisco_acl.__file__).startswith(os.path.realpath(REPO)), cisco_acl.__file__
    return cisco_acl


# ------------------------------------------------------------------ lint
_BAN = [
    (r"\bAdmitted\b", "Admitted"), (r"\badmit\b", "admit"), (r"\bAdmit\s+Obligations\b", "Admit Obligations"),
    (r"(^|\.\s+|\n)\s*(Local\s+|Global\s+|#\[[^\]]*\]\s*)?(Axiom|Axioms|Parameter|Parameters|Conjecture|Conjectures|"
     r"Variable|Variables|Hypothesis|Hypotheses|Context)\b", "axiom-like declaration"),
    (r"Unset\s+Guard\s+Checking", "guard checking off"), (r"bypass_check", "bypass_check"),
    (r"Unset\s+Positivity\s+Checking", "positivity off"), (r"Unset\s+Universe\s+Checking", "universes off"),
    (r"type-in-type", "type-in-type"), (r"impredicative-set", "impredicative-set"),
    (r"\bnative_compute\b", "native_compute"),
]


def strip_comments(src: str) -> str:
    out, depth, i, instr = [], 0, 0, False
    while i < len(src):
        if depth == 0 and src[i] == '"':
            instr = not instr
            out.append(src[i]); i += 1; continue
        if not instr and src.startswith("(*", i):
            depth += 1; i += 2; continue
        if not instr and depth and src.startswith("*)", i):
            depth -= 1; i += 2; continue
        if depth == 0:
            out.append(src[i])
        i += 1
    return "".join(out)


def _outside_sections(code: str) -> str:
    """The text of a .v file with every Section ... End block removed."""
    out, depth = [], 0
    for sent in re.split(r"(?<=\.)\s", code):
        st = sent.strip()
        if re.match(r"Section\s+\w+\s*\.", st):
            depth += 1
            continue
        if depth and re.match(r"End\s+\w+\s*\.", st):
            depth -= 1
            continue
        if depth == 0:
            out.append(sent)
    return "\n".join(out)


def coq_files() -> list:
    files = []
    for d in COQ_DIRS:
        files += sorted(glob.glob(os.path.join(COQ, d, "*.v")))
    return files


def lint(ctx: Optional[Ctx]) -> list:
    bad = []
    for f in coq_files() + [os.path.join(COQ, "_CoqProject")]:
        src = open(f).read()
        code = strip_comments(src) if f.endswith(".v") else src
        # string literals may contain anything
        code_nostr = re.sub(r'"(?:[^"]|"")*"', '""', code)
        # Variable / Hypothesis / Context are only allowed inside a Section
        outside = _outside_sections(code_nostr)
        for rx, name in _BAN:
            target = outside if name == "axiom-like declaration" else code_nostr
            if re.search(rx, target):
                bad.append(f"{os.path.relpath(f, VERIF)}: {name}")
        if re.search(r"(^|\.\s+|\n)\s*(Axiom|Axioms|Parameter|Parameters|Conjecture|Conjectures)\b", code_nostr):
            bad.append(f"{os.path.relpath(f, VERIF)}: axiom declaration")
    if ctx is not None and bad:
        ctx.broken.append(Broken("lint", "forbidden construct in the Coq development", "; ".join(bad)))
    return bad


# ------------------------------------------------------------------ tables + build
def regen_tables(ctx: Optional[Ctx]) -> bool:
    from harness import gen_tables
    try:
        gen_tables.generate(os.path.join(COQ, "gen", "Tables.v"))
        return True
    except Exception as ex:  # fail closed
        if ctx is not None:
            ctx.broken.append(Broken("translator", "gen_tables.py could not translate the data tables",
                                     f"{type(ex).__name__}: {ex}"))
        return False


def _sync_coqproject():
    head = ["-Q . V",
            "-arg -w -arg -notation-overridden,-deprecated-hint-without-locality,-deprecated-instance-without-locality"]
    files = [os.path.relpath(f, COQ) for f in coq_files()]
    text = "\n".join(head + files) + "\n"
    p = os.path.join(COQ, "_CoqProject")
    changed = (not os.path.exists(p)) or open(p).read() != text
    if changed:
        open(p, "w").write(text)
    mk = os.path.join(COQ, "Makefile")
    if changed or not os.path.exists(mk) or os.path.getmtime(mk) < os.path.getmtime(p):
        subprocess.run(["coq_makefile", "-f", "_CoqProject", "-o", "Makefile"], cwd=COQ, check=True,
                       stdout=subprocess.DEVNULL, stderr=subprocess.DEVNULL)


def build(ctx: Optional[Ctx], targets: list, timeout: int = 3000) -> bool:
    """make the given .vo targets (full .vo build) under a lock."""
    os.makedirs(WORK, exist_ok=True)
    with open(os.path.join(WORK, ".build.lock"), "w") as lk:
        fcntl.flock(lk, fcntl.LOCK_EX)
        _sync_coqproject()
        cmd = ["make", f"-j{NCPU}"] + targets
        try:
            r = subprocess.run(cmd, cwd=COQ, capture_output=True, text=True, timeout=timeout)
        except subprocess.TimeoutExpired:
            if ctx is not None:
                ctx.broken.append(Broken("proof", "coq build timed out", " ".join(cmd)))
            return False
    if r.returncode != 0:
        err = (r.stdout + "\n" + r.stderr)
        m = re.search(r'File "([^"]+)", line (\d+).*?\n(Error:.*?)(?:\nmake|\Z)', err, re.S)
        detail = (f"{m.group(1)}:{m.group(2)}: {m.group(3).strip()[:600]}" if m else err[-800:])
        if ctx is not None:
            ctx.broken.append(Broken("proof", "a Coq proof obligation no longer checks (make failed)", detail))
        return False
    return True


def theorems_of(prop: str) -> list:
    src = strip_comments(open(os.path.join(COQ, "props", f"{prop}.v")).read())
    return re.findall(r"^\s*(?:Theorem|Example)\s+([A-Za-z0-9_']+)", src, re.M)


def check_assumptions(ctx: Ctx) -> dict:
    """Print Assumptions for every theorem of props/<prop>.v (separate coqc run on the built .vo)."""
    thms = theorems_of(ctx.prop)
    wd = ctx.workdir
    f = os.path.join(wd, f"Assum_{ctx.prop}.v")
    with open(f, "w") as fh:
        fh.write(f"From V Require Import props.{ctx.prop}.\n")
        for t in thms:
            fh.write(f'Goal True. idtac "@@ {t}". exact I. Qed.\nPrint Assumptions {t}.\n')
    r = subprocess.run(["coqc", "-Q", COQ, "V", f], capture_output=True, text=True, timeout=600, cwd=wd)
    out = r.stdout + r.stderr
    res = {}
    if r.returncode != 0:
        ctx.broken.append(Broken("assumption", "Print Assumptions run failed", out[-600:]))
        return res
    parts = re.split(r"@@ (\S+)", out)
    for i in range(1, len(parts), 2):
        name, body = parts[i], parts[i + 1]
        if "Closed under the global context" in body:
            res[name] = []
        else:
            axs = re.findall(r"^([A-Za-z0-9_.']+)\s*:", body, re.M)
            res[name] = axs
            notallowed = [a for a in axs if a not in AXIOM_ALLOW]
            if notallowed:
                ctx.broken.append(Broken("assumption", f"theorem {name} depends on axioms", ", ".join(notallowed)))
    missing = [t for t in thms if t not in res]
    if missing:
        ctx.broken.append(Broken("assumption", "no Print Assumptions output", ", ".join(missing)))
    return res


# ------------------------------------------------------------------ correspondence
def _unlimit_stack():
    import resource
    try:
        resource.setrlimit(resource.RLIMIT_STACK, (resource.RLIM_INFINITY, resource.RLIM_INFINITY))
    except Exception:  # noqa
        pass


def _run_case_file(args):
    path, wd = args
    r = subprocess.run(["coqc", "-Q", COQ, "V", path], capture_output=True, text=True, timeout=1800, cwd=wd,
                       preexec_fn=_unlimit_stack)
    return path, r.returncode, r.stdout + r.stderr


def eval_cases(ctx: Ctx, kernel: str, imports: list, cases: list, chunk: int = 400,
               oracle: Optional[Callable] = None, preamble: str = "") -> int:
    """Evaluate [val_eqb model impl] for every case inside coqc; record disagreements."""
    if not cases:
        return 0
    wd = os.path.join(ctx.workdir, kernel)
    os.makedirs(wd, exist_ok=True)
    files = []
    for ci in range(0, len(cases), chunk):
        part = cases[ci:ci + chunk]
        path = os.path.join(wd, f"cases_{ci // chunk}.v")
        with open(path, "w") as fh:
            fh.write("From V Require Import base.Prelude base.Strs " + " ".join(imports) + ".\n")
            fh.write("Local Open Scope N_scope.\n" + preamble + "\n")
            fh.write("Definition cs : list (N * val * val) := [\n")
            fh.write(";\n".join(f" ({ci + k}, {c.model}, {to_val(c.impl)})" for k, c in enumerate(part)))
            fh.write("\n].\n")
            fh.write("Eval vm_compute in (List.length cs, bad_cases cs).\n")
        files.append(path)
    bad_idx = []
    with ThreadPoolExecutor(max_workers=NCPU) as ex:
        for path, rc, out in ex.map(_run_case_file, [(f, wd) for f in files]):
            flat = " ".join(out.split())
            m = re.search(r"= \((\d+)%?\w*, \[(.*?)\]\)", flat)
            if rc != 0 or not m:
                ctx.broken.append(Broken("correspondence", f"kernel {kernel}: case file did not evaluate",
                                         f"{os.path.basename(path)}: {out[-500:]}"))
                continue
            if m.group(2).strip():
                bad_idx += [int(x.split("%")[0]) for x in m.group(2).split(";")]
    k = ctx.kernels.setdefault(kernel, {"cases": 0, "disagreements": 0})
    k["cases"] += len(cases)
    k["disagreements"] += len(bad_idx)
    ctx.count("evaluations", len(cases))
    stale = os.path.join(WORK, f"last_disagreements_{ctx.prop}_{kernel}.json")
    if not bad_idx and os.path.exists(stale):
        os.remove(stale)
    if bad_idx:
        bad_idx.sort()
        metas = [cases[i].meta for i in bad_idx[:50]]
        # print the model's answers for the first few
        show = []
        path = os.path.join(wd, "show.v")
        with open(path, "w") as fh:
            fh.write("From V Require Import base.Prelude base.Strs " + " ".join(imports) + ".\n")
            fh.write("Local Open Scope N_scope.\n" + preamble + "\n")
            for i in bad_idx[:40]:
                fh.write(f"Eval vm_compute in ({cases[i].model}).\n")
        _, rc, out = _run_case_file((path, wd))
        vals = [" ".join(x.split())[:400] for x in re.split(r"\n\s*=", "\n" + out)[1:]]
        for n, i in enumerate(bad_idx[:40]):
            show.append({"input": cases[i].meta, "impl": repr(cases[i].impl)[:400],
                         "model": vals[n] if n < len(vals) else "?"})
        with open(os.path.join(WORK, f"last_disagreements_{ctx.prop}_{kernel}.json"), "w") as fh:
            json.dump(show, fh, indent=1, default=str)
        show = show[:5]
        ctx.broken.append(Broken("correspondence",
                                 f"kernel {kernel}: model and implementation differ on {len(bad_idx)} of {len(cases)} cases",
                                 json.dumps(show, default=str)[:3000], inputs=[(kernel, m_) for m_ in metas]))
    return len(bad_idx)


CLASS_IMPORTS = ["gen.Tables", "model.Cfg", "model.Names", "model.Wildcard", "model.Addr", "model.Ports", "model.Ace",
                 "model.Lex", "model.AddrText", "model.AceText", "model.AclText", "model.Shading", "model.SplitPorts",
                 "model.Platform", "model.Ops", "run.RunText", "run.RunClass"]


def count_true(ctx: Ctx, kernel: str, imports: list, exprs: list, chunk: int = 400) -> Optional[int]:
    """How many of the boolean Coq expressions evaluate to true (vm_compute inside coqc)?  Used to
    count the explored cases that lie inside the class of a certificate-free theorem (informational:
    the count decides nothing; a file that does not evaluate is recorded as a note)."""
    if not exprs:
        return 0
    if not build(None, ["run/RunText.vo", "run/RunClass.vo"]):      # the checker sits behind the long proof chain: never fatal here
        ctx.notes.append(f"kernel {kernel}: run/RunClass.vo did not build, class count skipped")
        return None
    wd = os.path.join(ctx.workdir, kernel)
    os.makedirs(wd, exist_ok=True)
    files = []
    for ci in range(0, len(exprs), chunk):
        path = os.path.join(wd, f"count_{ci // chunk}.v")
        with open(path, "w") as fh:
            fh.write("From V Require Import base.Prelude base.Strs " + " ".join(imports) + ".\n")
            fh.write("Local Open Scope N_scope.\n")
            fh.write("Definition bs : list bool := [\n" + ";\n".join(f" ({e})" for e in exprs[ci:ci + chunk]) + "\n].\n")
            fh.write("Eval vm_compute in (List.length bs, List.length (List.filter (fun b : bool => b) bs)).\n")
        files.append(path)
    total = 0
    with ThreadPoolExecutor(max_workers=NCPU) as ex:
        for path, rc, out in ex.map(_run_case_file, [(f, wd) for f in files]):
            m = re.search(r"= \((\d+)%?\w*, (\d+)%?\w*\)", " ".join(out.split()))
            if rc != 0 or not m:
                # informational only: the count decides nothing, so a failure here is a note, not an alarm
                ctx.notes.append(f"kernel {kernel}: class count did not evaluate ({os.path.basename(path)}: {out[-200:]})")
                return None
            total += int(m.group(2))
    return total


# ------------------------------------------------------------------ known findings / replay / evidence
def load_findings(prop: str) -> list:
    data = json.load(open(os.path.join(VERIF, "known_findings.json")))
    return [f for f in data["findings"] if f["property"] == prop]


def write_replay(ctx: Ctx, payload: dict) -> str:
    os.makedirs(REPLAY, exist_ok=True)
    payload = dict(payload, property=ctx.prop, tier=ctx.tier, seed=ctx.seed,
                   how_to_replay=f"cd /verif && ./check {ctx.prop} --replay <this file>")
    blob = json.dumps(payload, indent=1, default=str, sort_keys=True)
    h = hashlib.sha1(blob.encode()).hexdigest()[:10]
    path = os.path.join(REPLAY, f"{ctx.prop}-{h}.json")
    open(path, "w").write(blob)
    return path


def write_evidence(ctx: Ctx, level: str, n_violations: int, assumptions: dict, extra: dict):
    os.makedirs(EVID, exist_ok=True)
    try:   # the level written is the level claimed in MANIFEST.json (both come from tools/claims.json)
        with open(os.path.join(os.path.dirname(EVID), "tools", "claims.json")) as fh:
            level = json.load(fh).get(ctx.prop, {}).get("category", level)
    except (OSError, ValueError):
        pass
    thms = theorems_of(ctx.prop) if os.path.exists(os.path.join(COQ, "props", f"{ctx.prop}.v")) else []
    proof_broken = [b for b in ctx.broken if b.kind in ("proof", "assumption", "lint", "translator")]
    discharged = 0 if proof_broken else len([t for t in thms if t in assumptions])
    cov = {
        "obligations": len(thms),
        "discharged": discharged,
        "checker_cmd": f"make -C /verif/coq props/{ctx.prop}.vo (coqc 8.16.1, full .vo) + coqc Print Assumptions; "
                       f"correspondence: coqc vm_compute over generated case files",
        "trusted_base": TRUSTED_BASE,
        "theorems": {t: (assumptions.get(t) if t in assumptions else "not checked") for t in thms},
        "evaluations": ctx.coverage.get("evaluations", 0),
        "distinct_nontrivial": ctx.coverage.get("distinct_nontrivial", 0),
        "rule": extra.pop("rule", ""),
        "samples": ctx.samples[:12] or [{"theorems": thms[:5]}],
        "kernels": ctx.kernels,
        "broken": [{"kind": b.kind, "what": b.what, "detail": b.detail[:500]} for b in ctx.broken],
        "known_findings_reported": ctx.known_lines,
        "notes": ctx.notes,
    }
    cov.update({k: v for k, v in ctx.coverage.items() if k not in cov})
    cov.update(extra)
    ev = {
        "property_id": ctx.prop, "tier": ctx.tier, "seed": ctx.seed, "level": level,
        "coverage": cov,
        "assumptions": extra.get("assumptions_text", []) or [
            "theorems are about the Gallina model; the tie to /repo is the generated Tables.v plus the correspondence "
            "check (a sample outside the exhaustive sub-domains named in coverage)"],
        "wall_s": round(time.time() - ctx.t0, 2),
        "violations": n_violations,
    }
    cov.pop("assumptions_text", None)
    path = os.path.join(EVID, f"{ctx.prop}.json")
    with open(path, "w") as fh:
        json.dump(ev, fh, indent=1, default=str)
    return path


class ImplViolation(Exception):
    """Raised by an exhaustive implementation-side sweep that found a property failure."""

    def __init__(self, payload: dict):
        super().__init__(payload.get("failure", {}).get("what", "violation"))
        self.payload = payload
