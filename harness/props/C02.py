"""C02 - IOS <-> NX-OS conversion changes spelling only, never the ACL's meaning."""
from __future__ import annotations

import os
import random

from harness import core, acegen, addrgen as ag, cisco_reader as cr
from harness.core import Case, coq_list, coq_str, outcome
from harness.kernels import acetext

LEVEL = "translation_validation"
MODEL_TARGETS = ["run/RunPlatform.vo"]
RULE = ("extended ACLs of 1..6 lines (remarks, ACEs over the C01 grammar with names/numbers, hosts, prefixes, "
        "contiguous and non-contiguous wildcards, multi-port eq on IOS, sequence numbers, address groups with members, "
        "flat and grouped by remark prefix), both directions ios->nxos and nxos->ios, all four switch settings; single "
        "ACEs, addresses, address-group members and address groups converted on their own; there-back-there. Each "
        "converted ACL is one validated program: model vs implementation, plus the Coq-checked certificate of equal "
        "decisions. Non-trivial = conversion changes the text; distinct = distinct (text, direction).")
IMPORTS = acetext.IMPORTS + ["model.AclText", "model.Shading", "model.SplitPorts", "model.Platform", "run.RunPlatform"]
OTHER = {"ios": "nxos", "nxos": "ios"}


def gen_body(rnd, ca, plat):
    lines, abstract = [], []
    numbering = rnd.choice(["none", "none", "ascending", "ascending", "any"])
    for i in range(rnd.randint(1, 6)):
        if numbering == "any":
            # numbers not in text order, repeated, and lines without a number between numbered ones: conversion
            # keeps the order of the TEXT
            pre = rnd.choice(["", "", "10 ", "20 ", "30 ", "5 ", f"{rnd.randint(1, 99)} "])
        else:
            pre = f"{(i + 1) * 10} " if numbering == "ascending" else ""
        if rnd.random() < 0.2:
            lines.append(pre + "remark " + rnd.choice(["text", "= B1", "= B2, x"]))
            abstract.append(None)
            continue
        a = acegen.rand_ace(rnd, plat, groups=False)
        for f in ("sport", "dport"):      # multi-port neq is owned by C19
            if a[f] and a[f][0] == "neq":
                a[f] = ("neq", a[f][1][:1])
        if plat == "ios" and a["proto"] in (6, 17) and rnd.random() < 0.3:
            a["dport"] = ("eq", sorted(rnd.sample([22, 80, 443, 135, 8080, 514], rnd.randint(2, 3))))
        toks = acetext.valid_text(rnd, ca, plat, "0", a, None)
        lines.append(pre + " ".join(toks))
        abstract.append(a)
        if rnd.random() < 0.2:
            # an entry that repeats the previous one, literally or with an overlapping port list: after the split
            # two pieces read the same, and both must stay
            b = dict(a)
            if plat == "ios" and b["proto"] in (6, 17) and b["dport"] and b["dport"][0] == "eq" and rnd.random() < 0.7:
                b["dport"] = ("eq", sorted({b["dport"][1][-1], rnd.choice([22, 80, 443, 8443, 514])}))
            toks = acetext.valid_text(random.Random(1), ca, plat, "0", b, None)
            lines.append(pre + " ".join(toks))
            abstract.append(b)
    return lines, abstract


def correspond(ctx):
    ca = core.impl_module()
    rnd = random.Random(ctx.seed)
    n = 260 if ctx.tier == "quick" else 1500
    cases, nontrivial = [], set()
    metas = []
    class_exprs = []
    for _ in range(n):
        plat = rnd.choice(["ios", "nxos"])
        to = OTHER[plat]
        pn, prn = rnd.random() < 0.3, rnd.random() < 0.3
        lines, abstract = gen_body(rnd, ca, plat)
        meta = {"k": "acl", "platform": plat, "to": to, "lines": lines, "abstract": abstract, "port_nr": pn,
                "protocol_nr": prn, "grouped": rnd.random() < 0.3,
                "to_spelling": rnd.choice({"ios": ["ios", "ios", "cisco_ios"], "nxos": ["nxos", "nxos", "cnx", "cisco_nxos"]}[to])}
        metas.append(meta)

        def run(meta=meta):
            head = "ip access-list extended A" if meta["platform"] == "ios" else "ip access-list A"
            a = ca.Acl("\n".join([head] + meta["lines"]), platform=meta["platform"], port_nr=meta["port_nr"],
                       protocol_nr=meta["protocol_nr"])
            a.platform = meta.get("to_spelling", meta["to"])
            l1 = [o.line for o in a.items]
            a.platform = meta["platform"]
            a.platform = meta["to"]
            return [l1, True, [o.line for o in a.items] == l1]
        impl = outcome(run)
        c1 = acetext.cfg_coq(plat, "0", pn, prn)
        c2 = acetext.cfg_coq(to, "0", pn, prn)
        cases.append(Case(f"run_acl_platform {c1} {c2} {coq_list(coq_str(l) for l in lines)}", impl, meta))
        class_exprs.append(f"acl_in_class {c1} {c2} {coq_list(coq_str(l) for l in lines)}")
        if not isinstance(impl, core.Err):
            nontrivial.add(repr((lines, to)))
    # single ACEs and addresses
    for _ in range(200 if ctx.tier == "quick" else 2000):
        plat = rnd.choice(["ios", "nxos"])
        to = OTHER[plat]
        a = acegen.rand_ace(rnd, plat, groups=False)
        text = " ".join(acetext.valid_text(rnd, ca, plat, "0", a, rnd.choice([None, 10])))
        meta = {"k": "ace", "platform": plat, "to": to, "text": text, "abstract": a}

        def run1(text=text, plat=plat, to=to):
            o = ca.Ace(text, platform=plat)
            o.platform = to
            return [o.line, acegen.obs_ace(o)]
        cases.append(Case(f"run_ace_platform {acetext.cfg_coq(plat, '0', False, False)} "
                          f"{acetext.cfg_coq(to, '0', False, False)} {coq_str(text)}", outcome(run1), meta))
        _, b, m = ag.rand_abstract(rnd)
        at = ag.spell(rnd, plat, b, m)[1]
        meta2 = {"k": "addr", "platform": plat, "to": to, "text": at, "A": [b, m]}

        def run2(at=at, plat=plat, to=to):
            o = ca.Address(at, platform=plat)
            o.platform = to
            return [acegen.obs_addr(o), o.line]
        cases.append(Case(f"run_addr_platform {acetext.PL[plat]} {acetext.PL[to]} {coq_str(at)}", outcome(run2), meta2))
    ctx.samples += [metas[0]["lines"], metas[-1]["lines"]]
    ctx.coverage["distinct_nontrivial"] = len(nontrivial)
    ctx.coverage["programs"] = n
    bad = core.eval_cases(ctx, "K-platform", IMPORTS, cases, chunk=max(10, len(cases) // 16 + 1))
    ctx.coverage["disagreements_checked"] = bad
    # how many explored conversions lie inside the class of the certificate-free theorem C02_conversion_checked?
    ctx.coverage["conversions_in_class_of_C02_conversion_checked"] = core.count_true(
        ctx, "K-platform-class", core.CLASS_IMPORTS, class_exprs, chunk=max(10, len(class_exprs) // 16 + 1))
    ctx.coverage["conversions_total"] = len(class_exprs)
    n_known = 0
    for meta in metas:
        f = oracle(ctx, "K-platform", meta)
        if f and matches_known(ctx, "K-platform", meta, f):
            # the listed defect of the AceGroup setter: the same ACL without AceGroups must still convert
            n_known += 1
            meta = dict(meta, grouped=False)
            f = oracle(ctx, "K-platform", meta)
        if f:
            raise core.ImplViolation(dict(kind="input", kernel="K-platform", input=meta, failure=f))
    ctx.coverage["grouped_acls_hitting_known_N11"] = n_known
    for _ in range(120 if ctx.tier == "quick" else 2000):
        f = _groups_check(ca, rnd)
        if f:
            raise core.ImplViolation(f)


def _expected_after(abstract):
    """the abstract rule list after conversion to nxos: multi-port eq entries become single-port entries"""
    return abstract


def oracle(ctx, kernel, meta):
    ca = core.impl_module()
    if meta["k"] != "acl":
        return None
    plat, to = meta["platform"], meta["to"]
    head = "ip access-list extended A" if plat == "ios" else "ip access-list A"
    try:
        a = ca.Acl("\n".join([head] + meta["lines"]), platform=plat, port_nr=meta["port_nr"], protocol_nr=meta["protocol_nr"])
        by_id = {id(o): ab for o, ab in zip(a.items, meta["abstract"])}
        if meta.get("grouped"):
            a.group("= ")      # a repeated heading remark is merged by group(): align by object
        before = [o for o in _flat(a)]
        abstract = [by_id[id(o)] for o in before]
        seqs0 = [o.sequence for o in before]
        a.platform = meta.get("to_spelling", to)
    except Exception as ex:  # noqa
        import traceback
        frames = [(os.path.basename(fr.filename), fr.name) for fr in traceback.extract_tb(ex.__traceback__)]
        site = "AceGroup.platform" if ("ace_group.py", "platform") in frames else "other"
        return {"what": f"conversion {plat}->{to} raised {type(ex).__name__}: {str(ex)[:160]}", "site": site,
                "exc": type(ex).__name__}
    after = _flat(a)
    # walk: every original entry corresponds to one entry, or (multi-port eq -> nxos) adjacent single-port entries
    j = 0
    for i, ab in enumerate(abstract):
        if ab is None:
            if j >= len(after) or after[j].__class__.__name__ != "Remark" or after[j].line != before[i].line:
                return {"what": f"remark {before[i].line!r} was not kept in place"}
            j += 1
            continue
        exp_union = None
        got = []
        multi = to == "nxos" and any(ab[f] and ab[f][0] == "eq" and len(ab[f][1]) > 1 for f in ("sport", "dport"))
        cnt = 1
        if multi:
            cnt = (len(ab["sport"][1]) if ab["sport"] and ab["sport"][0] == "eq" else 1) * \
                  (len(ab["dport"][1]) if ab["dport"] and ab["dport"][0] == "eq" else 1)
        for o in after[j:j + cnt]:
            if o.__class__.__name__ != "Ace":
                return {"what": f"entry {before[i].line!r} was not converted in place"}
            try:
                r = cr.read_ace(o.line, to)
            except cr.ReadError as ex:
                return {"what": f"converted line {o.line!r} is not valid {to} syntax: {ex}"}
            got.append(r)
            if not multi and o.sequence != seqs0[i]:
                return {"what": f"sequence number of {before[i].line!r} changed"}
        j += cnt
        # union of the converted entries = original
        for r in got:
            base = dict(ab)
            d = None
            if r["permit"] != ab["permit"] or r["proto"] != ab["proto"]:
                d = "action/protocol"
            for f in ("src", "dst"):
                bb, mm = r[f]
                if mm != ab[f][2] or (bb & ~mm & ag.ALL) != (ab[f][1] & ~ab[f][2] & ag.ALL):
                    d = f
            if set(r["flags"]) != set(ab["flags"]):
                d = "flags"
            if d:
                return {"what": f"{before[i].line!r} -> {[x for x in after[j - cnt:j]] and after[j - cnt].line!r}: {d} changed"}
        for f in ("sport", "dport"):
            want = cr.port_set(None if ab[f] is None else (ab[f][0], list(ab[f][1])))
            sets = [cr.port_set(r[f]) for r in got]
            uni = None if all(s is None for s in sets) else set().union(*[s for s in sets if s is not None])
            if uni != want:
                return {"what": f"{before[i].line!r}: the {f} set of the converted entries differs from the original"}
    if j != len(after):
        return {"what": "extra entries after the conversion"}
    if a.name != "A":
        return {"what": "the ACL name changed"}
    want_head = "ip access-list extended A" if to == "ios" else "ip access-list A"
    if a.platform != to or a.line.split("\n")[0].strip() != want_head:
        return {"what": f"after platform={meta.get('to_spelling', to)!r} the ACL reports platform {a.platform!r} and the "
                        f"header {a.line.split(chr(10))[0]!r}; valid {to} syntax is {want_head!r}"}
    # there - back - there
    l1 = a.line
    try:
        a.platform = plat
        a.platform = to
    except Exception as ex:  # noqa
        import traceback
        frames = [(os.path.basename(fr.filename), fr.name) for fr in traceback.extract_tb(ex.__traceback__)]
        site = "AceGroup.platform" if ("ace_group.py", "platform") in frames else "other"
        return {"what": f"converting back and there again raised {type(ex).__name__}: {str(ex)[:160]}", "site": site,
                "exc": type(ex).__name__}
    if a.line != l1:
        return {"what": "converting there, back and there again reaches a different text"}
    return None


def _flat(a):
    out = []
    for it in a.items:
        if it.__class__.__name__ == "AceGroup":
            out.extend(it.items)
        else:
            out.append(it)
    return out


def _groups_check(ca, rnd):
    """address-group members and groups on their own, and members attached to ACE addresses"""
    plat = rnd.choice(["ios", "nxos"])
    to = OTHER[plat]
    mem, abst = [], []
    for i in range(rnd.randint(1, 4)):
        _, b, m = ag.rand_abstract(rnd, ("host", "prefix", "prefix"))
        if m == ag.ALL:
            m = ag.hostmask(8)
        pre = f"{(i + 1) * 10} " if plat == "nxos" and rnd.random() < 0.5 else ""
        mem.append(pre + ag.spell_ag(rnd, plat, b, m)[1])
        abst.append((b & ~m & ag.ALL, 32 - bin(m).count("1")))
    head = "object-group network G" if plat == "ios" else "object-group ip address G"
    inp = {"class": "AddrGroup", "platform": plat, "to": to, "lines": mem}
    try:
        g = ca.AddrGroup("\n".join([head] + mem), platform=plat)
        g.platform = to
        nets = [(int(x.ipnet.network_address), x.ipnet.prefixlen) for x in g.items]
        if nets != abst:
            return dict(kind="input", kernel="K-platform", input=inp, failure={"what": f"group members changed: {nets} vs {abst}"})
        for x in g.items:
            ln = x.line
            if to == "ios" and (ln[0].isdigit() and " " in ln and ln.split()[0].isdigit() and "." not in ln.split()[0]):
                return dict(kind="input", kernel="K-platform", input=inp,
                            failure={"what": f"IOS group member {ln!r} carries a sequence number"})
            if to == "ios" and "/" in ln:
                return dict(kind="input", kernel="K-platform", input=inp, failure={"what": f"prefix notation {ln!r} on IOS"})
        l1 = g.line
        g.platform = plat
        g.platform = to
        if g.line != l1:
            return dict(kind="input", kernel="K-platform", input=inp, failure={"what": "group there-back-there differs"})
        if ca.AddrGroup(l1, platform=to).line != l1:
            return dict(kind="input", kernel="K-platform", input=inp, failure={"what": "converted group text is not stable"})
        # members attached to the two addresses of an ACE survive the conversion of the ACL
        kw = "object-group" if plat == "ios" else "addrgroup"
        ah = "ip access-list extended A" if plat == "ios" else "ip access-list A"
        acl = ca.Acl(f"{ah}\n permit ip {kw} S any\n permit ip any {kw} D\n permit ip {kw} S {kw} D", platform=plat)
        src_m = [f"host 10.1.0.{i + 1}" for i in range(rnd.randint(1, 3))]
        dst_m = [f"host 10.2.0.{i + 1}" for i in range(rnd.randint(1, 3))]
        for it in acl.items:
            if it.srcaddr.type == "addrgroup":
                it.srcaddr.items = list(src_m)
            if it.dstaddr.type == "addrgroup":
                it.dstaddr.items = list(dst_m)
        acl.platform = to
        for it in acl.items:
            for ad, want in ((it.srcaddr, src_m), (it.dstaddr, dst_m)):
                if ad.type == "addrgroup":
                    got = [str(x.network_address) for x in ad.ipnets()]
                    if got != [w.split()[1] for w in want]:
                        return dict(kind="input", kernel="K-platform",
                                    input={"class": "Acl+members", "platform": plat, "to": to, "src": src_m, "dst": dst_m},
                                    failure={"what": f"members of {ad.line!r} after conversion: {got}, before {want}"})
    except Exception as ex:  # noqa
        return dict(kind="input", kernel="K-platform", input=inp, failure={"what": f"{type(ex).__name__}: {ex}"})
    return None


def search(ctx):
    return None


def known_lines(ctx):
    ca = core.impl_module()
    out = []
    for f in core.load_findings("C02"):
        if f["status"] != "known":
            continue
        hit = False
        if f["id"] == "N11":
            try:
                g = ca.AceGroup("permit tcp any any eq 1\npermit tcp any any eq onep-plain", platform="ios")
                g.platform = "nxos"
            except ValueError:
                hit = True
        if hit:
            out.append(f"{f['id']}: {f['what']}")
        else:
            ctx.notes.append(f"known finding {f['id']} no longer reproduces")
    return out


def matches_known(ctx, kernel, meta, failure):
    """N11: AceGroup.platform = 'nxos' on a group of an IOS ACL raises ValueError (the setter marks every entry as
    NX-OS before converting it).  Only that call site, that direction and that exception are covered."""
    if (meta.get("k") == "acl" and meta.get("grouped")
            and failure.get("site") == "AceGroup.platform" and failure.get("exc") == "ValueError"):
        return "N11"        # the step towards NX-OS, on the way there or on the way "there again"
    return None
