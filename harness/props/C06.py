"""C06 - rendered text is a fixed point of the parser at every object level."""
from __future__ import annotations

import random

from harness import core, acegen, addrgen as ag
from harness.core import Case, coq_str, outcome
from harness.kernels import acetext

LEVEL = "proof"
MODEL_TARGETS = ["run/RunText.vo", "run/RunAclText.vo"]
RULE = ("ACE lines in native and foreign spellings (prefix notation on IOS, wildcards on NX-OS, names/numbers, "
        "sequence prefixes, whitespace) x platform x version x port_nr/protocol_nr: parse -> render -> parse -> render "
        "through the model and the implementation; plus an implementation sweep over every exported class (Port, "
        "Protocol, Option, Wildcard, Address, AddressAg, AddrGroup, Remark, Ace, AceGroup, Acl with indent/type/name/"
        "sequence numbers) and the config-level functions acls()/addrgroups(). Non-trivial = distinct text.")
IMPORTS = acetext.IMPORTS


def correspond(ctx):
    ca = core.impl_module()
    n = 500 if ctx.tier == "quick" else 10000
    specs = acetext.gen_cases(ctx, n, n // 5, salt=60)
    cases = []
    for s in specs:
        kw = dict(platform=s["platform"], version=s["version"], port_nr=s["port_nr"], protocol_nr=s["protocol_nr"])

        def f(s=s, kw=kw):
            a = ca.Ace(s["text"], **kw)
            l1 = a.line
            b = ca.Ace(l1, **kw)
            return [l1, b.line, acegen.obs_ace(b)]
        impl = outcome(f)
        meta = {k: s[k] for k in ("text", "platform", "version", "port_nr", "protocol_nr", "valid")}
        cases.append(Case(f"run_ace_twice {acetext.cfg_coq(s['platform'], s['version'], s['port_nr'], s['protocol_nr'])} "
                          f"{coq_str(s['text'])}", impl, meta))
    # deterministic corpus: every named port number of every table, in source and destination position
    from cisco_acl import port_name as pn
    for plat in ("ios", "nxos"):
        for ver in ("0", "15.2"):
            for proto in ("tcp", "udp"):
                for nr in sorted(set(pn.PortName(proto, "ios", "16").names().values())
                                 | set(pn.PortName(proto, "ios", "15").names().values())
                                 | set(pn.PortName(proto, "nxos", "9").names().values())):
                    s = {"text": f"permit {proto} any eq {nr} any eq {nr}", "platform": plat, "version": ver,
                         "port_nr": False, "protocol_nr": False, "valid": True}
                    kw = dict(platform=plat, version=ver)

                    def g(s=s, kw=kw):
                        a = ca.Ace(s["text"], **kw)
                        b = ca.Ace(a.line, **kw)
                        return [a.line, b.line, acegen.obs_ace(b)]
                    cases.append(Case(f"run_ace_twice {acetext.cfg_coq(plat, ver, False, False)} {coq_str(s['text'])}",
                                      outcome(g), dict(s)))
    ctx.samples += [c.meta["text"] for c in cases[:3]]
    ctx.coverage["distinct_nontrivial"] = len({c.meta["text"] for c in cases})
    core.eval_cases(ctx, "K-ace-fixpoint", IMPORTS, cases, chunk=max(10, len(cases) // 16 + 1))
    # how many explored lines give an entry inside the class of the fixed-point theorem (C06_checked)?
    exprs = [c.model.replace("run_ace_twice", "ace_in_class", 1) for c in cases]
    ctx.coverage["entries_in_class_of_C06_checked"] = core.count_true(ctx, "K-ace-fixpoint-class", core.CLASS_IMPORTS, exprs,
                                                                      chunk=max(10, len(exprs) // 16 + 1))
    ctx.coverage["entries_total"] = len(exprs)
    # the implementation at every level, on everything generated
    for c in cases:
        f = oracle(ctx, "K-ace-fixpoint", c.meta)
        if f and not matches_known(ctx, "K-ace-fixpoint", c.meta, f):
            raise core.ImplViolation(dict(kind="input", kernel="K-ace-fixpoint", input=c.meta, failure=f))
    rnd = random.Random(ctx.seed + 77)
    nobj = 0
    for _ in range(250 if ctx.tier == "quick" else 5000):
        f, k = _object_sweep(ca, rnd)
        nobj += k
        if f:
            raise core.ImplViolation(dict(kind="input", kernel="K-objects", input=f["input"], failure=f))
    for inp, f in _n1_corpus(ca):
        if not matches_known(ctx, "K-objects", inp, f):
            raise core.ImplViolation(dict(kind="input", kernel="K-objects", input=inp, failure=f))
    ctx.coverage["objects_checked_on_impl"] = nobj
    ctx.count("evaluations", nobj)


def _strip(d):
    """data() without identifiers (uuid) - recursively"""
    if isinstance(d, dict):
        return {k: _strip(v) for k, v in d.items() if k != "uuid"}
    if isinstance(d, list):
        return [_strip(x) for x in d]
    return d


def _fix(cls, text, kw, native):
    """X(text).line -> X(that).line: strict one-step for native text, two-step convergence otherwise"""
    try:
        o1 = cls(text, **kw)
    except (ValueError, TypeError):
        return None
    l1 = o1.line
    try:
        o2 = cls(l1, **kw)
    except Exception as ex:  # noqa
        return f"rendered text {l1!r} of {cls.__name__}({text!r}) is rejected: {type(ex).__name__}: {ex}"
    l2 = o2.line
    # one step for the text, for every accepted spelling: the rendered text re-parses to itself.  The data of
    # the object built from the rendered text is what must be stable (a malformed source may carry fields that
    # are not part of the rendered text, e.g. port tokens without tcp/udp: parsed, never rendered)
    if l2 != l1:
        return f"{cls.__name__}({text!r}, {kw}): re-parsing the rendered text {l1!r} gives {l2!r}"
    if native and _strip(o2.data()) != _strip(o1.data()):
        return f"{cls.__name__}({text!r}, {kw}): re-parsing the rendered text {l1!r} gives other data"
    o3 = cls(l2, **kw)
    if o3.line != l2 or _strip(o3.data()) != _strip(o2.data()):
        return f"{cls.__name__}({text!r}, {kw}): text/data not stable from the first re-parse on: {l1!r} -> {o3.line!r}"
    return None


N1_TEXTS = ["0.0.0.0/0", "10.0.0.0/0", "1.2.3.4/0"]


def _n1_corpus(ca):
    """zero-length prefixes and the other spellings of 'every address', on both platforms"""
    out = []
    for plat in ("ios", "nxos"):
        for t in N1_TEXTS + ["any", "0.0.0.0 255.255.255.255", "1.1.1.1 255.255.255.255", "0.0.0.0/32", "host 0.0.0.0"]:
            w = _fix(ca.Address, t, dict(platform=plat), False)
            if w:
                out.append(({"class": "Address", "text": t, "kw": {"platform": plat}}, {"what": w}))
            w = _fix(ca.Ace, f"permit ip {t} any", dict(platform=plat), False)
            if w:
                out.append(({"class": "Ace", "text": f"permit ip {t} any", "kw": {"platform": plat}}, {"what": w}))
    return out


def oracle(ctx, kernel, meta):
    ca = core.impl_module()
    if "text" not in meta:
        return None
    kw = dict(platform=meta["platform"], version=meta["version"], port_nr=meta["port_nr"], protocol_nr=meta["protocol_nr"])
    w = _fix(ca.Ace, meta["text"], kw, native=False)
    return {"what": w} if w else None


def _object_sweep(ca, rnd):
    plat = rnd.choice(["ios", "nxos"])
    ver = rnd.choice(["0", "15.2", "16.9"])
    kw = dict(platform=plat, version=ver)
    count = 0

    def chk(cls, text, kw_, native):
        nonlocal count
        count += 1
        w = _fix(cls, text, kw_, native)
        return {"what": w, "input": {"class": cls.__name__, "text": text, "kw": {k: str(v) for k, v in kw_.items()}}} if w else None

    # Port / Protocol / Option
    p = acegen.rand_port(rnd, plat)
    f = chk(ca.Port, acegen.port_text(p), dict(kw, protocol=rnd.choice(["tcp", "udp"]), port_nr=rnd.random() < 0.5), True)
    if f:
        return f, count
    f = chk(ca.Protocol, rnd.choice(["ip", "tcp", "udp", "icmp", "ahp", "ah", "ipinip", "255", "6", "0", "41"]),
            dict(kw, protocol_nr=rnd.random() < 0.5), False)
    if f:
        return f, count
    f = chk(ca.Option, rnd.choice(["log", "ack syn log-input", "", "established", "dscp ef log"]), kw, True)
    if f:
        return f, count
    # Wildcard / Address / AddressAg
    _, b, m = ag.rand_abstract(rnd)
    f = chk(ca.Wildcard, f"{ag.ip(b)} {ag.ip(m)}", kw, False)
    if f:
        return f, count
    _, t = ag.spell(rnd, plat, b, m)
    f = chk(ca.Address, t, kw, False)
    if f:
        return f, count
    if ag.is_contig(m) and not (plat == "ios" and m == ag.ALL):
        seq = rnd.choice(["", "10 "]) if plat == "nxos" else ""
        f = chk(ca.AddressAg, seq + ag.spell_ag(rnd, plat, b, m)[1], kw, False)
        if f:
            return f, count
    # Remark
    f = chk(ca.Remark, rnd.choice(["remark text", "10 remark = C-1, x", "remark  a   b ", "4294967295 remark z"]), kw, True)
    if f:
        return f, count
    # entries whose rendered text is longer than the source text (numbers become names) and than 100 characters
    if plat == "ios":
        long_src = "permit udp 10.10.10.0 0.0.0.255 eq 137 138 496 4500 20.20.20.0 0.0.0.255 eq 137 138 496 4500 log"
        long_src2 = "permit tcp 10.10.10.0 0.0.0.255 eq 15001 15002 496 20.20.20.0 0.0.0.255 eq 15001 15002 496 139 log"
    else:
        long_src = "permit udp 10.10.10.0/24 range 137 4500 20.20.20.0/24 range 138 496 log"
        long_src2 = "permit udp 10.10.10.0 0.0.0.255 range 137 4500 20.20.20.0 0.0.0.255 range 138 496 log"
    for src in (long_src, long_src2):
        f = chk(ca.Ace, src, kw, False)
        if f:
            return f, count
    # AceGroup / Acl / AddrGroup / config level
    lines = [long_src] if rnd.random() < 0.3 else []
    for i in range(rnd.randint(1, 5)):
        if rnd.random() < 0.25:
            lines.append(f"{(i + 1) * 10} remark r{i}")
        else:
            a = acegen.rand_ace(rnd, plat, groups=False)
            lines.append(" ".join(acetext.valid_text(rnd, ca, plat, ver, a, (i + 1) * 10 if rnd.random() < 0.5 else None)))
    count += 1
    try:
        g1 = ca.AceGroup("\n".join(lines), **kw)
        g2 = ca.AceGroup(g1.line, **kw)
        g3 = ca.AceGroup(g2.line, **kw)
        if g3.line != g2.line or _strip(g3.data()) != _strip(g2.data()):
            return {"what": f"AceGroup text not stable: {g2.line!r} -> {g3.line!r}", "input": {"class": "AceGroup", "lines": lines, "platform": plat}}, count
    except Exception as ex:  # noqa
        return {"what": f"AceGroup re-parse failed: {type(ex).__name__}: {ex}", "input": {"class": "AceGroup", "lines": lines, "platform": plat}}, count
    # grouped ACL: the blocks must render and re-parse like the flat ACL (same version / switches)
    count += 1
    try:
        glines = ["remark = B1"] + lines[:2] + ["remark = B2, x"] + lines[2:] + \
                 [f"permit tcp any any eq {rnd.choice([135, 514, 15001, 15002, 80])}",
                  f"permit udp any eq {rnd.choice([521, 514, 123])} any"]
        ghead = "ip access-list extended G" if plat == "ios" else "ip access-list G"
        flat_ = ca.Acl("\n".join([ghead] + glines), **kw)
        grp = ca.Acl("\n".join([ghead] + glines), group_by="= ", **kw)
        if grp.line != flat_.line or ca.Acl(grp.line, **kw).line != grp.line:
            return {"what": f"grouped ACL renders/re-parses differently from the flat one: {grp.line!r} vs {flat_.line!r}",
                    "input": {"class": "Acl(group_by)", "lines": glines, "platform": plat, "version": ver}}, count
    except Exception as ex:  # noqa
        return {"what": f"grouped Acl failed: {type(ex).__name__}: {ex}",
                "input": {"class": "Acl(group_by)", "lines": lines, "platform": plat, "version": ver}}, count
    indent = rnd.choice(["  ", " ", "    ", "", "\t", " \t"])
    typ = "extended"
    head = f"ip access-list extended A-{rnd.randint(1, 9)}" if plat == "ios" else f"ip access-list A-{rnd.randint(1, 9)}"
    count += 1
    try:
        a1 = ca.Acl("\n".join([head] + lines), indent=indent, **kw)
        a2 = ca.Acl(a1.line, indent=indent, **kw)
        a3 = ca.Acl(a2.line, indent=indent, **kw)
        if a3.line != a2.line or _strip(a3.data()) != _strip(a2.data()) or a2.name != a1.name or a2.type != a1.type \
                or [o.sequence for o in a2.items] != [o.sequence for o in a1.items]:
            return {"what": f"Acl text/data not stable or name/type/sequence lost: {a2.line!r} -> {a3.line!r}",
                    "input": {"class": "Acl", "head": head, "lines": lines, "platform": plat, "indent": indent}}, count
        if indent:   # the config-level function needs an indentation to recognise the section
            cfg = ca.acls(a2.line, indent=indent, **kw)
            if len(cfg) != 1 or cfg[0].line != a2.line or _strip(cfg[0].data()) != _strip(a2.data()):
                return {"what": f"acls(acl.line) does not give back the ACL: {a2.line!r}",
                        "input": {"class": "acls", "head": head, "lines": lines, "platform": plat, "indent": indent}}, count
    except Exception as ex:  # noqa
        return {"what": f"Acl re-parse failed: {type(ex).__name__}: {ex}",
                "input": {"class": "Acl", "head": head, "lines": lines, "platform": plat}}, count
    mem = []
    for i in range(rnd.randint(1, 4)):
        _, b, m = ag.rand_abstract(rnd, ("host", "prefix"))
        pre = f"{(i + 1) * 10} " if plat == "nxos" and rnd.random() < 0.5 else ""
        mem.append(pre + ag.spell_ag(rnd, plat, b, m)[1])
    gh = "object-group network G1" if plat == "ios" else "object-group ip address G1"
    count += 1
    try:
        d1 = ca.AddrGroup("\n".join([gh] + mem), **kw)
        d2 = ca.AddrGroup(d1.line, **kw)
        d3 = ca.AddrGroup(d2.line, **kw)
        if d3.line != d2.line or _strip(d3.data()) != _strip(d2.data()) or d2.name != d1.name:
            return {"what": f"AddrGroup text not stable: {d2.line!r} -> {d3.line!r}",
                    "input": {"class": "AddrGroup", "lines": mem, "platform": plat}}, count
        cg = ca.addrgroups(d2.line, **kw)
        if len(cg) != 1 or cg[0].line != d2.line:
            return {"what": f"addrgroups(group.line) does not give back the group: {d2.line!r} -> {[x.line for x in cg]}",
                    "input": {"class": "addrgroups", "lines": mem, "platform": plat}}, count
    except Exception as ex:  # noqa
        return {"what": f"AddrGroup re-parse failed: {type(ex).__name__}: {ex}",
                "input": {"class": "AddrGroup", "lines": mem, "platform": plat}}, count
    return None, count


def search(ctx):
    return None


def known_lines(ctx):
    ca = core.impl_module()
    out = []
    for f in core.load_findings("C06"):
        if f["status"] != "known":
            continue
        if f["id"] == "N1" and any(matches_known(ctx, "K-objects", i, w) for i, w in _n1_corpus(ca)):
            out.append(f"{f['id']}: {f['what']}")
        elif f["id"] == "N14" and _n14(ca, "permit 16.132.4.7 any", {"platform": "ios"}) and \
                _fix(ca.Ace, "permit 16.132.4.7 any", {"platform": "ios"}, False):
            out.append(f"{f['id']}: {f['what']}")
        else:
            ctx.notes.append(f"known finding {f['id']} no longer reproduces")
    return out


def _n14(ca, text, kw):
    """N14: a standard-syntax entry 'permit A.B.C.D <tail>' (bare host address) whose tail begins like an address
    ('any', 'host', a dotted address): accepted with the tail as option text, rendered 'permit host A.B.C.D <tail>',
    which the extended pattern then claims and rejects"""
    try:
        o = ca.Ace(text, **kw)
    except Exception:  # noqa
        return False
    opt = o.option.line.split()
    return o.type == "standard" and bool(opt) and (opt[0] in ("any", "host", "object-group", "addrgroup")
                                                    or opt[0][0].isdigit() and "." in opt[0])


def matches_known(ctx, kernel, meta, failure):
    ca = core.impl_module()
    if "is rejected" in failure.get("what", "") and "text" in meta and meta.get("class", "Ace") == "Ace":
        kw = meta.get("kw") or {k: meta[k] for k in ("platform", "version", "port_nr", "protocol_nr") if k in meta}
        if _n14(ca, meta["text"], kw):
            return "N14"
    return _matches_n1(ctx, kernel, meta, failure)


def _matches_n1(ctx, kernel, meta, failure):
    """N1: a zero-length prefix 'A.B.C.D/0' given to an IOS Address / ACE renders '0.0.0.0 255.255.255.255',
    which re-parses to 'any'.  Only that spelling on that platform."""
    import re
    if (meta.get("class") in ("Address", "Ace") and meta.get("kw", {}).get("platform") == "ios"
            and re.search(r"(^|\s)\d+\.\d+\.\d+\.\d+/0(\s|$)", meta.get("text", ""))
            and "0.0.0.0 255.255.255.255" in failure.get("what", "")):
        return "N1"
    return None
