"""C18 - generated port/protocol ranges cover exactly the requested set."""
from __future__ import annotations

import random

from harness import core, acegen
from harness.core import Case, coq_bool, coq_list, coq_str, outcome

LEVEL = "proof"
MODEL_TARGETS = ["run/RunRange.vo"]
RULE = ("request strings of 0..7 comma items (numbers, a-b ranges, empty items, boundary values 1/65535), source or "
        "destination side, tcp/udp templates whose generated side carries no operator / eq / neq / range / gt, "
        "ports-per-line 0..4, both range policies, ios and nxos, names or numbers; plus range_protocols on lists over "
        "0..255. Non-trivial = at least two generated lines or an error; distinct = distinct call.")
PL = {"ios": "Ios", "nxos": "Nxos"}
OPS = {"eq": "Eq", "neq": "Neq", "range": "Range", "gt": "Gt", "lt": "Lt"}


def gen_request(rnd, hi=65535):
    toks = []
    for _ in range(rnd.randint(0, 7)):
        r = rnd.random()
        if r < 0.55:
            toks.append(("n", rnd.choice([1, hi, min(22, hi), min(80, hi), min(443, hi), min(135, hi), min(521, hi),
                                          min(15001, hi), rnd.randint(1, hi)])))
        elif r < 0.9:
            # also ranges whose bounds have different digit counts (8-13, 95-100, 998-1003): text order != numeric order
            a = rnd.choice([1, 20, min(1024, hi - 1), rnd.randint(1, hi - 1), min(8, hi - 1), min(9, hi - 1),
                            min(95, hi - 1), min(99, hi - 1), min(998, hi - 1)])
            toks.append(("r", a, min(hi, a + rnd.choice([0, 1, 2, 5, 20]))))
        else:
            toks.append(("e",))
    return toks


def req_text(toks):
    return ",".join(str(t[1]) if t[0] == "n" else (f"{t[1]}-{t[2]}" if t[0] == "r" else "") for t in toks)


def req_coq(toks):
    return coq_list(f"RNum {t[1]}" if t[0] == "n" else (f"RRange {t[1]} {t[2]}" if t[0] == "r" else "REmpty") for t in toks)


def req_set(toks):
    s = set()
    for t in toks:
        if t[0] == "n":
            s.add(t[1])
        elif t[0] == "r":
            s.update(range(t[1], t[2] + 1))
    return s


def correspond(ctx):
    ca = core.impl_module()
    from cisco_acl import functions as fn
    rnd = random.Random(ctx.seed)
    n = 500 if ctx.tier == "quick" else 5000
    cases, nontrivial = [], set()
    for _ in range(n):
        toks = gen_request(rnd)
        count = rnd.choice([0, 1, 1, 2, 3, 4])
        policy = rnd.random() < 0.5
        # --- the splitter itself
        meta = {"k": "split", "request": req_text(toks), "count": count, "policy": policy, "toks": toks}
        cases.append(Case(f"run_split_range {count}%nat {coq_bool(policy)} {req_coq(toks)}",
                          outcome(lambda: fn._split_range_for_ace(req_text(toks), count, policy)), meta))
        # --- range_ports
        plat = rnd.choice(["ios", "ios", "nxos"])
        proto = rnd.choice(["tcp", "udp"])
        side = rnd.choice(["src", "dst"])
        top = rnd.choice([None, None, None, "eq", "range", "neq", "gt"])
        port_nr = rnd.random() < 0.5
        gen_side = f" {top} 7" + (" 9" if top == "range" else "") if top else ""
        other = rnd.choice(["", " eq 53", " range 1000 2000"])
        src = " host 10.0.0.1" + (gen_side if side == "src" else other)
        dst = " 10.0.0.0 0.0.0.255" + (gen_side if side == "dst" else other)
        line = f"permit {proto}{src}{dst}" + rnd.choice(["", " log"])
        eff_count = count or 1
        meta2 = {"k": "range_ports", "request": req_text(toks), "count": count, "policy": policy, "toks": toks,
                 "platform": plat, "line": line, "side": side, "template_op": top, "port_nr": port_nr}

        def run(meta2=meta2):
            kw = {"srcports" if meta2["side"] == "src" else "dstports": meta2["request"]}
            lines = ca.range_ports(line=meta2["line"], platform=meta2["platform"], port_nr=meta2["port_nr"],
                                   port_count=meta2["count"], port_range=meta2["policy"], **kw)
            out = []
            for ln in lines:
                try:
                    a = ca.Ace(ln, platform=meta2["platform"])
                except Exception:  # noqa  (the call returned a line its own platform parser rejects)
                    out.append(["INVALID", ln])
                    continue
                p = a.srcport if meta2["side"] == "src" else a.dstport
                out.append([p.operator, list(p.items)])
            return out
        impl = outcome(run)
        cop = f"(Some {OPS[top]})" if top else "None"
        cases.append(Case(f"run_gen_ports {PL[plat]} {coq_str(proto)} false {cop} {eff_count}%nat {coq_bool(policy)} "
                          f"{req_coq(toks)}", impl, meta2))
        if isinstance(impl, core.Err) or len(impl) >= 2:
            nontrivial.add(repr((meta2["request"], count, policy, line, plat)))
        # --- protocols
        if rnd.random() < 0.3:
            pt = gen_request(rnd, 255)
            if rnd.random() < 0.3:
                pt.append(("n", 0))
            meta3 = {"k": "protocols", "request": req_text(pt), "toks": pt, "platform": plat}
            pn = rnd.random() < 0.5

            def runp(pt=pt, plat=plat, pn=pn):
                lines = ca.range_protocols(protocols=req_text(pt), platform=plat, protocol_nr=pn)
                return [ca.Ace(ln, platform=plat).protocol.number for ln in lines]
            cases.append(Case(f"run_range_protocols {req_coq(pt)}", outcome(runp), meta3))
            # the same request on a template line with addresses, options and a sequence number: every generated
            # line differs from the template in the protocol only
            tline = proto_template(rnd, plat)
            meta4 = dict(meta3, k="protocols_template", line=tline, protocol_nr=pn)
            f = proto_template_check(ca, meta4)
            if f:
                raise core.ImplViolation(dict(kind="input", kernel="K-range", input=meta4, failure=f))
    ctx.samples += [cases[0].meta, cases[1].meta, cases[-1].meta]
    ctx.coverage["distinct_nontrivial"] = len(nontrivial)
    from collections import Counter
    ctx.coverage["input_distribution"] = {"kinds": dict(Counter(c.meta["k"] for c in cases)),
                                          "errors": sum(isinstance(c.impl, core.Err) for c in cases)}
    core.eval_cases(ctx, "K-range", ["gen.Tables", "model.Cfg", "model.Names", "model.Ports", "model.RangeGen",
                                     "run.RunPorts", "run.RunRange"], cases, chunk=100)


OPTION_WORDS = ["log", "log-input", "dscp ef", "fragments", "time-range work", "ttl eq 5", "precedence critical",
                "tos 3", "dscp af11 log", "established", "ack", "syn log"]


def proto_template(rnd, plat):
    seq = rnd.choice(["", "", "10 ", "4294967295 "])
    addr = lambda: rnd.choice(["any", "host 10.0.0.1", "10.0.0.0 0.0.0.255" if plat == "ios" else "10.0.0.0/24",
                               "10.1.0.0 0.0.255.3" if plat == "ios" else "10.1.0.0 0.0.255.3"])
    opt = rnd.choice(["", "", ""] + OPTION_WORDS)
    return f"{seq}{rnd.choice(['permit', 'deny'])} ip {addr()} {addr()}{' ' + opt if opt else ''}"


def proto_template_check(ca, meta):
    plat, line = meta["platform"], meta["line"]
    try:
        tmpl = ca.Ace(line, platform=plat, protocol_nr=meta["protocol_nr"])
    except Exception:  # noqa
        return None
    try:
        lines = ca.range_protocols(protocols=meta["request"], line=line, platform=plat, protocol_nr=meta["protocol_nr"])
    except ValueError:
        return None
    except Exception as ex:  # noqa
        return {"what": f"range_protocols raised {type(ex).__name__}: {ex}"}
    want = acegen.obs_ace(tmpl)
    words = tmpl.line.split()
    for ln in lines:
        try:
            a = ca.Ace(ln, platform=plat, protocol_nr=meta["protocol_nr"])
        except Exception as ex:  # noqa
            return {"what": f"generated line {ln!r} is not valid for {plat}: {ex}"}
        got = acegen.obs_ace(a)
        if got[:1] + got[2:] != want[:1] + want[2:] or a.sequence != tmpl.sequence:
            return {"what": f"line {ln!r} generated from template {line!r} differs from it in a field other than the protocol"}
        w = ln.split()
        i = 2 if tmpl.sequence else 1
        if len(w) != len(words) or w[:i] + w[i + 1:] != words[:i] + words[i + 1:]:
            return {"what": f"line {ln!r} generated from template {line!r} differs from it in a word other than the protocol"}
    return None


def oracle(ctx, kernel, meta):
    ca = core.impl_module()
    if meta["k"] == "protocols_template":
        return proto_template_check(ca, meta)
    if meta["k"] != "range_ports":
        return None
    top = meta["template_op"]
    if top not in (None, "eq"):
        return None   # range template: known finding N4; neq/gt templates are outside the property's domain
    toks = [tuple(t) for t in meta["toks"]]
    plat, side = meta["platform"], meta["side"]
    kw = {"srcports" if side == "src" else "dstports": meta["request"]}
    try:
        lines = ca.range_ports(line=meta["line"], platform=plat, port_nr=meta["port_nr"], port_count=meta["count"],
                               port_range=meta["policy"], **kw)
    except ValueError:
        return None       # refusing (e.g. eq lists on nxos, eq template with ranges) generates nothing
    except Exception as ex:  # noqa
        return {"what": f"range_ports raised {type(ex).__name__}: {ex}"}
    tmpl = acegen.obs_ace(ca.Ace(meta["line"], platform=plat))
    union = set()
    cnt = meta["count"] or 1
    for ln in lines:
        try:
            a = ca.Ace(ln, platform=plat)
        except Exception as ex:  # noqa
            return {"what": f"generated line {ln!r} is not valid for {plat}: {ex}"}
        if ca.Ace(a.line, platform=plat).line != ln:
            return {"what": f"generated line {ln!r} is not stable text for {plat}"}
        o = acegen.obs_ace(a)
        idx = (4, 5) if side == "src" else (6, 7)
        keep = [x for i, x in enumerate(o) if i not in idx]
        if keep != [x for i, x in enumerate(tmpl) if i not in idx]:
            return {"what": f"line {ln!r} differs from the template in a field that was not generated"}
        p = a.srcport if side == "src" else a.dstport
        if p.operator == "eq" and len(p.items) > cnt:
            return {"what": f"line {ln!r} lists {len(p.items)} ports, limit is {cnt}"}
        if not meta["policy"] and p.operator != "eq":
            return {"what": f"line {ln!r} is not an eq line although port_range=False"}
        if plat == "nxos" and p.operator == "eq" and len(p.items) != 1:
            return {"what": f"line {ln!r} is not valid on nxos (several eq ports)"}
        union.update(p.ports)
    if union != req_set(toks):
        miss, extra = sorted(req_set(toks) - union)[:5], sorted(union - req_set(toks))[:5]
        return {"what": f"generated lines denote another port set: missing {miss} extra {extra}"}
    return None


def search(ctx):
    return None


def _n4(ca):
    try:
        return ca.range_ports(dstports="1,5", line="permit tcp any any range 7 9", port_count=2, port_range=False) \
            == ["permit tcp any any range 1 5"]
    except Exception:  # noqa
        return False


def known_lines(ctx):
    ca = core.impl_module()
    out = []
    for f in core.load_findings("C18"):
        if f["status"] == "known" and f["id"] == "N4":
            if _n4(ca):
                out.append(f"{f['id']}: {f['what']}")
            else:
                ctx.notes.append("known finding N4 no longer reproduces")
    return out


def matches_known(ctx, kernel, meta, failure):
    return None
