"""C20 - arbitrary text only ever yields an object or a documented value/type error."""
from __future__ import annotations

import random
import time

from harness import core, acegen
from harness.core import Case, coq_str, outcome
from harness.kernels import acetext

LEVEL = "other"
MODEL_TARGETS = ["run/RunText.vo", "run/RunAclText.vo"]
RULE = ("token soups over the ACL vocabulary, truncated / permuted / glued valid lines, empty and whitespace-only "
        "input, out-of-range numbers and masks, random indentation and comment lines, given to Ace, Remark, AceGroup, "
        "Acl, Address, AddressAg, AddrGroup, Port, Protocol, Option, Wildcard and to acls / aces / addrgroups on all "
        "platforms; per call: outcome class (returned / ValueError / TypeError / other), re-acceptance of the "
        "rendered text by the same constructor, wall time (limit 5 s). Non-trivial = distinct (constructor, text).")
EVIDENCE_EXTRA = {"explanation": "theorem on the model's error algebra (no Crash outcome, totality) + differential "
                                 "robustness run of every constructor and config-level function; the runtime behaviour "
                                 "a Gallina model cannot exhibit (re engine, exception machinery, recursion limit, "
                                 "running time) is sampled, not proved"}
VOCAB = ["permit", "deny", "remark", "ip", "tcp", "udp", "icmp", "6", "256", "any", "host", "object-group", "addrgroup",
         "group-object", "10.0.0.1", "10.0.0.0", "0.0.0.255", "255.255.255.0", "10.0.0.0/24", "10.0.0.1/33", "1.2.3",
         "300.1.1.1", "eq", "neq", "gt", "lt", "range", "www", "80", "65535", "65536", "0", "log", "log-input", "ack",
         "syn", "established", "dscp", "ef", "10", "4294967296", "-1", "NAME", "a?b", "ip access-list", "extended",
         "standard", "object-group network", "object-group ip address", "description", "statistics", "interface",
         "ip access-group", "in", "out", "!", "1.1.1.1 0.0.0.0", "0.0.0.0 0.0.0.0", "0.0.0.0 255.255.255.255"]
TIME_LIMIT = 5.0
# member lines of address groups: every form complete, and cut short / glued after each of its words
MEMBER_LINES = ["group-object X", "group-object", "group-object ", "20 group-object", "20 group-object X", "group-objectX",
                "host 10.0.0.1", "host", "host ", "10 host", "hostX", "10.0.0.0 255.255.255.0", "10.0.0.0", "10.0.0.0 ",
                "10.0.0.0/24", "10.0.0.0/", "/24", "30 10.0.0.0/24", "30", "range 10.0.0.1 10.0.0.9", "range 10.0.0.1", "range",
                "description", "description d", "10.0.0.0 0.0.0.255", "any", "object-group X", "addrgroup X", "addrgroup"]


def soup(rnd):
    return " ".join(rnd.choice(VOCAB) for _ in range(rnd.randint(0, 9)))


def gen_text(rnd, ca):
    r = rnd.random()
    if r < 0.35:
        return soup(rnd)
    if r < 0.7:
        plat = rnd.choice(["ios", "nxos"])
        toks = acetext.valid_text(rnd, ca, plat, "0", acegen.rand_ace(rnd, plat, groups=False), rnd.choice([None, 10]))
        for _ in range(rnd.randint(0, 2)):
            toks = acetext.malformed(rnd, toks)
        return acetext.with_ws(rnd, toks)
    if r < 0.77:
        return rnd.choice(["", " ", "\t", "\n", "  \n \n", "remark", "10", "permit", "any", "/", ".", "0", "host"])
    if r < 0.8:
        # one member line of an address group, complete or cut short after any of its words (AddressAg / Address)
        return rnd.choice(MEMBER_LINES)
    if r < 0.86:
        # an address-group text: a valid or near-valid header, then member lines of every quality
        head = rnd.choice(["object-group network G", "object-group ip address G", "object-group network", "object-group G"])
        pool = ["host 10.0.0.1", "10.0.0.0 255.255.255.0", "10.0.0.0/24", "10 host 10.0.0.2", "description d", "range 10.0.0.1 10.0.0.9",
                "host", "group-object X", "10.0.0.0 0.0.0.255", "20 10.0.0.0 0.0.0.255", "any", "bogus 1", ""] + MEMBER_LINES
        return "\n".join([head] + [" " * rnd.choice([0, 1, 2]) + rnd.choice(pool) for _ in range(rnd.randint(0, 3))])
    if r < 0.92:
        # an interface section with bindings of every quality
        body = ["ip access-group A in", "ip access-group A out", "ip access-group A 10", "ip access-group in A",
                "ip access-group A in in", "ip access-group A", "ip access-group", "ip access-group A IN", "no shutdown"]
        return "\n".join(["ip access-list extended A", " permit ip any any", "interface Gi1"] +
                         [" " + rnd.choice(body) for _ in range(rnd.randint(1, 3))])
    lines = []
    for _ in range(rnd.randint(1, 7)):
        ind = " " * rnd.choice([0, 0, 1, 2, 2, 4, 7])
        lines.append(ind + rnd.choice([soup(rnd), "ip access-list extended A", "ip access-list B", "permit ip any any",
                                       "interface Gi1", "ip access-group A in", "! comment", "object-group network G",
                                       "object-group ip address G", "host 10.0.0.1", "10.0.0.0 255.255.255.0",
                                       "10 remark x", "description d", "statistics per-entry"]))
    return "\n".join(lines)


def constructors(ca):
    one = lambda cls, **kw: (lambda t, plat: cls(t, platform=plat, **kw))
    return {
        "Ace": one(ca.Ace), "Remark": one(ca.Remark), "AceGroup": one(ca.AceGroup), "Acl": one(ca.Acl),
        "Address": one(ca.Address), "AddressAg": one(ca.AddressAg), "AddrGroup": one(ca.AddrGroup),
        "Port": one(ca.Port, protocol="tcp"), "Protocol": one(ca.Protocol), "Option": one(ca.Option),
        "Wildcard": one(ca.Wildcard),
        "acls": lambda t, plat: ca.acls(t, platform=plat), "aces": lambda t, plat: ca.aces(t, platform=plat),
        "addrgroups": lambda t, plat: ca.addrgroups(t, platform=plat),
    }


def probe(name, fn, text, plat):
    """-> None or failure dict"""
    t0 = time.time()
    try:
        o = fn(text, plat)
    except (ValueError, TypeError):
        o = None
    except Exception as ex:  # noqa
        return {"what": f"{name}({text!r}, platform={plat!r}) raised {type(ex).__name__}: {str(ex)[:120]}", "class": name,
                "exc": type(ex).__name__}
    dt = time.time() - t0
    if dt > TIME_LIMIT:
        return {"what": f"{name}({text!r}) took {dt:.1f}s", "class": name, "exc": "time"}
    if o is None:
        return None
    objs = o if isinstance(o, list) else [o]
    for x in objs:
        if not hasattr(x, "line"):
            continue
        cls = type(x)
        try:
            line = x.line
            kw = {"platform": plat}
            if cls.__name__ == "Port":
                kw["protocol"] = "tcp"
            y = cls(line, **kw)
            if y.line != line and cls(y.line, **kw).line != y.line:
                return {"what": f"{name}({text!r}): rendered text {line!r} is not stable", "class": cls.__name__, "exc": "unstable"}
        except Exception as ex:  # noqa
            return {"what": f"{name}({text!r}, platform={plat!r}) returned an object whose text {x.line!r} the same "
                            f"constructor rejects: {type(ex).__name__}: {str(ex)[:100]}", "class": cls.__name__,
                    "exc": "reaccept", "rendered": x.line, "platform": plat}
    return None


def correspond(ctx):
    ca = core.impl_module()
    rnd = random.Random(ctx.seed)
    # 1. model vs implementation on garbage for the ACE constructor (outcome class and fields)
    specs = acetext.gen_cases(ctx, 100, 500 if ctx.tier == "quick" else 10000, salt=200)
    for i in range(200 if ctx.tier == "quick" else 4000):
        specs.append({"text": soup(rnd), "toks": [], "platform": rnd.choice(["ios", "nxos"]), "version": "0",
                      "port_nr": False, "protocol_nr": False, "abstract": None, "seq": 0, "valid": False})
    cases = acetext.run(ctx, specs, kernel="K-err-ace")
    # 2. every constructor on arbitrary text
    cons = constructors(ca)
    n = 2500 if ctx.tier == "quick" else 60000
    stats = {"returned": 0, "ValueError/TypeError": 0}
    seen = set()
    t_max = 0.0
    for i in range(n):
        text = gen_text(rnd, ca)
        name = rnd.choice(list(cons))
        if text in MEMBER_LINES and rnd.random() < 0.85:
            name = rnd.choice(["AddressAg", "AddressAg", "Address", "AddrGroup"])
        elif text.startswith("object-group") and rnd.random() < 0.8:      # texts shaped for one constructor go to it
            name = rnd.choice(["AddrGroup", "AddrGroup", "addrgroups"])
        elif "interface Gi1" in text and rnd.random() < 0.8:
            name = rnd.choice(["acls", "acls", "Acl", "aces"])
        plat = rnd.choice(["ios", "nxos", "ios", "nxos", "asa"])
        seen.add((name, text))
        meta = {"k": "probe", "class": name, "text": text, "platform": plat}
        t0 = time.time()
        f = probe(name, cons[name], text, plat)
        t_max = max(t_max, time.time() - t0)
        if f and not matches_known(ctx, "K-err", meta, f):
            raise core.ImplViolation(dict(kind="input", kernel="K-err", input=meta, failure=f))
    # deterministic corpus: every number that carries a port name somewhere, in both positions
    for nr in acegen.NAMED_PORTS:
        for proto in ("tcp", "udp"):
            for plat in ("ios", "nxos"):
                for text in (f"permit {proto} any any eq {nr}", f"permit {proto} any eq {nr} any"):
                    meta = {"k": "probe", "class": "Ace", "text": text, "platform": plat}
                    f = probe("Ace", cons["Ace"], text, plat)
                    n += 1
                    if f and not matches_known(ctx, "K-err", meta, f):
                        raise core.ImplViolation(dict(kind="input", kernel="K-err", input=meta, failure=f))
    ctx.count("evaluations", n)
    ctx.coverage["distinct_nontrivial"] = len(seen) + len({c.meta["text"] for c in cases})
    ctx.coverage["max_call_seconds"] = round(t_max, 3)
    ctx.samples += [list(x) for x in list(seen)[:4]]


def oracle(ctx, kernel, meta):
    ca = core.impl_module()
    if meta.get("k") == "probe":
        return probe(meta["class"], constructors(ca)[meta["class"]], meta["text"], meta["platform"])
    if "text" in meta:
        return probe("Ace", constructors(ca)["Ace"], meta["text"], meta["platform"])
    return None


def search(ctx):
    return None


def _probe_known(ca, fid):
    try:
        if fid == "N6":
            cfg = "\n".join(" " * i + f"x{i}" for i in range(1200))
            try:
                ca.acls(cfg)
            except RecursionError:
                return True
            return False
        if fid == "N7":
            a = ca.AddressAg("10.0.0.0 0.0.0.0", platform="ios")
            try:
                ca.AddressAg(a.line, platform="ios")
            except ValueError:
                return True
            return False
        if fid == "N8":
            try:
                ca.Acl(ca.Acl("").line)
            except ValueError:
                return True
            return False
        if fid == "N10":
            try:
                ca.Remark(ca.Remark("").line)
            except ValueError:
                return True
            return False
        if fid == "N14b":
            a = ca.Ace("permit 16.132.4.7 any", platform="ios")
            try:
                ca.Ace(a.line, platform="ios")
            except ValueError:
                return True
            return False
        if fid == "N13":
            gs = ca.addrgroups("object-group network G\n description d", platform="ios")
            try:
                ca.AddrGroup(gs[0].line, platform="ios")
            except ValueError:
                return True
            return False
        if fid == "N12":
            try:
                ca.AddressAg(ca.AddressAg("10.0.0.0/24", platform="asa").line, platform="asa")
            except ValueError:
                return True
            return False
        if fid == "N9":
            p = ca.Port("range 1 300000", protocol="tcp")
            return len(p.ports) == 300000
    except Exception:  # noqa
        return False
    return False


def known_lines(ctx):
    ca = core.impl_module()
    out = []
    for f in core.load_findings("C20"):
        if f["status"] == "known":
            if _probe_known(ca, f["id"]):
                out.append(f"{f['id']}: {f['what']}")
            else:
                ctx.notes.append(f"known finding {f['id']} no longer reproduces")
    return out


def matches_known(ctx, kernel, meta, failure):
    exc, cls = failure.get("exc"), failure.get("class")
    if exc == "RecursionError" and meta.get("class") in ("acls", "aces", "addrgroups") and meta["text"].count("\n") > 500:
        return "N6"
    if exc == "reaccept":
        r = failure.get("rendered", "")
        if cls == "AddressAg" and failure.get("platform") == "ios" and r.split()[-2:] == ["0.0.0.0", "0.0.0.0"]:
            return "N7"
        if cls == "Remark" and r.strip() == "remark" and not meta.get("text", "").strip():
            return "N10"
        if cls == "Ace":
            from harness.props import C06
            # the entry may come out of a container: judge the rendered standard-syntax entry itself
            toks = r.split()
            if toks and toks[0].isdigit():
                toks = toks[1:]
            if len(toks) >= 4 and toks[0] in ("permit", "deny") and toks[1] == "host" and \
                    (toks[3] in ("any", "host", "object-group", "addrgroup") or toks[3][0].isdigit() and "." in toks[3]):
                return "N14b"
        if cls == "AddrGroup" and meta.get("class") == "addrgroups" and len([x for x in r.split("\n") if x.strip()]) == 1:
            return "N13"        # a group without members (only description lines in the configuration)
        if failure.get("platform") == "asa" and ((cls == "AddressAg" and (r.strip() == "" or r.strip().isdigit())) or cls == "AddrGroup"):
            return "N12"        # address groups are not implemented for ASA (no header syntax, no prefix rendering)
        if cls == "Acl" and r.split("\n")[0].strip() in ("ip access-list extended", "ip access-list standard", "ip access-list"):
            return "N8"
    return None
