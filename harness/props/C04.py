"""C04 - deleting shadowed entries never changes any packet's permit/deny decision."""
from __future__ import annotations

import random

from harness import core, acegen
from harness.core import Case, coq_bool, outcome
from harness.kernels import aclshadow as K

LEVEL = "proof"
MODEL_TARGETS = K.TARGETS
RULE = ("ACLs of 2..9 items drawn with repetition from an alphabet of 3..8 related ACEs (a random ACE and mutations "
        "of it: exact duplicates, supersets, subsets, other actions, address groups with members) interleaved with "
        "plain and heading remarks; numbered or not, flat or grouped by remark prefix, both platforms, a random subset "
        "of skip options. Each ACL is one validated 'program': the implementation's delete_shadow is compared with "
        "the model's and the model's result carries a removal certificate checked in Coq. Non-trivial = at least one "
        "entry was removed; distinct = distinct (platform, text before).")
EVIDENCE_EXTRA = {}


def correspond(ctx):
    ca = core.impl_module()
    specs_all = K.gen_all(ctx, True, 160, 4000, 41)
    cases, removed_any = [], set()
    for spec in specs_all:
        rnd = random.Random(spec["seed"])
        plat, skip = spec["platform"], spec["skip"]
        try:
            acl, specs = K.build(ca, plat, spec["entries"], rnd, spec["numbered"], False)
        except Exception as ex:  # noqa
            ctx.notes.append(f"generator produced an ACL the implementation rejects: {type(ex).__name__}: {ex}")
            continue
        by_line = {}
        for o, s_ in zip(acl.items, specs):
            by_line.setdefault(o.line, s_)
        if spec["grouped"]:
            acl.group(K.GROUP_BY)
        fl = K.flat(acl)
        specs = [by_line[o.line] for o in fl]
        lines_before = [o.line for o in fl]

        def run(acl=acl, skip=skip):
            rep = acl.delete_shadow(skip=list(skip) or None)
            after = [o.line for o in K.flat(acl)]
            again = acl.shading(skip=list(skip) or None)
            return [[[k, v] for k, v in rep.items()], after, True, not again]
        impl = outcome(run)
        meta = {"k": "delete_shadow", "platform": plat, "skip": skip, "lines": lines_before,
                "entries": spec["entries"], "numbered": spec["numbered"], "grouped": spec["grouped"],
                "seed": spec["seed"]}
        cases.append(Case(f"run_delete_shadow {acegen.PL[plat]} false 16%Z {coq_bool('addrgroup' in skip)} "
                          f"{coq_bool('nc_wildcard' in skip)} {K.model_items(lines_before, specs)}", impl, meta))
        if not isinstance(impl, core.Err) and len(impl[1]) < len(lines_before):
            removed_any.add((plat, tuple(lines_before)))
    ctx.samples += [{k: c.meta[k] for k in ("platform", "skip", "lines", "grouped")} for c in cases[:2] + cases[-1:]]
    ctx.coverage["distinct_nontrivial"] = len(removed_any)
    ctx.coverage["programs"] = len(cases)
    ctx.coverage["input_distribution"] = {
        "acls": len(cases), "with_removal": len(removed_any),
        "grouped": sum(1 for c in cases if c.meta["grouped"]), "numbered": sum(1 for c in cases if c.meta["numbered"]),
        "errors": sum(1 for c in cases if isinstance(c.impl, core.Err))}
    bad = core.eval_cases(ctx, "K-acl-shadow", K.IMPORTS, cases, chunk=max(4, len(cases) // 16 + 1))
    ctx.coverage["disagreements_checked"] = bad


# ------------------------------------------------------------------ independent oracle on the implementation
def _first_match(entries, pk):
    for kind, a in entries:
        if kind != "ace":
            continue
        if a["proto"] != 0 and a["proto"] != pk["proto"]:
            continue
        if not any(acegen.ag.in_set(pk["src"], b, m) for b, m in acegen.addr_sets(a["src"])):
            continue
        if not any(acegen.ag.in_set(pk["dst"], b, m) for b, m in acegen.addr_sets(a["dst"])):
            continue
        ok = True
        for f in ("sport", "dport"):
            if a[f] is not None and (pk["proto"] not in (6, 17) or pk[f] not in acegen.port_set(a[f])):
                ok = False
        if a["flags"] and (pk["proto"] != 6 or not set(a["flags"]) & set(pk["flags"])):
            ok = False
        if ok:
            return a["permit"]
    return None


def oracle(ctx, kernel, meta):
    ca = core.impl_module()
    rnd = random.Random(meta["seed"])
    plat, skip = meta["platform"], meta["skip"]
    entries = [(k, x) for k, x in meta["entries"]]
    try:
        acl, specs = K.build(ca, plat, entries, rnd, meta["numbered"], False)
        by_line = {}
        for o, e in zip(acl.items, entries):
            by_line.setdefault(o.line, e)
        if meta["grouped"]:
            acl.group(K.GROUP_BY)
        before = K.flat(acl)
        lines_before = [o.line for o in before]
        shading = acl.shading(skip=list(skip) or None)
        rep = acl.delete_shadow(skip=list(skip) or None)
        after = [o.line for o in K.flat(acl)]
        again = acl.shading(skip=list(skip) or None)
    except Exception:  # noqa
        return None
    if rep != shading:
        return {"what": "delete_shadow() report differs from shading() just before"}
    if again:
        return {"what": f"a second removal still finds shadowed entries: {again}"}
    # abstract entries aligned with the flat order (by line text)
    ents = [by_line[l] for l in lines_before]
    # subsequence, only ACEs removed
    kept, j = [], 0
    for i, l in enumerate(lines_before):
        if j < len(after) and after[j] == l:
            kept.append(i)
            j += 1
        elif ents[i][0] != "ace":
            return {"what": f"a remark was removed or reordered: {l!r}"}
    if j != len(after):
        return {"what": "the result is not the original item list with entries removed (order changed)"}
    res_entries = [ents[i] for i in kept]
    # decisions on packets drawn from every entry's own packet set
    prnd = random.Random(7)
    for kind, a in ents:
        if kind != "ace":
            continue
        for _ in range(25):
            pk = acegen.witness_not_covered(prnd, a, {"proto": 254, "src": ("set", 0, 0), "dst": ("set", 0, 0),
                                                      "sport": None, "dport": None, "flags": [], "permit": True}, 3)
            if pk is None:
                break
            d0, d1 = _first_match(ents, pk), _first_match(res_entries, pk)
            if d0 != d1:
                return {"what": f"packet {pk} was {d0} before delete_shadow and is {d1} after", "before": lines_before,
                        "after": after}
    return None


def search(ctx):
    specs_all = K.gen_all(ctx, True, 150, 150, 43)
    for spec in specs_all:
        meta = {"k": "delete_shadow", "platform": spec["platform"], "skip": spec["skip"], "entries": spec["entries"],
                "numbered": spec["numbered"], "grouped": spec["grouped"], "seed": spec["seed"], "lines": []}
        f = oracle(ctx, "K-acl-shadow", meta)
        if f:
            return dict(kind="input", kernel="K-acl-shadow", input=meta, failure=f)
    return None


def known_lines(ctx):
    return []


def matches_known(ctx, kernel, meta, failure):
    return None
