"""C15 - grouping, ungrouping and sorting never lose, duplicate or split entries; TCAM estimate."""
from __future__ import annotations

import random

from harness import core
from harness.core import Case, coq_bool, coq_list, coq_str, outcome

LEVEL = "proof"
MODEL_TARGETS = ["run/RunGroup.vo"]
RULE = ("ACLs of 0..10 lines: heading remarks (text starting with the prefix; distinct or repeated; first / last / "
        "consecutive), plain remarks, ACEs whose source/destination are plain addresses or address groups with 0..5 "
        "members; prefixes '= ', '==', 'C-'; operations group(prefix) -> blocks, ungroup, tcam_count before / grouped / "
        "ungrouped; group_by ACLs resequenced then permuted (shuffle, reverse, sort(key=), sort(reverse=True)) and "
        "sorted back. Non-trivial = at least one heading, or an address group; distinct = distinct input.")


def gen_lines(rnd, prefix):
    """-> list of dicts {kind: head|remark|ace, text, src_n, dst_n}"""
    n = rnd.randint(0, 10)
    heads = [f"{prefix}A", f"{prefix}B, x", f"{prefix}C", f"{prefix}A"]
    out = []
    for _ in range(n):
        r = rnd.random()
        if r < 0.25:
            out.append({"kind": "head", "text": rnd.choice(heads)})
        elif r < 0.35:
            # plain remarks, also ones that begin like the prefix without being headings (prefix "= ": "=", "==x")
            cand = ["note", "x " + prefix.strip(), "text", prefix.strip(), prefix.strip() * 2 + "x", prefix.strip() + "note",
                    prefix.strip()]
            cand = [t for t in cand if t and not t.startswith(prefix)]
            out.append({"kind": "remark", "text": rnd.choice(cand)})
        else:
            out.append({"kind": "ace", "src_n": rnd.choice([None, None, 0, 1, 2, 5]), "dst_n": rnd.choice([None, None, None, 0, 3])})
    return out


def build(ca, plat, lines, group_by=""):
    kw = "object-group" if plat == "ios" else "addrgroup"
    items = []
    for i, l in enumerate(lines):
        if l["kind"] in ("head", "remark"):
            items.append(ca.Remark(f"remark {l['text']}", platform=plat, note=i))
        else:
            src = f"{kw} S{i}" if l["src_n"] is not None else f"host 10.0.{i}.1"
            dst = f"{kw} D{i}" if l["dst_n"] is not None else "any"
            a = ca.Ace(f"permit ip {src} {dst}", platform=plat, note=i)
            if l["src_n"] is not None:
                a.srcaddr.items = [f"host 10.1.{i}.{j + 1}" for j in range(l["src_n"])]
            if l["dst_n"] is not None:
                a.dstaddr.items = [f"host 10.2.{i}.{j + 1}" for j in range(l["dst_n"])]
            items.append(a)
    acl = ca.Acl(name="A", platform=plat)
    acl.items = items
    if group_by:
        acl.group(group_by)
    return acl


def coq_items(lines, prefix):
    out = []
    for i, l in enumerate(lines):
        if l["kind"] == "head" or (l["kind"] == "remark" and l["text"].startswith(prefix)):
            out.append(f"GHead {coq_str(l['text'])} {i}")
        elif l["kind"] == "remark":
            out.append(f"GOther {i} 0")
        else:
            sg, dg = l["src_n"] is not None, l["dst_n"] is not None
            out.append(f"GOther {i} (ace_cnt {coq_bool(sg)} {coq_bool(dg)} {l['src_n'] or 0} {l['dst_n'] or 0})")
    return coq_list(out)


def blocks(acl):
    out = []
    for it in acl.items:
        if it.__class__.__name__ == "AceGroup":
            out.append([x.note for x in it.items])
        else:
            out.append([it.note])
    return out


def flat_notes(acl):
    return [n for b in blocks(acl) for n in b]


def sort_dup_check(ca, meta):
    """ACLs with REPEATED lines and a previous numbering: n-1 distinct entries plus a copy of entry k at the end,
    the copy carrying (from the earlier numbering) exactly the number that entry k receives now.  After
    resequence(start, step) the numbers are start, start+step, ...; any permutation of the items sorts back."""
    plat, hosts, k, start, step, sd = meta["platform"], meta["hosts"], meta["k_dup"], meta["start"], meta["step"], meta["seed"]
    n = len(hosts) + 1
    mk = lambda i, h: (ca.Remark(f"remark r{h}", platform=plat, note=i) if meta["remarks"] and h % 3 == 0
                       else ca.Ace(f"permit ip host 10.0.{h}.1 any", platform=plat, note=i))
    items = [mk(i, h) for i, h in enumerate(hosts)] + [mk(n - 1, hosts[k])]
    acl = ca.Acl(name="A", platform=plat)
    acl.items = items
    if n == 2 * (k + 1) and step % 2 == 0:
        acl.resequence(start - step // 2, step // 2) if start > step // 2 else acl.resequence(start, step)
    else:
        acl.resequence(1, 1)
        acl.items[-1].sequence = start + step * k
    last = acl.resequence(start, step)
    seqs = [o.sequence for o in acl.items]
    want = [start + step * i for i in range(n)]
    if seqs != want or last != want[-1]:
        return {"what": f"{[o.line for o in items]}: after resequence({start},{step}) the lines carry {seqs} and "
                        f"{last} was returned, expected {want}"}
    order = [o.note for o in acl.items]
    r2 = random.Random(sd)
    for _ in range(3):
        r2.shuffle(acl.items)
        acl.sort()
        if [o.note for o in acl.items] != order:
            return {"what": f"after resequence({start},{step}) and a shuffle, sort() gives entries "
                            f"{[o.note for o in acl.items]}, numbered order is {order} ({[o.line for o in acl.items]})"}
    return None


def correspond(ctx):
    ca = core.impl_module()
    rnd = random.Random(ctx.seed)
    n = 400 if ctx.tier == "quick" else 8000
    cases, nontrivial = [], set()
    for _ in range(n):
        plat = rnd.choice(["ios", "nxos"])
        prefix = rnd.choice(["= ", "= ", "==", "C-"])
        lines = gen_lines(rnd, prefix)
        meta = {"k": "group", "platform": plat, "prefix": prefix, "lines": lines}

        def run(lines=lines, plat=plat, prefix=prefix):
            acl = build(ca, plat, lines)
            t0 = acl.tcam_count()
            acl.group(prefix)
            b = blocks(acl)
            if any(it.__class__.__name__ != "AceGroup" for it in acl.items):
                raise AssertionError("group() left a bare item")
            t1 = acl.tcam_count()
            acl.ungroup()
            return [b, flat_notes(acl), t0, t1, acl.tcam_count()]
        cases.append(Case(f"run_group {coq_items(lines, prefix)}", outcome(run), meta))
        if any(l["kind"] == "head" for l in lines) or any(l.get("src_n") is not None for l in lines):
            nontrivial.add(repr((lines, prefix)))
    # sorting: grouped ACL, resequence, permute, sort back
    m = 150 if ctx.tier == "quick" else 3000
    for _ in range(m):
        plat = rnd.choice(["ios", "nxos"])
        prefix = "= "
        lines = gen_lines(rnd, prefix)
        if not lines:
            continue
        how = rnd.choice(["shuffle", "reverse", "sort_reverse", "sort_key", "ungroup_assign", "ungroup_assign"])
        sd = rnd.getrandbits(20)
        meta = {"k": "sort", "platform": plat, "prefix": prefix, "lines": lines, "how": how, "seed": sd}

        def run(lines=lines, plat=plat, prefix=prefix, how=how, sd=sd):
            acl = build(ca, plat, lines, prefix if rnd.random() < 2 else "")
            acl.resequence(10, 10)
            want_keys = [[it.sequence, i] for i, it in enumerate(acl.items)]
            numbered = flat_notes(acl)
            r2 = random.Random(sd)
            if how == "ungroup_assign":
                # the numbered ACL is ungrouped, its item list is permuted and ASSIGNED (setter), then sorted
                acl.ungroup()
                want_keys = [[it.sequence, i] for i, it in enumerate(acl.items)]
                items = list(acl.items)
                r2.shuffle(items)
                acl.items = items
                if len(acl.items) != len(items) or any(it.__class__.__name__ == "AceGroup" for it in acl.items):
                    raise AssertionError("assigning items to an ungrouped ACL re-grouped it")
            elif how == "shuffle":
                r2.shuffle(acl.items)
            elif how == "reverse":
                acl.items.reverse()
            elif how == "sort_reverse":
                acl.sort(reverse=True)
            else:
                acl.sort(key=lambda o: (o.sequence * 7919) % 104729)
            perm_keys = [[it.sequence, want_keys.index([it.sequence, [k for k in want_keys if k[0] == it.sequence][0][1]])]
                         for it in acl.items]
            acl.sort()
            return [flat_notes(acl) == numbered, [b for b in blocks(acl)], perm_keys]
        res = outcome(run)
        if isinstance(res, core.Err):
            cases.append(Case("run_sort []", res, meta))
            continue
        same, blks, perm_keys = res
        # model: sorting the permuted (sequence, index) pairs restores 0..n-1
        expr = "run_sort " + coq_list(f"({k}, {i})" for k, i in perm_keys)
        cases.append(Case(expr, list(range(len(perm_keys))) if same else ["not restored", blks], meta))
        nontrivial.add(repr((lines, how, sd)))
    # repeated lines with a previous numbering (implementation histories)
    n_dup = 0
    for _ in range(120 if ctx.tier == "quick" else 2500):
        hosts = rnd.sample(range(1, 200), rnd.randint(2, 7))
        meta = {"k": "sort_dup", "platform": rnd.choice(["ios", "nxos"]), "prefix": "", "lines": [], "hosts": hosts,
                "k_dup": rnd.randrange(len(hosts)), "start": rnd.choice([10, 10, 5, 100, 40]), "step": rnd.choice([10, 10, 20, 5, 1]),
                "remarks": rnd.random() < 0.4, "seed": rnd.getrandbits(20)}
        try:
            f = sort_dup_check(ca, meta)
        except Exception as ex:  # noqa
            f = {"what": f"resequence/sort history raised {type(ex).__name__}: {ex}"}
        n_dup += 1
        if f:
            raise core.ImplViolation(dict(kind="input", kernel="K-group", input=meta, failure=f))
    ctx.coverage["repeated_line_histories"] = n_dup
    ctx.samples += [cases[0].meta, cases[len(cases) // 2].meta, cases[-1].meta]
    ctx.coverage["distinct_nontrivial"] = len(nontrivial)
    from collections import Counter
    ctx.coverage["input_distribution"] = {"kinds": dict(Counter(c.meta["k"] for c in cases)),
                                          "with_repeated_heading": sum(1 for c in cases if len([l for l in c.meta["lines"] if l["kind"] == "head"]) != len({l["text"] for l in c.meta["lines"] if l["kind"] == "head"})),
                                          "errors": sum(isinstance(c.impl, core.Err) for c in cases)}
    core.eval_cases(ctx, "K-group", ["model.Group", "run.RunGroup"], cases, chunk=80)
    # re-grouping histories on the implementation: conservation of entries over a SECOND grouping
    n_hist = 120 if ctx.tier == "quick" else 2500
    for _ in range(n_hist):
        plat = rnd.choice(["ios", "nxos"])
        prefix = rnd.choice(["= ", "= ", "=="])
        lines = gen_lines(rnd, prefix)
        plan = rnd.choice(["insert_group", "insert_group", "other_prefix", "copy", "group_twice"])
        sd = rnd.getrandbits(20)
        f = regroup_history(ca, random.Random(sd), plat, prefix, lines, plan)
        if f:
            meta = {"k": "regroup", "platform": plat, "prefix": prefix, "lines": lines, "plan": plan, "seed": sd}
            raise core.ImplViolation(dict(kind="input", kernel="K-group", input=meta, failure=f))
    ctx.coverage["regroup_histories"] = n_hist


def regroup_history(ca, rnd, plat, prefix, lines, plan):
    """group(); then loose entries are put beside the blocks / the prefix changes / the ACL is copied; group()
    again: no entry may be lost or duplicated, the TCAM estimate is the sum over the entries"""
    try:
        acl = build(ca, plat, lines)
        want = sorted(i for i, l in enumerate(lines) if l["kind"] == "ace")
        tcam = 1 + sum((l["src_n"] or 1) * (l["dst_n"] or 1) if l["kind"] == "ace" else 0 for l in lines)
        acl.group(prefix)
        if plan == "insert_group":
            for j in range(rnd.randint(1, 3)):
                a = ca.Ace(f"permit ip host 10.9.9.{j + 1} any", platform=plat, note=1000 + j)
                acl.items.insert(rnd.randint(0, len(acl.items)), a)
                want.append(1000 + j)
                tcam += 1
            acl.group(prefix)
        elif plan == "other_prefix":
            acl.group("=" if prefix != "=" else "==")
            acl.group(prefix)
        elif plan == "copy":
            acl = acl.copy()
        else:
            acl.group(prefix)
        got = sorted(n for n in flat_notes(acl) if isinstance(n, int) and (n >= 1000 or lines[n]["kind"] == "ace"))
        if got != sorted(want):
            return {"what": f"after group({prefix!r}) + {plan} the entries are {got}, expected {sorted(want)}"}
        if acl.tcam_count() != tcam:
            return {"what": f"after group({prefix!r}) + {plan} tcam_count() = {acl.tcam_count()}, expected {tcam}"}
    except Exception as ex:  # noqa
        return {"what": f"{plan}: {type(ex).__name__}: {ex}"}
    return None


def oracle(ctx, kernel, meta):
    ca = core.impl_module()
    lines, plat, prefix = meta["lines"], meta["platform"], meta["prefix"]
    if meta.get("k") == "sort_dup":
        try:
            return sort_dup_check(ca, meta)
        except Exception as ex:  # noqa
            return {"what": f"resequence/sort history raised {type(ex).__name__}: {ex}"}
    if meta.get("k") == "regroup":
        return regroup_history(ca, random.Random(meta.get("seed", 0)), plat, prefix, lines, meta["plan"])
    try:
        acl = build(ca, plat, lines)
        text0 = acl.line
        ids0 = flat_notes(acl)
        want_tcam = 1 + sum((l["src_n"] or 1) * (l["dst_n"] or 1) if l["kind"] == "ace" else 0 for l in lines)
        if acl.tcam_count() != want_tcam:
            return {"what": f"tcam_count() = {acl.tcam_count()}, expected {want_tcam}"}
        acl.group(prefix)
        heads = [l["text"] for l in lines if l["kind"] == "head" or (l["kind"] == "remark" and l["text"].startswith(prefix))]
        ids1 = flat_notes(acl)
        aces = lambda ids: sorted(i for i in ids if lines[i]["kind"] == "ace")
        if aces(ids1) != aces(ids0):
            return {"what": f"group({prefix!r}) lost or duplicated an entry: {ids0} -> {ids1}"}
        if len(set(heads)) == len(heads) and acl.line != text0:
            return {"what": f"group({prefix!r}) changed the rendered text although headings are distinct"}
        if acl.tcam_count() != want_tcam:
            return {"what": f"tcam_count() after group = {acl.tcam_count()}, expected {want_tcam}"}
        if meta["k"] == "sort":
            acl.resequence(10, 10)
            numbered = flat_notes(acl)
            r2 = random.Random(meta["seed"])
            how = meta["how"]
            if how == "ungroup_assign":
                acl.ungroup()
                items = list(acl.items)
                r2.shuffle(items)
                acl.items = items
                if any(it.__class__.__name__ == "AceGroup" for it in acl.items) or len(acl.items) != len(items):
                    return {"what": "after ungroup(), assigning a permuted item list re-grouped the ACL "
                                    f"({len(items)} items assigned, {len(acl.items)} top-level items now)"}
            elif how == "shuffle":
                r2.shuffle(acl.items)
            elif how == "reverse":
                acl.items.reverse()
            elif how == "sort_reverse":
                acl.sort(reverse=True)
            else:
                acl.sort(key=lambda o: (o.sequence * 7919) % 104729)
            for it in acl.items:
                pass
            acl.sort()
            if flat_notes(acl) != numbered:
                return {"what": f"after resequence, {how} and sort() the order is {flat_notes(acl)}, numbered order {numbered}"}
            if acl.tcam_count() != want_tcam:
                return {"what": "tcam_count changed by sorting"}
        acl.ungroup()
        if aces(flat_notes(acl)) != aces(ids0) or acl.tcam_count() != want_tcam:
            return {"what": "ungroup() lost an entry or changed the TCAM estimate"}
    except Exception as ex:  # noqa
        return {"what": f"{type(ex).__name__}: {ex}"}
    return None


def search(ctx):
    return None


def known_lines(ctx):
    return []


def matches_known(ctx, kernel, meta, failure):
    return None
