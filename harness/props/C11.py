"""C11 - shadow answers are exact on group-free entries; the ACL report follows its spec."""
from __future__ import annotations

import random

from harness import core, acegen
from harness.core import Case, coq_bool, outcome
from harness.kernels import shadow, aclshadow as K

LEVEL = "proof"
MODEL_TARGETS = ["run/RunAce.vo", "run/RunAcl.vo"]
RULE = ("pair level: ordered pairs of group-free ACEs (all protocols, contiguous / non-contiguous wildcards, all port "
        "operators, subsets of the six TCP flags, log tokens), bottom derived by mutation of the top or independent, "
        "all 4 skip subsets; ACL level: group-free ACLs of 2..9 items from an alphabet of related ACEs incl. exact "
        "duplicates, shading() compared with the model and with an independent attribution spec computed from set "
        "containment. Non-trivial = answer True for some skip subset / a non-empty report.")


def _involved_nc(a):
    return any(a[f][0] == "set" and not acegen.ag.is_contig(a[f][2]) for f in ("src", "dst"))


def _pair_check(answers, bottom, top):
    """exactness + skip rule for a group-free pair with non-empty port sets"""
    if not (acegen.group_free(bottom) and acegen.group_free(top)):
        return None
    if not (acegen.nonempty_ports(bottom) and acegen.nonempty_ports(top)):
        return None
    exact = bottom["permit"] == top["permit"] and acegen.covered_exact(bottom, top)
    nc = _involved_nc(bottom) or _involved_nc(top)
    # the skip branch looks at each address pair separately
    nc_src = any(not acegen.ag.is_contig(x["src"][2]) for x in (bottom, top))
    nc_dst = any(not acegen.ag.is_contig(x["dst"][2]) for x in (bottom, top))
    for si, skip in enumerate(shadow.SKIPS):
        want = exact and not ("nc_wildcard" in skip and (nc_src or nc_dst))
        if answers[si] is not want and answers[si] != want:
            return {"what": f"skip={skip}: library answers {answers[si]}, exact answer is {want} "
                            f"(same action and packet-set containment: {exact}; non-contiguous wildcard involved: {nc})"}
    return None


def _expected_report(entries, lines):
    """independent attribution spec (group-free ACEs): dict top text -> [bottom texts]"""
    aces = [(ln, a) for (kind, a), ln in zip(entries, lines) if kind == "ace"]
    rep, shadowed = {}, set()
    for i, (lt, t) in enumerate(aces):
        for lb, b in aces[i + 1:]:
            if b["permit"] == t["permit"] and acegen.covered_exact(b, t):
                if lb not in shadowed:
                    rep.setdefault(lt, []).append(lb)
                shadowed.add(lb)
    return rep


def correspond(ctx):
    ca = core.impl_module()
    recs = shadow.run(ctx, groups=False)
    nontrivial = {(r["bottom_text"], r["top_text"], r["platform"]) for r in recs
                  if any(a is True for a in r["answers"].values())}
    # ACL level
    specs_all = K.gen_all(ctx, False, 120, 3000, 47)
    cases = []
    for spec in specs_all:
        rnd = random.Random(spec["seed"])
        plat, skip = spec["platform"], spec["skip"]
        acl, specs = K.build(ca, plat, spec["entries"], rnd, spec["numbered"], False)
        lines = [o.line for o in acl.items]
        impl = outcome(lambda: [[k, v] for k, v in acl.shading(skip=list(skip) or None).items()])
        meta = {"k": "shading", "platform": plat, "skip": skip, "lines": lines, "entries": spec["entries"],
                "numbered": spec["numbered"], "seed": spec["seed"]}
        cases.append(Case(f"run_shading {acegen.PL[plat]} false 16%Z {coq_bool('addrgroup' in skip)} "
                          f"{coq_bool('nc_wildcard' in skip)} {K.model_items(lines, specs)}", impl, meta))
        if impl and not isinstance(impl, core.Err):
            nontrivial.add((plat, tuple(lines)))
    ctx.coverage["distinct_nontrivial"] = len(nontrivial)
    ctx.coverage["acl_reports"] = len(cases)
    core.eval_cases(ctx, "K-acl-shading", K.IMPORTS, cases, chunk=max(4, len(cases) // 16 + 1))
    # the implementation against the independent specs, on everything generated (cheap, exhaustive over the sample)
    for r in recs:
        f = _pair_check([r["answers"][i] for i in range(4)], r["bottom"], r["top"])
        if f:
            raise core.ImplViolation(dict(kind="input", kernel="K-shadow", failure=f, input={
                "k": "shadow", "platform": r["platform"], "skip": [], "bottom": r["bottom_text"], "top": r["top_text"],
                "bottom_members": [None, None], "top_members": [None, None], "abstract": [r["bottom"], r["top"]]}))
    for c in cases:
        f = oracle(ctx, "K-acl-shading", c.meta)
        if f:
            raise core.ImplViolation(dict(kind="input", kernel="K-acl-shading", failure=f, input=c.meta))


def oracle(ctx, kernel, meta):
    ca = core.impl_module()
    if meta["k"] == "shadow":
        try:
            answers, _, _ = shadow.impl_answer(ca, meta)
        except Exception:  # noqa
            return None
        return _pair_check(answers, *meta["abstract"])
    if meta["k"] == "shading":
        entries = [tuple(e) for e in meta["entries"]]
        if any(k == "ace" and not (acegen.group_free(a) and acegen.nonempty_ports(a)) for k, a in entries):
            return None
        if meta["skip"]:
            return None
        rnd = random.Random(meta["seed"])
        try:
            acl, _ = K.build(ca, meta["platform"], entries, rnd, meta["numbered"], False)
            got = dict(acl.shading())
            flat_ = acl.shadow_of()
        except Exception:  # noqa
            return None
        lines = [o.line for o in acl.items]
        want = _expected_report(entries, lines)
        if got != want or list(got) != list(want):
            return {"what": f"shading() = {got}, the attribution spec gives {want}", "lines": lines}
        if flat_ != [s for v in want.values() for s in v]:
            return {"what": f"Acl.shadow_of() = {flat_} differs from the flattened report"}
    return None


def search(ctx):
    return None


def known_lines(ctx):
    return []


def matches_known(ctx, kernel, meta, failure):
    return None
